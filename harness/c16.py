"""C16 - timing, in-progress and exception-counting wrappers are transparent and balanced.
Implementation: prometheus_client.context_managers, the vendored prometheus_client.decorator and the
count_exceptions / track_inprogress / time factories of prometheus_client.metrics."""
import builtins
import inspect
import itertools
import json

from .sx import Sym, d_int, d_str, some

RULE = ('three case kinds.  body: program trees over {return obj, raise <any of 32 classes incl. BaseException '
        'subclasses, PEP 654 exception groups (ExceptionGroup / BaseExceptionGroup and user subclasses of both, holding '
        'nested members that mix classes matching and not matching the configuration; a group is one more class of the '
        'hierarchy - ExceptionGroup has the two bases BaseExceptionGroup and Exception - and counts only when the group '
        'object itself is of a configured type), exceptions carrying __cause__ / __context__ chains, a class whose '
        'instances answer __class__ with a base class, a class made by a metaclass>, probe gauge, seq, try/except, wrapper as decorator (on generated functions of every parameter shape, '
        'methods, lambdas) or as with-block, true recursion to depth k, re-used Timer object, ONE wrapper object (a kept context manager, a decorated function) '
        'used several times in the program - in a row with what escapes caught in between, nested in itself - with a different '
        'outcome each time; among the classes raised / configured are distinct classes with one and the same __module__.__qualname__ '
        '(made by a factory function with different bases) and a class called builtins.ValueError that is not it: '
        'exhaustive over ordered pairs of escaping classes x the configurations telling them apart} x the 3 wrappers on plain and '
        'labelled Counter/Gauge/Summary/Histogram; count_exceptions configured with everything `except <spec>` accepts - no '
        'argument, a class (incl. BaseException-only ones), the empty tuple, 1-tuples, flat tuples, tuples with repeated and with '
        'overlapping (class + its subclass) members, tuples nested to depth 3 with empty members (written flat in the reference '
        'clause, which takes one level only) - the oracle for counting being '
        'the `except <that spec>:` clause of Python itself around the very same body x scripted clocks (increasing, constant, decreasing, random, exhausted): '
        'exhaustive over single wrapper x outcome class x mode x clock shape, then random trees to depth 5.  '
        'bind: generated parameter lists (positional-only, defaults, *args, keyword-only with/without defaults, **kwargs, '
        'annotations naming local classes, methods, lambdas, reserved names; function names with case/underscores/non-ASCII/300 chars; '
        'docstrings None/empty/blank/multi-line with indented continuation, leading and trailing blank lines and spaces, tabs, CRLF, '
        'non-ASCII, percent and quote characters, 5000 chars, in the source or assigned; __name__, __qualname__, __doc__ compared '
        'exactly, __defaults__/__kwdefaults__/__annotations__ by object identity) x call shapes valid and invalid '
        '(missing, too many, unexpected keyword, duplicate, positional-only by keyword, keyword named func): exhaustive '
        'over small shapes x small calls, then random.  hier: all 32x32 issubclass pairs.  match: isinstance(exc, spec) of the model '
        'against a real except clause, all 32 classes x a pool of specs, then random specs.  '
        'non-trivial = at least one wrapper executed with a raising body or a non-increasing clock (body); '
        'a call with at least one keyword or default involved (bind); distinct by the whole case')
TRUSTED = ['CPython: the with-statement protocol, exec/compile of the generated def, function attribute copying '
           '(__name__, __doc__, __defaults__, __kwdefaults__, __wrapped__) - runtime, observed by the direct oracle only',
           'CPython argument binding is what bind_args says (re-validated per case against the undecorated function)',
           'clock readings are integers below 2^53, so float subtraction of readings is exact',
           'metric inc/dec/observe/set store what they are given (property C01)']
ASSUMPTIONS = ['the body does not itself modify the gauge an in-progress tracker uses (a set-Timer on the same gauge is '
               'excluded by hypothesis no_set_on)', 'synchronous callables only (coroutine functions are out of scope)',
               'argument values are not callables named _call_/_func_ (reserved-name shadowing is a listed finding)']
TIME_BUDGET = {'quick': 75, 'thorough': 900}

CLS_NAMES = ['BaseException', 'Exception', 'KeyboardInterrupt', 'SystemExit', 'GeneratorExit', 'ArithmeticError',
             'ZeroDivisionError', 'LookupError', 'KeyError', 'IndexError', 'ValueError', 'UnicodeError', 'TypeError',
             'OSError', 'FileNotFoundError', 'RuntimeError', 'RecursionError', 'StopIteration',
             'UserError', 'UserKeyError', 'UserBase', 'UserExit',
             'BaseExceptionGroup', 'ExceptionGroup', 'UserGroup', 'UserBaseGroup', 'UserProxy', 'UserMeta',
             'TwinKeyError', 'TwinValueError', 'TwinExit', 'ShadowValueError']
TWINS = ('TwinKeyError', 'TwinValueError', 'TwinExit')      # distinct classes, one __module__.__qualname__
GROUPS = ('BaseExceptionGroup', 'ExceptionGroup', 'UserGroup', 'UserBaseGroup')      # PEP 654, Python >= 3.11
EXC_GROUPS = ('ExceptionGroup', 'UserGroup')                                          # may hold Exception instances only


class UserError(Exception):
    pass


class UserKeyError(KeyError):
    pass


class UserBase(BaseException):
    pass


class UserExit(SystemExit):
    pass


class UserGroup(ExceptionGroup):
    pass


class UserBaseGroup(BaseExceptionGroup):
    pass


class UserProxy(KeyError):
    """instances override __class__ - with a base of their real class, so that isinstance (which falls back on
    __class__) and `except` (which looks at the type only) agree on every spec"""
    __class__ = property(lambda self: LookupError)


class _Made(type):
    def __call__(cls, *a, **k):
        o = super().__call__(*a, **k)
        o.made_by_metaclass = True
        return o


class UserMeta(ArithmeticError, metaclass=_Made):
    pass


def make_twin(base):
    """every call makes a distinct class; all of them are called c16...make_twin.<locals>.Twin (dynamically created
    exception classes: __module__, __qualname__ and __name__ do not identify a class, the class object does)"""
    class Twin(base):
        pass
    return Twin


TwinKeyError, TwinValueError, TwinExit = make_twin(KeyError), make_twin(ValueError), make_twin(SystemExit)
# a class that is called like a builtin without being it (and without deriving from it)
ShadowValueError = type('ValueError', (OSError,), {'__module__': 'builtins', '__qualname__': 'ValueError'})


CLS = {n: getattr(builtins, n) for n in CLS_NAMES if hasattr(builtins, n)}
CLS.update(UserError=UserError, UserKeyError=UserKeyError, UserBase=UserBase, UserExit=UserExit, UserGroup=UserGroup,
           UserBaseGroup=UserBaseGroup, UserProxy=UserProxy, UserMeta=UserMeta, TwinKeyError=TwinKeyError,
           TwinValueError=TwinValueError, TwinExit=TwinExit, ShadowValueError=ShadowValueError)
assert len({(c.__module__, c.__qualname__, c.__name__) for c in (TwinKeyError, TwinValueError, TwinExit)}) == 1
CLS_OF = {v: k for k, v in CLS.items()}


# ---- exception objects ----
# A raise leaf is ['raise', class name, object id] or ['raise', class name, object id, deco]; deco (implementation side
# only - the model's Raise has a class and an identity, nothing else may matter) is a dict with optional keys
#   'members': for a group class, the exceptions it holds: a list of items, an item being a class name or
#              [group class name, [items]]
#   'cause' / 'context': an item set as __cause__ / __context__ of the raised object
DEFAULT_MEMBERS = ['ValueError', ['ExceptionGroup', ['UserKeyError', 'FileNotFoundError']], 'TypeError']


def item_name(item):
    return item if isinstance(item, str) else item[0]


def build_item(item):
    if isinstance(item, str):
        return build_group(item, DEFAULT_MEMBERS) if item in GROUPS else CLS[item]()
    return build_group(item[0], item[1])


def build_group(cname, members):
    """an object whose type is exactly CLS[cname]: ExceptionGroup and its subclasses take Exception members only, and
    BaseExceptionGroup(...) of Exception members only would return an ExceptionGroup"""
    ms = list(members)
    if cname in EXC_GROUPS:
        ms = [m for m in ms if issubclass(CLS[item_name(m)], Exception)] or ['UserError']
    elif cname == 'BaseExceptionGroup' and all(issubclass(CLS[item_name(m)], Exception) for m in ms):
        ms = ms + ['UserBase']
    g = CLS[cname]('group', [build_item(m) for m in ms])
    if type(g) is not CLS[cname]:
        raise AssertionError('harness: built %r for %s' % (type(g), cname))
    return g


def make_exc(cname, deco=None):
    deco = deco or {}
    if cname in GROUPS:
        e = build_group(cname, deco.get('members', DEFAULT_MEMBERS))
    else:
        e = CLS[cname]()
    if deco.get('cause') is not None:
        e.__cause__ = build_item(deco['cause'])
    if deco.get('context') is not None:
        e.__context__ = build_item(deco['context'])
    return e


def describe(e, depth=0):
    """class name, members of a group, explicit chain - for messages"""
    n = CLS_OF.get(type(e), type(e).__name__)
    if hasattr(e, 'exceptions') and depth < 4:
        n += '[' + ', '.join(describe(m, depth + 1) for m in e.exceptions) + ']'
    if depth == 0:
        if e.__cause__ is not None:
            n += ' from ' + describe(e.__cause__, 1)
        elif e.__context__ is not None:
            n += ' during ' + describe(e.__context__, 1)
    return n


def held_by(e):
    """(exceptions held, at any depth, by the group e; exceptions on the __cause__/__context__ chains of e)"""
    members, chain, seen = [], [], {id(e)}
    todo = list(getattr(e, 'exceptions', ()))
    while todo:
        m = todo.pop()
        if id(m) not in seen:
            seen.add(id(m))
            members.append(m)
            todo.extend(getattr(m, 'exceptions', ()))
    todo = [e.__cause__, e.__context__]
    while todo and len(chain) < 50:
        m = todo.pop()
        if m is not None and id(m) not in seen:
            seen.add(id(m))
            chain.append(m)
            todo.extend([m.__cause__, m.__context__])
    return members, chain


# ---- exception specs: 'default' (no argument) | 'ClassName' | [spec, ...] (a tuple, possibly empty / nested) ----
def spec_obj(sp):
    """the Python object written after `except` / passed to count_exceptions"""
    if isinstance(sp, str):
        return CLS[sp]
    return tuple(spec_obj(x) for x in sp)


def spec_names(sp):
    """class names anywhere in the spec, in order, repetitions kept"""
    if isinstance(sp, str):
        return [sp]
    return [n for x in sp for n in spec_names(x)]


def spec_depth(sp):
    if isinstance(sp, str):
        return 0
    return 1 + max([spec_depth(x) for x in sp] or [0])


def spec_text(sp):
    if sp == 'default':
        return '<no argument>'
    if isinstance(sp, str):
        return sp
    return '(' + ', '.join(spec_text(x) for x in sp) + (',' if len(sp) == 1 else '') + ')'


def except_obj(sp):
    """What is written after `except` to catch `the configured types`: the class; for a tuple, the tuple - an except
    clause (unlike isinstance) takes tuples one level deep only, so a nested tuple is written out flat: the same
    classes in the same order, repetitions kept."""
    if isinstance(sp, str):
        return CLS[sp]
    return tuple(CLS[n] for n in spec_names(sp))


def reference_clause(sp):
    return Exception if sp == 'default' else except_obj(sp)


def except_catches(exc, sp):
    """does `except <spec>:` catch the exception object?  The except clause of Python itself decides."""
    o = except_obj(sp)
    try:
        try:
            raise exc
        except o:
            return True
    except BaseException:
        return False

# metric table: mid -> (kind, labelled)
COUNTERS = (0, 1)
TRACK_GAUGES = (2, 3)
OBSERVERS = (4, 5, 6, 7)
SET_GAUGES = (8, 9)
GAUGES = TRACK_GAUGES + SET_GAUGES
MIDS = list(range(10))
HELD = {0: ['obs', 4], 1: ['set', 8], 2: ['obs', 7]}     # Timer objects the application keeps and re-uses

_E = None


def _env():
    """Spy subclasses (ordinary user subclasses of the metric classes) built once per process."""
    global _E
    if _E is None:
        from prometheus_client import CollectorRegistry, Counter, Gauge, Histogram, Summary
        log = []

        class SpySummary(Summary):
            def observe(self, amount, *a, **k):
                log.append((id(self), amount))
                return super().observe(amount, *a, **k)

        class SpyHistogram(Histogram):
            def observe(self, amount, *a, **k):
                log.append((id(self), amount))
                return super().observe(amount, *a, **k)

        class SpyGauge(Gauge):
            def set(self, value, *a, **k):
                log.append((id(self), value))
                return super().set(value, *a, **k)

        _E = dict(log=log, Registry=CollectorRegistry, Counter=Counter, Gauge=SpyGauge, Summary=SpySummary,
                  Histogram=SpyHistogram)
    return _E


class Clock:
    """Scripted default_timer.  The model consumes one reading when a Timer context is entered and one when it is
    left; here the harness's own interpreter advances the script at exactly those two program points and the function
    returns the current reading however often (>= 0 times) the implementation asks, so a refactoring that reads the
    clock once more or once less often per call does not disturb the correspondence."""

    def __init__(self, readings):
        self.readings = readings
        self.phase = 0
        self.reads = 0

    def advance(self):
        self.phase += 1

    def at(self, p):
        return self.readings[p - 1] if 1 <= p <= len(self.readings) else 0

    def __call__(self):
        self.reads += 1
        return float(self.at(self.phase))


class patched_clock:
    def __init__(self, clock):
        self.clock = clock

    def __enter__(self):
        import time
        import timeit
        import prometheus_client.context_managers as cmod
        self.saved = [(m, n, getattr(m, n)) for m, n in ((cmod, 'default_timer'), (timeit, 'default_timer'),
                                                         (time, 'perf_counter')) if hasattr(m, n)]
        for m, n, _ in self.saved:
            setattr(m, n, self.clock)

    def __exit__(self, *a):
        for m, n, v in self.saved:
            setattr(m, n, v)
        return False


def num(x):
    """floats that are whole numbers are compared as ints; anything else by repr"""
    if x is None:
        return None
    if isinstance(x, (int, float)) and x == x and abs(x) < 2 ** 53 and float(x).is_integer():
        return int(x)
    return repr(x)


# ---------------------------------------------------------------------------------------------------------
# generated functions
# ---------------------------------------------------------------------------------------------------------
def shape_names(sh):
    return sh['posonly'] + sh['args']


def shape_source(sh, body='return _ret_(locals())'):
    """Source text of a function with the given parameter shape."""
    npos = len(shape_names(sh))
    nd = sh['ndefaults']
    ann = sh.get('ann')
    parts = []
    for i, n in enumerate(shape_names(sh)):
        t = n
        if ann and i % 2 == 0:
            t += ': _Local' if i % 4 == 0 else ": 'Nope'"
        if i >= npos - nd:
            t += (' = ' if ann and i % 2 == 0 else '=') + '_d%d' % (i - (npos - nd))
        parts.append(t)
        if sh['posonly'] and i == len(sh['posonly']) - 1:
            parts.append('/')
    if sh['varargs']:
        parts.append('*' + sh['varargs'] + (": 'Star'" if ann else ''))
    elif sh['kwonly']:
        parts.append('*')
    for j, k in enumerate(sh['kwonly']):
        t = k + (': _Local' if ann else '')
        if k in sh['kwdefaults']:
            t += (' = ' if ann else '=') + '_kd%d' % sh['kwdefaults'].index(k)
        parts.append(t)
    if sh['varkw']:
        parts.append('**' + sh['varkw'] + (': _Local' if ann else ''))
    sig = ', '.join(parts)
    name = sh['name']
    if sh.get('lambda'):
        return '%s = lambda %s: %s\n' % ('_lam_', sig, body.replace('return ', '', 1))
    ret = ' -> _Local' if ann else ''
    doc = '    %r\n' % sh['doc'] if sh.get('doc') is not None and not sh.get('doc_assign') else ''
    if sh.get('method'):
        return 'class K:\n    def %s(%s)%s:\n    %s        %s\n' % (name, sig, ret, doc, body)
    return 'def %s(%s)%s:\n%s    %s\n' % (name, sig, ret, doc, body)


def make_function(sh, glob):
    """exec the source; returns (plain function, owner class or None)."""
    class _Local:
        pass
    g = dict(glob)
    g['_Local'] = _Local
    g['__name__'] = 'c16_generated'
    for i in range(sh['ndefaults']):
        g['_d%d' % i] = g['_obj_'](100 + i)
    for i in range(len(sh['kwdefaults'])):
        g['_kd%d' % i] = g['_obj_'](200 + i)
    exec(compile(shape_source(sh), '<c16-shape>', 'exec'), g)
    if sh.get('lambda'):
        f, owner = g['_lam_'], None
    elif sh.get('method'):
        f, owner = g['K'].__dict__[sh['name']], g['K']
    else:
        f, owner = g[sh['name']], None
    if sh.get('doc') is not None and (sh.get('doc_assign') or sh.get('lambda')):
        f.__doc__ = sh['doc']
    return f, owner


def shape_params(sh):
    """The shape as the model's params record."""
    return (list(sh['posonly']), list(sh['args']), [100 + i for i in range(sh['ndefaults'])],
            some(sh['varargs']) if sh['varargs'] else None, list(sh['kwonly']),
            [(k, 200 + i) for i, k in enumerate(sh['kwdefaults'])],
            some(sh['varkw']) if sh['varkw'] else None)


SIMPLE = dict(name='f', posonly=[], args=[], ndefaults=0, varargs=None, kwonly=[], kwdefaults=[], varkw=None)

# shapes (with one valid call each) used for decorated functions inside body cases
BODY_SHAPES = [
    (SIMPLE, [], {}),
    (dict(SIMPLE, args=['a', 'b'], ndefaults=1), [1], {}),
    (dict(SIMPLE, posonly=['p'], args=['a'], kwonly=['k'], kwdefaults=['k'], ann=True, doc='doc of f'), [1], {'a': 2}),
    (dict(SIMPLE, args=['a'], varargs='va', kwonly=['k'], varkw='kw'), [1, 2, 3], {'k': 4, 'z': 5}),
    (dict(SIMPLE, posonly=['self'], args=['x'], ndefaults=1, method=True), [], {}),
    (dict(SIMPLE, args=['x'], varkw='kw'), [], {'x': 1, 'func': 2}),
    (dict(SIMPLE, args=['x'], ndefaults=1, **{'lambda': True}), [], {}),
]


# ---------------------------------------------------------------------------------------------------------
# body cases: implementation side
# ---------------------------------------------------------------------------------------------------------
class BodyRun:
    def __init__(self, case):
        E = _env()
        self.E = E
        self.case = case
        self.clock = Clock(case['clock'])
        reg = self.reg = E['Registry']()
        self.m = {
            0: E['Counter']('c0', 'h', registry=reg),
            1: E['Counter']('c1', 'h', ['l'], registry=reg).labels('x'),
            2: E['Gauge']('g2', 'h', registry=reg),
            3: E['Gauge']('g3', 'h', ['l'], registry=reg).labels('x'),
            4: E['Summary']('s4', 'h', registry=reg),
            5: E['Summary']('s5', 'h', ['l'], registry=reg).labels('x'),
            6: E['Histogram']('h6', 'h', registry=reg, buckets=(0, 1, 5, 50)),
            7: E['Histogram']('h7', 'h', ['l'], registry=reg, buckets=(0, 1, 5, 50)).labels('x'),
            8: E['Gauge']('g8', 'h', registry=reg),
            9: E['Gauge']('g9', 'h', ['l'], registry=reg).labels('x'),
        }
        self.mid_of = {id(v): k for k, v in self.m.items()}
        self.objs = {0: None}
        self.obj_id = {id(None): 0}
        self.exc = {}
        self.plog = []
        self.timer_windows = []     # (first reading index, last reading index + 1) per timer context, in exit order
        self.count_ctx = []         # (counter mid, configured class names, escaped class object or None)
        self.held = {}
        self.shared = {}            # wrapper objects / decorated functions the application keeps and uses again
        self.notes = []

    # -- values --
    def obj(self, v):
        if v not in self.objs:
            o = object()
            self.objs[v] = o
            self.obj_id[id(o)] = v
        return self.objs[v]

    def exc_obj(self, cname, o, deco=None):
        if o not in self.exc:
            self.exc[o] = make_exc(cname, deco)
        return self.exc[o]

    def gauge_value(self, g):
        names = {2: ('g2', None), 3: ('g3', {'l': 'x'}), 8: ('g8', None), 9: ('g9', {'l': 'x'})}
        n, l = names[g]
        return self.reg.get_sample_value(n, l)

    # -- wrappers --
    def wrapper(self, w):
        if w[0] == 'count':
            c = self.m[w[1]]
            if w[2] == 'default':
                return c.count_exceptions()
            return c.count_exceptions(spec_obj(w[2]))
        if w[0] == 'track':
            return self.m[w[1]].track_inprogress()
        return self.m[w[1][1]].time()

    def inner(self, w, b):
        """Run the wrapped body, noting for the direct oracle what escapes from it."""
        if w[0] == 'count':
            return self.counted_ref(w, lambda: self.run(b))
        if w[0] == 'time':
            try:
                return self.run(b)
            finally:
                self.clock.advance()        # the moment the Timer context is left
        return self.run(b)

    def counted_ref(self, w, thunk):
        """Run thunk - what a count_exceptions context encloses - inside a real `except <configured spec>:` clause
        (`except Exception:` when nothing was configured) and note whether that clause caught what escaped: the
        reference for `an exception of the configured types escapes`.  The exception goes on unchanged."""
        ref = Exception if w[2] == 'default' else except_obj(w[2])
        caught = False
        try:
            try:
                r = thunk()
            except ref:
                caught = True
                raise
        except BaseException as e:
            # measured, not judged: does something the escaping object merely HOLDS (group members, chained
            # exceptions) match the configuration while the object itself does not
            tag = None
            if not caught:
                members, chain = held_by(e)
                if any(isinstance(m, ref) for m in members):
                    tag = 'member-matches'
                elif any(isinstance(m, ref) for m in chain):
                    tag = 'chain-matches'
            self.count_ctx.append((w[1], w[2], type(e), caught, describe(e), tag))
            raise
        self.count_ctx.append((w[1], w[2], None, False, None, None))
        return r

    def around(self, w, thunk):
        """Run thunk (which enters and leaves exactly one wrapper context), noting the clock window of a timer."""
        if w[0] != 'time':
            return thunk()
        self.clock.advance()                # the moment the Timer context is entered
        p0 = self.clock.phase
        try:
            return thunk()
        finally:
            self.timer_windows.append((p0, self.clock.phase, True))

    def decorated(self, w, bodyfn, shape_idx):
        """A function of the given shape, whose body is bodyfn, decorated with w; returns a thunk calling it validly."""
        sh, pos, kw = BODY_SHAPES[shape_idx % len(BODY_SHAPES)]
        glob = dict(_ret_=lambda env: bodyfn(), _obj_=self.obj)
        f, owner = make_function(sh, glob)
        wf = self.wrapper(w)(f)
        pos = [self.obj(v) for v in pos]
        kw = {k: self.obj(v) for k, v in kw.items()}
        if owner is not None:
            setattr(owner, 'wrapped_m', wf)
            inst = owner()
            return lambda: inst.wrapped_m(*pos, **kw)
        return lambda: wf(*pos, **kw)

    def shared_cm(self, key, w):
        """ONE ExceptionCounter / InprogressTracker object per key, entered by every `with` of that key"""
        if key not in self.shared:
            self.shared[key] = self.wrapper(w)
        return self.shared[key]

    def shared_fn(self, key, w, shape_idx, bodyfn):
        """ONE decorated function per key, called by every node of that key: what it does this time (bodyfn) is
        handed over in a slot the function empties as soon as its body starts"""
        if key not in self.shared:
            slot = []
            self.shared[key] = (self.decorated(w, lambda: slot.pop()(), shape_idx), slot)
        call, slot = self.shared[key]

        def thunk():
            slot.append(bodyfn)
            return call()
        return thunk

    def run(self, b):
        t = b[0]
        if t == 'ret':
            return self.obj(b[1])
        if t == 'raise':
            raise self.exc_obj(b[1], b[2], b[3] if len(b) > 3 else None)
        if t == 'probe':
            self.plog.append([b[1], num(self.gauge_value(b[1]))])
            return None
        if t == 'seq':
            self.run(b[1])
            return self.run(b[2])
        if t == 'try':
            try:
                return self.run(b[1])
            except tuple(CLS[n] for n in b[2]):
                return self.run(b[3])
        if t == 'call':
            w, inner, mode = b[1], b[2], b[3]
            key = share_key(b)
            if mode == 'with':
                def thunk():
                    with (self.wrapper(w) if key is None else self.shared_cm(key, w)):
                        return self.inner(w, inner)
                return self.around(w, thunk)
            if key is None:
                call = self.decorated(w, lambda: self.inner(w, inner), b[4] if len(b) > 4 else 0)
            else:
                call = self.shared_fn(key, w, b[4], lambda: self.inner(w, inner))
            return self.around(w, call)
        if t == 'rec':
            k, w, inner = b[1], b[2], b[3]
            dec = self.wrapper(w)
            me = self

            def f(n):
                if n == 0:
                    return me.inner(w, inner)
                # the recursive call is itself a wrapped call whose body is "the rest"
                if w[0] == 'count':
                    return me.counted_ref(w, lambda: wf(n - 1))
                if w[0] == 'time':
                    try:
                        return me.around(w, lambda: wf(n - 1))
                    finally:
                        me.clock.advance()
                return wf(n - 1)
            wf = dec(f)
            return self.around(w, lambda: wf(k))
        if t == 'held':
            tid, tg, inner = b[1], b[2], b[3]
            if tid not in self.held:
                self.held[tid] = self.m[tg[1]].time()
            T = self.held[tid]
            self.clock.advance()
            p0 = self.clock.phase
            try:
                with T:
                    try:
                        return self.run(inner)
                    finally:
                        self.clock.advance()
            finally:
                reentered = any(n[0] == 'held' and n[1] == tid for n in walk(inner))
                self.timer_windows.append((p0, self.clock.phase, not reentered))
        raise ValueError('bad node %r' % (b,))

    def outcome(self, fn):
        try:
            r = fn()
        except BaseException as e:
            cname = CLS_OF.get(type(e), 'other:' + type(e).__name__)
            ids = [o for o, x in self.exc.items() if x is e]
            return ['exn', cname, ids[0] if ids else -1]
        return ['ret', self.obj_id.get(id(r), -1)]

    def go(self):
        E = self.E
        del E['log'][:]
        with patched_clock(self.clock):
            out = self.outcome(lambda: self.run(self.case['body']))
        olog = [[self.mid_of.get(i, -1), num(a)] for i, a in E['log']]
        raw = list(E['log'])
        del E['log'][:]
        samples = {}
        for fam in self.reg.collect():
            for s in fam.samples:
                if s.name.endswith('_created') or s.name.endswith('_bucket'):
                    continue
                samples[s.name] = s.value
        cnt = [num(samples.get('c%d_total' % i, 0)) if i in COUNTERS else 0 for i in MIDS]
        gau = [num(samples.get('g%d' % i, 0)) if i in GAUGES else 0 for i in MIDS]
        pub = {}
        for i in OBSERVERS:
            n = ('s%d' if i < 6 else 'h%d') % i
            pub[i] = (num(samples.get(n + '_count')), num(samples.get(n + '_sum')))
        cmp_ = dict(outcome=out, cnt=cnt, gau=gau, olog=olog, plog=self.plog)
        aux = dict(pub={str(k): v for k, v in pub.items()},
                   windows=[[self.clock.at(a), self.clock.at(b), (b - a) if own else 0] for a, b, own in self.timer_windows],
                   raw_nonneg=[(a == a and a >= 0) for _i, a in raw],
                   counted=[[c, cfg, (CLS_OF.get(e, e.__name__) if e else None), bool(caught), desc, tag]
                            for c, cfg, e, caught, desc, tag in self.count_ctx])
        return dict(cmp=cmp_, aux=aux)


def share_key(b):
    """A call node ['call', w, body, mode, shape, h] with a sixth element h goes through the wrapper object (mode
    'with': the context manager; mode 'dec': the decorated function) that every other node with the same
    (h, w, mode, shape) goes through; without it (None) a new wrapper object is made for the node.  A kept Timer used as
    with-block is the 'held' node (a Timer has state; ExceptionCounter / InprogressTracker / decorated functions
    have none the model knows of - the model is given a plain call)."""
    if len(b) > 5 and b[5] is not None and not (b[1][0] == 'time' and b[3] == 'with'):
        return json.dumps([b[5], b[1], b[3], b[4] if b[3] == 'dec' else 0])
    return None


# -- reference semantics of the program with the wrappers removed (harness side, independent of the model) --
def pure(b):
    t = b[0]
    if t == 'ret':
        return ['ret', b[1]]
    if t == 'raise':
        return ['exn', b[1], b[2]]
    if t == 'probe':
        return ['ret', 0]
    if t == 'seq':
        r = pure(b[1])
        return pure(b[2]) if r[0] == 'ret' else r
    if t == 'try':
        r = pure(b[1])
        if r[0] == 'exn' and issubclass(CLS[r[1]], tuple(CLS[n] for n in b[2])):
            return pure(b[3])
        return r
    if t == 'call':
        return pure(b[2])
    if t in ('rec', 'held'):
        return pure(b[3])
    raise ValueError(b)


def set_gauges(b, acc=None):
    """gauges that some set-Timer in the tree writes"""
    acc = set() if acc is None else acc
    t = b[0]
    if t in ('seq',):
        set_gauges(b[1], acc), set_gauges(b[2], acc)
    elif t == 'try':
        set_gauges(b[1], acc), set_gauges(b[3], acc)
    elif t == 'call':
        if b[1][0] == 'time' and b[1][1][0] == 'set':
            acc.add(b[1][1][1])
        set_gauges(b[2], acc)
    elif t == 'rec':
        if b[2][0] == 'time' and b[2][1][0] == 'set':
            acc.add(b[2][1][1])
        set_gauges(b[3], acc)
    elif t == 'held':
        if b[2][0] == 'set':
            acc.add(b[2][1])
        set_gauges(b[3], acc)
    return acc


def bump(depth, g, n):
    d = dict(depth)
    d[g] = d.get(g, 0) + n
    return d


def expected_probes(b, depth, out):
    """(executed probes with the static number of enclosing trackers, outcome kind) - harness-side reference"""
    t = b[0]
    if t == 'probe':
        out.append([b[1], depth.get(b[1], 0)])
    elif t == 'seq':
        expected_probes(b[1], depth, out)
        if pure(b[1])[0] == 'ret':
            expected_probes(b[2], depth, out)
    elif t == 'try':
        expected_probes(b[1], depth, out)
        r = pure(b[1])
        if r[0] == 'exn' and issubclass(CLS[r[1]], tuple(CLS[n] for n in b[2])):
            expected_probes(b[3], depth, out)
    elif t == 'call':
        w = b[1]
        d2 = bump(depth, w[1], 1) if w[0] == 'track' else depth
        expected_probes(b[2], d2, out)
    elif t == 'rec':
        w = b[2]
        d2 = bump(depth, w[1], b[1] + 1) if w[0] == 'track' else depth
        expected_probes(b[3], d2, out)
    elif t == 'held':
        expected_probes(b[3], depth, out)
    return out


def wrappers_in(b, acc=None):
    acc = [] if acc is None else acc
    t = b[0]
    if t == 'seq':
        wrappers_in(b[1], acc), wrappers_in(b[2], acc)
    elif t == 'try':
        wrappers_in(b[1], acc), wrappers_in(b[3], acc)
    elif t == 'call':
        acc.append(b[1][0]), wrappers_in(b[2], acc)
    elif t == 'rec':
        acc.append(b[2][0]), wrappers_in(b[3], acc)
    elif t == 'held':
        acc.append('held'), wrappers_in(b[3], acc)
    return acc


def direct_body(case, obs):
    c, aux = obs['cmp'], obs['aux']
    body = case['body']
    want = pure(body)
    if c['outcome'] != want:
        return 'callers observe %r but the unwrapped program gives %r (same object expected)' % (c['outcome'], want)
    sets = set_gauges(body)
    for g in TRACK_GAUGES + SET_GAUGES:
        if g not in sets and c['gau'][g] != 0:
            return 'in-progress gauge %d is %r after the call, was 0 before' % (g, c['gau'][g])
    exp = expected_probes(body, {}, [])
    if len(exp) == len(c['plog']):
        for (g, d), (g2, v) in zip(exp, c['plog']):
            if g not in sets and (g != g2 or v != d):
                return 'inside the body gauge %d read %r with %d enclosing track_inprogress' % (g, v, d)
    targets = {n[1][1][1] for n in walk(body) if n[0] == 'call' and n[1][0] == 'time'}
    targets |= {n[2][1][1] for n in walk(body) if n[0] == 'rec' and n[2][0] == 'time'}
    targets |= {n[2][1] for n in walk(body) if n[0] == 'held'}
    for mid, d in c['olog']:
        if mid not in targets:
            return 'metric %d received observe()/set(%r) although no Timer on it was entered' % (mid, d)
    n_ctx = len(aux['windows'])
    if len(c['olog']) != n_ctx:
        return '%d timer context(s) were entered but %d observation(s) were made' % (n_ctx, len(c['olog']))
    for k, ((mid, d), ok, (first, last, used)) in enumerate(zip(c['olog'], aux['raw_nonneg'], aux['windows'])):
        if not ok:
            return 'observation %d on metric %d is %r: negative duration' % (k, mid, d)
        if used >= 1 and d != max(last - first, 0):
            return ('observation %d on metric %d is %r; the clock read %r entering and %r leaving that call'
                    % (k, mid, d, first, last))
    for i in OBSERVERS:
        n = sum(1 for m, _ in c['olog'] if m == i)
        tot = sum(d for m, d in c['olog'] if m == i and isinstance(d, int))
        pc, ps = aux['pub'][str(i)]
        if pc != n or (ps is not None and ps != tot and all(isinstance(d, int) for m, d in c['olog'] if m == i)):
            return 'metric %d exposes count=%r sum=%r after %d observation(s) totalling %r' % (i, pc, ps, n, tot)
    for cm in COUNTERS:
        mine = [x for x in aux['counted'] if x[0] == cm]
        exp_n = sum(1 for x in mine if x[3])
        if c['cnt'][cm] != exp_n:
            return ('exception counter %d is %r; out of its count_exceptions contexts %d exception(s) escaped that '
                    '`except <configured types>` catches: %s'
                    % (cm, c['cnt'][cm], exp_n,
                       '; '.join('configured %s, escaped %s -> %s' % (spec_text(cfg), desc or e, 'counts' if hit else 'does not count')
                                 for _c, cfg, e, hit, desc, _t in mine[:8])))
    return None


# ---------------------------------------------------------------------------------------------------------
# bind cases: implementation side
# ---------------------------------------------------------------------------------------------------------
KIND = {inspect.Parameter.POSITIONAL_ONLY: 'po', inspect.Parameter.POSITIONAL_OR_KEYWORD: 'pk',
        inspect.Parameter.VAR_POSITIONAL: 'va', inspect.Parameter.KEYWORD_ONLY: 'ko',
        inspect.Parameter.VAR_KEYWORD: 'vk'}
WKINDS = ['count', 'track', 'time_s', 'time_g', 'time_h']


def sig_struct(f, follow):
    s = inspect.signature(f, follow_wrapped=follow)
    return [[p.name, KIND[p.kind], p.default is not inspect.Parameter.empty] for p in s.parameters.values()]


def run_bind(case):
    E = _env()
    sh = case['shape']
    reg = E['Registry']()
    lab = case.get('labelled')
    wk = case['wkind']
    if wk == 'count':
        m = E['Counter']('c', 'h', ['l'] if lab else [], registry=reg)
        dec = (m.labels('x') if lab else m).count_exceptions()
    elif wk == 'track':
        m = E['Gauge']('g', 'h', ['l'] if lab else [], registry=reg)
        dec = (m.labels('x') if lab else m).track_inprogress()
    else:
        cls = {'time_s': E['Summary'], 'time_g': E['Gauge'], 'time_h': E['Histogram']}[wk]
        m = cls('t', 'h', ['l'] if lab else [], registry=reg)
        dec = (m.labels('x') if lab else m).time()
    objs = {}
    ids = {}

    def obj(v):
        if v not in objs:
            objs[v] = object()
            ids[id(objs[v])] = v
        return objs[v]
    seen = []

    def ret(env):
        seen.append(env)
        return object()
    f, owner = make_function(sh, dict(_ret_=ret, _obj_=obj))
    out = dict(decorate='ok')
    try:
        wf = dec(f)
    except Exception as e:
        out['decorate'] = type(e).__name__
        del E['log'][:]
        return dict(cmp=out, aux={})
    aux = dict(name=(f.__name__, wf.__name__), doc=(f.__doc__, wf.__doc__),
               sig_equal=inspect.signature(wf) == inspect.signature(f),
               sig_text=(str(inspect.signature(f)), str(inspect.signature(wf))),
               ann_equal=getattr(wf, '__annotations__', None) == f.__annotations__,
               ann_same=same_values(getattr(wf, '__annotations__', None) or {}, f.__annotations__ or {}),
               qualname=(f.__qualname__, getattr(wf, '__qualname__', None)),
               sig_own=(str(own_signature(f)), str(own_signature(wf))),
               defaults_same=same_items(f.__defaults__ or (), getattr(wf, '__defaults__', None) or ()),
               kwdefaults_same=same_values(f.__kwdefaults__ or {}, getattr(wf, '__kwdefaults__', None) or {}),
               iscoroutine=inspect.iscoroutinefunction(wf))
    out['wsig'] = sig_struct(wf, False)
    out['wname'] = wf.__name__
    pos = [obj(v) for v in case['pos']]
    kw = {k: obj(v) for k, v in case['kw']}
    if owner is not None:
        owner.orig_m = f
        owner.wrapped_m = wf
        inst = owner()
        objs[99] = inst
        ids[id(inst)] = 99
        fo, fw = inst.orig_m, inst.wrapped_m
    else:
        fo, fw = f, wf

    def call(fn):
        del seen[:]
        try:
            fn(*pos, **kw)
        except TypeError:
            return ['err', 'TypeError']
        except BaseException as e:
            return ['err', type(e).__name__]
        if len(seen) != 1:
            return ['err', 'body ran %d times' % len(seen)]
        env = seen[0]
        g = lambda x: ids.get(id(x), -1)
        return ['ok', [[g(env[n]) for n in shape_names(sh)],
                       [g(x) for x in env[sh['varargs']]] if sh['varargs'] else [],
                       [g(env[k]) for k in sh['kwonly']],
                       sorted([k, g(v)] for k, v in env[sh['varkw']].items()) if sh['varkw'] else []]]
    with patched_clock(Clock([1, 2, 3, 4])):
        out['orig'] = call(fo)
        out['wrapped'] = call(fw)
    del E['log'][:]
    return dict(cmp=out, aux=aux)


def same_items(a, b):
    """two sequences of the very same objects"""
    return len(a) == len(b) and all(x is y for x, y in zip(a, b))


def same_values(a, b):
    """two dicts with the same keys bound to the very same objects"""
    return set(a) == set(b) and all(a[k] is b[k] for k in a)


def own_signature(f):
    """Defaults and annotations of the callable's OWN parameters (no __wrapped__), positional-only markers dropped:
    FunctionMaker cannot spell `/` (listed finding), everything else of the signature text must survive."""
    s = inspect.signature(f, follow_wrapped=False)
    ps = [p.replace(kind=inspect.Parameter.POSITIONAL_OR_KEYWORD) if p.kind is inspect.Parameter.POSITIONAL_ONLY else p
          for p in s.parameters.values()]
    return s.replace(parameters=ps)


def clip(x, n=160):
    r = repr(x)
    return r if len(r) <= n else '%s...<%d chars>...%s' % (r[:n // 2], len(r), r[-n // 2:])


def collides(case):
    """a keyword of the call names a positional-only parameter"""
    po = set(case['shape']['posonly'])
    return any(k in po for k, _ in case['kw'])


def reserved(case):
    sh = case['shape']
    names = [sh['name']] + sh['posonly'] + sh['args'] + sh['kwonly'] + [x for x in (sh['varargs'], sh['varkw']) if x]
    return any(n in ('_call_', '_func_') for n in names)


_KNOWN_CLASS_REPORTS = {}
KNOWN_CLASS_CAP = 4      # the engine keeps 50 violations per run: the two listed finding classes must not fill them


def direct_bind(case, obs):
    d = direct_bind_(case, obs)
    if d:
        for tag in ('posonly-keyword:', 'reserved-name:'):
            if d.startswith(tag):
                _KNOWN_CLASS_REPORTS[tag] = _KNOWN_CLASS_REPORTS.get(tag, 0) + 1
                if _KNOWN_CLASS_REPORTS[tag] > KNOWN_CLASS_CAP:
                    return None
    return d


def direct_bind_(case, obs):
    c, aux = obs['cmp'], obs['aux']
    sh = case['shape']
    if c['decorate'] != 'ok':
        return 'reserved-name: decorating %s raised %s' % (shape_source(sh).split('\n')[0], c['decorate'])
    if aux['iscoroutine']:
        return None
    want_name = sh['name'] if not sh.get('lambda') else '<lambda>'
    if aux['name'][0] != want_name:
        return 'harness: generated function is called %r' % (aux['name'][0],)
    if type(aux['name'][1]) is not str or aux['name'][1] != aux['name'][0]:
        return '__name__ of the wrapped callable is %s, of the original %s' % (clip(aux['name'][1]), clip(aux['name'][0]))
    if aux['qualname'][1] != aux['qualname'][0]:
        return '__qualname__ of the wrapped callable is %s, of the original %s' % (clip(aux['qualname'][1]), clip(aux['qualname'][0]))
    if type(aux['doc'][1]) is not type(aux['doc'][0]) or aux['doc'][1] != aux['doc'][0]:
        return '__doc__ of the wrapped callable is %s, of the original %s' % (clip(aux['doc'][1]), clip(aux['doc'][0]))
    if not aux['sig_equal']:
        return 'inspect.signature of the wrapped callable is %s, of the original %s' % (aux['sig_text'][1], aux['sig_text'][0])
    if not aux['ann_equal'] or not aux['ann_same']:
        return '__annotations__ of the wrapped callable differ from the original'
    if not aux['defaults_same']:
        return '__defaults__ of the wrapped callable are not the original default objects'
    if not aux['kwdefaults_same']:
        return '__kwdefaults__ of the wrapped callable are not the original default objects'
    if aux['sig_own'][1] != aux['sig_own'][0]:
        return ('the wrapped callable itself (not following __wrapped__) shows signature %s, the original %s'
                % (aux['sig_own'][1], aux['sig_own'][0]))
    if c['orig'] != c['wrapped']:
        tag = 'binding differs'
        if reserved(case):
            tag = 'reserved-name: binding differs'
        elif collides(case):
            tag = 'posonly-keyword: binding differs'
        return ('%s: %s called with pos=%r kw=%r: original %r, wrapped %r'
                % (tag, shape_source(sh).split('\n')[0 if not sh.get('method') else 1].strip(), case['pos'], case['kw'],
                   c['orig'], c['wrapped']))
    return None


def model_bind(m, case):
    sh = case['shape']
    p = shape_params(sh)
    name = '<lambda>' if sh.get('lambda') else sh['name']
    sig = m.call('c16_sig', name, p)
    out = {}
    if sig[3] != 'T':
        return dict(decorate='NameError')
    out['decorate'] = 'ok'
    wp = sig[2]
    wargs = [d_str(x) for x in wp[1]]
    nd = len(wp[2])
    ws = [[n, 'pk', i >= len(wargs) - nd] for i, n in enumerate(wargs)]
    if wp[3] != 'N':
        ws.append([d_str(wp[3][1]), 'va', False])
    kwd = {d_str(k) for k, _ in wp[5]}
    ws += [[d_str(k), 'ko', d_str(k) in kwd] for k in wp[4]]
    if wp[6] != 'N':
        ws.append([d_str(wp[6][1]), 'vk', False])
    out['wsig'] = ws
    out['wname'] = d_str(sig[4])
    # the signature text the model says FunctionMaker writes must itself compile to those parameters
    g = {}
    exec('def _m_(%s): pass' % d_str(sig[0]), g)
    txt = [[q.name, KIND[q.kind]] for q in inspect.signature(g['_m_']).parameters.values()]
    if txt != [x[:2] for x in ws]:
        out['wsig_text'] = txt
    pos = list(case['pos'])
    if sh.get('method'):
        pos = [99] + pos
    kw = [(k, v) for k, v in case['kw']]

    def dec_env(r):
        if r[0] != 'ok':
            return ['err', r[1]]
        e = r[1]
        return ['ok', [[d_int(x) for x in e[0]], [d_int(x) for x in e[1]], [d_int(x) for x in e[2]],
                       sorted([d_str(k), d_int(v)] for k, v in e[3])]]
    out['orig'] = dec_env(m.call('c16_bind', p, pos, kw))
    out['wrapped'] = dec_env(m.call('c16_wrapped', True, p, pos, kw))
    return out


# ---------------------------------------------------------------------------------------------------------
# model side for body / hier
# ---------------------------------------------------------------------------------------------------------
def sx_target(tg):
    return (Sym(tg[0]), tg[1])


def sx_spec(sp):
    if isinstance(sp, str):
        return (Sym('cls'), Sym(sp))
    return (Sym('tup'),) + tuple(sx_spec(x) for x in sp)


def sx_wrapper(w):
    if w[0] == 'count':
        return (Sym('count'), w[1], (Sym('default'),) if w[2] == 'default' else (Sym('given'), sx_spec(w[2])))
    if w[0] == 'track':
        return (Sym('track'), w[1])
    return (Sym('time'), sx_target(w[1]))


def sx_body(b):
    t = b[0]
    if t == 'ret':
        return (Sym('ret'), b[1])
    if t == 'raise':
        return (Sym('raise'), Sym(b[1]), b[2])
    if t == 'probe':
        return (Sym('probe'), b[1])
    if t == 'seq':
        return (Sym('seq'), sx_body(b[1]), sx_body(b[2]))
    if t == 'try':
        return (Sym('try'), sx_body(b[1]), [Sym(n) for n in b[2]], sx_body(b[3]))
    if t == 'call':
        return (Sym('call'), sx_wrapper(b[1]), sx_body(b[2]))
    if t == 'rec':
        return (Sym('rec'), b[1], sx_wrapper(b[2]), sx_body(b[3]))
    if t == 'held':
        return (Sym('held'), b[1], sx_target(b[2]), sx_body(b[3]))
    raise ValueError(b)


def d_outcome(o):
    if o[0] == 'ret':
        return ['ret', d_int(o[1])]
    return ['exn', o[1], d_int(o[2])]


def model_body(m, case):
    r = m.call('c16_eval', sx_body(case['body']), list(case['clock']), MIDS)
    return dict(outcome=d_outcome(r[0]), cnt=[d_int(x) for x in r[1]], gau=[d_int(x) for x in r[2]],
                olog=[[d_int(a), d_int(b)] for a, b in r[3]], plog=[[d_int(a), d_int(b)] for a, b in r[4]])


# ---------------------------------------------------------------------------------------------------------
# engine interface
# ---------------------------------------------------------------------------------------------------------
def impl(case):
    k = case['kind']
    try:
        if k == 'body':
            return BodyRun(case).go()
        if k == 'bind':
            return run_bind(case)
    except Exception as e:      # the harness itself must survive whatever the implementation does
        import traceback
        del _env()['log'][:]
        return dict(cmp=dict(crash='%s: %s' % (type(e).__name__, e)), aux=dict(tb=traceback.format_exc()[-600:]))
    if k == 'hier':
        return dict(cmp=issubclass(CLS[case['c']], CLS[case['d']]), aux={})
    if k == 'match':
        exc = make_exc(case['k'], case.get('deco'))
        return dict(cmp=except_catches(exc, case['spec']), aux=dict(isinstance=isinstance(exc, spec_obj(case['spec']))))
    raise ValueError(k)


def model(m, case):
    k = case['kind']
    if k == 'body':
        return model_body(m, case)
    if k == 'bind':
        return model_bind(m, case)
    if k == 'hier':
        return m.call('c16_issub', Sym(case['c']), Sym(case['d'])) == 'T'
    if k == 'match':
        return m.call('c16_match', Sym(case['k']), sx_spec(case['spec'])) == 'T'
    raise ValueError(k)


def same(impl_obs, model_obs):
    return impl_obs['cmp'] == model_obs


def direct(case, obs):
    k = case['kind']
    if isinstance(obs.get('cmp'), dict) and 'crash' in obs['cmp']:
        return 'running the case failed outside the wrapped call: %s' % obs['cmp']['crash']
    if k == 'body':
        return direct_body(case, obs)
    if k == 'bind':
        return direct_bind(case, obs)
    if k == 'match' and obs['aux']['isinstance'] != obs['cmp']:
        return ('harness: isinstance(%s(), %s) is %r but `except` says %r (the classes of the pool must not customise '
                'instance checks)' % (case['k'], spec_text(case['spec']), obs['aux']['isinstance'], obs['cmp']))
    return None


def nontrivial(case, obs):
    k = case['kind']
    if isinstance(obs.get('cmp'), dict) and 'crash' in obs['cmp']:
        return False
    if k == 'body':
        ws = wrappers_in(case['body'])
        if not ws:
            return False
        clk = case['clock']
        return obs['cmp']['outcome'][0] == 'exn' or any(b <= a for a, b in zip(clk, clk[1:]))
    if k == 'bind':
        return bool(case['kw']) or case['shape']['ndefaults'] > 0 or bool(case['shape']['kwdefaults'])
    return True


def classify(case, obs):
    k = case['kind']
    out = ['kind:' + k]
    if isinstance(obs.get('cmp'), dict) and 'crash' in obs['cmp']:
        return out + ['crash']
    if k == 'body':
        c = obs['cmp']
        out.append('outcome:' + (c['outcome'][0] if c['outcome'][0] == 'ret' else 'exn:' + str(c['outcome'][1])))
        ws = wrappers_in(case['body'])
        out.append('wrappers:%d' % min(len(ws), 6))
        for w in set(ws):
            out.append('wrapper:' + w)
        clk = case['clock']
        if len(clk) >= 2:
            if all(b > a for a, b in zip(clk, clk[1:])):
                out.append('clock:increasing')
            elif all(b == a for a, b in zip(clk, clk[1:])):
                out.append('clock:constant')
            elif all(b < a for a, b in zip(clk, clk[1:])):
                out.append('clock:decreasing')
            else:
                out.append('clock:mixed')
        if any(d == 0 for _, d in c['olog']):
            out.append('observation:zero')
        if any(isinstance(d, int) and d > 0 for _, d in c['olog']):
            out.append('observation:positive')
        if any(x[3] for x in obs['aux']['counted']):
            out.append('count:matching-escape')
        if any(x[2] and not x[3] for x in obs['aux']['counted']):
            out.append('count:non-matching-escape')
        if any(x[2] is None for x in obs['aux']['counted']):
            out.append('count:normal-return')
        for n in walk(case['body']):
            w = n[1] if n[0] == 'call' else n[2] if n[0] == 'rec' else None
            if w and w[0] == 'count':
                out.append('config:' + spec_kind(w[2]))
        for x in obs['aux']['counted']:
            if x[2] in GROUPS:
                out.append('escape:group:' + ('counted' if x[3] else 'not-counted'))
            if x[2] in ('UserProxy', 'UserMeta'):
                out.append('escape:%s:%s' % (x[2], 'counted' if x[3] else 'not-counted'))
            if x[5]:
                out.append('escape:not-counted-but-%s-config' % x[5])
        for n in walk(case['body']):
            if n[0] == 'raise' and len(n) > 3:
                out.extend('raise:with-' + k for k in sorted(n[3]))
        for x in obs['aux']['counted']:
            if x[2] and x[1] != 'default':
                names = spec_names(x[1])
                if not names:
                    out.append('escape-vs-config:nothing-configured')
                elif x[2] in names:
                    out.append('escape-vs-config:same-class')
                elif x[3]:
                    out.append('escape-vs-config:subclass')
                elif x[2] in CLS and any(issubclass(CLS[n], CLS[x[2]]) for n in names):
                    out.append('escape-vs-config:superclass')
                else:
                    out.append('escape-vs-config:unrelated')
                if x[2] in CLS and not issubclass(CLS[x[2]], Exception):
                    out.append('escape:base-exception-only:' + ('counted' if x[3] else 'not-counted'))
        uses = {}
        for n in walk(case['body']):
            if n[0] == 'call' and share_key(n) is not None:
                uses.setdefault(share_key(n), []).append(n)
        for key, ns in uses.items():
            kind = ns[0][1][0]
            out.append('shared-%s-object:uses:%d' % (kind, min(len(ns), 4)))
            esc = {n[2][1] for n in ns if n[2][0] == 'raise'}
            if len(esc) > 1:
                out.append('shared-%s-object:different-classes-escape' % kind)
            if len(esc & set(TWINS)) > 1 or {'ValueError', 'ShadowValueError'} <= esc:
                out.append('shared-%s-object:same-named-classes-escape' % kind)
            if kind == 'count' and ns[0][1][2] != 'default' and len(
                    {issubclass(CLS[c], except_obj(ns[0][1][2])) for c in esc}) > 1:
                out.append('shared-count-object:verdicts-differ')
        if any(n[0] in ('rec',) for n in walk(case['body'])):
            out.append('recursion')
        if any(n[0] == 'call' and n[3] == 'with' for n in walk(case['body'])):
            out.append('mode:with')
        if any(n[0] == 'call' and n[3] == 'dec' for n in walk(case['body'])):
            out.append('mode:decorator')
    elif k == 'bind':
        c = obs['cmp']
        out.append('decorate:' + c['decorate'])
        if 'orig' in c:
            out.append('orig:' + (c['orig'][0] if c['orig'][0] == 'ok' else c['orig'][1]))
            out.append('wrapped:' + (c['wrapped'][0] if c['wrapped'][0] == 'ok' else c['wrapped'][1]))
        sh = case['shape']
        for key in ('posonly', 'varargs', 'kwonly', 'varkw', 'ann', 'method', 'lambda'):
            if sh.get(key):
                out.append('shape:' + key)
        d = sh.get('doc')
        if d is None:
            out.append('doc:none')
        else:
            out.append('doc:' + ('empty' if d == '' else 'not-clean' if inspect.cleandoc(d) != d else 'clean'))
            if '\n' in d:
                out.append('doc:multi-line')
            if any(ord(ch) > 127 for ch in d):
                out.append('doc:non-ascii')
        if any(ord(ch) > 127 for ch in sh['name']):
            out.append('name:non-ascii')
        if sh['ndefaults']:
            out.append('shape:defaults')
        if sh['kwdefaults']:
            out.append('shape:kwdefaults')
        if collides(case):
            out.append('call:posonly-by-keyword')
        out.append('wkind:' + case['wkind'])
    return out


def spec_kind(sp):
    if sp == 'default':
        return 'default'
    if isinstance(sp, str):
        return 'class' if issubclass(CLS[sp], Exception) else 'class-base-only'
    names = spec_names(sp)
    if not sp:
        return 'empty-tuple'
    if not names:
        return 'nested-empty'
    if spec_depth(sp) > 1:
        return 'nested'
    if len(set(names)) < len(names):
        return 'tuple-duplicates'
    if any(a != b and issubclass(CLS[a], CLS[b]) for a in names for b in names):
        return 'tuple-overlapping'
    return 'tuple-%d' % min(len(names), 3)


def walk(b):
    yield b
    t = b[0]
    if t == 'seq':
        yield from walk(b[1])
        yield from walk(b[2])
    elif t == 'try':
        yield from walk(b[1])
        yield from walk(b[3])
    elif t == 'call':
        yield from walk(b[2])
    elif t in ('rec', 'held'):
        yield from walk(b[3])


# ---------------------------------------------------------------------------------------------------------
# generators
# ---------------------------------------------------------------------------------------------------------
def all_wrappers():
    ws = []
    for c in COUNTERS:
        ws.append(['count', c, 'default'])
        ws.append(['count', c, 'ValueError'])
        ws.append(['count', c, ['KeyError', 'OSError']])
        ws.append(['count', c, 'BaseException'])
    for g in TRACK_GAUGES:
        ws.append(['track', g])
    for m in OBSERVERS:
        ws.append(['time', ['obs', m]])
    for g in SET_GAUGES:
        ws.append(['time', ['set', g]])
    return ws


# configurations beyond `a class` / `a flat tuple of distinct unrelated classes`: each x every outcome class x both modes
SPEC_POOL = [
    [], [[]], [[], [[]]],                                        # nothing configured
    ['ValueError'], [['LookupError']],                           # 1-tuples
    ['ValueError', 'ValueError'],                                # repeated
    ['LookupError', 'KeyError'], ['UserKeyError', 'Exception'],  # overlapping
    [['KeyError'], [[], 'OSError', ['ArithmeticError', ['UserExit']]]],   # nested
    'KeyboardInterrupt', 'GeneratorExit', 'UserBase', ['SystemExit'],     # BaseException-only
    ['KeyboardInterrupt', 'Exception'], ['UserBase', ['GeneratorExit'], 'StopIteration'],
    'Exception', ['Exception'], ['BaseException', []],
    'ExceptionGroup', 'BaseExceptionGroup', ['UserGroup', 'ValueError'], ['UserBaseGroup', ['KeyError']],     # groups
    'UserProxy', ['UserMeta', ['BaseExceptionGroup']], ['LookupError', 'ArithmeticError'],
]

# what is raised beyond `a plain instance of a class`: groups (nested; members matching / not matching the usual
# configurations; groups that ARE of a configured type), chained exceptions
DECO_LEAVES = [
    ['raise', 'ExceptionGroup', 1, {'members': ['ValueError']}],
    ['raise', 'ExceptionGroup', 1, {'members': ['ValueError', 'TypeError']}],
    ['raise', 'ExceptionGroup', 1, {'members': ['TypeError', ['ExceptionGroup', ['KeyError']]]}],
    ['raise', 'ExceptionGroup', 1, {'members': [['UserGroup', [['ExceptionGroup', ['FileNotFoundError']]]], 'UserMeta']}],
    ['raise', 'BaseExceptionGroup', 1, {'members': ['UserBase', 'ValueError']}],
    ['raise', 'BaseExceptionGroup', 1, {'members': ['KeyboardInterrupt']}],
    ['raise', 'BaseExceptionGroup', 1, {'members': [['ExceptionGroup', ['OSError', 'UserProxy']], 'SystemExit']}],
    ['raise', 'UserGroup', 1, {'members': ['UserKeyError']}],
    ['raise', 'UserBaseGroup', 1, {'members': ['ValueError']}],
    ['raise', 'UserBaseGroup', 1, {'members': [['BaseExceptionGroup', ['KeyboardInterrupt']], 'FileNotFoundError']}],
    ['raise', 'TypeError', 1, {'cause': 'ValueError'}],
    ['raise', 'UserBase', 1, {'context': 'KeyError'}],
    ['raise', 'RuntimeError', 1, {'cause': ['ExceptionGroup', ['ValueError']], 'context': 'OSError'}],
    ['raise', 'KeyboardInterrupt', 1, {'cause': 'UserError'}],
    ['raise', 'ExceptionGroup', 1, {'members': ['TypeError'], 'context': 'ValueError'}],
    ['raise', 'UserProxy', 1], ['raise', 'UserMeta', 1, {'cause': 'UserProxy'}],
]
DECO_SPECS = ['default', 'ValueError', ['KeyError', 'OSError'], 'BaseException', 'Exception', 'ExceptionGroup',
              'BaseExceptionGroup', ['UserGroup', 'TypeError'], 'UserBaseGroup', 'UserBase', 'KeyboardInterrupt',
              [['LookupError'], []], ['UserError', 'ArithmeticError']]


def extra_count_wrappers():
    return [['count', c, sp] for i, sp in enumerate(SPEC_POOL) for c in ([0, 1] if i < 9 else [i % 2])]


def rand_spec(rng, depth=0):
    """everything `except <spec>` accepts (other than no argument)"""
    q = rng.random()
    if depth >= 3:
        return [] if rng.random() < 0.5 else [rng.choice(CLS_NAMES)]
    if q < 0.10:
        return []
    if depth == 0 and q < 0.38:
        return rng.choice(CLS_NAMES)
    if q < 0.50:
        return rng.sample(CLS_NAMES, rng.randrange(1, 4))
    if q < 0.62:                                                 # repeated members
        a = rng.sample(CLS_NAMES, rng.randrange(1, 3))
        return a + [rng.choice(a)] + (rng.sample(CLS_NAMES, 1) if rng.random() < 0.3 else [])
    if q < 0.74:                                                 # a class together with a subclass / superclass of it
        a = rng.choice(CLS_NAMES)
        rel = [n for n in CLS_NAMES if n != a and (issubclass(CLS[n], CLS[a]) or issubclass(CLS[a], CLS[n]))]
        out = [a, rng.choice(rel)] if rel else [a]
        rng.shuffle(out)
        return out
    out = []                                                     # nested
    for _ in range(rng.randrange(1, 4)):
        out.append(rng.choice(CLS_NAMES) if rng.random() < 0.45 else rand_spec(rng, depth + 1))
    return out


def rand_wrapper(rng, allow_interference=False):
    r = rng.random()
    if r < 0.3:
        c = rng.choice(COUNTERS)
        q = rng.random()
        if q < 0.3:
            return ['count', c, 'default']
        return ['count', c, rand_spec(rng)]
    if r < 0.6:
        return ['track', rng.choice(TRACK_GAUGES)]
    if r < 0.85:
        return ['time', ['obs', rng.choice(OBSERVERS)]]
    if allow_interference and rng.random() < 0.3:
        return ['time', ['set', rng.choice(TRACK_GAUGES)]]
    return ['time', ['set', rng.choice(SET_GAUGES)]]


NON_GROUPS = [n for n in CLS_NAMES if n not in GROUPS]


def rand_members(rng, depth=0):
    out = []
    for _ in range(rng.randrange(1, 4)):
        if depth < 2 and rng.random() < 0.25:
            out.append([rng.choice(GROUPS), rand_members(rng, depth + 1)])
        else:
            out.append(rng.choice(NON_GROUPS))
    return out


def rand_item(rng):
    return [rng.choice(GROUPS), rand_members(rng, 1)] if rng.random() < 0.2 else rng.choice(NON_GROUPS)


def rand_raise(rng, o):
    cname = rng.choice(GROUPS) if rng.random() < 0.2 else rng.choice(CLS_NAMES)
    deco = {}
    if cname in GROUPS and rng.random() < 0.8:
        deco['members'] = rand_members(rng)
    if rng.random() < 0.15:
        deco['cause'] = rand_item(rng)
    if rng.random() < 0.15:
        deco['context'] = rand_item(rng)
    return ['raise', cname, o, deco] if deco else ['raise', cname, o]


class Gen:
    def __init__(self, rng):
        self.rng = rng
        self.next_obj = 1
        self.next_exc = 1
        self.sharetab = {}       # share id -> (wrapper, mode, shape) of the wrapper object kept under that id

    def leaf(self):
        rng = self.rng
        r = rng.random()
        if r < 0.45:
            v = self.next_obj
            self.next_obj += 1
            return ['ret', v]
        if r < 0.9:
            o = self.next_exc
            self.next_exc += 1
            return rand_raise(rng, o)
        return ['probe', rng.choice(GAUGES)]

    def tree(self, depth, interference=False):
        rng = self.rng
        if depth <= 0:
            return self.leaf()
        r = rng.random()
        if r < 0.05:
            return self.leaf()
        if r < 0.55:
            if rng.random() < 0.3:      # through a wrapper object that other nodes of the tree go through as well
                h = rng.randrange(3)
                if h not in self.sharetab:
                    self.sharetab[h] = (rand_wrapper(rng, interference), 'with' if rng.random() < 0.4 else 'dec',
                                        rng.randrange(len(BODY_SHAPES)))
                w, mode, shape = self.sharetab[h]
                return ['call', w, self.tree(depth - 1, interference), mode, shape if mode == 'dec' else 0, h]
            w = rand_wrapper(rng, interference)
            mode = 'with' if rng.random() < 0.4 else 'dec'
            node = ['call', w, self.tree(depth - 1, interference), mode]
            if mode == 'dec':
                node.append(rng.randrange(len(BODY_SHAPES)))
            return node
        if r < 0.65:
            return ['rec', rng.randrange(0, 4), rand_wrapper(rng, interference), self.tree(depth - 2, interference)]
        if r < 0.72:
            t = rng.choice(sorted(HELD))
            return ['held', t, HELD[t], self.tree(depth - 1, interference)]
        if r < 0.87:
            first = ['probe', rng.choice(GAUGES)] if rng.random() < 0.4 else self.tree(depth - 1, interference)
            return ['seq', first, self.tree(depth - 1, interference)]
        cs = [rng.choice(CLS_NAMES)] if rng.random() < 0.6 else rng.sample(CLS_NAMES, 2)
        return ['try', self.tree(depth - 1, interference), cs, self.tree(depth - 2, interference)]


def in_sequence(w, mode, shape, h, leaves, catch_last=True):
    """leaf_1; ...; leaf_n, each run through the SAME wrapper object (share id h), what escapes from a step caught
    by the application before the next step"""
    steps = []
    for i, leaf in enumerate(leaves):
        c = ['call', w, leaf, mode, shape if mode == 'dec' else 0, h]
        if i < len(leaves) - 1 or catch_last:
            c = ['try', c, ['BaseException'], ['ret', 900 + i]]
        steps.append(c)
    b = steps[-1]
    for c in reversed(steps[:-1]):
        b = ['seq', c, b]
    return b


SAME_NAME = list(TWINS) + ['ShadowValueError', 'ValueError']      # classes that share their names with another one


def related(cname):
    return [n for n in CLS_NAMES if issubclass(CLS[n], CLS[cname]) or issubclass(CLS[cname], CLS[n])]


def rand_sequence(rng):
    """a random wrapper object used 2..6 times in a row; for count_exceptions the escaping classes are drawn so
    that steps with different verdicts, same-named classes and classes related to the configuration are frequent"""
    w = rand_wrapper(rng)
    mode = 'with' if rng.random() < 0.4 else 'dec'
    if w[0] == 'count' and rng.random() < 0.5:
        w = ['count', w[1], rng.choice([rng.choice(SAME_NAME), [rng.choice(SAME_NAME), rng.choice(CLS_NAMES)],
                                         rng.choice(related(rng.choice(SAME_NAME)))])]
    names = spec_names(w[2]) if w[0] == 'count' and w[2] != 'default' else []
    pool = list(SAME_NAME) + [r for n in names[:3] for r in related(n)]
    leaves = []
    for i in range(rng.randrange(2, 7)):
        q = rng.random()
        if q < 0.15:
            leaves.append(['ret', i + 1])
        elif q < 0.65:
            leaves.append(['raise', rng.choice(pool), i + 1])
        else:
            leaves.append(rand_raise(rng, i + 1))
    if rng.random() < 0.3:
        j = rng.randrange(len(leaves))
        leaves[j] = ['seq', ['probe', rng.choice(GAUGES)], leaves[j]]
    b = in_sequence(w, mode, rng.randrange(len(BODY_SHAPES)), rng.randrange(3), leaves, rng.random() < 0.5)
    if rng.random() < 0.25:       # the whole sequence inside another use of the same object / of another wrapper
        if rng.random() < 0.5:
            b = ['call', w] + [b] + walk_first_call(b)[3:]
        else:
            b = ['call', rand_wrapper(rng), b, 'dec', 1]
    return b


def walk_first_call(b):
    return next(n for n in walk(b) if n[0] == 'call')


def sequence_cases():
    """one count_exceptions object, two escapes: every ordered pair of classes (A, B) x every configuration among
    {A, B} that tells them apart (the verdict on B must not depend on A having come first), the pairs of classes
    sharing their names first; then the same step three times over for every wrapper kind"""
    pairs = [(a, b) for a in SAME_NAME for b in SAME_NAME if a != b]
    pairs += [(a, b) for a in CLS_NAMES for b in CLS_NAMES if a != b and (a, b) not in pairs]
    i = 0
    for a, b in pairs:
        for sp in (a, b):
            if issubclass(CLS[a], CLS[sp]) == issubclass(CLS[b], CLS[sp]):
                continue
            i += 1
            mode = ('dec', 'with')[i % 2]
            cfg = sp if i % 3 else [[sp], []]
            yield dict(kind='body', clock=[1, 2],
                       body=in_sequence(['count', i % 2, cfg], mode, i % len(BODY_SHAPES), 0,
                                        [['raise', a, 1], ['raise', b, 2]], i % 5 != 0))
    for w in all_wrappers():
        for mode in ('dec', 'with'):
            for leaves in ([['raise', 'TwinKeyError', 1], ['raise', 'TwinValueError', 2], ['raise', 'TwinKeyError', 3]],
                           [['ret', 1], ['raise', 'KeyboardInterrupt', 2], ['seq', ['probe', 2], ['raise', 'OSError', 3]]]):
                yield dict(kind='body', clock=[10, 7, 7, 30, 2, 90, 95], body=in_sequence(w, mode, 3, 1, leaves))
                yield dict(kind='body', clock=[10, 7, 7, 30, 2, 90, 95, 99, 3],
                           body=['call', w, in_sequence(w, mode, 3, 1, leaves, False), mode, 3 if mode == 'dec' else 0, 1])


def count_timers(b):
    n = 0
    for node in walk(b):
        if node[0] == 'call' and node[1][0] == 'time':
            n += 1
        elif node[0] == 'rec' and node[2][0] == 'time':
            n += node[1] + 1
        elif node[0] == 'held':
            n += 1
    return n


def rand_clock(rng, n):
    n = max(n, 2)
    style = rng.choice(['inc', 'inc', 'const', 'dec', 'rand', 'short', 'saw'])
    if style == 'inc':
        t = rng.randrange(0, 1000)
        out = []
        for _ in range(n):
            t += rng.randrange(1, 50)
            out.append(t)
        return out
    if style == 'const':
        return [rng.randrange(0, 1000)] * n
    if style == 'dec':
        t = rng.randrange(1000, 2000)
        out = []
        for _ in range(n):
            t -= rng.randrange(1, 50)
            out.append(t)
        return out
    if style == 'saw':
        t = 500
        out = []
        for i in range(n):
            t += rng.choice([-7, 11, 0, 3, -1])
            out.append(t)
        return out
    if style == 'short':
        return [rng.randrange(0, 100) for _ in range(rng.randrange(0, n))]
    return [rng.randrange(-50, 1000) for _ in range(n)]


CLOCKS3 = {'inc': [10, 25, 60, 100, 170, 250], 'const': [42] * 6, 'dec': [900, 700, 650, 400, 399, 100]}


def body_cases(ctx):
    rng = ctx.rng
    # exhaustive: one wrapper x every outcome x mode x clock shape
    leaves = [['ret', 1]] + [['raise', n, 1] for n in CLS_NAMES]
    for w in all_wrappers():
        for leaf in leaves:
            for mode in ('dec', 'with'):
                clocks = CLOCKS3.values() if w[0] == 'time' else [CLOCKS3['inc']]
                for clk in clocks:
                    node = ['call', w, ['seq', ['probe', 2], leaf] if w[0] == 'track' else leaf, mode]
                    if mode == 'dec':
                        node.append(0)
                    yield dict(kind='body', body=node, clock=list(clk))
    # count_exceptions configured with each spec of the pool x every outcome x both modes (function shapes vary)
    for j, w in enumerate(extra_count_wrappers()):
        for i, leaf in enumerate(leaves):
            yield dict(kind='body', body=['call', w, leaf, 'with'], clock=[1, 2])
            yield dict(kind='body', body=['call', w, leaf, 'dec', (i + j) % len(BODY_SHAPES)], clock=[1, 2])
    # groups and chained exceptions x configurations naming members / the group class / bases of it x both modes
    for j, sp in enumerate(DECO_SPECS):
        for i, leaf in enumerate(DECO_LEAVES):
            w = ['count', (i + j) % 2, sp]
            yield dict(kind='body', body=['call', w, leaf, 'with'], clock=[1, 2])
            yield dict(kind='body', body=['call', w, leaf, 'dec', (i + j) % len(BODY_SHAPES)], clock=[1, 2])
    for sp in DECO_SPECS[:8]:
        for leaf in DECO_LEAVES[1:8:2]:
            yield dict(kind='body', clock=[3, 1, 4, 1, 5, 9, 2, 6], body=['rec', 2, ['count', 0, sp], leaf])
            yield dict(kind='body', clock=[3, 1, 4, 1, 5, 9, 2, 6],
                       body=['call', ['count', 1, 'default'],
                             ['call', ['track', 2], ['call', ['count', 0, sp], ['call', ['time', ['obs', 5]], leaf, 'with'],
                                                     'dec', 3], 'with'], 'dec', 1])
    # ... recursing, and nested in / around the other wrappers and another counter configuration
    for w in extra_count_wrappers()[::2]:
        for leaf in (['ret', 1], ['raise', 'ValueError', 1], ['raise', 'UserKeyError', 2], ['raise', 'KeyboardInterrupt', 3]):
            yield dict(kind='body', clock=[3, 1, 4, 1, 5, 9, 2, 6], body=['rec', 2, w, leaf])
            yield dict(kind='body', clock=[3, 1, 4, 1, 5, 9, 2, 6],
                       body=['call', ['count', 1 - w[1], 'default'],
                             ['call', ['track', 2], ['call', w, ['call', ['time', ['obs', 5]], leaf, 'with'], 'dec', 3], 'with'],
                             'dec', 1])
    # every wrapper pair nested, raising / returning, decreasing clock; recursion of each wrapper
    ws = all_wrappers()
    for w1 in ws[::2]:
        for w2 in ws[1::3]:
            for leaf in (['ret', 1], ['raise', 'KeyError', 1], ['raise', 'KeyboardInterrupt', 1]):
                yield dict(kind='body', clock=list(CLOCKS3['dec']),
                           body=['call', w1, ['call', w2, leaf, 'dec', 1], 'dec', 2])
    for w in ws:
        for k in (1, 3):
            for leaf in (['ret', 1], ['raise', 'ValueError', 1], ['raise', 'SystemExit', 1]):
                for cname in ('inc', 'dec'):
                    yield dict(kind='body', clock=[(7 * i * i + 3 * i) if cname == 'inc' else 1000 - 7 * i * i for i in range(12)],
                               body=['rec', k, w, ['seq', ['probe', 2], leaf]])
    # every decorated shape with every wrapper kind
    for si in range(len(BODY_SHAPES)):
        for w in (['count', 0, 'default'], ['track', 2], ['time', ['obs', 4]], ['time', ['set', 8]], ['time', ['obs', 7]]):
            for leaf in (['ret', 1], ['raise', 'UserError', 1]):
                yield dict(kind='body', clock=[5, 3, 9, 9], body=['call', w, leaf, 'dec', si])
    # re-used Timer objects, nested in themselves
    for t in sorted(HELD):
        yield dict(kind='body', clock=[10, 20, 40, 80, 160, 320],
                   body=['held', t, HELD[t], ['seq', ['held', t, HELD[t], ['ret', 1]], ['raise', 'IndexError', 1]]])
    # one wrapper object used several times in a row with different outcomes
    yield from sequence_cases()
    # random trees, and random sequences through one wrapper object
    for i in range(ctx.n(7000, 150000)):
        g = Gen(rng)
        depth = rng.choice([1, 2, 2, 3, 3, 4, 5])
        b = rand_sequence(rng) if i % 6 == 5 else g.tree(depth, interference=(i % 10 == 0))
        yield dict(kind='body', body=b, clock=rand_clock(rng, 2 * count_timers(b) + rng.randrange(0, 3)))


# docstrings: everything inspect.cleandoc / strip / dedent / expandtabs / a codec / a length limit / %-formatting would alter
DOCS = [
    'Docstring.', '', ' ', '\n', '\t', 'multi\nline',
    'Handle one request.\n\n        Indented continuation line, kept verbatim,\n        with its leading whitespace.\n\n    :returns: a tuple\n    ',
    '\n    Method docstring starting with a newline.\n    ',
    '\n\n\nLeading blank lines.', 'Trailing blank lines.\n\n\n', '   leading spaces', 'trailing spaces   ',
    'trailing space on a line   \nsecond line\t\n', '\tTabbed first line\n\tTabbed second line',
    'First.\n\tTab-indented continuation\n\t\tdeeper', ' \t mixed \t ', 'First.\n  two\n    four\n      six\n',
    'First.\n    same\n    same\n', 'CRLF line\r\n    second\r\n', 'form\x0cfeed and vertical\x0btab',
    '\u00dcn\u00efc\u00f6d\u00e9 \u2014 docstring \u2713 \u540d\u524d\n    \u0438 \u043f\u0440\u043e\u0434\u043e\u043b\u0436\u0435\u043d\u0438\u0435 \U0001f600',
    'non-breaking\u00a0space and\u2028line separator', 'percent %s %(name)s %(signature)s %% {name} {0}',
    'quotes \' " \'\'\' \"\"\" backslash \\ \\n', 'UPPER lower MiXeD', 'x' * 5000,
    ('a long line ' * 40 + '\n        ') * 12, 'None', '0',
]
# function names: case, underscores, non-ASCII (NFKC-stable), long
FNAMES = ['f', 'g_', 'handler', '_private', '__dunder__', 'CamelCase', 'UPPER', 'f2', '\u00e9t\u00e9', '\u540d\u524d',
          '\u0394x', 'a_rather_long_function_name_' * 8 + 'end']


def rand_doc(rng):
    if rng.random() < 0.6:
        return rng.choice(DOCS)
    lines = []
    for _ in range(rng.randrange(1, 6)):
        lines.append(rng.choice(['', ' ', '  ', '    ', '        ', '\t', ' \t']) +
                     rng.choice(['', 'text', 'Text here.', '\u00e9\u00e8', ':param x: y', '>>> f(1)']) +
                     rng.choice(['', '', ' ', '   ', '\t']))
    return rng.choice(['\n', '\r\n']).join(lines) if rng.random() < 0.9 else '\n'.join(lines) + '\n'


NAMES_PO = ['p', 'q']
NAMES_PK = ['a', 'b', 'c']
NAMES_KO = ['k', 'm']
KW_POOL = ['a', 'b', 'c', 'k', 'm', 'p', 'q', 'zz', 'func', 'self', 'args', 'kwargs', 'va', 'kw', '_call_', '_func_']


def rand_shape(rng):
    r = rng.random
    posonly = NAMES_PO[:rng.choice([0, 0, 0, 1, 2])]
    args = NAMES_PK[:rng.choice([0, 1, 2, 3])]
    if r() < 0.08:
        args = args + ['func']
    npos = len(posonly) + len(args)
    kwonly = NAMES_KO[:rng.choice([0, 0, 1, 2])]
    if r() < 0.06 and 'func' not in args:
        kwonly = kwonly + ['func']
    sh = dict(name=rng.choice(FNAMES), posonly=posonly, args=args,
              ndefaults=rng.randrange(0, npos + 1) if npos and r() < 0.6 else 0,
              varargs=rng.choice(['va', 'args']) if r() < 0.35 else None, kwonly=kwonly,
              kwdefaults=[k for k in kwonly if r() < 0.5], varkw=rng.choice(['kw', 'kwargs']) if r() < 0.45 else None)
    q = r()
    if q < 0.15:
        sh['ann'] = True
    if r() < 0.6:
        sh['doc'] = rand_doc(rng)
        if r() < 0.15:
            sh['doc_assign'] = True
    if r() < 0.12:
        if posonly:
            sh['posonly'] = ['self'] + posonly
        else:
            sh['args'] = ['self'] + args
        sh['method'] = True
        if sh['ndefaults'] > npos:
            sh['ndefaults'] = npos
    elif r() < 0.08:
        sh['lambda'] = True
        sh.pop('ann', None)
        if r() < 0.5:
            sh.pop('doc', None)
    return sh


def rand_call(rng, sh):
    names = [n for n in shape_names(sh) if n != 'self' or not sh.get('method')]
    npos = len(names)
    style = rng.random()
    if style < 0.72:
        # mostly valid: some positionals, the rest of the required ones by keyword
        k = rng.randrange(0, npos + 1)
        pos = list(range(1, k + 1))
        kw = []
        need = npos - sh['ndefaults']
        for i, n in enumerate(names[k:], k):
            if n in sh['posonly']:
                continue
            if i < need or rng.random() < 0.4:
                kw.append([n, 50 + i])
        for j, kk in enumerate(sh['kwonly']):
            if kk not in sh['kwdefaults'] or rng.random() < 0.5:
                kw.append([kk, 70 + j])
        if sh['varargs'] and k == npos and rng.random() < 0.5:
            pos += [30, 31][:rng.randrange(1, 3)]
        if sh['varkw'] and rng.random() < 0.5:
            kw.append([rng.choice(['zz', 'func', 'yy', 'self', 'kwargs'] + sh['posonly']), 90])
        rng.shuffle(kw)
    else:
        pos = list(range(1, rng.randrange(0, npos + 3) + 1))
        kw = []
        for n in rng.sample(KW_POOL, rng.randrange(0, 4)):
            kw.append([n, 50 + len(kw)])
    seen = set()
    kw = [x for x in kw if not (x[0] in seen or seen.add(x[0]))]
    return pos, kw


def bind_cases(ctx):
    rng = ctx.rng
    # the findings and the repaired defect, first
    base = dict(SIMPLE)
    yield dict(kind='bind', shape=dict(base, posonly=['a'], varkw='kw'), wkind='track', pos=[1], kw=[['a', 2]])
    yield dict(kind='bind', shape=dict(base, posonly=['a', 'b'], args=['c'], ndefaults=2), wkind='time_s', pos=[1], kw=[['b', 3]])
    yield dict(kind='bind', shape=dict(base, posonly=['a'], ndefaults=1, varkw='kw'), wkind='count', pos=[], kw=[['a', 2]])
    for wk in WKINDS:
        yield dict(kind='bind', shape=dict(base, varkw='kw'), wkind=wk, pos=[], kw=[['func', 1]])
        yield dict(kind='bind', shape=dict(base, kwonly=['func'], kwdefaults=['func']), wkind=wk, pos=[], kw=[])
        yield dict(kind='bind', shape=dict(base, args=['func']), wkind=wk, pos=[], kw=[['func', 1]], labelled=True)
        yield dict(kind='bind', shape=dict(base, args=['x'], ndefaults=1, **{'lambda': True}), wkind=wk, pos=[], kw=[])
    for nm in ('_call_', '_func_'):
        yield dict(kind='bind', shape=dict(base, args=[nm]), wkind='track', pos=[1], kw=[])
        yield dict(kind='bind', shape=dict(base, varargs=nm), wkind='track', pos=[1], kw=[])
        yield dict(kind='bind', shape=dict(base, varkw=nm), wkind='track', pos=[], kw=[['x', 1]])
        yield dict(kind='bind', shape=dict(base, name=nm, args=['x']), wkind='track', pos=[1], kw=[])
        yield dict(kind='bind', shape=dict(base, kwonly=[nm], kwdefaults=[nm]), wkind='track', pos=[], kw=[])
        yield dict(kind='bind', shape=dict(base, kwonly=[nm]), wkind='count', pos=[], kw=[[nm, 1]])
    # every docstring of the pool x {function, method, lambda with assigned __doc__, function with assigned __doc__}
    i = 0
    for doc in DOCS:
        for extra in (dict(), dict(args=['self', 'x'], method=True), dict(args=['x'], **{'lambda': True}),
                      dict(args=['x'], kwonly=['k'], kwdefaults=['k'], ann=True, doc_assign=True)):
            i += 1
            sh = dict(base, doc=doc, **extra)
            if 'args' not in extra:
                sh['args'] = ['a']
            yield dict(kind='bind', shape=sh, wkind=WKINDS[i % 5], labelled=(i % 3 == 0), pos=[1], kw=[])
    for j, nm in enumerate(FNAMES):
        yield dict(kind='bind', shape=dict(base, name=nm, args=['a'], ndefaults=1, kwonly=['k'], kwdefaults=['k'], ann=True,
                                           doc='Doc of %s.\n    more\n' % nm),
                   wkind=WKINDS[j % 5], pos=[], kw=[])
        yield dict(kind='bind', shape=dict(base, name=nm, args=['self', 'a'], method=True), wkind=WKINDS[(j + 1) % 5], pos=[1], kw=[])
    # exhaustive small slice: shapes over (posonly<=1, args<=2, defaults, varargs?, kwonly<=1 +/-default, varkw?) x small calls
    for npo, na, va, nk, vk in itertools.product((0, 1), (0, 1, 2), (None, 'va'), (0, 1), (None, 'kw')):
        for nd in range(0, npo + na + 1):
            for kd in ((False,) if nk == 0 else (False, True)):
                sh = dict(base, posonly=NAMES_PO[:npo], args=NAMES_PK[:na], ndefaults=nd, varargs=va,
                          kwonly=NAMES_KO[:nk], kwdefaults=NAMES_KO[:nk] if kd else [], varkw=vk)
                kwnames = ['a', 'b', 'k', 'p', 'zz']
                for npos in range(0, npo + na + 2):
                    for r in (0, 1, 2):
                        for ks in itertools.combinations(kwnames, r):
                            if (npo + na + nk + npos + len(ks)) % (1 if ctx.thorough else 3) != 0 and r == 2:
                                continue
                            yield dict(kind='bind', shape=sh, wkind=WKINDS[(npos + r + nd) % 5],
                                       pos=list(range(1, npos + 1)), kw=[[k, 50 + i] for i, k in enumerate(ks)])
    for _ in range(ctx.n(9000, 200000)):
        sh = rand_shape(rng)
        pos, kw = rand_call(rng, sh)
        yield dict(kind='bind', shape=sh, wkind=rng.choice(WKINDS), labelled=rng.random() < 0.3, pos=pos, kw=kw)


def cases(ctx):
    _KNOWN_CLASS_REPORTS.clear()
    for c in CLS_NAMES:
        for d in CLS_NAMES:
            yield dict(kind='hier', c=c, d=d)
    for sp in SPEC_POOL:
        for c in CLS_NAMES:
            yield dict(kind='match', k=c, spec=sp)
    for sp in DECO_SPECS[1:]:
        for leaf in DECO_LEAVES:
            if len(leaf) > 3:
                yield dict(kind='match', k=leaf[1], spec=sp, deco=leaf[3])
    for _ in range(ctx.n(600, 20000)):
        leaf = rand_raise(ctx.rng, 1)
        c = dict(kind='match', k=leaf[1], spec=rand_spec(ctx.rng))
        if len(leaf) > 3:
            c['deco'] = leaf[3]
        yield c
    gens = [body_cases(ctx), bind_cases(ctx)]
    # interleave so that a time budget cuts both streams evenly
    while gens:
        for g in list(gens):
            try:
                for _ in range(50):
                    yield next(g)
            except StopIteration:
                gens.remove(g)


# ---------------------------------------------------------------------------------------------------------
# search support
# ---------------------------------------------------------------------------------------------------------
def shrinks(case):
    if case['kind'] == 'body':
        b = case['body']
        for sub in subtrees(b):
            if sub is not b:
                yield dict(case, body=sub)
        for alt in simplify(b):
            yield dict(case, body=alt)
        clk = case['clock']
        if len(clk) > 2:
            yield dict(case, clock=clk[:len(clk) // 2])
            yield dict(case, clock=clk[:-1])
    elif case['kind'] == 'bind':
        for i in range(len(case['kw'])):
            yield dict(case, kw=case['kw'][:i] + case['kw'][i + 1:])
        if case['pos']:
            yield dict(case, pos=case['pos'][:-1])
        sh = case['shape']
        d = sh.get('doc')
        if d and len(d) > 1:
            for d2 in (d[:len(d) // 2], d[len(d) // 2:], d[1:], d[:-1]):
                yield dict(case, shape=dict(sh, doc=d2))
        if sh['name'] != 'f' and not sh.get('lambda'):
            yield dict(case, shape=dict(sh, name='f'))
        for key in ('ann', 'doc', 'doc_assign', 'method', 'lambda'):
            if sh.get(key) and key not in ('method',):
                s2 = dict(sh)
                s2.pop(key)
                yield dict(case, shape=s2)
        if sh['varargs']:
            yield dict(case, shape=dict(sh, varargs=None))
        if sh['varkw']:
            yield dict(case, shape=dict(sh, varkw=None))
        if sh['kwonly']:
            k = sh['kwonly'][-1]
            yield dict(case, shape=dict(sh, kwonly=sh['kwonly'][:-1], kwdefaults=[x for x in sh['kwdefaults'] if x != k]))


def subtrees(b):
    return list(walk(b))


def spec_shrinks(sp):
    """smaller exception specs"""
    if isinstance(sp, str):
        return
    for i, x in enumerate(sp):
        yield sp[:i] + sp[i + 1:]
        if not isinstance(x, str):
            yield sp[:i] + list(x) + sp[i + 1:]
            for y in spec_shrinks(x):
                yield sp[:i] + [y] + sp[i + 1:]
    if len(sp) == 1:
        yield sp[0]


def simplify(b):
    """one-step simplifications of the root"""
    t = b[0]
    if t == 'raise' and len(b) > 3:
        yield b[:3]
        d = b[3]
        for k in d:
            yield b[:3] + [{k2: v for k2, v in d.items() if k2 != k}]
        ms = d.get('members') or []
        for i, m in enumerate(ms):
            if len(ms) > 1:
                yield b[:3] + [dict(d, members=ms[:i] + ms[i + 1:])]
            if not isinstance(m, str):
                yield b[:3] + [dict(d, members=ms[:i] + list(m[1]) + ms[i + 1:])]
    elif t == 'call':
        for s in simplify(b[2]):
            yield b[:2] + [s] + b[3:]
        if b[1][0] == 'count':
            for sp in spec_shrinks(b[1][2]):
                yield [b[0], ['count', b[1][1], sp]] + b[2:]
        if b[3] == 'dec' and len(b) > 4 and b[4] != 0:
            yield b[:4] + [0] + b[5:]
        if len(b) > 5:
            yield b[:5]
    elif t == 'rec':
        if b[1] > 0:
            yield ['rec', b[1] - 1, b[2], b[3]]
        yield ['call', b[2], b[3], 'dec', 0]
        for s in simplify(b[3]):
            yield ['rec', b[1], b[2], s]
    elif t == 'seq':
        for s in simplify(b[1]):
            yield ['seq', s, b[2]]
        for s in simplify(b[2]):
            yield ['seq', b[1], s]
    elif t == 'try':
        for s in simplify(b[1]):
            yield ['try', s, b[2], b[3]]
    elif t == 'held':
        for s in simplify(b[3]):
            yield ['held', b[1], b[2], s]


def neighbours(case):
    out = []
    if case['kind'] == 'body':
        for clk in CLOCKS3.values():
            out.append(dict(case, clock=list(clk) * 3))
        for leaf in (['ret', 1], ['raise', 'KeyError', 1], ['raise', 'KeyboardInterrupt', 1], DECO_LEAVES[1], DECO_LEAVES[4],
                     DECO_LEAVES[10]):
            out.append(dict(case, body=replace_leaves(case['body'], leaf)))
        for sp in ([], 'default', ['KeyError', 'KeyError'], [['KeyboardInterrupt']]):
            out.append(dict(case, body=replace_configs(case['body'], sp)))
    elif case['kind'] == 'bind':
        for wk in WKINDS:
            out.append(dict(case, wkind=wk))
        out.append(dict(case, kw=case['kw'] + [['zz', 95]]))
        out.append(dict(case, pos=case['pos'] + [96]))
    return out


def replace_configs(b, sp):
    """every count_exceptions of the tree configured with sp"""
    if not isinstance(b, list):
        return b
    if b and b[0] == 'count' and len(b) == 3:
        return ['count', b[1], sp]
    return [replace_configs(x, sp) for x in b]


def replace_leaves(b, leaf):
    t = b[0]
    if t in ('ret', 'raise'):
        return leaf
    if t == 'probe':
        return b
    if t == 'seq':
        return ['seq', b[1], replace_leaves(b[2], leaf)]
    if t == 'try':
        return ['try', replace_leaves(b[1], leaf), b[2], b[3]]
    if t == 'call':
        return b[:2] + [replace_leaves(b[2], leaf)] + b[3:]
    if t == 'rec':
        return ['rec', b[1], b[2], replace_leaves(b[3], leaf)]
    if t == 'held':
        return ['held', b[1], b[2], replace_leaves(b[3], leaf)]
    return b
