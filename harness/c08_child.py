"""Child interpreter for C08/C09: runs operation histories against the real multiprocess backend.

Started with PROMETHEUS_MULTIPROC_DIR set (the backend is chosen at import).  One JSON request per line on stdin,
one JSON reply per line on stdout.  time.time is replaced BEFORE prometheus_client is imported by a scripted clock so
that `mostrecent` gauges store the set-times the history prescribes.
"""
import glob
import json
import os
import random
import shutil
import sys
import tempfile
import time

CLOCK = [1000.0]
time.time = lambda: CLOCK[0]

BASE = os.environ['PROMETHEUS_MULTIPROC_DIR']

from prometheus_client import values  # noqa: E402
from prometheus_client.core import CollectorRegistry, Counter, Gauge, Histogram, Summary  # noqa: E402
from prometheus_client.mmap_dict import MmapedDict  # noqa: E402
from prometheus_client.multiprocess import mark_process_dead, MultiProcessCollector  # noqa: E402
from prometheus_client.values import MultiProcessValue  # noqa: E402

BACKEND_AT_IMPORT = getattr(values.ValueClass, '_multiprocess', False)

# The order in which the collector reads the files is not fixed by glob (nor by the property).  It is observed, not
# assumed: the store reader the collector calls is wrapped to log the file names it is asked for.
_ORIG_READ = MmapedDict.read_all_values_from_file
READ_LOG = []


def _logged_read(filename):
    READ_LOG.append(filename)
    return _ORIG_READ(filename)


MmapedDict.read_all_values_from_file = staticmethod(_logged_read)


# A dead worker's live gauge files may vanish between the collector's directory listing and its reads.  When armed, the
# hook runs ONCE, right after the first listing of the multiprocess directory that the code under test performs
# (glob.glob / glob.iglob / os.listdir are wrapped), or at the latest just before the first file is read.
VANISH = {'armed': None, 'fired': None}
_ORIG_GLOB, _ORIG_IGLOB, _ORIG_LISTDIR = glob.glob, glob.iglob, os.listdir


def _fire_vanish(where):
    action = VANISH['armed']
    if action is not None:
        VANISH['armed'] = None
        VANISH['fired'] = where
        action()


def _hook_glob(*a, **k):
    res = _ORIG_GLOB(*a, **k)
    _fire_vanish('glob')
    return res


def _hook_iglob(*a, **k):
    res = list(_ORIG_IGLOB(*a, **k))
    _fire_vanish('iglob')
    return iter(res)


def _hook_listdir(*a, **k):
    res = _ORIG_LISTDIR(*a, **k)
    _fire_vanish('listdir')
    return res


glob.glob, glob.iglob, os.listdir = _hook_glob, _hook_iglob, _hook_listdir
_PLAIN_READ = _logged_read


def _read_with_vanish(filename):
    _fire_vanish('first-read')
    return _PLAIN_READ(filename)


MmapedDict.read_all_values_from_file = staticmethod(_read_with_vanish)

# Two threads after an identity change: the re-binding thread is paused inside the store's read_value (when armed) so that
# a second thread can try to run while the first is half-way through re-binding.
import threading  # noqa: E402
RACE = {'armed': False, 'paused': threading.Event(), 'resume': threading.Event(), 'thread': None}
_ORIG_READ_VALUE = MmapedDict.read_value


def _read_value_hook(self, key):
    if RACE['armed'] and threading.current_thread() is RACE['thread']:
        RACE['armed'] = False
        RACE['paused'].set()
        RACE['resume'].wait(5.0)
    return _ORIG_READ_VALUE(self, key)


MmapedDict.read_value = _read_value_hook


def observed_order(path, fallback):
    """the files in the order the collector just read them, if that is a permutation of the directory listing"""
    seen = []
    for f in READ_LOG:
        if f not in seen:
            seen.append(f)
    if sorted(seen) == sorted(fallback):
        return seen
    return fallback


def read_dir(path, order=None):
    files = order if order is not None else _ORIG_GLOB(os.path.join(path, '*.db'))
    out = []
    for f in files:
        out.append([os.path.basename(f), [[k, v, ts] for k, v, ts, _pos in _ORIG_READ(f)]])
    return files, out


def fams_out(metrics):
    res = []
    for m in metrics:
        res.append([m.name, m.type, m.documentation,
                    [[s.name, dict(s.labels), s.value] for s in m.samples]])
    return res


class Worker:
    def __init__(self, pid):
        self.pid = [pid]
        box = self.pid
        self.cls = MultiProcessValue(lambda: box[0])
        self.metrics = {}
        self.held = {}          # handle -> a metric object / labels() child the application keeps a reference to (C09)


def make_metric(d):
    kind = d['kind']
    kw = dict(registry=None)
    if d.get('labelnames'):
        kw['labelnames'] = d['labelnames']
    if kind == 'counter':
        return Counter(d['name'], d['help'], **kw)
    if kind == 'gauge':
        return Gauge(d['name'], d['help'], multiprocess_mode=d['mode'], **kw)
    if kind == 'summary':
        return Summary(d['name'], d['help'], **kw)
    if kind == 'histogram':
        return Histogram(d['name'], d['help'], buckets=d['buckets'], **kw)
    raise ValueError(kind)


def target(w, m, lv):
    obj = w.metrics[m]
    return obj.labels(*lv) if lv else obj


def run_race(tgt, a, b):
    """two threads issue tgt.inc(a) and tgt.inc(b); the first is pre-empted inside the store's read_value (i.e. inside
    the re-binding that follows an identity change, if one is pending) and the second is given 0.25 s to run there"""
    errs = []

    def work(x):
        try:
            tgt.inc(x)
        except BaseException as e:      # noqa
            errs.append(type(e).__name__ + ': ' + str(e)[:100])
    ta = threading.Thread(target=work, args=(a,))
    tb = threading.Thread(target=work, args=(b,))
    RACE['paused'].clear()
    RACE['resume'].clear()
    RACE['thread'] = ta
    RACE['armed'] = True
    ta.start()
    paused = RACE['paused'].wait(0.5)
    tb.start()
    tb.join(0.25)
    b_ran_inside = paused and not tb.is_alive()
    RACE['resume'].set()
    ta.join(5.0)
    tb.join(5.0)
    RACE['armed'] = False
    RACE['thread'] = None
    o = {'paused': bool(paused), 'second_thread_ran_during_rebind': bool(b_ran_inside)}
    if errs:
        o['exc'] = 'ThreadError'
        o['msg'] = '; '.join(errs)
    return o


# ---- C09: schedules and faults around the re-binding that follows an identity change ----
# (a) two threads operating on DIFFERENT value objects (possibly of different backing files): the first is paused at a
#     chosen point of the store (first close / first open / first read_value it performs - all three occur inside the
#     re-binding that follows an identity change) and the second is given time to run meanwhile;
# (b) a fault of the platform: opening / creating a store file fails with OSError for the n-th .. (n+count-1)-th open
#     performed while the fault is armed (EMFILE, ENOSPC, EACCES); the application sees the error and carries on.
import errno  # noqa: E402
PAUSE = {'where': None, 'thread': None, 'paused': threading.Event(), 'resume': threading.Event()}
FAULT = {'armed': False, 'skip': 0, 'count': 0, 'errno': errno.EMFILE, 'fired': 0}
_ORIG_INIT, _ORIG_CLOSE, _HOOKED_READ_VALUE = MmapedDict.__init__, MmapedDict.close, MmapedDict.read_value


def _pause_point(where):
    if PAUSE['where'] == where and threading.current_thread() is PAUSE['thread']:
        PAUSE['where'] = None
        PAUSE['paused'].set()
        PAUSE['resume'].wait(5.0)


def _init_hook(self, filename, *a, **k):
    _pause_point('open')
    if FAULT['armed'] and not (a and a[0]) and not k.get('read_mode'):
        if FAULT['skip'] > 0:
            FAULT['skip'] -= 1
        elif FAULT['count'] > 0:
            FAULT['count'] -= 1
            FAULT['fired'] += 1
            raise OSError(FAULT['errno'], os.strerror(FAULT['errno']), filename)
    return _ORIG_INIT(self, filename, *a, **k)


def _close_hook(self):
    _pause_point('close')
    return _ORIG_CLOSE(self)


def _read_value_hook2(self, key):
    _pause_point('read_value')
    return _HOOKED_READ_VALUE(self, key)


MmapedDict.__init__ = _init_hook
MmapedDict.close = _close_hook
MmapedDict.read_value = _read_value_hook2


# the scripted clock of a racing thread is its own (a thread paused while it creates its child must not read the set-time
# the other thread scripted)
_TL = threading.local()
time.time = lambda: CLOCK[0] if getattr(_TL, 'clock', None) is None else _TL.clock


def simple_op(w, op):
    """an update / creation a thread performs on its own (no observation)"""
    kind = op[0]
    values.ValueClass = w.cls
    if kind == 'child':
        target(w, op[2], op[3])
    elif kind == 'inc':
        target(w, op[2], op[3]).inc(op[4])
    elif kind == 'dec':
        target(w, op[2], op[3]).dec(op[4])
    elif kind == 'set':
        _TL.clock = op[5]
        target(w, op[2], op[3]).set(op[4])
    elif kind == 'obs':
        target(w, op[2], op[3]).observe(op[4])
    else:
        raise ValueError('not an operation a racing thread performs: %r' % (op,))


def run_race2(w, op_a, op_b, where):
    """thread A performs op_a and is paused at its first `where` of the store; thread B then performs op_b and gets 0.15 s
    to run meanwhile; then A is released and both are joined"""
    errs = []

    def work(op):
        try:
            simple_op(w, op)
        except BaseException as e:      # noqa
            errs.append(type(e).__name__ + ': ' + str(e)[:100])
    ta = threading.Thread(target=work, args=(op_a,))
    tb = threading.Thread(target=work, args=(op_b,))
    PAUSE['paused'].clear()
    PAUSE['resume'].clear()
    PAUSE['thread'] = ta
    PAUSE['where'] = where
    ta.start()
    for _ in range(200):
        if PAUSE['paused'].wait(0.01) or not ta.is_alive():
            break
    paused = PAUSE['paused'].is_set()
    tb.start()
    tb.join(0.15 if paused else 5.0)
    b_ran_inside = paused and not tb.is_alive()
    PAUSE['where'] = None
    PAUSE['resume'].set()
    ta.join(5.0)
    tb.join(5.0)
    PAUSE['thread'] = None
    o = {'paused2': bool(paused), 'where': where, 'second_thread_ran_meanwhile': bool(b_ran_inside)}
    if errs:
        o['exc'] = 'ThreadError'
        o['msg'] = '; '.join(errs)
    return o


def run_case(case):
    path = tempfile.mkdtemp(dir=BASE)
    os.environ['PROMETHEUS_MULTIPROC_DIR'] = path
    saved_cls = values.ValueClass
    obs = []
    try:
        registry = CollectorRegistry()
        MultiProcessCollector(registry)
        workers = {}
        catalog = {d['id']: d for d in case['metrics']}
        snap = case.get('snap', False)
        for op in case['ops']:
            o = {}
            kind = op[0]
            faulted = kind == 'fault'
            if faulted:
                # ['fault', worker, skip, count, errno name, op]: op is performed while opening a store file fails
                FAULT.update(armed=True, skip=op[2], count=op[3], errno=getattr(errno, op[4]), fired=0)
                op = op[5]
                kind = op[0]
            try:
                if kind == 'spawn' or kind == 'restart':
                    workers[op[1]] = Worker(op[2])
                elif kind == 'setpid':
                    workers[op[1]].pid[0] = op[2]
                elif kind == 'dead':
                    before = sorted(os.listdir(path))
                    mark_process_dead(op[1])
                    o = {'before': before, 'after': sorted(os.listdir(path))}
                elif kind == 'collect':
                    listing = _ORIG_GLOB(os.path.join(path, '*.db'))
                    _files, before = read_dir(path, listing)
                    del READ_LOG[:]
                    fams = fams_out(registry.collect())
                    order = observed_order(path, listing)
                    by_name = dict(before)
                    o = {'files': [[os.path.basename(f), by_name[os.path.basename(f)]] for f in order], 'fams': fams}
                elif kind == 'collect_vanish':
                    # mark_process_dead(pid) strikes between the collector's listing and its reads
                    listing = _ORIG_GLOB(os.path.join(path, '*.db'))
                    _files, before = read_dir(path, listing)
                    dir_before = sorted(_ORIG_LISTDIR(path))
                    del READ_LOG[:]
                    dead_pid = op[1]
                    VANISH['fired'] = None
                    VANISH['armed'] = lambda: mark_process_dead(dead_pid)
                    try:
                        fams = fams_out(registry.collect())
                    finally:
                        VANISH['armed'] = None
                    dir_after = sorted(_ORIG_LISTDIR(path))
                    order = observed_order(path, listing)
                    by_name = dict(before)
                    o = {'files': [[os.path.basename(f), by_name[os.path.basename(f)]] for f in order
                                   if os.path.basename(f) in dir_after],
                         'fams': fams, 'before': dir_before, 'after': dir_after, 'fired': VANISH['fired']}
                elif kind == 'merge':
                    files = _ORIG_GLOB(os.path.join(path, '*.db'))
                    random.Random(op[1]).shuffle(files)
                    files, content = read_dir(path, files)
                    o = {'files': content, 'fams': fams_out(MultiProcessCollector.merge(files, accumulate=True))}
                else:
                    w = workers[op[1]]
                    values.ValueClass = w.cls
                    if kind == 'new' or kind == 'renew':
                        # 'renew': the metric is declared AGAIN (registry=None); objects of the first declaration that
                        # the history holds through 'keep' stay alive and usable
                        w.metrics[op[2]] = make_metric(catalog[op[2]])
                    elif kind == 'child':
                        target(w, op[2], op[3])
                    elif kind == 'keep':
                        # the application keeps a reference to a labels() child (or to an unlabelled metric object)
                        w.held[op[4]] = target(w, op[2], op[3])
                    elif kind == 'remove' or kind == 'clear':
                        import warnings
                        with warnings.catch_warnings():
                            warnings.simplefilter('ignore')
                            if kind == 'remove':
                                w.metrics[op[2]].remove(*op[3])
                            else:
                                w.metrics[op[2]].clear()
                    elif kind == 'hinc':
                        w.held[op[2]].inc(op[3])
                    elif kind == 'hdec':
                        w.held[op[2]].dec(op[3])
                    elif kind == 'hset':
                        CLOCK[0] = op[4]
                        w.held[op[2]].set(op[3])
                    elif kind == 'hobs':
                        w.held[op[2]].observe(op[3])
                    elif kind == 'hget':
                        t = w.held[op[2]]
                        which = op[3]
                        o = {'get': (t._value if which == '' else t._sum if which == 'sum' else t._count if which == 'count'
                                     else t._buckets[which]).get()}
                    elif kind == 'inc':
                        target(w, op[2], op[3]).inc(op[4])
                    elif kind == 'dec':
                        target(w, op[2], op[3]).dec(op[4])
                    elif kind == 'set':
                        CLOCK[0] = op[5]
                        target(w, op[2], op[3]).set(op[4])
                    elif kind == 'settime':
                        CLOCK[0] = op[4]
                        target(w, op[2], op[3]).set_to_current_time()
                    elif kind == 'race':
                        o = run_race(target(w, op[2], op[3]), op[4], op[5])
                    elif kind == 'race2':
                        o = run_race2(w, op[2], op[3], op[4])
                    elif kind == 'obs':
                        target(w, op[2], op[3]).observe(op[4])
                    elif kind == 'get':
                        t = target(w, op[2], op[3])
                        which = op[4]
                        if which == '':
                            o = {'get': t._value.get()}
                        elif which == 'sum':
                            o = {'get': t._sum.get()}
                        elif which == 'count':
                            o = {'get': t._count.get()}
                        else:
                            o = {'get': t._buckets[which].get()}
                    else:
                        raise ValueError('unknown op %r' % (op,))
            except Exception as e:      # reported, never swallowed: the harness decides what it means
                o = {'exc': type(e).__name__, 'msg': str(e)[:200]}
            finally:
                values.ValueClass = saved_cls
                FAULT['armed'] = False
            if faulted:
                o['fault_fired'] = FAULT['fired']
            if snap:
                o['snap'] = dict(read_dir(path, sorted(_ORIG_GLOB(os.path.join(path, '*.db'))))[1])
            obs.append(o)
    finally:
        os.environ['PROMETHEUS_MULTIPROC_DIR'] = BASE
        shutil.rmtree(path, ignore_errors=True)
    return obs


def run_real_case(case):
    """Thorough tier of C08: every worker is a REAL forked process (identity os.getpid(), the value closure is the one
    created at import in the parent, so the first use in the worker goes through the pid-change path).  Operations are
    sent to the workers over pipes one at a time, so the history order is the real-time order.
    ['spawn', w, _] forks worker w; ['dead', w] ends worker w and calls mark_process_dead(its pid)."""
    path = tempfile.mkdtemp(dir=BASE)
    os.environ['PROMETHEUS_MULTIPROC_DIR'] = path
    root = os.getpid()
    obs = []
    workers = {}
    catalog = {d['id']: d for d in case['metrics']}
    try:
        registry = CollectorRegistry()
        MultiProcessCollector(registry)
        for op in case['ops']:
            kind = op[0]
            o = {}
            if kind == 'spawn':
                r, w = os.pipe()
                ar, aw = os.pipe()
                sys.stdout.flush()
                pid = os.fork()
                if pid == 0:
                    try:
                        os.close(w)
                        os.close(ar)
                        for _pid, ow, oar in workers.values():      # ends of the other workers' pipes
                            os.close(ow)
                            os.close(oar)
                        me = Worker(os.getpid())
                        me.cls = values.ValueClass          # the closure inherited from the parent
                        f = os.fdopen(r, 'r')
                        for line in f:
                            wop = json.loads(line)
                            if wop[0] == 'exit':
                                break
                            try:
                                k2 = wop[0]
                                if k2 == 'new':
                                    me.metrics[wop[2]] = make_metric(catalog[wop[2]])
                                elif k2 == 'child':
                                    target(me, wop[2], wop[3])
                                elif k2 == 'inc':
                                    target(me, wop[2], wop[3]).inc(wop[4])
                                elif k2 == 'dec':
                                    target(me, wop[2], wop[3]).dec(wop[4])
                                elif k2 == 'set':
                                    CLOCK[0] = wop[5]
                                    target(me, wop[2], wop[3]).set(wop[4])
                                elif k2 == 'settime':
                                    CLOCK[0] = wop[4]
                                    target(me, wop[2], wop[3]).set_to_current_time()
                                elif k2 == 'obs':
                                    target(me, wop[2], wop[3]).observe(wop[4])
                                os.write(aw, b'.')
                            except BaseException:
                                os.write(aw, b'E')
                    finally:
                        os._exit(0)
                os.close(r)
                os.close(aw)
                workers[op[1]] = (pid, w, ar)
                o = {'pid': pid}
            elif kind == 'dead':
                pid, w, ar = workers.pop(op[1])
                os.write(w, b'["exit"]\n')
                os.close(w)
                os.waitpid(pid, 0)
                os.close(ar)
                before = sorted(os.listdir(path))
                mark_process_dead(pid)
                o = {'before': before, 'after': sorted(os.listdir(path)), 'pid': pid}
            elif kind == 'collect':
                listing = glob.glob(os.path.join(path, '*.db'))
                _files, before = read_dir(path, listing)
                del READ_LOG[:]
                fams = fams_out(registry.collect())
                order = observed_order(path, listing)
                by_name = dict(before)
                o = {'files': [[os.path.basename(f), by_name[os.path.basename(f)]] for f in order], 'fams': fams}
            elif kind == 'merge':
                files = glob.glob(os.path.join(path, '*.db'))
                random.Random(op[1]).shuffle(files)
                files, content = read_dir(path, files)
                o = {'files': content, 'fams': fams_out(MultiProcessCollector.merge(files, accumulate=True))}
            else:
                pid, w, ar = workers[op[1]]
                os.write(w, (json.dumps(op) + '\n').encode())
                if os.read(ar, 1) != b'.':
                    o = {'exc': 'WorkerError', 'msg': 'the forked worker raised on %r' % (op,)}
            obs.append(o)
        return obs
    finally:
        if os.getpid() == root:
            for pid, w, ar in workers.values():
                try:
                    os.write(w, b'["exit"]\n')
                    os.close(w)
                    os.waitpid(pid, 0)
                    os.close(ar)
                except OSError:
                    pass
            os.environ['PROMETHEUS_MULTIPROC_DIR'] = BASE
            shutil.rmtree(path, ignore_errors=True)


def run_fork_case(case):
    """Thorough tier: the history is executed by REAL processes (os.fork, identities = os.getpid()).
    ['fork_chain']: the process forks, the CHILD continues the history, the parent waits for it and stops.
    ['fork_side', n]: the process forks, the child executes the next n operations and exits, the parent waits and
    continues after them.  Every process inherits the metric objects (and the open mmaps) of its parent.
    Returns the families collected by the root at the end."""
    path = tempfile.mkdtemp(dir=BASE)
    os.environ['PROMETHEUS_MULTIPROC_DIR'] = path
    saved_cls = values.ValueClass
    root = os.getpid()
    try:
        values.ValueClass = MultiProcessValue()          # os.getpid
        catalog = {d['id']: d for d in case['metrics']}
        metrics = {}

        def tgt(op):
            obj = metrics[op[2]]
            return obj.labels(*op[3]) if op[3] else obj

        def do(op):
            kind = op[0]
            if kind == 'new':
                metrics[op[2]] = make_metric(catalog[op[2]])
            elif kind == 'child':
                tgt(op)
            elif kind == 'inc':
                tgt(op).inc(op[4])
            elif kind == 'dec':
                tgt(op).dec(op[4])
            elif kind == 'set':
                CLOCK[0] = op[5]
                tgt(op).set(op[4])
            elif kind == 'settime':
                CLOCK[0] = op[4]
                tgt(op).set_to_current_time()
            elif kind == 'obs':
                tgt(op).observe(op[4])

        ops = case['ops']
        i = 0
        failed = 0
        try:
            while i < len(ops):
                op = ops[i]
                if op[0] == 'fork_chain':
                    sys.stdout.flush()
                    child = os.fork()
                    if child == 0:
                        i += 1
                        continue
                    _p, st = os.waitpid(child, 0)
                    if os.getpid() != root:
                        os._exit(1 if st else 0)
                    failed |= st
                    break
                if op[0] == 'fork_late':
                    # fork; the PARENT first executes the next k operations (e.g. creates new keys in the shared per-type
                    # file), only then does the child execute the n operations after those; the parent waits and goes on
                    k, n = op[1], op[2]
                    gr, gw = os.pipe()
                    sys.stdout.flush()
                    child = os.fork()
                    if child == 0:
                        code = 0
                        try:
                            os.close(gw)
                            os.read(gr, 1)
                            for op2 in ops[i + 1 + k:i + 1 + k + n]:
                                do(op2)
                        except BaseException:
                            code = 1
                        os._exit(code)
                    os.close(gr)
                    try:
                        for op2 in ops[i + 1:i + 1 + k]:
                            do(op2)
                    finally:
                        os.write(gw, b'.')
                        os.close(gw)
                        _p, st = os.waitpid(child, 0)
                    failed |= st
                    i += 1 + k + n
                    continue
                if op[0] == 'fork_side':
                    n = op[1]
                    sys.stdout.flush()
                    child = os.fork()
                    if child == 0:
                        code = 0
                        try:
                            for op2 in ops[i + 1:i + 1 + n]:
                                do(op2)
                        except BaseException:
                            code = 1
                        os._exit(code)
                    _p, st = os.waitpid(child, 0)
                    failed |= st
                    i += 1 + n
                    continue
                do(op)
                i += 1
        except BaseException:
            if os.getpid() != root:
                os._exit(1)
            raise
        if os.getpid() != root:
            os._exit(1 if failed else 0)
        registry = CollectorRegistry()
        MultiProcessCollector(registry)
        fams = fams_out(registry.collect())
        return [{'fams': fams, 'failed': failed, 'files': sorted(os.listdir(path))}]
    finally:
        if os.getpid() == root:
            values.ValueClass = saved_cls
            os.environ['PROMETHEUS_MULTIPROC_DIR'] = BASE
            shutil.rmtree(path, ignore_errors=True)


# ---------------- process TREES: real forks of processes that already hold metric objects ----------------
def _metric_op(metrics, catalog, op):
    kind = op[0]

    def tgt():
        obj = metrics[op[2]]
        return obj.labels(*op[3]) if op[3] else obj
    if kind == 'new':
        metrics[op[2]] = make_metric(catalog[op[2]])
    elif kind == 'child':
        tgt()
    elif kind == 'inc':
        tgt().inc(op[4])
    elif kind == 'dec':
        tgt().dec(op[4])
    elif kind == 'set':
        CLOCK[0] = op[5]
        tgt().set(op[4])
    elif kind == 'settime':
        CLOCK[0] = op[4]
        tgt().set_to_current_time()
    elif kind == 'obs':
        tgt().observe(op[4])
    else:
        raise ValueError('unknown op %r' % (op,))


class _Tree:
    """One process of the tree.  It executes the metric operations addressed to it, forks workers of its own (the new
    process inherits the metric objects, the value closure and the open mappings, as after any os.fork()) and relays the
    messages addressed to its descendants, one at a time, so that the history order is the real-time order."""

    def __init__(self, metrics, catalog):
        self.metrics, self.catalog = metrics, catalog
        self.kids = {}          # worker id -> (pid, write fd, reply file)

    def ask(self, w, msg):
        _pid, wfd, rf = self.kids[w]
        os.write(wfd, (json.dumps(msg) + '\n').encode())
        line = rf.readline()
        if not line:
            return {'exc': 'WorkerError', 'msg': 'worker %r ended without answering %r' % (w, msg)}
        return json.loads(line)

    def handle(self, msg):
        kind = msg[0]
        if kind == 'to':
            if not msg[1]:
                return self.handle(msg[2])
            return self.ask(msg[1][0], ['to', msg[1][1:], msg[2]])
        if kind == 'fork':
            return self.fork(msg[1])
        if kind == 'reap':
            return self.reap(msg[1])
        try:
            _metric_op(self.metrics, self.catalog, msg)
            return {}
        except Exception as e:
            return {'exc': type(e).__name__, 'msg': str(e)[:200]}

    def fork(self, w):
        r, wr = os.pipe()           # parent -> child
        ar, aw = os.pipe()          # child -> parent
        sys.stdout.flush()
        pid = os.fork()
        if pid == 0:
            try:
                os.close(wr)
                os.close(ar)
                for _p, kw, krf in self.kids.values():      # the parent's ends of its other workers' pipes
                    os.close(kw)
                    krf.close()
                me = _Tree(dict(self.metrics), self.catalog)
                me.serve(r, aw)
            finally:
                os._exit(0)
        os.close(r)
        os.close(aw)
        self.kids[w] = (pid, wr, os.fdopen(ar, 'r'))
        return {'pid': pid}

    def serve(self, rfd, wfd):
        rf = os.fdopen(rfd, 'r')
        try:
            while True:
                line = rf.readline()
                if not line:
                    break
                msg = json.loads(line)
                if msg[0] == 'exit':
                    break
                try:
                    rep = self.handle(msg)
                except BaseException as e:      # noqa
                    rep = {'exc': 'WorkerError', 'msg': type(e).__name__ + ': ' + str(e)[:200]}
                os.write(wfd, (json.dumps(rep) + '\n').encode())
        finally:
            self.reap_all()

    def reap(self, w):
        pid, wfd, rf = self.kids.pop(w)
        try:
            os.write(wfd, b'["exit"]\n')
        except OSError:
            pass
        os.close(wfd)
        os.waitpid(pid, 0)
        rf.close()
        return {'pid': pid}

    def reap_all(self):
        for w in list(self.kids):
            try:
                self.reap(w)
            except OSError:
                pass


def run_tree_case(case):
    """The history is executed by a TREE of real processes (identities = os.getpid()): worker 0 is this process with a
    fresh value closure, ['fork', parent, w] makes worker `parent` fork worker w, which inherits the parent's metric
    objects (and the open mappings of the parent's files) and performs its first metric operation whenever the history
    says so.  ['dead', w] ends worker w (and whatever it forked) and calls mark_process_dead(its pid)."""
    path = tempfile.mkdtemp(dir=BASE)
    os.environ['PROMETHEUS_MULTIPROC_DIR'] = path
    saved_cls = values.ValueClass
    root_pid = os.getpid()
    obs = []
    catalog = {d['id']: d for d in case['metrics']}
    root = None
    try:
        values.ValueClass = MultiProcessValue()          # os.getpid; nothing of an earlier case in its value list
        registry = CollectorRegistry()
        MultiProcessCollector(registry)
        root = _Tree({}, catalog)
        route = {0: []}             # worker -> the workers below the root on the way to it
        pids = {}
        for op in case['ops']:
            kind = op[0]
            o = {}
            if kind == 'spawn':
                o = {'pid': root_pid}
                pids[op[1]] = root_pid
            elif kind == 'fork':
                o = root.handle(['to', route[op[1]], ['fork', op[2]]])
                route[op[2]] = route[op[1]] + [op[2]]
                pids[op[2]] = o.get('pid')
            elif kind == 'dead':
                w = op[1]
                before = sorted(_ORIG_LISTDIR(path))
                r = root.handle(['to', route[w][:-1], ['reap', w]])
                for w2 in [x for x in route if route[x][:len(route[w])] == route[w]]:
                    del route[w2]
                if 'exc' in r:
                    o = r
                else:
                    mark_process_dead(pids[w])
                    o = {'before': before, 'after': sorted(_ORIG_LISTDIR(path)), 'pid': pids[w]}
            elif kind == 'collect':
                listing = _ORIG_GLOB(os.path.join(path, '*.db'))
                _files, before = read_dir(path, listing)
                del READ_LOG[:]
                fams = fams_out(registry.collect())
                order = observed_order(path, listing)
                by_name = dict(before)
                o = {'files': [[os.path.basename(f), by_name[os.path.basename(f)]] for f in order], 'fams': fams}
            elif kind == 'merge':
                files = _ORIG_GLOB(os.path.join(path, '*.db'))
                random.Random(op[1]).shuffle(files)
                files, content = read_dir(path, files)
                o = {'files': content, 'fams': fams_out(MultiProcessCollector.merge(files, accumulate=True))}
            else:
                o = root.handle(['to', route[op[1]], op])
            obs.append(o)
        return obs
    finally:
        if os.getpid() == root_pid:
            if root is not None:
                root.reap_all()
            values.ValueClass = saved_cls
            os.environ['PROMETHEUS_MULTIPROC_DIR'] = BASE
            shutil.rmtree(path, ignore_errors=True)


def main():
    for line in sys.stdin:
        line = line.strip()
        if not line:
            continue
        req = json.loads(line)
        try:
            if req.get('fork') == 'workers':
                rep = {'ok': run_real_case(req['case'])}
            elif req.get('fork') == 'tree':
                rep = {'ok': run_tree_case(req['case'])}
            elif req.get('fork'):
                rep = {'ok': run_fork_case(req['case'])}
            else:
                rep = {'ok': run_case(req['case']), 'backend': BACKEND_AT_IMPORT}
        except Exception as e:
            import traceback
            rep = {'error': type(e).__name__ + ': ' + str(e), 'tb': traceback.format_exc()[-800:]}
        sys.stdout.write(json.dumps(rep) + '\n')
        sys.stdout.flush()


if __name__ == '__main__':
    main()
