"""C14 - both parsers are total: any input ends in families or ValueError.
Text half here; the OpenMetrics half is harness/c14om.py (merged in when present)."""
import random
import signal
import sys

from . import c03, reggen
from .sx import d_str

RULE = ('documents: text expositions of generated registries (valid), all single and sampled multiple token-level mutations '
        '(insert, delete, duplicate, swap lines, truncate at every offset, character edits from the special alphabet; sample-name '
        'suffix cut / exchanged / added, TYPE word exchanged, a number respelt, a name token quoted / unquoted), every family '
        'type x every sample-name suffix, every spelling of the special numbers as le / quantile / value, '
        'unstructured strings over the special characters (exhaustive to length 4 quick / 5 thorough) and keyword fragments; '
        'same streams for the OpenMetrics parser; every 40 cases a parse-history case (harness/c14hist.py): documents of the '
        'run parsed again - twice in a fresh interpreter state (forked from a server that never parsed, other hash seed), in '
        'both orders of a pair / triple (a document with an edit of itself, with another document, under the other parser) and '
        'in the warmed checker process - all outcomes of one document identical and equal to the model; '
        'non-trivial = a mutated or unstructured input (not a pristine exposition); distinct by input text')
TRUSTED = ['CPython int()/float() raise only ValueError on str input (NUM oracle; OverflowError of int/1000 is modelled)',
           're Unicode classes \\w \\s \\d answered by CPython (OpenMetrics native-histogram patterns)',
           'io.StringIO line splitting']
ASSUMPTIONS = ['termination is proved on the model (fuel is sufficient); the harness additionally runs every input under a watchdog',
               'a fresh interpreter state is the state right after importing the parser modules (reached by fork from a server '
               'process that never parses, harness/c14hist.py)']
TIME_BUDGET = {'quick': 150, 'thorough': 1500}
ORACLE = dict(c03.ORACLE)
from . import c14hist
try:
    from . import c14om
    ORACLE.update(c14om.ORACLE)
    TRUSTED = TRUSTED + [t for t in c14om.TRUSTED if t not in TRUSTED]
    ASSUMPTIONS = ASSUMPTIONS + list(c14om.ASSUMPTIONS)
except ImportError:
    c14om = None

SPECIAL = ['a', '{', '}', '"', '\\', ',', '=', ' ', '1', '#', '\n']
EXTRA = ['\t', '\x1c', '\xa0', '_', '.', 'e', '+', '-', 'N', 'n', '\r', ' ', 'é', '0', '9' * 400, '1' + '0' * 400,
         '# HELP ', '# TYPE ', ' counter', ' histogram', ' summary', '_total', '_bucket', '_count', '_sum', 'le', '+Inf', 'NaN',
         '__name__', ' # ', '1e400', '0x10', '1_0', '١٢', '"a"', '{"a"}', 'quantile']


class Timeout(Exception):
    pass


def _alarm(signum, frame):
    raise Timeout()


def run_text_impl(text):
    from prometheus_client.parser import text_string_to_metric_families
    signal.signal(signal.SIGALRM, _alarm)
    signal.setitimer(signal.ITIMER_REAL, 10.0)
    try:
        fams = list(text_string_to_metric_families(text))
        return ['ok', c03.jsonable(c03.canon_parsed(fams))]
    except ValueError:
        return ['err', 'ValueError']
    except Timeout:
        return ['err', 'Timeout']
    except RecursionError:
        return ['err', 'Other:RecursionError']
    except Exception as e:
        return ['err', 'Other:' + type(e).__name__]
    finally:
        signal.setitimer(signal.ITIMER_REAL, 0)


def valid_docs(rng, n):
    from prometheus_client.exposition import generate_latest
    out = []
    for _ in range(n):
        reg = reggen.gen_registry(random.Random(rng.getrandbits(48)), utf8=rng.random() < 0.6)
        try:
            out.append(generate_latest(reg).decode('utf-8'))
        except Exception:
            pass
    out += ['# HELP a help\n# TYPE a counter\na_total{l="v"} 1 1000\n',
            '# TYPE h histogram\nh_bucket{le="1.0"} 1\nh_bucket{le="+Inf"} 2\nh_count 2\nh_sum 3.5\n',
            '# TYPE s summary\ns{quantile="0.5"} 1\ns_count 2\ns_sum 3\n',
            'a 1\nb{x="y"} 2 3\n{"q w",a="b"} 1\n']
    return out


def mutations(rng, doc, k):
    """k random token/character-level mutations of doc"""
    lines = doc.split('\n')
    for _ in range(k):
        r = rng.random()
        if r < 0.15 and len(lines) > 1:
            i, j = rng.randrange(len(lines)), rng.randrange(len(lines))
            l2 = list(lines)
            l2[i], l2[j] = l2[j], l2[i]
            yield '\n'.join(l2)
        elif r < 0.25 and lines:
            i = rng.randrange(len(lines))
            yield '\n'.join(lines[:i] + [lines[i]] + lines[i:])
        elif r < 0.35 and lines:
            i = rng.randrange(len(lines))
            yield '\n'.join(lines[:i] + lines[i + 1:])
        elif r < 0.5 and doc:
            yield doc[:rng.randrange(len(doc))]
        elif r < 0.7 and doc:
            i = rng.randrange(len(doc))
            yield doc[:i] + rng.choice(SPECIAL + EXTRA) + doc[i:]
        elif r < 0.85 and doc:
            i = rng.randrange(len(doc))
            yield doc[:i] + doc[i + 1:]
        elif doc:
            i = rng.randrange(len(doc))
            yield doc[:i] + rng.choice(SPECIAL + EXTRA) + doc[i + 1:]
        if rng.random() < 0.3 and doc:          # double mutation
            i = rng.randrange(len(doc))
            j = rng.randrange(len(doc))
            d2 = doc[:i] + rng.choice(SPECIAL + EXTRA) + doc[i:]
            yield d2[:j] + rng.choice(SPECIAL + EXTRA) + d2[j + 1:]


HIST_EVERY = 40          # one history case after this many ordinary cases


class Pool:
    """reservoir of the documents parsed so far in this run (structured ones and short strings apart)"""
    CAP = 3000

    def __init__(self, rng):
        self.rng = rng
        self.docs = {'struct': [], 'short': []}
        self.seen = {'struct': 0, 'short': 0}

    def offer(self, fmt, text):
        cls = 'struct' if ('# TYPE' in text or text.count('\n') >= 2) else 'short'
        self.seen[cls] += 1
        l = self.docs[cls]
        if len(l) < self.CAP:
            l.append((fmt, text))
        else:
            j = self.rng.randrange(self.seen[cls])
            if j < self.CAP:
                l[j] = (fmt, text)

    def draw(self, fmt=None):
        cls = 'struct' if (self.docs['struct'] and self.rng.random() < 0.9) or not self.docs['short'] else 'short'
        l = self.docs[cls]
        if not l:
            return ('om', '# TYPE a counter\na_total 1\n# EOF\n')
        for _ in range(8):
            it = self.rng.choice(l)
            if fmt is None or it[0] == fmt:
                return it
        return it


def hist_case(items, why):
    items = [list(it) for it in items]
    return dict(fmt='hist', items=items, origin='hist:' + why, text=' || '.join(t for _f, t in items)[:400])


def hist_seed_cases():
    """parse-history cases that do not depend on the run: every family type x every sample-name suffix, alone
    (parsed twice in one fresh state) and paired, in both orders, with the same type's plain document"""
    grid = [d for d in c14om.grid_docs() if d not in set(c14om.spelling_docs())] if c14om is not None else []
    fmts = ('om', 'text') if c14om is not None else ('text',)
    for fmt in fmts:
        for d in grid:
            if '{' not in d:
                yield hist_case([(fmt, d)], 'grid')
    for fmt in fmts:
        for d in grid:
            if '{' in d:
                continue
            typ = d.split('\n')[0].split(' ')[3]
            plain = {'counter': 'a_total 1', 'summary': 'a_count 1\na_sum 1', 'histogram': 'a_bucket{le="+Inf"} 1',
                     'gaugehistogram': 'a_bucket{le="+Inf"} 1', 'info': 'a_info{a="b"} 1', 'stateset': 'a{a="b"} 1'}.get(typ, 'a 1')
            yield hist_case([(fmt, '# TYPE a %s\n%s\n# EOF\n' % (typ, plain)), (fmt, d)], 'grid-pair')
    if c14om is not None:
        canon = {}
        for kind, _sp, d in c14om.spelling_table():
            if kind not in ('histogram2', 'summary', 'gauge'):
                continue
            first = canon.setdefault(kind, d)        # the canonical '+Inf' spelling comes first
            for fmt in fmts:
                if d is first:
                    yield hist_case([(fmt, d)], 'spelling')
                else:
                    yield hist_case([(fmt, first), (fmt, d)], 'spelling-pair')
    for d in ['a 1\n', 'a{b="c"} 1 2\n', '# HELP a b\n# TYPE a counter\na 1\n', '# TYPE a summary\na{quantile="0.5"} 1\n',
              '# TYPE a histogram\na_bucket{le="1"} 1\na_bucket{le="+Inf"} 1\na_count 1\na_sum 1\n# EOF\n',
              '# TYPE a stateset\na{a="x"} 1\n# EOF\n', '# TYPE a gauge\na 1 1\na 2 2\n# EOF\n',
              '# TYPE a histogram\na {count:1,sum:1,schema:0,zero_threshold:0,zero_count:0,positive_spans:[0:1],positive_deltas:[1]}\n# EOF\n',
              '# TYPE a counter\na_total 1 # {a="b"} 1 1\n# EOF\n', '# TYPE a_seconds gauge\n# UNIT a_seconds seconds\na_seconds 1\n# EOF\n',
              '{"a.b"} 1\n# EOF\n', '# TYPE "a.b" gauge\n{"a.b",c="d"} 1\n# EOF\n']:
        for fmt in fmts:
            yield hist_case([(fmt, d)], 'seed')
        if len(fmts) == 2:
            yield hist_case([('om', d), ('text', d)], 'seed-cross')


def hist_cases(ctx, pool):
    """endless: the fixed slice first, then documents of the run parsed again - alone, next to an edit of themselves
    (same family names, types and label sets), next to other documents, and by the other parser"""
    yield from hist_seed_cases()
    rng = ctx.rng
    other = {'om': 'text', 'text': 'om'}
    while True:
        r = rng.random()
        fmt, d = pool.draw()
        if c14om is None:
            yield hist_case([(fmt, d)], 'again')
            continue
        if r < 0.3:
            yield hist_case([(fmt, d)], 'again')
        elif r < 0.6:
            r2 = rng.random()
            if r2 < 0.75:
                edit = c14om.name_edits if r2 < 0.3 else c14om.respell_edits if r2 < 0.55 else c14om.quote_edits
                ed = edit(rng, d, 1)
                d2 = ed[0][0] if ed else c14om.omgen.mutate_once(rng, d)[0]
            else:
                d2 = c14om.omgen.mutate_once(rng, d)[0]
            yield hist_case([(fmt, d), (fmt, d2)], 'edit-pair')
        elif r < 0.75:
            yield hist_case([(fmt, d), pool.draw(fmt)], 'pair')
        elif r < 0.87:
            yield hist_case([(fmt, d), (other[fmt], d)], 'cross')
        else:
            yield hist_case([(fmt, d), pool.draw(), pool.draw(fmt)], 'triple')


def cases(ctx):
    """text-format stream and the OpenMetrics stream (harness/c14om.py), interleaved so that a time cut keeps both;
    every HIST_EVERY cases a parse-history case (harness/c14hist.py) over documents the run has already parsed"""
    import itertools
    streams = [text_cases(ctx)]
    if c14om is not None:
        def om():
            for c in c14om.cases(ctx):
                yield dict(c, fmt='om', text=c['doc'], origin=c.get('why', 'om'))
        streams.append(om())
    pool = Pool(ctx.rng)
    hist = hist_cases(ctx, pool)
    n = 0
    for group in itertools.zip_longest(*streams):
        for c in group:
            if c is not None:
                pool.offer(c['fmt'], c['text'])
                yield c
                n += 1
                if n % HIST_EVERY == 0:
                    yield next(hist)
    for _ in range(ctx.n(400, 6000)):          # and again at the very end of the run
        yield next(hist)


def text_cases(ctx):
    rng = ctx.rng
    for s in ['# HELP \x1c x\n', '# TYPE \xa0 gauge\n', 'a 1 1' + '0' * 400 + '\n', 'a{b="c"}\n', 'a{', '}x{ 1', 'a{}} 1',
              '{} 1', '{"a"} 1', 'a{,} 1', 'a{,,} 1', 'a{b="c",} 1', 'a{b=} 1', 'a{="c"} 1', '# TYPE a\n', '# TYPE a b c d\n',
              'a 1 ' + '1' * 60 + '_\n', 'a ' + '9' * 60 + 'x 1\n', 'a{b="c"} ' + '1.' * 30 + 'e 5\n', 'a{' + 'l="v",' * 40 + '"} 1\n',
              '# HELP\n', '#\n', '# TYPE _total counter\n_total 1\n', '# TYPE a_total counter\na_total 1\n', 'a{b="\\"} 1']:
        yield dict(fmt='text', text=s, origin='seed')
    # unstructured: exhaustive to length L over the special alphabet
    L = 4 if not ctx.thorough else 5
    frontier = ['']
    for _ in range(L):
        frontier = [a + c for a in frontier for c in SPECIAL]
        for s in frontier:
            yield dict(fmt='text', text=s, origin='exhaustive')
    if c14om is not None:
        for d in c14om.grid_docs():
            yield dict(fmt='text', text=d, origin='grid')
    docs = valid_docs(rng, ctx.n(60, 600))
    for d in docs:
        yield dict(fmt='text', text=d, origin='valid')
        if c14om is not None:      # sample names with the suffix cut / exchanged, TYPE words exchanged
            for m, _kind in (c14om.name_edits(rng, d, ctx.n(6, 20)) + c14om.respell_edits(rng, d, ctx.n(5, 16))
                             + c14om.quote_edits(rng, d, ctx.n(3, 10))):
                yield dict(fmt='text', text=m, origin='mutation')
        # truncate at every offset (sampled when long)
        offs = range(len(d)) if len(d) < 160 else sorted(rng.sample(range(len(d)), 80))
        for i in offs:
            yield dict(fmt='text', text=d[:i], origin='truncate')
        for m in mutations(rng, d, ctx.n(40, 120)):
            yield dict(fmt='text', text=m, origin='mutation')
    for _ in range(ctx.n(3000, 60000)):
        n = rng.randrange(1, 14)
        yield dict(fmt='text', text=''.join(rng.choice(SPECIAL + EXTRA) for _ in range(n)), origin='random')


def impl(case):
    try:
        case['text'].encode('utf-8')
    except UnicodeEncodeError:
        pass
    if case['fmt'] == 'hist':
        return c14hist.observe(case['items'])
    if case['fmt'] == 'text':
        obs = run_text_impl(case['text'])
    else:
        obs = c14om.impl(case)
    _FIRST.setdefault(_key(case['fmt'], case['text']), c14hist.digest(_as_hist(case['fmt'], obs)))
    return obs


_FIRST = {}      # outcome of the first parse of a document in this process (digest), for "again later in the run"


def _key(fmt, text):
    return hash((fmt, text))


def _as_hist(fmt, obs):
    """the observation of an ordinary case in the vocabulary of c14hist.parse_one"""
    if fmt == 'om' and obs[0] == 'err' and obs[1] != 'ValueError':
        return ['err', 'Timeout' if obs[1] == 'TIMEOUT' else 'Other:' + obs[1]]
    return obs


def _pure(m, fmt, text):
    if fmt == 'text':
        return c03.jsonable(c03.canon_model_parsed(m.call('text_parse', False, True, True, text)))
    return _as_hist('om', c14om.obs_model(m, text))


def model(m, case):
    if case['fmt'] == 'hist':
        memo = {}
        pure = []
        for fmt, text in case['items']:
            if (fmt, text) not in memo:
                memo[(fmt, text)] = _pure(m, fmt, text)
            pure.append(memo[(fmt, text)])
        return c14hist.expected(case['items'], pure)
    if case['fmt'] == 'text':
        return c03.jsonable(c03.canon_model_parsed(m.call('text_parse', False, True, True, case['text'])))
    return c14om.model(m, case)


def direct(case, obs):
    if case['fmt'] == 'hist':
        return c14hist.direct(case['items'], obs, [_FIRST.get(_key(f, t)) for f, t in case['items']])
    if case['fmt'] == 'om':
        return c14om.direct(case, obs)
    if obs[0] == 'ok' or obs[1] == 'ValueError':
        return None
    if obs[1] == 'Timeout':
        return '%s parser did not terminate within 10 s on %r' % (case['fmt'], case['text'][:200])
    return '%s parser raised %s (not ValueError) on %r' % (case['fmt'], obs[1][6:], case['text'][:200])


def replay(ctx, rep, case):
    """a replayed case meets a process that has parsed the fixed slice with both parsers (a history case compares
    fresh interpreter states with this one)"""
    from . import engine
    if case.get('fmt') == 'hist' and c14om is not None:
        for d in c14om.grid_docs():
            for fmt in ('om', 'text'):
                c14hist.parse_one(fmt, d)
    engine.process(sys.modules[__name__], ctx, rep, case)


def nontrivial(case, obs):
    return case['origin'] != 'valid'


def classify(case, obs):
    if case['fmt'] == 'hist':
        keys = [case['origin'], 'hist:items:%d' % len(case['items'])]
        keys += ['hist:parser:' + f for f in sorted({f for f, _t in case['items']})]
        keys += ['hist:outcome:' + (o[0] if o[0] == 'ok' else o[1]) for o in obs['warm']]
        if any(_key(f, t) in _FIRST for f, t in case['items']):
            keys.append('hist:parsed-earlier-in-this-run')
        return keys
    if case['fmt'] == 'om':
        return ['om:' + k for k in c14om.classify(case, obs)]
    return [case['fmt'] + ':' + case['origin'], case['fmt'] + ':' + (obs[0] if obs[0] == 'ok' else obs[1])]


def _shrink_text(t):
    lines = t.split('\n')
    if len(lines) > 1:
        for i in range(len(lines)):
            yield '\n'.join(lines[:i] + lines[i + 1:])
    n = len(t)
    step = max(1, n // 8)
    while step >= 1:
        for i in range(0, n, step):
            yield t[:i] + t[i + step:]
        if step == 1 or n > 120:
            break
        step //= 2


def shrinks(case):
    if case['fmt'] == 'hist':
        items = case['items']
        if len(items) > 1:
            for i in range(len(items)):
                yield hist_case(items[:i] + items[i + 1:], 'shrink')
        for i, (f, t) in enumerate(items):
            for t2 in _shrink_text(t):
                # an item that is a copy of another one stays a copy
                yield hist_case([[g, t2] if (g, u) == (f, t) else [g, u] for g, u in items], 'shrink')
        return
    if case['fmt'] == 'om':
        for c in c14om.shrinks(case):
            yield dict(c, fmt='om', text=c['doc'], origin='shrink')
        return
    t = case['text']
    n = len(t)
    step = max(1, n // 8)
    while step >= 1:
        for i in range(0, n, step):
            yield dict(case, text=t[:i] + t[i + step:])
        if step == 1:
            break
        step //= 2


def neighbours(case):
    if case['fmt'] == 'hist':
        for f, t in case['items']:
            yield hist_case([[f, t]], 'nb')
            for c in neighbours(dict(fmt=f, text=t, doc=t, origin='nb')):
                if c['fmt'] != 'hist':
                    yield hist_case([[f, c['text']]], 'nb')
        return
    yield hist_case([[case['fmt'], case['text']]], 'nb')
    if case['fmt'] == 'om':
        for c in c14om.neighbours(case):
            yield dict(c, fmt='om', text=c['doc'], origin='nb')
        return
    t = case['text']
    for i in range(min(len(t), 60)):
        for c in SPECIAL:
            yield dict(case, text=t[:i] + c + t[i:])
        yield dict(case, text=t[:i] + t[i + 1:])
