"""C14 - both parsers are total: any input ends in families or ValueError.
Text half here; the OpenMetrics half is harness/c14om.py (merged in when present)."""
import random
import signal

from . import c03, reggen
from .sx import d_str

RULE = ('documents: text expositions of generated registries (valid), all single and sampled multiple token-level mutations '
        '(insert, delete, duplicate, swap lines, truncate at every offset, character edits from the special alphabet), '
        'unstructured strings over the special characters (exhaustive to length 4 quick / 5 thorough) and keyword fragments; '
        'same streams for the OpenMetrics parser; non-trivial = a mutated or unstructured input (not a pristine exposition); '
        'distinct by input text')
TRUSTED = ['CPython int()/float() raise only ValueError on str input (NUM oracle; OverflowError of int/1000 is modelled)',
           're Unicode classes \\w \\s \\d answered by CPython (OpenMetrics native-histogram patterns)',
           'io.StringIO line splitting']
ASSUMPTIONS = ['termination is proved on the model (fuel is sufficient); the harness additionally runs every input under a watchdog']
TIME_BUDGET = {'quick': 150, 'thorough': 1500}
ORACLE = dict(c03.ORACLE)
try:
    from . import c14om
    ORACLE.update(c14om.ORACLE)
    TRUSTED = TRUSTED + [t for t in c14om.TRUSTED if t not in TRUSTED]
    ASSUMPTIONS = ASSUMPTIONS + list(c14om.ASSUMPTIONS)
except ImportError:
    c14om = None

SPECIAL = ['a', '{', '}', '"', '\\', ',', '=', ' ', '1', '#', '\n']
EXTRA = ['\t', '\x1c', '\xa0', '_', '.', 'e', '+', '-', 'N', 'n', '\r', ' ', 'é', '0', '9' * 400, '1' + '0' * 400,
         '# HELP ', '# TYPE ', ' counter', ' histogram', ' summary', '_total', '_bucket', '_count', '_sum', 'le', '+Inf', 'NaN',
         '__name__', ' # ', '1e400', '0x10', '1_0', '١٢', '"a"', '{"a"}', 'quantile']


class Timeout(Exception):
    pass


def _alarm(signum, frame):
    raise Timeout()


def run_text_impl(text):
    from prometheus_client.parser import text_string_to_metric_families
    signal.signal(signal.SIGALRM, _alarm)
    signal.setitimer(signal.ITIMER_REAL, 10.0)
    try:
        fams = list(text_string_to_metric_families(text))
        return ['ok', c03.jsonable(c03.canon_parsed(fams))]
    except ValueError:
        return ['err', 'ValueError']
    except Timeout:
        return ['err', 'Timeout']
    except RecursionError:
        return ['err', 'Other:RecursionError']
    except Exception as e:
        return ['err', 'Other:' + type(e).__name__]
    finally:
        signal.setitimer(signal.ITIMER_REAL, 0)


def valid_docs(rng, n):
    from prometheus_client.exposition import generate_latest
    out = []
    for _ in range(n):
        reg = reggen.gen_registry(random.Random(rng.getrandbits(48)), utf8=rng.random() < 0.6)
        try:
            out.append(generate_latest(reg).decode('utf-8'))
        except Exception:
            pass
    out += ['# HELP a help\n# TYPE a counter\na_total{l="v"} 1 1000\n',
            '# TYPE h histogram\nh_bucket{le="1.0"} 1\nh_bucket{le="+Inf"} 2\nh_count 2\nh_sum 3.5\n',
            '# TYPE s summary\ns{quantile="0.5"} 1\ns_count 2\ns_sum 3\n',
            'a 1\nb{x="y"} 2 3\n{"q w",a="b"} 1\n']
    return out


def mutations(rng, doc, k):
    """k random token/character-level mutations of doc"""
    lines = doc.split('\n')
    for _ in range(k):
        r = rng.random()
        if r < 0.15 and len(lines) > 1:
            i, j = rng.randrange(len(lines)), rng.randrange(len(lines))
            l2 = list(lines)
            l2[i], l2[j] = l2[j], l2[i]
            yield '\n'.join(l2)
        elif r < 0.25 and lines:
            i = rng.randrange(len(lines))
            yield '\n'.join(lines[:i] + [lines[i]] + lines[i:])
        elif r < 0.35 and lines:
            i = rng.randrange(len(lines))
            yield '\n'.join(lines[:i] + lines[i + 1:])
        elif r < 0.5 and doc:
            yield doc[:rng.randrange(len(doc))]
        elif r < 0.7 and doc:
            i = rng.randrange(len(doc))
            yield doc[:i] + rng.choice(SPECIAL + EXTRA) + doc[i:]
        elif r < 0.85 and doc:
            i = rng.randrange(len(doc))
            yield doc[:i] + doc[i + 1:]
        elif doc:
            i = rng.randrange(len(doc))
            yield doc[:i] + rng.choice(SPECIAL + EXTRA) + doc[i + 1:]
        if rng.random() < 0.3 and doc:          # double mutation
            i = rng.randrange(len(doc))
            j = rng.randrange(len(doc))
            d2 = doc[:i] + rng.choice(SPECIAL + EXTRA) + doc[i:]
            yield d2[:j] + rng.choice(SPECIAL + EXTRA) + d2[j + 1:]


def cases(ctx):
    """text-format stream, then the OpenMetrics stream (harness/c14om.py), interleaved so that a time cut keeps both"""
    import itertools
    streams = [text_cases(ctx)]
    if c14om is not None:
        def om():
            for c in c14om.cases(ctx):
                yield dict(c, fmt='om', text=c['doc'], origin=c.get('why', 'om'))
        streams.append(om())
    for group in itertools.zip_longest(*streams):
        for c in group:
            if c is not None:
                yield c


def text_cases(ctx):
    rng = ctx.rng
    for s in ['# HELP \x1c x\n', '# TYPE \xa0 gauge\n', 'a 1 1' + '0' * 400 + '\n', 'a{b="c"}\n', 'a{', '}x{ 1', 'a{}} 1',
              '{} 1', '{"a"} 1', 'a{,} 1', 'a{,,} 1', 'a{b="c",} 1', 'a{b=} 1', 'a{="c"} 1', '# TYPE a\n', '# TYPE a b c d\n',
              '# HELP\n', '#\n', '# TYPE _total counter\n_total 1\n', '# TYPE a_total counter\na_total 1\n', 'a{b="\\"} 1']:
        yield dict(fmt='text', text=s, origin='seed')
    # unstructured: exhaustive to length L over the special alphabet
    L = 4 if not ctx.thorough else 5
    frontier = ['']
    for _ in range(L):
        frontier = [a + c for a in frontier for c in SPECIAL]
        for s in frontier:
            yield dict(fmt='text', text=s, origin='exhaustive')
    docs = valid_docs(rng, ctx.n(60, 600))
    for d in docs:
        yield dict(fmt='text', text=d, origin='valid')
        # truncate at every offset (sampled when long)
        offs = range(len(d)) if len(d) < 160 else sorted(rng.sample(range(len(d)), 80))
        for i in offs:
            yield dict(fmt='text', text=d[:i], origin='truncate')
        for m in mutations(rng, d, ctx.n(40, 120)):
            yield dict(fmt='text', text=m, origin='mutation')
    for _ in range(ctx.n(3000, 60000)):
        n = rng.randrange(1, 14)
        yield dict(fmt='text', text=''.join(rng.choice(SPECIAL + EXTRA) for _ in range(n)), origin='random')


def impl(case):
    try:
        case['text'].encode('utf-8')
    except UnicodeEncodeError:
        pass
    if case['fmt'] == 'text':
        return run_text_impl(case['text'])
    return c14om.impl(case)


def model(m, case):
    if case['fmt'] == 'text':
        return c03.jsonable(c03.canon_model_parsed(m.call('text_parse', False, True, True, case['text'])))
    return c14om.model(m, case)


def direct(case, obs):
    if case['fmt'] == 'om':
        return c14om.direct(case, obs)
    if obs[0] == 'ok' or obs[1] == 'ValueError':
        return None
    if obs[1] == 'Timeout':
        return '%s parser did not terminate within 10 s on %r' % (case['fmt'], case['text'][:200])
    return '%s parser raised %s (not ValueError) on %r' % (case['fmt'], obs[1][6:], case['text'][:200])


def nontrivial(case, obs):
    return case['origin'] != 'valid'


def classify(case, obs):
    if case['fmt'] == 'om':
        return ['om:' + k for k in c14om.classify(case, obs)]
    return [case['fmt'] + ':' + case['origin'], case['fmt'] + ':' + (obs[0] if obs[0] == 'ok' else obs[1])]


def shrinks(case):
    if case['fmt'] == 'om':
        for c in c14om.shrinks(case):
            yield dict(c, fmt='om', text=c['doc'], origin='shrink')
        return
    t = case['text']
    n = len(t)
    step = max(1, n // 8)
    while step >= 1:
        for i in range(0, n, step):
            yield dict(case, text=t[:i] + t[i + step:])
        if step == 1:
            break
        step //= 2


def neighbours(case):
    if case['fmt'] == 'om':
        for c in c14om.neighbours(case):
            yield dict(c, fmt='om', text=c['doc'], origin='nb')
        return
    t = case['text']
    for i in range(min(len(t), 60)):
        for c in SPECIAL:
            yield dict(case, text=t[:i] + c + t[i:])
        yield dict(case, text=t[:i] + t[i + 1:])
