"""Registry generators shared by C03, C04, C05: registries built through the public API (instrumentation classes and
the *MetricFamily helpers via custom collectors) with adversarial strings in every user-controlled position, and the
conversion of collected families to the model's input."""
import math

from .sx import Sym, some

# the adversarial alphabet named in C03's quantifier
ADV = ['\\', '"', '\n', 'n', ',', '=', '{', '}', '#', ' ', '\t', '\r', '\x1f', '\xa0', ' ', '\xe9', '\U0001F600',
       'a', 'b', '_', ':', '0', '\\\\', '\\n', '\\"', '" ', ' #', ' # ', '}{', '",', '\x0b', '\x1c', '\x85']
LEGACY = 'abcxyz_'


def adv_string(rng, maxlen=6, empty_ok=True):
    r = rng.random()
    if r < 0.08 and empty_ok:
        return ''
    if r < 0.35:
        return ''.join(rng.choice(LEGACY) for _ in range(rng.randrange(1, 5)))
    n = rng.randrange(1, maxlen + 1)
    return ''.join(rng.choice(ADV) for _ in range(n))


# family names that END like a derived series: the expositions single out samples named <family> + one of these
SUFFIX_LIKE = ['_created', '_gsum', '_gcount']


def suffix_like(rng):
    return rng.choice(SUFFIX_LIKE) if rng.random() < 0.12 else ''


# suffix words INSIDE a name (the text format strips / appends them at the END of counter and info names only)
INNER_WORDS = ['_total', '_info', '_created', '_count', '_sum', '_bucket']


def inner_word(rng):
    return rng.choice(INNER_WORDS) + rng.choice(['_x', '', '_total']) if rng.random() < 0.1 else ''


def legacy_name(rng, stem):
    return stem + inner_word(rng) + ''.join(rng.choice(LEGACY + '019') for _ in range(rng.randrange(0, 3))) + suffix_like(rng)


def utf8_name(rng, stem):
    """A metric/label name in 'arbitrary UTF-8': stem keeps names distinct, the rest is adversarial."""
    return stem + inner_word(rng) + adv_string(rng, 4, empty_ok=False) + suffix_like(rng)


def label_names(rng, k, utf8):
    out = []
    for i in range(k):
        n = ('l%d' % i) + (adv_string(rng, 3) if utf8 and rng.random() < 0.6 else '')
        out.append(n)
    return out


VALUES = [0.0, 1.0, -1.0, 1.5, 1e6, 1e10, 1.5e15, 1e16, 1e-7, 123456789012345678, 2 ** 64, 2 ** 53 + 1,
          math.inf, -math.inf, math.nan, -0.0, 5e-324, 1.7976931348623157e308, 1234567.125, True, 42]


def gen_value(rng, nonneg=False):
    r = rng.random()
    if r < 0.5:
        v = rng.choice(VALUES)
    elif r < 0.7:
        v = rng.randrange(0, 10 ** rng.randrange(1, 20))
    else:
        v = rng.uniform(-1e6, 1e6) * 10 ** rng.randrange(-3, 12)
    if nonneg and not (isinstance(v, float) and math.isnan(v)) and v < 0:
        v = -v
    return v


def gen_timestamp(rng, om):
    from prometheus_client.samples import Timestamp
    r = rng.random()
    if r < 0.6:
        return None
    if r < 0.7:
        return rng.randrange(0, 2 * 10 ** 9)
    if r < 0.8:
        return rng.randrange(0, 2 * 10 ** 12) / 1000.0
    if r < 0.9:
        return Timestamp(rng.randrange(0, 2 * 10 ** 9), rng.choice([0, 1, 500000000, 999999999, rng.randrange(10 ** 9)]))
    if not om and r < 0.94:      # before the epoch: the text format carries a signed number of milliseconds
        return rng.choice([-1, -123.456, -0.001, -1.5e9, -rng.randrange(1, 2 * 10 ** 9), -rng.randrange(1, 10 ** 12) / 1000.0])
    return rng.choice([0, 0.0, 1.5, 123.456, 1e9, 1700000000.123])


class ListCollector:
    def __init__(self, fams):
        self.fams = fams

    def collect(self):
        return list(self.fams)


def gen_helper_family(rng, stem, utf8, om, exemplars=False, units=False, ineligible=False):
    """One family through a *MetricFamily helper.  Returns the Metric."""
    from prometheus_client import core
    from prometheus_client.samples import Exemplar
    kind = rng.choice(['counter', 'gauge', 'summary', 'histogram', 'gaugehistogram', 'info', 'stateset', 'unknown'])
    name = utf8_name(rng, stem) if utf8 and rng.random() < 0.6 else legacy_name(rng, stem)
    doc = adv_string(rng, 8)
    k = rng.randrange(0, 3)
    lnames = label_names(rng, k, utf8)
    unit = ''
    if units and kind not in ('info', 'stateset') and rng.random() < 0.4:
        unit = rng.choice(['seconds', 'bytes', 'x', 'total', 'info', 'count', 'created'])
        if utf8 and rng.random() < 0.35:
            unit = adv_string(rng, 4, empty_ok=False)     # any string the constructors accept in UTF-8 mode
    nchild = rng.randrange(1, 3) if k else 1
    used = set()

    def lvals():
        while True:      # distinct label sets per child: duplicates are not a meaningful registry content
            v = tuple(adv_string(rng, 5) for _ in range(k))
            if v not in used:
                used.add(v)
                return list(v)

    fam_ts = gen_timestamp(rng, om)

    def ts():
        # OpenMetrics treats e.g. all info samples of a family as one group, which must agree on timestamp presence
        # and not go backwards: one timestamp per family there; free per child in the text format
        return fam_ts if om else gen_timestamp(rng, om)

    def ex():
        if not exemplars or rng.random() < 0.6:
            return None
        labels = {}
        for i in range(rng.randrange(0, 3)):
            labels[('e%d' % i) + (adv_string(rng, 2) if utf8 and rng.random() < 0.3 else '')] = adv_string(rng, 4)
        t = None
        if rng.random() < 0.5:
            t = rng.choice([0, 0.0, 1, 1.5, 123.456, rng.randrange(0, 10 ** 9) / 8.0])
        return Exemplar(labels, gen_value(rng), t)
    if kind == 'counter':
        f = core.CounterMetricFamily(name, doc, labels=lnames, unit=unit)
        for _ in range(nchild):
            kw = {}
            if exemplars:
                kw['exemplar'] = ex()
            f.add_metric(lvals(), gen_value(rng, True), created=rng.choice([None, 123.5, 1e9]), timestamp=ts(), **kw)
    elif kind == 'gauge':
        f = core.GaugeMetricFamily(name, doc, labels=lnames, unit=unit)
        for _ in range(nchild):
            f.add_metric(lvals(), gen_value(rng), timestamp=ts())
    elif kind == 'unknown':
        f = core.UnknownMetricFamily(name, doc, labels=lnames, unit=unit)
        for _ in range(nchild):
            f.add_metric(lvals(), gen_value(rng), timestamp=ts())
    elif kind == 'summary':
        f = core.SummaryMetricFamily(name, doc, labels=lnames, unit=unit)
        for _ in range(nchild):
            f.add_metric(lvals(), rng.randrange(0, 100), abs(rng.uniform(0, 1e4)), timestamp=ts())
    elif kind in ('histogram', 'gaugehistogram'):
        cls = core.HistogramMetricFamily if kind == 'histogram' else core.GaugeHistogramMetricFamily
        f = cls(name, doc, labels=lnames, unit=unit)
        for _ in range(nchild):
            bounds = sorted(set(rng.choice([0.005, 0.5, 1.0, 2.5, 1e6, 1e10, 1.5e15]) for _ in range(rng.randrange(1, 4))))
            acc = 0
            buckets = []
            from prometheus_client.utils import floatToGoString
            for b in bounds + [math.inf]:
                acc += rng.randrange(0, 5)
                if exemplars and kind == 'histogram' and rng.random() < 0.3:
                    buckets.append((floatToGoString(b), acc, ex()))
                else:
                    buckets.append((floatToGoString(b), acc))
            if kind == 'histogram':
                f.add_metric(lvals(), buckets, sum_value=rng.choice([None, abs(rng.uniform(0, 100))]), timestamp=ts())
            else:
                f.add_metric(lvals(), buckets, gsum_value=rng.uniform(-10, 100) if not om else rng.uniform(0, 100), timestamp=ts())
    elif kind == 'info':
        f = core.InfoMetricFamily(name, doc, labels=lnames)
        for _ in range(nchild):
            f.add_metric(lvals(), {('i%d' % j) + (adv_string(rng, 2) if utf8 else ''): adv_string(rng, 5)
                                   for j in range(rng.randrange(0, 3))}, timestamp=ts())
    else:
        f = core.StateSetMetricFamily(name, doc, labels=lnames)
        for _ in range(nchild):
            f.add_metric(lvals(), {adv_string(rng, 4): rng.random() < 0.5 for _ in range(rng.randrange(1, 3))},
                         timestamp=ts())
    if ineligible and kind in ('gauge', 'unknown', 'summary', 'info') and f.samples and rng.random() < 0.25:
        # an exemplar where the format allows none (Metric.add_sample lets a custom collector do this): the exposition
        # must refuse it, since the parser does
        i = rng.randrange(len(f.samples))
        f.samples[i] = f.samples[i]._replace(exemplar=Exemplar({'t': adv_string(rng, 3)}, gen_value(rng), None))
    return f


def gen_instrumented(rng, reg, stem, utf8):
    """One metric through the instrumentation classes, registered in reg."""
    import prometheus_client as pc
    kind = rng.choice(['Counter', 'Gauge', 'Summary', 'Histogram', 'Info', 'Enum'])
    name = utf8_name(rng, stem) if utf8 and rng.random() < 0.5 else legacy_name(rng, stem)
    doc = adv_string(rng, 8)
    k = rng.randrange(0, 3)
    lnames = [n for n in label_names(rng, k, utf8)]
    try:
        if kind == 'Enum':
            states = list(dict.fromkeys(adv_string(rng, 4) for _ in range(rng.randrange(1, 4))))
            m = pc.Enum(name, doc, lnames, registry=reg, states=states)
        elif kind == 'Histogram':
            pool = [0.1, 1, 2.5, 1e6, 1e10] if rng.random() < 0.9 else [-2.5, -1, 0, 0.1, 1, 2.5]   # sometimes negative bounds
            m = pc.Histogram(name, doc, lnames, registry=reg,
                             buckets=sorted(set(rng.choice(pool) for _ in range(rng.randrange(1, 4)))))
        else:
            m = getattr(pc, kind)(name, doc, lnames, registry=reg)
    except ValueError:
        return None     # a name the constructors reject (e.g. reserved label name): not expressible
    for _ in range(rng.randrange(1, 3)):
        child = m.labels(*[adv_string(rng, 5) for _ in range(k)]) if k else m
        if kind == 'Counter':
            child.inc(abs(gen_small(rng)))
        elif kind == 'Gauge':
            child.set(gen_value(rng))
        elif kind in ('Summary', 'Histogram'):
            for _ in range(rng.randrange(0, 3)):
                child.observe(gen_small(rng))
        elif kind == 'Info':
            child.info({('k%d' % j): adv_string(rng, 5) for j in range(rng.randrange(0, 3))})
        else:
            child.state(rng.choice(states))
    return m


def gen_small(rng):
    return rng.choice([0, 1, 0.5, 2.5, 1e6, 3e10, 1e-3, 7])


def gen_registry(rng, utf8=True, om=False, exemplars=False, units=False, nfam=None, ineligible=False):
    from prometheus_client import CollectorRegistry
    reg = CollectorRegistry(auto_describe=False)
    n = nfam if nfam is not None else rng.randrange(1, 4)
    fams = []
    for i in range(n):
        stem = 'f%d' % i + rng.choice(['', '_', 'q'])
        if rng.random() < 0.7:
            fams.append(gen_helper_family(rng, stem + 'h', utf8, om, exemplars, units, ineligible))
        else:
            if fams:
                reg.register(ListCollector(fams))
                fams = []
            gen_instrumented(rng, reg, stem + 'i', utf8)
    if fams:
        reg.register(ListCollector(fams))
    return reg


# ---------- collected families -> model input ----------
def fclass_of(v):
    d = float(v)
    if d == math.inf:
        return Sym('pinf')
    if d == -math.inf:
        return Sym('ninf')
    if math.isnan(d):
        return Sym('nan')
    return (Sym('fin'), d > 0, repr(d))


def om_ts_of(t):
    from prometheus_client.samples import Timestamp
    if t is None:
        return None
    if isinstance(t, Timestamp):
        return some((Sym('nanos'), t.sec, t.nsec))
    if isinstance(t, bool):
        return some((Sym('repr'), str(t)))
    if isinstance(t, int):
        return some((Sym('int'), t))
    return some((Sym('repr'), str(t)))


def sample_in(s, drop_created_ts=False):
    ms = None if s.timestamp is None else some(int(float(s.timestamp) * 1000))
    ex = None
    if s.exemplar is not None:
        ex = some((list(s.exemplar.labels.items()), fclass_of(s.exemplar.value), om_ts_of(s.exemplar.timestamp)))
    return (s.name, list(s.labels.items()), fclass_of(s.value), ms, om_ts_of(s.timestamp), ex)


def families_in(fams):
    return [(f.name, f.documentation, f.type, f.unit, [sample_in(s) for s in f.samples]) for f in fams]


def encodable(fams):
    try:
        for f in fams:
            (f.name + f.documentation + f.unit).encode('utf-8')
            for s in f.samples:
                s.name.encode('utf-8')
                for k, v in s.labels.items():
                    (k + v).encode('utf-8')
        return True
    except UnicodeEncodeError:
        return False
