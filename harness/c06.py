"""C06 - a registry never holds two collectors claiming the same series name.
Implementation: prometheus_client.registry.CollectorRegistry (register / unregister / set_target_info / _get_names)
and the built-in metric classes registering themselves (prometheus_client.metrics.MetricWrapperBase.__init__).
Model: coq/model/Registry.v (step / collect).  Everything here observes the registry through public behaviour only:
exception classes, collect() (families and the order in which collectors are asked), get_target_info() and
restricted_registry([name]) look-ups (which collector is asked for a name)."""
import itertools
import math

from .sx import Sym, some, d_str, d_int, d_opt

RULE = ('histories of register / unregister / set_target_info over collectors drawn from the clash alphabet '
        '(x, x_total, x_sum, x_bucket, x_created, x_info, x_count, x_gsum, x_gcount, target, target_info x 8 family types, '
        'with units): custom collectors with describe(), without describe(), describing other families than they '
        'collect, describing one name twice; built-in Counter/Gauge/Summary/Histogram/Info/Enum registering themselves '
        'in their constructor; custom collector classes that are duck-typed and classes DERIVING from '
        'prometheus_client.registry.Collector (with and without a describe() of their own; without one they claim, under '
        'auto_describe, what collect() yields), the library\'s own GCCollector / PlatformCollector / ProcessCollector '
        'constructed on the registry under test, and nested CollectorRegistry objects (with families and target info) '
        'registered as collectors; auto_describe on and off; target info at construction and by set_target_info; '
        'custom collectors handing describe() / collect() back in every iterable shape (list, tuple, deque, generator '
        'function, generator expression, lazily building generator, iter(list), map, itertools.chain, iterator object, '
        're-iterable non-sequence, __getitem__-only sequence; empty ones included), for describe() and, under '
        'auto_describe, for collect(); '
        'collectors that CHANGE what they describe / collect in the middle of a history (op mut), created series '
        'switched off and on in the middle of a history (op created: disable_created_metrics / enable_created_metrics) '
        'and switched off from the start through PROMETHEUS_DISABLE_CREATED_SERIES in a child interpreter. '
        'Exhaustive: every history of length <= 3 over 14 ops (6 collectors) for 7 fixed collector sets (two of them: '
        'Collector subclasses, nested registries) and one set mixing '
        'the iterable shapes, length <= 2 for the library-collector set and for the described / undescribed sets under each '
        'of the 11 non-list shapes, duck-typed and (all 12 shapes) derived from registry.Collector, '
        'length 4 over 4 collectors; then seeded random histories up to length 40.  Non-trivial = at least one rejected call and one '
        'successful unregister, or a rejected call followed by a success of the same collector; distinct by case')
TRUSTED = ['CPython dict insertion order and set semantics (modelled as association lists)',
           'collector objects are abstracted to (describe() result, collect() result) = the sequence of families ONE pass '
           'over the returned iterable yields (whatever its shape: list, generator, one-shot iterator ...), re-read after '
           'every step that can change them; the names a collector claims are those of the family types it described when it was registered, '
           '_created included whether or not created series are exported; whether a collector HAS a describe() is how '
           'its class was written (own method), not hasattr',
           'values exposed by GCCollector / ProcessCollector (python_gc_*, process_*) move between collections and are '
           'masked; names, types, label sets are compared']
ASSUMPTIONS = ['claimed names follow the OpenMetrics suffix table of the property statement (counter: _total,_created; '
               'summary: _sum,_count,_created; histogram: _bucket,_sum,_count,_created; gaugehistogram: _bucket,_gsum,_gcount; '
               'info: _info); a collector without describe() claims names only under auto_describe']
TIME_BUDGET = {'quick': 120, 'thorough': 900}

TYPES = ['counter', 'gauge', 'summary', 'histogram', 'gaugehistogram', 'unknown', 'info', 'stateset']
# the property statement's table (independent of registry.py)
SPEC_SUFFIXES = {
    'counter': ['_total', '_created'],
    'summary': ['_sum', '_count', '_created'],
    'histogram': ['_bucket', '_sum', '_count', '_created'],
    'gaugehistogram': ['_bucket', '_gsum', '_gcount'],
    'info': ['_info'],
}
NAMES = ['x', 'x_total', 'x_sum', 'x_bucket', 'x_created', 'x_info', 'x_count', 'x_gsum', 'x_gcount', 'target',
         'target_info']
TI = 'target_info'


# ----------------------------------------------------------------------------------------------------------------
# building the Python objects of a case
# ----------------------------------------------------------------------------------------------------------------
def mk_ts(ts):
    from prometheus_client.samples import Timestamp
    if isinstance(ts, list):
        return Timestamp(ts[1], ts[2])
    return ts


def mk_ex(ex):
    from prometheus_client.samples import Exemplar
    if ex is None:
        return None
    return Exemplar(dict(ex[0]), ex[1], mk_ts(ex[2]))


def build_family(spec):
    from prometheus_client.metrics_core import Metric
    name, typ, help_, unit, samples = spec
    m = Metric(name, help_, typ, unit)
    for sn, labels, value, ts, ex in samples:
        m.add_sample(sn, dict(labels), value, mk_ts(ts), mk_ex(ex))
    return m


def fnum(v):
    v = float(v)
    if math.isnan(v):
        return 'nan'
    if v == 0:
        return '0.0'
    return repr(v)


def canon_ts(ts):
    from prometheus_client.samples import Timestamp
    if ts is None:
        return 'None'
    if isinstance(ts, Timestamp):
        return 'T%d.%d' % (ts.sec, ts.nsec)
    return fnum(ts)


def payload(s):
    """The opaque part of a sample: value, timestamp, exemplar (wall-clock _created values masked)."""
    if s.name.endswith('_created') and isinstance(s.value, float) and s.value > 1e9:
        return 'created'
    ex = s.exemplar
    exs = 'None' if ex is None else '%s/%s/%s' % (sorted(ex.labels.items()), fnum(ex.value), canon_ts(ex.timestamp))
    nh = getattr(s, 'native_histogram', None)
    return '%s|%s|%s%s' % (fnum(s.value), canon_ts(s.timestamp), exs, '' if nh is None else '|' + repr(nh))


ONE = '1.0|None|None'     # payload of the target_info sample (token 1 of the model)


# families of the library's own runtime collectors (GCCollector, ProcessCollector): their VALUES are counters of the
# interpreter / the process and move between two collections; names, types, label sets do not
VOLATILE = ('python_gc_', 'process_')


def canon_family(m):
    vol = m.name.startswith(VOLATILE)
    return [m.name, m.type, m.documentation, m.unit,
            [[s.name, [list(kv) for kv in sorted(s.labels.items())], 'volatile' if vol else payload(s)] for s in m.samples]]


# Every iterable shape a collector may legitimately hand back from describe() / collect() (both are only required to be
# an Iterable[Metric]): re-iterable containers, one-shot iterators, generators.  'genfunc' / 'lazy' make the METHOD itself a
# generator function (how custom collectors are usually written); 'lazy' builds each family only when it is asked for.
SHAPES = ['list', 'tuple', 'genfunc', 'iter', 'genexpr', 'lazy', 'map', 'chain', 'deque', 'iterable', 'iterator', 'getitem']
ONE_SHOT = ('genfunc', 'iter', 'genexpr', 'lazy', 'map', 'chain', 'iterator')


class OneShot:
    """An iterator object (no generator): exhausted after one pass, no len(), no indexing."""

    def __init__(self, items):
        self.items, self.i = list(items), 0

    def __iter__(self):
        return self

    def __next__(self):
        if self.i >= len(self.items):
            raise StopIteration
        self.i += 1
        return self.items[self.i - 1]


class Fresh:
    """An iterable that is no sequence: every iter() starts a fresh pass; no len(), no indexing."""

    def __init__(self, items):
        self.items = list(items)

    def __iter__(self):
        return iter(list(self.items))


class Indexed:
    """Iterable through the old sequence protocol only (__getitem__ until IndexError)."""

    def __init__(self, items):
        self.items = list(items)

    def __getitem__(self, i):
        if i < 0:
            raise IndexError(i)
        return self.items[i]


def shaped(shape, items):
    """items (a list) as an iterable of the given shape."""
    import collections
    items = list(items)
    if shape == 'tuple':
        return tuple(items)
    if shape == 'iter':
        return iter(items)
    if shape in ('genexpr', 'genfunc', 'lazy'):
        return (x for x in items)
    if shape == 'map':
        return map(lambda x: x, items)
    if shape == 'chain':
        return itertools.chain(items[:1], iter(items[1:]))
    if shape == 'deque':
        return collections.deque(items)
    if shape == 'iterable':
        return Fresh(items)
    if shape == 'iterator':
        return OneShot(items)
    if shape == 'getitem':
        return Indexed(items)
    return items


def copy_family(m):
    import copy
    c = copy.copy(m)
    c.samples = list(m.samples)
    return c


class Custom:
    """A collector without describe(); behaviours = [(describe result or None, families)], switched by op mut.
    The subclasses made by collector_class hand the same families back in another iterable shape."""

    def __init__(self, cid, behaviours, log):
        self.cid, self.behaviours, self.log = cid, behaviours, log
        self.desc, self.fams = behaviours[0]

    def switch(self, k):
        self.desc, self.fams = self.behaviours[k % len(self.behaviours)]

    def collect(self):
        self.log.append(self.cid)
        return list(self.fams)


class Described(Custom):
    def describe(self):
        return list(self.desc)


_CLASSES = {}


def collector_class(has_describe, dshape, cshape, base=None):
    """The class of a custom collector whose describe() / collect() return the given shapes.  base=None: a duck-typed
    class; base='Collector': a class deriving from prometheus_client.registry.Collector (the abstract base class the
    documentation recommends), with its own describe() only when has_describe."""
    key = (has_describe, dshape if has_describe else 'list', cshape, base)
    if key in _CLASSES:
        return _CLASSES[key]
    ns = {}
    if cshape == 'genfunc':
        def collect(self):
            self.log.append(self.cid)       # runs when the first family is asked for
            for f in list(self.fams):
                yield f
    elif cshape == 'lazy':
        def collect(self):
            self.log.append(self.cid)
            i = 0
            while i < len(self.fams):
                yield copy_family(self.fams[i])
                i += 1
    else:
        def collect(self):
            self.log.append(self.cid)
            return shaped(cshape, self.fams)
    if key[2] != 'list':
        ns['collect'] = collect
    if has_describe and dshape == 'genfunc':
        def describe(self):
            for m in list(self.desc):
                yield m
    elif has_describe and dshape == 'lazy':
        def describe(self):
            i = 0
            while i < len(self.desc):
                yield copy_family(self.desc[i])
                i += 1
    else:
        def describe(self):
            return shaped(dshape, self.desc)
    if has_describe and key[1] != 'list':
        ns['describe'] = describe
    bases = (Described if has_describe else Custom,)
    if base == 'Collector':
        import types
        from prometheus_client.registry import Collector
        bases += (Collector,)
        if 'collect' not in ns:
            ns['collect'] = collect        # the subclass itself implements the abstract method
        cls = types.new_class('Derived_%s_%s' % (key[1] if has_describe else 'nodesc', cshape), bases,
                              exec_body=lambda d: d.update(ns))
    else:
        cls = type('Custom_%s_%s' % (key[1] if has_describe else 'nodesc', cshape), bases, ns)
    _CLASSES[key] = cls
    return cls


def shape_of(spec):
    sh = spec.get('shape') or ['list', 'list']
    return [sh[0] if sh[0] in SHAPES else 'list', sh[1] if sh[1] in SHAPES else 'list']


def builtin_class(name):
    import prometheus_client
    return getattr(prometheus_client, name)


LIB_CLASSES = ['GCCollector', 'PlatformCollector', 'ProcessCollector']


def lib_class(name):
    """The library's own collector classes (they derive from registry.Collector and have no describe())."""
    import prometheus_client
    return getattr(prometheus_client, name if name in LIB_CLASSES else 'PlatformCollector')


class Plain:
    """A collector inside a nested registry (never registered with the registry under test)."""

    def __init__(self, fams):
        self.fams = fams

    def collect(self):
        return list(self.fams)


def own_describe(spec):
    """Whether the collector's class brings its OWN describe(): a custom collector generated with one and the built-in
    metric classes.  Decided by how the collector was written, not by hasattr: a collector that merely inherits from
    registry.Collector, the library's runtime collectors and a nested registry have none, and what such a collector
    claims under auto_describe is what its collect() yields."""
    if spec['k'] == 'custom':
        return spec['desc'] is not None
    return spec['k'] == 'builtin'


class World:
    """The collector objects of one case, the abstract environment the model gets, and the call log."""

    def __init__(self, case):
        from prometheus_client.metrics_core import Metric
        self.case = case
        self.log = []
        self.objs = []       # per cid: the object used for register/unregister (custom: the collector; builtin: twin)
        self.live = {}       # builtin cid -> object constructed with registry=r
        self.envs = []       # successive snapshots: per cid (describe or None, [canonical families])
        self.step_env = []   # per step of the history: index of the snapshot in force during (Nop: after) the step
        u = {TI}
        for cid, spec in enumerate(case['colls']):
            if spec['k'] == 'custom':
                behaviours = []
                for b in [spec] + list(spec.get('alts') or []):
                    fams = [build_family(f) for f in b['fams']]
                    desc = None if spec['desc'] is None else [Metric(n, '', t, u_) for n, t, u_ in (b['desc'] or [])]
                    behaviours.append((desc, fams))
                    for m in (desc or []) + fams:
                        u.add(m.name)
                        for s in SPEC_SUFFIXES.get(m.type, []):
                            u.add(m.name + s)
                    for m in fams:
                        for s in m.samples:
                            u.add(s.name)
                dshape, cshape = shape_of(spec)
                o = collector_class(spec['desc'] is not None, dshape, cshape, spec.get('base'))(cid, behaviours, self.log)
            else:
                o = self.construct(cid, spec, None)
                for m in (list(o.describe()) if spec['k'] == 'builtin' else []) + list(o.collect()):
                    u.add(m.name)
                    for s in SPEC_SUFFIXES.get(m.type, []):
                        u.add(m.name + s)
                    for s in m.samples:
                        u.add(s.name)
            self.objs.append(o)
        self.universe = sorted(u)      # the names anything in this case can claim or expose
        self.snapshot()

    @property
    def env(self):
        return self.envs[-1]

    def snapshot(self):
        """Re-reads what every collector describes and collects now; returns the index of that snapshot."""
        env = []
        for cid, o in enumerate(self.objs):
            o = self.live.get(cid, o)
            desc = None
            if own_describe(self.case['colls'][cid]):
                desc = [[m.name, m.type] for m in o.describe()]
            env.append((desc, [canon_family(m) for m in o.collect()]))
        del self.log[:]
        if not self.envs or self.envs[-1] != env:
            self.envs.append(env)
        return len(self.envs) - 1

    def construct(self, cid, spec, registry):
        """The collector objects that are not instances of the harness's own classes: a built-in metric, one of the
        library's runtime collectors (both register themselves with `registry` in their constructor), or a nested
        CollectorRegistry (registered like any collector).  collect() is wrapped on the instance to log the call."""
        if spec['k'] == 'lib':
            from prometheus_client import CollectorRegistry
            o = lib_class(spec['cls'])(registry=registry if registry is not None else CollectorRegistry())
        elif spec['k'] == 'nested':
            from prometheus_client import CollectorRegistry
            o = CollectorRegistry(auto_describe=False, target_info=dict(spec['ti']) if spec.get('ti') else None)
            for f in spec['fams']:
                o.register(Plain([build_family(f)]))
        else:
            cls = builtin_class(spec['cls'])
            kw = dict(registry=registry)
            if spec.get('unit'):
                kw['unit'] = spec['unit']
            if spec['cls'] == 'Enum':
                kw['states'] = ['on', 'off']
            o = cls(spec['name'], 'help ' + spec['name'], spec.get('labels', []), **kw)
            for lv in spec.get('children', []):
                o.labels(*lv)
        inner = o.collect
        log = self.log

        def collect():
            log.append(cid)
            return inner()
        o.collect = collect
        return o

    def claims(self, cid, auto):
        """Names collector cid claims according to the property statement."""
        desc, fams = self.env[cid]
        if desc is None:
            desc = [[f[0], f[1]] for f in fams] if auto else []
        out = set()
        for n, t in desc:
            out.add(n)
            for s in SPEC_SUFFIXES.get(t, []):
                out.add(n + s)
        return out

    def apply(self, r, op):
        """One step of the history: a call on the registry, or a change of the collectors (op mut / created)."""
        out = self.call(r, op)
        self.step_env.append(self.snapshot() if op[0] in ('mut', 'created') else len(self.envs) - 1)
        return out

    def call(self, r, op):
        try:
            if op[0] == 'reg':
                cid = op[1]
                spec = self.case['colls'][cid]
                if spec['k'] in ('builtin', 'lib') and cid not in self.live:
                    self.live[cid] = self.construct(cid, spec, r)      # registers itself, or raises
                else:
                    r.register(self.live.get(cid, self.objs[cid]))
            elif op[0] == 'unreg':
                r.unregister(self.live.get(op[1], self.objs[op[1]]))
            elif op[0] == 'mut':
                o = self.objs[op[1]]
                if isinstance(o, Custom):
                    o.switch(op[2])
            elif op[0] == 'created':
                set_created(op[1])
            else:
                r.set_target_info(dict(op[1]) if op[1] is not None else None)
            return 'ok'
        except ValueError:
            return 'ValueError'
        except KeyError:
            return 'KeyError'
        except Exception as e:     # any other class is reported as it is
            return type(e).__name__

    def observe(self, r):
        """[collectors asked by collect() (sorted multiset), families (sorted multiset), {name: owner}, target info]"""
        del self.log[:]
        fams = msort([canon_family(m) for m in safe_collect(r)])     # order of collection is C07's business
        seq = sorted(self.log)
        ti = r.get_target_info()
        ti = [list(kv) for kv in sorted(ti.items())] if ti else []
        owners = {}
        for n in self.universe:
            if n == TI and not ti:
                continue      # how a restricted registry treats this name is C07's business
            del self.log[:]
            got = safe_collect(r.restricted_registry([n]))
            if self.log:
                owners[n] = sorted(self.log)
            elif n == TI and got:
                owners[n] = 'ti'
        del self.log[:]
        return [seq, fams, owners, ti]


def set_created(on):
    from prometheus_client import metrics
    (metrics.enable_created_metrics if on else metrics.disable_created_metrics)()


class Held:
    """The names each registered collector holds according to the property: those of the families it described
    when it was registered (all of its successful registrations while registered), released by unregister."""

    def __init__(self):
        self.names = {}

    def update(self, op, outcome, mine):
        if outcome != 'ok':
            return
        if op[0] == 'reg':
            self.names[op[1]] = self.names.get(op[1], set()) | mine
        elif op[0] == 'unreg':
            self.names.pop(op[1], None)

    def of(self, c):
        return self.names.get(c, set())


class Raised:
    """Stands for a family when collect() itself raised (no collector of a case raises on its own)."""
    def __init__(self, e):
        self.name, self.type, self.documentation, self.unit, self.samples = 'collect() raised', type(e).__name__, '', '', []


def safe_collect(r):
    out = []
    try:
        for m in r.collect():
            out.append(m)
    except Exception as e:
        out.append(Raised(e))
    return out


def msort(fams):
    import json
    return sorted(fams, key=lambda f: json.dumps(f, sort_keys=True))


def new_registry(case):
    from prometheus_client import CollectorRegistry
    if case.get('init_ti'):
        return CollectorRegistry(auto_describe=case['auto'], target_info=dict(case['init_ti']))
    return CollectorRegistry(auto_describe=case['auto'])


TARGET_FAMILY = lambda ti: ['target', 'info', 'Target metadata', '', [[TI, ti, ONE]]]


def minus_target(fams, ti):
    """fams without the registry's own target family (ONE occurrence: a collector that claims nothing - no describe(),
    auto_describe off - may expose an equal family, e.g. a nested registry with the same target info)."""
    fams = list(fams)
    if ti and TARGET_FAMILY(ti) in fams:
        fams.remove(TARGET_FAMILY(ti))
    return fams


def step_oracle(w, auto, held, op, outcome, before, after):
    """The property on one step, from public observations only.  Returns a list of violation strings.
    held (a Held) = the names each registered collector was registered under; w.claims(c, auto) = what c describes now."""
    v = []
    seq0, fams0, own0, ti0 = before
    seq1, fams1, own1, ti1 = after
    for f in fams1:
        if f[0] == 'collect() raised':
            v.append('collect() raised %s' % f[1])
    # -- collect() hands on what the collectors it asks expose (one pass over whatever iterable they return), plus target info
    exp_fams = msort(([TARGET_FAMILY(ti1)] if ti1 else []) + [f for c in seq1 for f in w.env[c][1]])
    if not v and fams1 != exp_fams:
        v.append('collect() asks collectors %s and yields %s; they expose %s' % (seq1, fams1[:4], exp_fams[:4]))
    failed = outcome != 'ok'
    mine = w.claims(op[1], auto) if op[0] == 'reg' else set()
    held0 = {c: set(ns) for c, ns in held.names.items()}
    held.update(op, outcome, mine)
    # -- no two registered collectors claim one name (registered = asked by collect())
    if len(set(seq1)) != len(seq1):
        v.append('collect() asks collector(s) %s more than once' % sorted(c for c in set(seq1) if seq1.count(c) > 1))
    holder = {}
    for c in dict.fromkeys(seq1):
        for n in held.of(c):
            if n in holder:
                v.append('registered collectors %d and %d both claim %r' % (holder[n], c, n))
            holder[n] = c
    if ti1 and TI in holder:
        v.append('target info is configured and registered collector %d claims target_info' % holder[TI])
    for n, o in own1.items():
        if o != 'ti' and len(o) != 1:
            v.append('name %r looks up collectors %s' % (n, o))
    # -- a failed call raises ValueError (register, set_target_info) and changes nothing
    if failed and before != after:
        what = [k for k, a, b in zip(('collect order', 'families', 'name ownership', 'target info'), before, after) if a != b]
        v.append('%s raised %s but changed the registry (%s)' % (op[0], outcome, ', '.join(what)))
    if op[0] == 'reg':
        c = op[1]
        taken = set()
        for d in seq0:
            if d != c:
                taken |= held0.get(d, set())
        if ti0:
            taken.add(TI)
        clash = sorted(mine & taken)
        selfclash = c in seq0 and bool(mine & held0.get(c, set()))
        if failed and outcome != 'ValueError':
            v.append('register raised %s' % outcome)
        if clash and not failed:
            v.append('register of collector %d succeeded although %r is claimed by a registered collector or target info'
                     % (c, clash[0]))
        if not clash and not selfclash:
            if failed:
                v.append('register of collector %d raised %s although none of its names %s is claimed'
                         % (c, outcome, sorted(mine)))
            else:
                if seq1 != (seq0 if c in seq0 else sorted(seq0 + [c])):
                    v.append('after register(%d) collect() asks %s, expected %s' % (c, seq1, sorted(seq0 + [c])))
                exp = dict(own0)
                for n in mine:
                    if n != TI or ti1:
                        exp[n] = [c]
                if own1 != exp:
                    v.append('after register(%d) name ownership is %s, expected %s' % (c, own1, exp))
    elif op[0] == 'unreg':
        c = op[1]
        if c in seq0:
            if failed:
                v.append('unregister of registered collector %d raised %s' % (c, outcome))
            else:
                if seq1 != [d for d in seq0 if d != c]:
                    v.append('after unregister(%d) collect() asks %s' % (c, seq1))
                exp = {n: o for n, o in own0.items() if n not in held0.get(c, set())}
                if own1 != exp:
                    v.append('unregister(%d) did not release all and only the names it was registered under %s: '
                             'ownership %s, expected %s' % (c, sorted(held0.get(c, set())), own1, exp))
        elif before != after:
            v.append('unregister of unregistered collector %d changed the registry' % c)
    elif op[0] in ('mut', 'created'):
        # not a call on the registry: what is registered and who owns which name cannot change
        if [seq0, own0, ti0] != [seq1, own1, ti1]:
            v.append('%s is no registry call but changed collect order / name ownership / target info: %s -> %s'
                     % (op[0], [seq0, own0, ti0], [seq1, own1, ti1]))
    else:
        lab = [list(kv) for kv in sorted((op[1] or {}).items())]
        if lab:
            clash = (not ti0) and any(TI in held0.get(d, set()) for d in seq0)
            if failed and outcome != 'ValueError':
                v.append('set_target_info raised %s' % outcome)
            if clash and not failed:
                v.append('set_target_info succeeded although a registered collector claims target_info')
            if not clash:
                if failed:
                    v.append('set_target_info raised %s without a clash' % outcome)
                elif ti1 != lab or seq1 != seq0 or fams1 != msort(minus_target(fams0, ti0) + [TARGET_FAMILY(lab)]):
                    v.append('after set_target_info(%s): target info %s, families %s' % (lab, ti1, fams1[:3]))
        else:
            if failed:
                v.append('set_target_info(%r) raised %s' % (op[1], outcome))
            elif ti1 or seq1 != seq0 or fams1 != minus_target(fams0, ti0):
                v.append('after clearing target info: target info %s, families changed beyond the target family' % ti1)
    return v


def impl(case):
    """Runs the history.  A case with envvar=True runs in a child interpreter started with
    PROMETHEUS_DISABLE_CREATED_SERIES=true (the setting is read when prometheus_client.metrics is imported)."""
    if case.get('envvar') and not IN_WORKER:
        obs = worker().run(case)
    else:
        obs = impl_here(case)
    remember(case, obs)
    return obs


def impl_here(case):
    try:
        w = World(case)
        r = new_registry(case)
        auto = case['auto']
        held = Held()
        steps, viol = [], []
        prev = w.observe(r)
        if case.get('init_ti'):
            lab = [list(kv) for kv in sorted(case['init_ti'].items())]
            if prev != [[], [TARGET_FAMILY(lab)], {TI: 'ti'}, lab]:
                viol.append('fresh registry with target_info=%s observes as %s' % (lab, prev))
        elif prev != [[], [], {}, []]:
            viol.append('fresh registry observes as %s' % prev)
        for i, op in enumerate(case['ops']):
            out = w.apply(r, op)
            cur = w.observe(r)
            steps.append([out] + cur)
            for s in step_oracle(w, auto, held, op, out, prev, cur):
                viol.append('step %d %s: %s' % (i, op, s))
            prev = cur
        return {'steps': steps, 'viol': viol, 'envs': [[[d, f] for d, f in env] for env in w.envs], 'step_env': w.step_env}
    finally:
        set_created(not (case.get('envvar') and IN_WORKER))     # the setting is global to the interpreter


# ---- child interpreter with created series disabled through the environment
IN_WORKER = False
_WORKER = None
_LAST = [None, None]


def remember(case, obs):
    _LAST[0], _LAST[1] = case, obs


def history_of(case, run=None):
    """(snapshots of the collectors, snapshot index per step) observed while the implementation ran the case."""
    if _LAST[0] is not case and _LAST[0] != case:
        (run or impl)(case)
    return _LAST[1]['envs'], _LAST[1]['step_env']


class Worker:
    def __init__(self):
        import os
        import subprocess
        import sys
        env = dict(os.environ, PROMETHEUS_DISABLE_CREATED_SERIES='true')
        self.p = subprocess.Popen([sys.executable, '-c', 'from harness.c06 import worker_main; worker_main()'],
                                  stdin=subprocess.PIPE, stdout=subprocess.PIPE, text=True, env=env)

    def run(self, case):
        import json
        self.p.stdin.write(json.dumps(case) + '\n')
        self.p.stdin.flush()
        line = self.p.stdout.readline()
        if not line:
            raise RuntimeError('the child interpreter (PROMETHEUS_DISABLE_CREATED_SERIES=true) died')
        return json.loads(line)

    def close(self):
        try:
            self.p.stdin.close()
            self.p.wait(timeout=5)
        except Exception:
            self.p.kill()


def worker():
    global _WORKER
    if _WORKER is None or _WORKER.p.poll() is not None:
        import atexit
        _WORKER = Worker()
        atexit.register(_WORKER.close)
    return _WORKER


def worker_main():
    import json
    import sys
    global IN_WORKER
    IN_WORKER = True
    out = sys.stdout
    sys.stdout = sys.stderr          # nothing but replies on the pipe
    for line in sys.stdin:
        try:
            obs = impl_here(json.loads(line))
        except Exception as e:
            obs = {'steps': [], 'viol': ['child interpreter: %s: %s' % (type(e).__name__, e)], 'envs': [], 'step_env': []}
        out.write(json.dumps(obs) + '\n')
        out.flush()


# ----------------------------------------------------------------------------------------------------------------
# the model side
# ----------------------------------------------------------------------------------------------------------------
class Tokens:
    def __init__(self):
        self.of = {ONE: 1}
        self.back = {1: ONE}

    def tok(self, p):
        if p not in self.of:
            t = len(self.of) + 1
            self.of[p] = t
            self.back[t] = p
        return self.of[p]


def enc_labels(l):
    return [(k, v) for k, v in l]


def enc_family(f, tk):
    return (f[0], Sym(f[1]), f[2], f[3], [(s[0], enc_labels(s[1]), tk.tok(s[2])) for s in f[4]])


def enc_env(env, tk):
    out = []
    for cid, (desc, fams) in enumerate(env):
        d = None if desc is None else some([(n, Sym(t)) for n, t in desc])
        out.append((cid, d, [enc_family(f, tk) for f in fams]))
    return out


def enc_envs(envs, tk):
    return [enc_env(env, tk) for env in envs]


def enc_op(op):
    if op[0] == 'reg':
        return (Sym('reg'), op[1])
    if op[0] == 'unreg':
        return (Sym('unreg'), op[1])
    if op[0] in ('mut', 'created'):
        return Sym('nop')
    return (Sym('sti'), [(k, v) for k, v in sorted((op[1] or {}).items())])


def dec_labels(a):
    return [list(kv) for kv in sorted([d_str(k), d_str(v)] for k, v in a)]


def dec_family(a, tk):
    return [d_str(a[0]), a[1], d_str(a[2]), d_str(a[3]),
            [[d_str(s[0]), dec_labels(s[1]), tk.back.get(d_int(s[2]), '?%s' % s[2])] for s in a[4]]]


def model_steps(case, step_env):
    """((snapshot-index op) ...); target info given to the constructor is a first set_target_info."""
    steps = [(i, enc_op(o)) for i, o in zip(step_env, case['ops'])]
    if case.get('init_ti'):
        steps = [(0, enc_op(['sti', case['init_ti']]))] + steps
    return steps


ORIG = False      # set to True to compare against the model of the pinned (unrepaired) source


def universe_of(envs):
    u = {TI}
    for env in envs:
        for desc, fams in env:
            for n, t in (desc or []) + [[f[0], f[1]] for f in fams]:
                u.add(n)
                for s in SPEC_SUFFIXES.get(t, []):
                    u.add(n + s)
    return u


def model(m, case):
    envs, step_env = history_of(case)
    tk = Tokens()
    rep = m.call('c06_run', ORIG, case['auto'], enc_envs(envs, tk), model_steps(case, step_env))
    if case.get('init_ti'):
        rep = rep[1:]
    universe = universe_of(envs)
    steps = []
    for st in rep:
        out, c2n, n2c, fams, ti = st
        out = d_opt(lambda x: x, out)
        ti = dec_labels(ti)
        owners = {}
        for n, o in n2c:
            n = d_str(n)
            if n == TI and not ti:
                continue
            owners[n] = 'ti' if o == 'ti' else [d_int(o[1])]
            if n not in universe:
                owners[n] = 'outside-universe'
        if ti:      # the implementation yields the target family whenever target info is configured
            owners.setdefault(TI, 'ti')
        steps.append(['ok' if out is None else out, sorted(d_int(c) for c, _ in c2n),
                      msort([dec_family(f, tk) for f in fams]), owners, ti])
    return {'steps': steps}


def same(a, b):
    return a['steps'] == b['steps']


def direct(case, obs):
    if obs['viol']:
        return '; '.join(obs['viol'][:3])
    return None


def nontrivial(case, obs):
    outs = [(op, st[0]) for op, st in zip(case['ops'], obs['steps'])]
    rejected = [op for op, o in outs if o != 'ok']
    if not rejected:
        return False
    if any(op[0] == 'unreg' and o == 'ok' for op, o in outs):
        return True
    for i, (op, o) in enumerate(outs):
        if o != 'ok' and any(op2 == op and o2 == 'ok' for op2, o2 in outs[i + 1:]):
            return True
    return False


def classify(case, obs):
    keys = ['len<=4' if len(case['ops']) <= 4 else 'len<=12' if len(case['ops']) <= 12 else 'len>12',
            'auto' if case['auto'] else 'noauto']
    for op, st in zip(case['ops'], obs['steps']):
        keys.append('%s:%s' % (op[0], st[0]))
    for c in case['colls']:
        if c['k'] in ('lib', 'nested'):
            keys.append('coll:' + (c['cls'] if c['k'] == 'lib' else 'nested-registry'))
        else:
            keys.append('coll:' + (c['cls'] if c['k'] == 'builtin' else 'custom-nodesc' if c['desc'] is None else 'custom-desc')
                        + ('-derived-from-Collector' if c.get('base') else ''))
        if c['k'] == 'custom':
            d, k = shape_of(c)
            if c['desc'] is not None:
                keys.append('describe-shape:' + d)
            keys.append('collect-shape:' + k)
    if obs['steps'] and obs['steps'][-1][4]:
        keys.append('ends-with-target-info')
    if case.get('envvar'):
        keys.append('PROMETHEUS_DISABLE_CREATED_SERIES')
    if len(obs.get('envs', [])) > 1:
        keys.append('collectors-changed-during-history')
    return keys


def neighbours(case):
    out = []
    ops = case['ops']
    for i in range(len(ops)):
        out.append(dict(case, ops=ops[:i] + ops[i + 1:]))
    for i in range(len(ops) - 1):
        out.append(dict(case, ops=ops[:i] + [ops[i + 1], ops[i]] + ops[i + 2:]))
    for c in range(len(case['colls'])):
        out.append(dict(case, ops=ops + [['reg', c]]))
        out.append(dict(case, ops=ops + [['unreg', c], ['reg', c]]))
        for d in range(len(case['colls'])):
            if d != c:
                out.append(dict(case, ops=ops + [['unreg', c], ['reg', d]]))
    out.append(dict(case, ops=ops + [['sti', {'a': 'b'}]]))
    out.append(dict(case, auto=not case['auto']))
    out.append(dict(case, ops=[['created', False]] + ops))
    out.append(dict(case, envvar=not case.get('envvar')))
    for sh in ('genfunc', 'iter', 'tuple'):
        out.append(dict(case, colls=[shape(c, sh, sh) if c['k'] == 'custom' else c for c in case['colls']]))
    for c, spec in enumerate(case['colls']):
        if spec.get('alts'):
            out.append(dict(case, ops=ops + [['mut', c, 1], ['unreg', c]]))
    out.append(dict(case, colls=[derived(c) if c['k'] == 'custom' else c for c in case['colls']]))
    return out


def shrinks(case):
    ops = case['ops']
    for i in range(len(ops)):
        yield dict(case, ops=ops[:i] + ops[i + 1:])
    on_coll = ('reg', 'unreg', 'mut')
    used = {op[1] for op in ops if op[0] in on_coll}
    for i in range(len(case['colls']) - 1, -1, -1):
        if i not in used and len(case['colls']) > 1:       # drop a collector no call mentions, renumbering the rest
            yield dict(case, colls=case['colls'][:i] + case['colls'][i + 1:],
                       ops=[op if op[0] not in on_coll else [op[0], op[1] - (1 if op[1] > i else 0)] + op[2:] for op in ops])
            break
    if case.get('envvar'):
        yield dict(case, envvar=False)
    if case.get('init_ti'):
        yield dict(case, init_ti=None)
    for i, c in enumerate(case['colls']):
        if c['k'] == 'custom' and shape_of(c) != ['list', 'list']:      # towards plain lists, one method at a time
            d, k = shape_of(c)
            for sh in (['list', 'list'], ['list', k], [d, 'list']):
                if sh != [d, k]:
                    cs = list(case['colls'])
                    cs[i] = shape(c, *sh)
                    yield dict(case, colls=cs)
    for i, c in enumerate(case['colls']):
        if c.get('base'):       # towards a duck-typed class
            cs = list(case['colls'])
            cs[i] = {k: v for k, v in c.items() if k != 'base'}
            yield dict(case, colls=cs)
    for i, c in enumerate(case['colls']):
        if c['k'] == 'nested' and (len(c['fams']) > 1 or (c['fams'] and c.get('ti'))):
            for j in range(len(c['fams'])):
                cs = list(case['colls'])
                cs[i] = dict(c, fams=c['fams'][:j] + c['fams'][j + 1:])
                yield dict(case, colls=cs)
        if c['k'] == 'custom' and len(c['fams']) > 1:
            for j in range(len(c['fams'])):
                cs = list(case['colls'])
                cs[i] = dict(c, fams=c['fams'][:j] + c['fams'][j + 1:])
                yield dict(case, colls=cs)
        if c['k'] == 'custom' and c['desc'] and len(c['desc']) > 1:
            for j in range(len(c['desc'])):
                cs = list(case['colls'])
                cs[i] = dict(c, desc=c['desc'][:j] + c['desc'][j + 1:])
                yield dict(case, colls=cs)


# ----------------------------------------------------------------------------------------------------------------
# generators
# ----------------------------------------------------------------------------------------------------------------
def fam(name, typ, samples=None, unit='', help_='h'):
    """A family spec with the samples its type normally exposes (value tokens differ per sample)."""
    if samples is None:
        full = name if not unit or name.endswith('_' + unit) else name + '_' + unit
        sfx = {'counter': ['_total', '_created'], 'summary': ['_count', '_sum'], 'histogram': ['_bucket', '_count', '_sum'],
               'gaugehistogram': ['_bucket', '_gcount', '_gsum'], 'info': ['_info']}.get(typ, [''])
        samples = [[full + s, {'le': '+Inf'} if s == '_bucket' else {}, float(i + 1), None, None] for i, s in enumerate(sfx)]
    return [name, typ, help_, unit, samples]


def described(*fams, **kw):
    desc = kw.get('desc')
    if desc is None:
        desc = [[f[0], f[1], f[3]] for f in fams]
    return {'k': 'custom', 'desc': desc, 'fams': list(fams)}


def undescribed(*fams):
    return {'k': 'custom', 'desc': None, 'fams': list(fams)}


def changing(base, *alts):
    """A custom collector that can be switched (op mut) to other behaviours of the same kind."""
    return dict(base, alts=[{'desc': a['desc'], 'fams': a['fams']} for a in alts])      # the shape is that of base


def shape(coll, dshape, cshape):
    """The custom collector coll with describe() / collect() returning the given iterable shapes (see SHAPES)."""
    c = dict(coll)
    c.pop('shape', None)
    if [dshape, cshape] != ['list', 'list']:
        c['shape'] = [dshape, cshape]
    return c


def derived(coll):
    """The custom collector coll as a class deriving from prometheus_client.registry.Collector (own describe() or not
    as before)."""
    return dict(coll, base='Collector')


def lib(cls):
    """One of the library's own collectors (GCCollector / PlatformCollector / ProcessCollector), constructed on the
    registry under test."""
    return {'k': 'lib', 'cls': cls}


def nested(*fams, **kw):
    """A CollectorRegistry holding one plain collector per family (and target info ti), registered as a collector."""
    return {'k': 'nested', 'fams': list(fams), 'ti': kw.get('ti')}


def builtin(cls, name, unit='', labels=(), children=()):
    return {'k': 'builtin', 'cls': cls, 'name': name, 'unit': unit, 'labels': list(labels),
            'children': [list(c) for c in children]}


FIXED_SETS = [
    # custom collectors with describe(): the suffix table
    ('described', [described(fam('x', 'counter')), described(fam('x_total', 'gauge')), described(fam('x_created', 'gauge')),
                   described(fam('x', 'summary')), described(fam('x_sum', 'gauge')),
                   described(fam('target', 'info', [[TI, {'a': 'b'}, 1.0, None, None]]))], [False]),
    # the built-in classes registering themselves (the default registry has auto_describe on)
    ('builtin', [builtin('Counter', 'x_total'), builtin('Gauge', 'x_total'), builtin('Histogram', 'x'),
                 builtin('Gauge', 'x_bucket'), builtin('Info', 'target'), builtin('Gauge', 'x', unit='gcount')], [True]),
    # no describe(): names only under auto_describe
    ('undescribed', [undescribed(fam('x', 'counter')), undescribed(fam('x_total', 'gauge')),
                     undescribed(fam('x', 'gaugehistogram')), undescribed(fam('x_gsum', 'gauge')),
                     undescribed(fam('x', 'info')), undescribed(fam('x_info', 'gauge'), fam('target_info', 'unknown'))],
     [True, False]),
    # one collector describing a name twice; describe() != collect(); empty describe()
    ('repeated', [described(fam('x', 'counter'), fam('x_total', 'gauge')), described(fam('x_total', 'gauge')),
                  described(fam('x', 'histogram'), fam('x', 'summary')), described(fam('x_count', 'unknown')),
                  described(fam('x_created', 'gauge'), desc=[]), described(fam('x', 'stateset'), desc=[['x_gsum', 'gauge', '']])],
     [False, True]),
    # units, Summary/Enum, labelled parents
    ('units', [builtin('Counter', 'x', unit='total'), builtin('Summary', 'x'), builtin('Enum', 'x_count'),
               builtin('Gauge', 'x', labels=['l'], children=[['a'], ['b']]), described(fam('x', 'gauge', unit='sum')),
               builtin('Gauge', TI)], [True]),
    # collector classes DERIVING from registry.Collector: without describe() of their own they claim, under auto_describe,
    # what collect() yields - exactly like a duck-typed collector (the fourth one)
    ('derived', [derived(undescribed(fam('x', 'counter'))), derived(undescribed(fam('x_total', 'gauge'))),
                 derived(described(fam('x_created', 'gauge'))), undescribed(fam('x', 'summary')),
                 derived(undescribed(fam('x_sum', 'gauge'), fam('target', 'info', [[TI, {'a': 'b'}, 1.0, None, None]]))),
                 builtin('Gauge', 'x_total')], [True, False]),
    # registries registered as collectors of another registry (CollectorRegistry has collect() and no describe())
    ('nested', [nested(fam('x', 'counter')), nested(fam('x_total', 'gauge'), fam('x_sum', 'gauge')), nested(ti={'a': 'b'}),
                undescribed(fam('x', 'histogram')), builtin('Gauge', 'x_created'), derived(described(fam('x_sum', 'gauge')))],
     [True, False]),
]
TI_ON = {'a': 'b'}

# the library's own collectors on a private registry (their values move: payloads masked, see VOLATILE); not shared with
# C07, whose HTTP comparison needs two collections to agree on values
LIB_SET = ('lib', [lib('GCCollector'), lib('GCCollector'), lib('PlatformCollector'), lib('ProcessCollector'),
                   builtin('Gauge', 'python_gc_collections_total'), described(fam('python_info', 'gauge'))], [True])

# the iterable shapes mixed in one registry (auto_describe on: undescribed collectors are described by collect());
# the last one describes nothing through a generator that yields nothing
SHAPE_SET = ('shapes', [shape(described(fam('x', 'counter')), 'genfunc', 'genfunc'),
                        shape(undescribed(fam('x_total', 'gauge')), 'list', 'iter'),
                        shape(undescribed(fam('x_count', 'gauge'), fam('x', 'histogram')), 'list', 'genfunc'),
                        shape(described(fam('x_bucket', 'gauge')), 'iterator', 'tuple'),
                        shape(described(fam('x_sum', 'gauge'), fam('x', 'info')), 'lazy', 'genexpr'),
                        shape(described(fam('x_created', 'gauge'), desc=[]), 'genfunc', 'lazy')], [True])


def shape_sets():
    """The described set (describe() decides) and the undescribed set (auto_describe: collect() decides), every custom
    collector returning shape sh from both methods; then pairs of different shapes."""
    for sh in SHAPES[1:]:
        yield sh, [shape(c, sh, sh) for c in FIXED_SETS[0][1]], False
        yield sh, [shape(c, sh, sh) for c in FIXED_SETS[2][1]], True
    # the same through classes deriving from registry.Collector (plain lists included)
    for sh in SHAPES:
        yield sh, [derived(shape(c, sh, sh)) for c in FIXED_SETS[2][1]], True
        yield sh, [derived(shape(c, sh, sh)) for c in FIXED_SETS[0][1]], False

# collector sets with their own extra ops: (name, collectors, auto_describe, extra ops)
DYNAMIC_SETS = [
    # collectors whose describe() / collect() output changes between register and unregister
    ('changing', [changing(undescribed(fam('x', 'gauge')), undescribed(fam('x_total', 'gauge'))),
                  builtin('Gauge', 'x_total'),
                  changing(described(fam('x', 'counter')), described(fam('x_sum', 'gauge')), described()),
                  described(fam('x_sum', 'gauge'))],
     True, [['mut', 0, 1], ['mut', 0, 0], ['mut', 2, 1], ['mut', 2, 2], ['sti', TI_ON]]),
]
CREATED_SETS = [
    # created series switched off / on: a family keeps claiming <name>_created
    ('created', [builtin('Counter', 'x'), builtin('Gauge', 'x_created'), builtin('Summary', 'x'),
                 undescribed(fam('x', 'histogram')), described(fam('x_created', 'gauge'))],
     True, [['created', False], ['created', True]]),
]


def scenarios(colls):
    """a registered, b registered (or rejected), a changes, a unregistered, b and a registered again: for all a, b, changes"""
    n = len(colls)
    for a in range(n):
        changes = [['mut', a, k] for k in range(1, 1 + len(colls[a].get('alts') or []))] or [['created', False]]
        for b in range(n):
            if a != b:
                for ch in changes:
                    yield [['reg', a], ['reg', b], ch, ['unreg', a], ['reg', b], ['unreg', b], ['reg', a], ['unreg', a], ['reg', b]]
                    yield [['reg', a], ch, ['reg', a], ['reg', b], ['unreg', a], ['reg', b]]


def op_alphabet(n):
    return [['reg', i] for i in range(n)] + [['unreg', i] for i in range(n)] + [['sti', TI_ON], ['sti', {}]]


def gen_family(rng, well=None):
    name = rng.choice(NAMES[:9] * 3 + NAMES)
    typ = rng.choice(TYPES)
    unit = rng.choice(['', '', '', '', 'total', 'sum', 'info', 'seconds'])
    if typ in ('info', 'stateset') and rng.random() < 0.7:
        unit = ''
    f = fam(name, typ, unit=unit, help_=rng.choice(['h', 'help text', '']))
    ss = f[4]
    rng.shuffle(ss)
    ss = ss[:rng.randrange(0, len(ss) + 1)]
    for s in ss:
        s[1] = dict(s[1], **rng.choice([{}, {}, {'l': 'a'}, {'l': 'b', 'k': ''}]))
        s[2] = rng.choice([0.0, 1.0, 2.5, -1.0, float(rng.randrange(100))])
        s[3] = rng.choice([None, None, None, 123.5, ['T', 5, 7]])
        s[4] = rng.choice([None, None, None, [{'trace': 'a'}, 1.0, None], [{}, 2.0, 3.0]])
    if well is False or (well is None and rng.random() < 0.15):
        ss.append([rng.choice(NAMES), {}, 7.0, None, None])       # a sample name the family type does not expose
    f[4] = ss
    return f


def gen_collector(rng, libs=False):
    """libs: also draw the library's runtime collectors (volatile values: C06 only)."""
    k = rng.random()
    if k < 0.3:
        cls = rng.choice(['Counter', 'Gauge', 'Summary', 'Histogram', 'Info', 'Enum', 'Gauge', 'Counter'])
        unit = rng.choice(['', '', '', 'total', 'sum', 'seconds']) if cls not in ('Info', 'Enum') else ''
        lab = rng.random() < 0.25
        return builtin(cls, rng.choice(NAMES), unit, ['l'] if lab else [], [['a'], ['b']][:rng.randrange(3)] if lab else [])
    if k < 0.38:      # a nested registry
        return nested(*[gen_family(rng) for _ in range(rng.choice([0, 1, 1, 2]))],
                      ti=rng.choice([None, None, None, {'a': 'b'}, {'n': 'ested'}]))
    if k < 0.43 and libs:
        return rng.choice([lib(c) for c in LIB_CLASSES] + [builtin('Gauge', 'python_gc_collections_total'),
                                                          described(fam('python_info', 'gauge')),
                                                          derived(undescribed(fam('process_open_fds', 'gauge')))])
    c = gen_custom_collector(rng)
    if rng.random() < 0.4:       # written as the documentation recommends: a subclass of registry.Collector
        c = derived(c)
    return c


def gen_custom_collector(rng):
    fams = [gen_family(rng) for _ in range(rng.choice([1, 1, 1, 2, 2, 3]))]
    if rng.random() < 0.1:
        fams = []
    c = gen_custom(rng, fams)
    if rng.random() < 0.3:       # a collector that changes during the history
        alts = []
        for _ in range(rng.choice([1, 1, 2])):
            a = gen_custom(rng, [gen_family(rng) for _ in range(rng.choice([0, 1, 1, 2]))])
            if (a['desc'] is None) == (c['desc'] is None):
                alts.append(a)
        if alts:
            c = changing(c, *alts)
    return c


def gen_custom(rng, fams):
    c = gen_custom_list(rng, fams)
    if rng.random() < 0.5:
        c = shape(c, rng.choice(SHAPES), rng.choice(SHAPES))
    return c


def gen_custom_list(rng, fams):
    mode = rng.choice(['same', 'same', 'same', 'none', 'none', 'other', 'empty', 'more'])
    if mode == 'none':
        return undescribed(*fams)
    if mode == 'same':
        return described(*fams)
    if mode == 'empty':
        return described(*fams, desc=[])
    if mode == 'other':
        return described(*fams, desc=[[rng.choice(NAMES), rng.choice(TYPES), ''] for _ in range(rng.randrange(1, 3))])
    return described(*fams, desc=[[f[0], f[1], f[3]] for f in fams] + [[rng.choice(NAMES), rng.choice(TYPES), '']])


def valid(case):
    """Generators only emit cases whose collectors can be constructed (e.g. Histogram('x', ['le']) cannot)."""
    try:
        World(case)
        return True
    except ValueError:
        return False


def gen_history(rng, n, length, colls=None):
    ops = []
    reg = set()
    mutable = [i for i, c in enumerate(colls or []) if c.get('alts')]
    while len(ops) < length:
        k = rng.random()
        c = rng.randrange(n)
        if colls is not None and rng.random() < 0.12:
            if mutable and rng.random() < 0.7:       # a (preferably registered) collector changes
                m = rng.choice([i for i in mutable if i in reg] or mutable)
                ops.append(['mut', m, rng.randrange(0, 1 + len(colls[m]['alts']))])
            else:
                ops.append(['created', rng.random() < 0.4])
        elif k < 0.45:
            ops.append(['reg', c])
            reg.add(c)
        elif k < 0.75:
            if reg and rng.random() < 0.8:
                c = rng.choice(sorted(reg))
                reg.discard(c)
            ops.append(['unreg', c])
            if rng.random() < 0.5:      # ... so that it, or a collector it blocked, can then be registered
                ops.append(['reg', rng.randrange(n)])
        elif k < 0.9:
            ops.append(['sti', rng.choice([TI_ON, TI_ON, {'a': 'c', 'z': ''}, {}, None])])
        else:
            ops.append(['reg', c])
            ops.append(['unreg', c])
            ops.append(['reg', c])
    return ops[:length]


def cases(ctx):
    rng = ctx.rng
    # exhaustive: all histories up to depth 3 over the 14-op alphabet of each fixed set
    for _name, colls, autos in FIXED_SETS:
        alpha = op_alphabet(len(colls))
        for k, auto in enumerate(autos):
            # the second auto_describe setting of a set only matters little (undescribed collectors claim nothing
            # without it; described ones ignore it): depth 2 in the quick tier
            for depth in ((1, 2, 3) if k == 0 or ctx.thorough else (1, 2)):
                for ops in itertools.product(alpha, repeat=depth):
                    yield {'auto': auto, 'init_ti': None, 'colls': colls, 'ops': list(ops)}
    # every iterable shape describe() / collect() may return: a mixed set to depth 3, each shape to depth 2
    name, colls, autos = SHAPE_SET
    for depth in (1, 2, 3):
        for ops in itertools.product(op_alphabet(len(colls)), repeat=depth):
            yield {'auto': autos[0], 'init_ti': None, 'colls': colls, 'ops': list(ops)}
    # the library's own collectors: every history up to depth 2, and a blocks b / is released / b registers for all a, b
    name, colls, autos = LIB_SET
    for depth in ((1, 2, 3) if ctx.thorough else (1, 2)):
        for ops in itertools.product(op_alphabet(len(colls)), repeat=depth):
            yield {'auto': autos[0], 'init_ti': None, 'colls': colls, 'ops': list(ops)}
    for a in range(len(colls)):
        for b in range(len(colls)):
            if a != b:
                yield {'auto': autos[0], 'init_ti': None, 'colls': colls,
                       'ops': [['reg', a], ['reg', b], ['unreg', a], ['reg', b], ['reg', a], ['unreg', b], ['reg', a]]}
    for _sh, colls, auto in shape_sets():
        for depth in ((1, 2, 3) if ctx.thorough else (1, 2)):
            for ops in itertools.product(op_alphabet(len(colls)), repeat=depth):
                yield {'auto': auto, 'init_ti': None, 'colls': colls, 'ops': list(ops)}
    # collectors changing / created series toggled in the middle of a history: every history up to depth 3 over
    # register / unregister plus the change ops, and the scenarios around one change
    for sets, envvars in ((DYNAMIC_SETS, [False]), (CREATED_SETS, [False, True])):
        for _name, colls, auto, extra in sets:
            alpha = [['reg', i] for i in range(len(colls))] + [['unreg', i] for i in range(len(colls))] + extra
            for envvar in envvars:
                for ops in scenarios(colls):
                    yield {'auto': auto, 'init_ti': None, 'colls': colls, 'ops': ops, 'envvar': envvar}
                for depth in ((1, 2, 3, 4) if ctx.thorough else (1, 2, 3)):
                    for ops in itertools.product(alpha, repeat=depth):
                        yield {'auto': auto, 'init_ti': None, 'colls': colls, 'ops': list(ops), 'envvar': envvar}
    for case in random_cases(ctx, ctx.n(3000, 100000)):
        yield case
    # depth 4 over 4 collectors (10 ops); thorough: depth 4 over every fixed set
    for _name, colls, autos in (FIXED_SETS if ctx.thorough else []):
        alpha = op_alphabet(len(colls))
        for auto in autos:
            for ops in itertools.product(alpha, repeat=4):
                yield {'auto': auto, 'init_ti': None, 'colls': colls, 'ops': list(ops)}
    colls4 = [FIXED_SETS[3][1][0], FIXED_SETS[3][1][1], FIXED_SETS[0][1][0], FIXED_SETS[0][1][5]]
    for ops in itertools.product(op_alphabet(4), repeat=4):
        yield {'auto': False, 'init_ti': None, 'colls': colls4, 'ops': list(ops)}
    # target info given to the constructor
    for _name, colls, autos in FIXED_SETS:
        alpha = op_alphabet(len(colls))
        for ops in itertools.product(alpha, repeat=2):
            yield {'auto': autos[0], 'init_ti': TI_ON, 'colls': colls, 'ops': list(ops)}
    for case in random_cases(ctx, ctx.n(3000, 100000)):
        yield case


def random_cases(ctx, count):
    """random collector sets, random histories"""
    rng = ctx.rng
    for _ in range(count):
        n = rng.randrange(1, 7)
        if rng.random() < 0.3:
            colls = list(rng.choice(FIXED_SETS + DYNAMIC_SETS + CREATED_SETS + [SHAPE_SET, LIB_SET])[1])
            rng.shuffle(colls)
            colls = colls[:n]
            if rng.random() < 0.3:
                colls = [derived(c) if c['k'] == 'custom' else c for c in colls]
            if rng.random() < 0.4:
                colls = [shape(c, rng.choice(SHAPES), rng.choice(SHAPES)) if c['k'] == 'custom' and 'shape' not in c else c
                         for c in colls]
        else:
            colls = [gen_collector(rng, libs=True) for _ in range(n)]
        case = {'auto': rng.random() < 0.5, 'init_ti': rng.choice([None, None, None, TI_ON]), 'colls': colls,
                'ops': gen_history(rng, len(colls), rng.choice([3, 5, 8, 12, 20, 40]), colls),
                'envvar': rng.random() < 0.1}
        if valid(case):
            if rng.random() < 0.15:
                sc = list(scenarios(colls))
                if sc:
                    case['ops'] = rng.choice(sc) + case['ops'][:6]
            yield case
