"""C10 - the mmap store returns exactly what was written, across growth and reopen.
Implementation: prometheus_client.mmap_dict.MmapedDict driven on temporary files.  Model: coq/model/MmapDict.v."""
import hashlib
import os
import shutil
import struct
import tempfile

from .sx import Sym, d_bytes, d_int

RULE = ('write/read_value/reopen histories over keys of every UTF-8 length modulo 8 (ASCII, 2/3/4-byte code points, NUL, '
        'trailing spaces, JSON mmap_key strings), keys around and beyond the capacity (0, 1, 2, 3 doublings of the real 65536 and many '
        'doublings of a patched small initial size), doubles by bit pattern (NaN payloads incl. signalling, -0.0, subnormals, inf, random '
        'bits), reopen at arbitrary points; keys the store must REFUSE, anywhere in a history and repeated: strs that are not '
        'well-formed Unicode (lone high / low surrogates incl. the PEP 383 range U+DC80..U+DCFF = os.fsdecode images, reversed and '
        'split pairs, alone / first / middle / last in ASCII and multi-byte text, inside JSON mmap_key strings, at the end of keys '
        'longer than the capacity) and non-str keys (bytes equal to a stored key\'s encoding, int, float, bool, None, tuple, frozenset; '
        'unhashable list, dict, set, bytearray); exhaustive slices: all histories of length <= 3 over 3 keys x 2 values x reopen, '
        'and all histories of length <= 3 with at least one refused call over 3 accepted + 5 refused calls, at a small '
        'initial size; observation after EVERY step: the first `used` bytes of the file, read_all_values(), '
        'read_all_values_from_file(), read_value(); after a call that raised also: whole file (length and bytes) unchanged, '
        'read_value of every stored key through the same handle; non-trivial = at least one overwrite or reopen or growth or '
        'refused call; distinct by case.  RESULTS HELD ALIVE (`prog` cases): programs over 1-3 store files at once that ask '
        'read_all_values_from_file() / read_all_values() and KEEP the lazy result while other calls are made - reads of other '
        'files, further reads of the same file, writes (new keys, overwrites), growth, close + reopen - and consume the held '
        'results later: all at once, in order / reversed, in pieces, element by element interleaved (zip / merge of two '
        'processes\' files); files with equal keys and different values, empty and one-entry files, files beyond the reader\'s '
        'first block (second read()); every result of the file reader must equal the state of ITS file at the moment of ITS '
        'call (model: a held result is the value read_all_from_file pg b; each file is its own model world), a handle result '
        'consumed while its file is unchanged likewise, a handle result consumed across later writes must give every key once in '
        'first-write order with a pair the key held between the call and the delivery; structured programs first, then one random '
        'program per two random histories; non-trivial prog = a result held across another read call or a change of its file')
TRUSTED = ['the strict UTF-8 decoder inverts the encoder on the byte strings the encoder produces (the encoder itself is modelled, '
           'compared with CPython by the correspondence and proved injective; stored keys are byte strings in the model)',
           'a non-str key is never equal to a stored str key; hash() raises TypeError on list/dict/set/bytearray; int, float, bool, '
           'None, tuple, frozenset and bytes have no .encode (bytes) or none at all',
           "struct packs/unpacks 'd' bit-exactly and 'i' as little-endian signed 32-bit (values are 8-byte strings in the model)",
           'a shared mmap and read() of the same file see the same bytes (Linux unified page cache)']
ASSUMPTIONS = ['total used bytes < 2^31 (struct i)',
               'a key that is refused (raises before anything changed) is outside "what was written"; a key that is accepted '
               'must read back as the same object; exception classes compared as ValueError vs other',
               'a result of read_all_values_from_file denotes the content of the file at the moment of the call, whenever it is '
               'consumed; read_all_values() of a handle is a view of the live mapping: consumed across later writes it may show the '
               'pair of the call or any later pair (both readings of "most recently written" accepted), consumed after a close of '
               'that handle it may raise',
               'the file length itself is not observed (C10 does not fix it): only file length >= used bytes is checked']
TIME_BUDGET = {'quick': 125, 'thorough': 900}

BLOB_LIMIT = 4096
KEY_LIMIT = 64

SPECIAL_BITS = [0x0, 0x8000000000000000, 0x1, 0x000fffffffffffff, 0x8000000000000001, 0x0010000000000000,
                0x3ff0000000000000, 0xbff0000000000000, 0x7ff0000000000000, 0xfff0000000000000,
                0x7ff8000000000000, 0x7ff8000000000001, 0x7ff0000000000001, 0xfff8000000000000,
                0xffffffffffffffff, 0x7fffffffffffffff, 0x7ff4000000000000, 0x4059000000000000,
                0x2020202020202020, 0x0000000800000000, 0x41d6ad5f3a000000]
ATOMS = ['a', 'b', 'z', ' ', '\x00', '"', '{', '\xe9', '\xdf', '\u20ac', '\u2028', '\U0001F600', '\U00010000', '\x7f', '\u0800', '\uffff']


def frombits(b):
    return struct.unpack('<d', struct.pack('<Q', b & 0xFFFFFFFFFFFFFFFF))[0]


def bits(d):
    return struct.unpack('<Q', struct.pack('<d', d))[0]


# non-str keys, by name (JSON-serialisable cases); 'bytes:<hex>' = those bytes
OBJ_KEYS = {'int': lambda: 7, 'zero': lambda: 0, 'float': lambda: 1.5, 'none': lambda: None, 'bool': lambda: True,
            'tuple': lambda: ('a', 1), 'tuple-empty': lambda: (), 'frozenset': lambda: frozenset(['a']),
            'list': lambda: ['a'], 'list-empty': lambda: [], 'dict': lambda: {'a': 1}, 'set': lambda: {'a'},
            'bytearray': lambda: bytearray(b'a'), 'tuple-of-list': lambda: (['a'],)}


def key_str(ks):
    """the key object of a case: a str ('...' | [unit, count, suffix] | {'cps': [code points]}, the latter also for strs
    that are not well-formed Unicode) or a non-str object ({'obj': name})"""
    if isinstance(ks, str):
        return ks
    if isinstance(ks, dict):
        if 'cps' in ks:
            return ''.join(chr(c) for c in ks['cps'])
        name = ks['obj']
        if name.startswith('bytes:'):
            return bytes.fromhex(name[6:])
        return OBJ_KEYS[name]()
    unit, count, suffix = ks
    return unit * count + key_str(suffix)


def wellformed(k):
    """a Unicode key in the sense of the property: a str that strict UTF-8 can encode"""
    if not isinstance(k, str):
        return False
    try:
        k.encode('utf-8')
        return True
    except UnicodeEncodeError:
        return False


def ckey(k):
    """canonical, injective image of a key object (well-formed strs: their UTF-8 encoding, as the model's keys)"""
    if isinstance(k, str):
        return blob(k.encode('utf-8', 'surrogatepass'), KEY_LIMIT)
    return ['obj', type(k).__name__, repr(k)]


def blob(b, limit):
    b = bytes(b)
    if len(b) <= limit:
        return b.hex()
    return ['md5', hashlib.md5(b).hexdigest(), len(b)]


# ---------------------------------------------------------------- generators
def rand_key(rng, maxlen=24):
    n = rng.choice((0, 1, 2, 3, 4, 5, 6, 7, 8, 9, 11, 12, 13, 15, 16, 17, 20)) if rng.random() < 0.7 else rng.randrange(maxlen)
    style = rng.random()
    if style < 0.35:
        return ''.join(rng.choice('abcxyz_01') for _ in range(n))
    if style < 0.85:
        return ''.join(rng.choice(ATOMS) for _ in range(n))
    if style < 0.93:
        return '["m%d", "m%d_total", {"l": "%s"}, "help"]' % (rng.randrange(3), rng.randrange(3), rng.choice(ATOMS) * rng.randrange(4))
    return ''.join(chr(rng.choice([rng.randrange(0x20, 0x7f), rng.randrange(0x80, 0x800), rng.randrange(0x800, 0xd800),
                                   rng.randrange(0xe000, 0x10000), rng.randrange(0x10000, 0x110000)])) for _ in range(n))


def rand_bits(rng):
    r = rng.random()
    if r < 0.45:
        return rng.choice(SPECIAL_BITS)
    if r < 0.6:
        return bits(float(rng.randrange(-1000, 1000)) / rng.choice((1, 2, 3, 10)))
    if r < 0.7:
        return rng.randrange(1, 1 << 52) | (rng.randrange(2) << 63)           # subnormal
    if r < 0.8:
        return 0x7ff0000000000000 | rng.randrange(1, 1 << 52) | (rng.randrange(2) << 63)   # NaN payloads
    return rng.getrandbits(64)


def rand_history(rng, nkeys, nops, key_pool=None):
    keys = key_pool or []
    while len(keys) < nkeys:
        k = rand_key(rng)
        if k not in keys:
            keys.append(k)
    ops = []
    for _ in range(nops):
        r = rng.random()
        k = rng.choice(keys)
        if r < 0.62:
            ops.append(['W', k, rand_bits(rng), rand_bits(rng)])
        elif r < 0.8:
            ops.append(['R', k])
        else:
            ops.append(['O'])
    return ops


# ---- keys the store must refuse
SURROGATES = [0xD800, 0xDB7F, 0xDBFF, 0xDC00, 0xDC7F, 0xDC80, 0xDCE9, 0xDCFF, 0xDFFF]
FSDECODE_NAMES = [b'caf\xe9', b'\xff', b'\x80abc', b'na\xefve.txt', b'\xe2\x82', b'\xf0\x9f\x98', b'ok\xc3', b'\xc0\xaf',
                  b'\xed\xa0\x80', b'm\xfc\xdfig']


def cps(s):
    return [ord(c) for c in s]


def bad_str_key(rng, maxlen=8):
    """a str that str.encode('utf-8') refuses, as {'cps': [...]}: a surrogate code point at some position"""
    def sur():
        return rng.choice(SURROGATES) if rng.random() < 0.6 else rng.randrange(0xD800, 0xE000)
    r = rng.random()
    if r < 0.12:
        body = [sur()]
    elif r < 0.28:
        body = cps(rand_key(rng, maxlen)) + [sur()]
    elif r < 0.42:
        body = [sur()] + cps(rand_key(rng, maxlen))
    elif r < 0.6:
        body = cps(rand_key(rng, maxlen)) + [sur()] + cps(rand_key(rng, maxlen))
    elif r < 0.67:      # a pair the wrong way round
        body = cps(rand_key(rng, 4)) + [rng.randrange(0xDC00, 0xE000), rng.randrange(0xD800, 0xDC00)] + cps(rand_key(rng, 4))
    elif r < 0.74:      # the two UTF-16 code units of an astral character as two code points (CESU-8 if encoded leniently)
        body = cps(rand_key(rng, 4)) + [rng.randrange(0xD800, 0xDC00), rng.randrange(0xDC00, 0xE000)] + cps(rand_key(rng, 4))
    elif r < 0.88:      # os.fsdecode() of a file name that is not UTF-8 (PEP 383)
        raw = rng.choice(FSDECODE_NAMES) if rng.random() < 0.6 else bytes(rng.randrange(256) for _ in range(rng.randrange(1, 9)))
        body = cps(raw.decode('utf-8', 'surrogateescape'))
        if not any(0xD800 <= c < 0xE000 for c in body):
            body.insert(rng.randrange(len(body) + 1), rng.randrange(0xDC80, 0xDD00))
    else:               # inside an otherwise ordinary mmap_key JSON string
        v = cps(rand_key(rng, 4)) + [sur()] + cps(rand_key(rng, 3))
        where = rng.randrange(3)
        if where == 0:
            body = cps('["m", "m_total", {"l": "') + v + cps('"}, "help"]')
        elif where == 1:
            body = cps('["m') + v + cps('", "m_total", {}, "help"]')
        else:
            body = cps('["m", "m", {"a": "x", "b": "y"}, "') + v + cps('"]')
    return {'cps': body}


def bad_obj_key(rng, keys=()):
    """a key that is not a str: {'obj': name}"""
    r = rng.random()
    strs = [k for k in (key_str(x) for x in keys) if isinstance(k, str) and wellformed(k) and len(k) < 64]
    if r < 0.3 and strs:
        return {'obj': 'bytes:' + rng.choice(strs).encode('utf-8').hex()}       # the stored bytes of an existing key
    if r < 0.4:
        return {'obj': 'bytes:' + bytes(rng.randrange(256) for _ in range(rng.randrange(0, 6))).hex()}
    return {'obj': rng.choice(sorted(OBJ_KEYS))}


def sprinkle_refused(rng, ops):
    """insert calls with refused keys (new ones and repeated ones) anywhere into a history"""
    ops = list(ops)
    pool = []
    for _ in range(rng.choice((1, 1, 2, 3, 5))):
        if pool and rng.random() < 0.35:
            k = rng.choice(pool)
        elif rng.random() < 0.72:
            k = bad_str_key(rng)
        else:
            k = bad_obj_key(rng, [op[1] for op in ops if op[0] != 'O'])
        pool.append(k)
        op = ['W', k, rand_bits(rng), rand_bits(rng)] if rng.random() < 0.7 else ['R', k]
        ops.insert(rng.randrange(len(ops) + 1), op)
    return ops


def refused_cases(ctx):
    """structured histories around refused keys: before / refused / after / same refused key again / reopen / overwrite"""
    def hist(bad, isz):
        return {'isz': isz, 'ops': [['W', 'before', 1, 2], ['W', bad, 3, 4], ['W', 'after', 5, 6], ['R', bad], ['W', bad, 7, 8],
                                    ['O'], ['W', bad, 9, 10], ['W', 'before', 0x7ff8000000000001, 11], ['R', 'after'],
                                    ['R', 'new'], ['R', bad], ['O'], ['W', 'caf\xe9', 12, 13]]}
    contexts = [lambda c: [c], lambda c: cps('caf') + [c], lambda c: [c] + cps('abc'), lambda c: cps('ab') + [c] + cps('cd'),
                lambda c: cps('\xe9\u20ac') + [c] + cps('\U0001F600'), lambda c: cps('before') + [c],
                lambda c: cps('["m", "m_total", {"l": "caf') + [c] + cps('"}, "help"]')]
    n = 0
    for c in SURROGATES:
        for ctxf in contexts:
            n += 1
            if ctx.thorough or n % 3 == 0 or c == 0xDCE9:
                yield hist({'cps': ctxf(c)}, (65536, 32, 8)[n % 3])
    # first call of all on a fresh file, and as the only call
    for bad in ({'cps': [0xDCE9]}, {'cps': cps('caf') + [0xDCE9]}, {'cps': [0xD800]}, {'obj': 'bytes:61'}, {'obj': 'list'}):
        for isz in (65536, 16):
            yield {'isz': isz, 'ops': [['W', bad, 1, 2]]}
            yield {'isz': isz, 'ops': [['R', bad], ['O'], ['W', 'a', 1, 2], ['W', bad, 3, 4], ['O']]}
    # pairs the wrong way round / split pairs, several surrogates
    for body in ([0xDC00, 0xD800], [0xD83D, 0xDE00], [0xD800, 0xD800], cps('a') + [0xDBFF, 0xDFFF] + cps('b'), [0xDCFF] * 5):
        yield hist({'cps': body}, 24)
    # non-str keys, every kind
    for name in sorted(OBJ_KEYS) + ['bytes:', 'bytes:6265666f7265', 'bytes:ff', 'bytes:636166c3a9']:
        yield hist({'obj': name}, 65536 if name in ('int', 'list', 'bytes:6265666f7265') else 40)
    # a refused key that would not fit: no growth may happen (0, 1 and 2 doublings' worth), also after a key that did grow
    for n_ in (65507, 65508, 140000) if not ctx.thorough else (100, 65500, 65507, 65508, 70001, 140000, 300003):
        bad = ['x', n_, {'cps': [0xDCE9]}]
        yield {'isz': 65536, 'ops': [['W', 'p', 1, 2], ['W', bad, 3, 4], ['W', 'q', 5, 6], ['O'], ['R', bad], ['W', 'p', 7, 8]]}
    yield {'isz': 65536, 'ops': [['W', ['\u20ac', 30000, 'k'], 1, 1], ['W', ['\u20ac', 30000, {'cps': [0xDC80]}], 2, 2], ['O'],
                                 ['W', {'cps': [0xDFFF] * 3 + cps('k')}, 3, 3],
                                 ['R', ['\u20ac', 30000, 'k']]]}
    for isz in (8, 64):
        yield {'isz': isz, 'ops': [['W', 'a', 1, 2], ['W', ['\xe9', 300, {'cps': [0xD800]}], 3, 4], ['W', 'b', 5, 6],
                                   ['W', ['\xe9', 300, ''], 7, 8], ['W', ['\xe9', 300, {'cps': [0xD800]}], 9, 10], ['O'], ['R', 'a']]}
    # exhaustive: every history of length <= 3 with at least one refused call over 3 accepted and 5 refused calls
    good = [['W', 'a', 0x7ff0000000000001, 1], ['W', '\xe9', 0x8000000000000000, 2], ['O']]
    bad = [['W', {'cps': cps('caf') + [0xDCE9]}, 3, 4], ['W', {'cps': cps('a') + [0xD800]}, 5, 6], ['R', {'cps': [0xDFFF]}],
           ['W', {'obj': 'bytes:61'}, 7, 8], ['W', {'obj': 'list'}, 9, 10]]
    alpha = good + bad
    for a in alpha:
        if a in bad:
            yield {'isz': 32, 'ops': [a]}
        for b in alpha:
            if a in bad or b in bad:
                yield {'isz': 32, 'ops': [a, b]}
            for c in alpha:
                if (a in bad or b in bad or c in bad) and (ctx.thorough or (alpha.index(a) + alpha.index(b) + alpha.index(c)) % 2 == 0):
                    yield {'isz': 32, 'ops': [a, b, c]}


def cases(ctx):
    rng = ctx.rng
    for c in prog_structured(ctx):
        yield c
    for c in refused_cases(ctx):
        yield c
    # --- every encoded length modulo 8, single- and multi-byte, at the real initial size
    for unit in ('a', 'é', '€', '\U0001F600', ' '):
        ops = []
        for n in range(0, 18):
            ops.append(['W', unit * n, SPECIAL_BITS[n % len(SPECIAL_BITS)], SPECIAL_BITS[(n * 7 + 3) % len(SPECIAL_BITS)]])
        ops += [['O'], ['R', unit * 3], ['W', unit * 5, 0x7ff8000000000001, 0x8000000000000000], ['O'], ['R', unit * 5]]
        yield {'isz': 65536, 'ops': ops}
    # --- all special bit patterns as value and as timestamp
    ops = []
    for i, b in enumerate(SPECIAL_BITS):
        ops.append(['W', 'k%d' % (i % 5), b, SPECIAL_BITS[-1 - i]])
        ops.append(['R', 'k%d' % (i % 5)])
    yield {'isz': 65536, 'ops': ops + [['O']] + [['R', 'k%d' % i] for i in range(5)]}
    # --- exhaustive small slice: histories of length <= 3 over {W k v, R k, O}, small initial size (growth at every step)
    alpha = [['W', k, v, v ^ 1] for k in ('a', 'abcde', 'é') for v in (0x7ff0000000000001, 0x8000000000000000)] + \
            [['R', k] for k in ('a', 'abcde')] + [['O']]
    for isz in (8, 32):
        for a in alpha:
            yield {'isz': isz, 'ops': [a]}
            for b in alpha:
                yield {'isz': isz, 'ops': [a, b]}
                if ctx.thorough or isz == 32:
                    for c in alpha:
                        yield {'isz': isz, 'ops': [a, b, c]}
    # --- keys around / beyond the real capacity: 0, 1, 2, 3 doublings, and the exact-fit boundary
    # an entry for an n-byte key takes 4 + n + pad + 16; the first one starts at 8
    # (an n-byte key first fits exactly for n = 65500..65507; 65508 forces the first doubling)
    sizes = (65507, 65508, 140000) if not ctx.thorough else (
        65499, 65500, 65507, 65508, 65509, 65536, 65537, 70001, 131072 - 28, 131072 - 27, 140000, 300003)
    for n in sizes:
        pre = [['W', 'p', 1, 2]] if n % 2 else []
        yield {'isz': 65536, 'ops': pre + [['W', ['x', n, ''], 0x7ff8000000000001, 3], ['W', 'after', 4, 5], ['O'],
                                           ['W', ['x', n, ''], 0xfff0000000000001, 6], ['R', 'after'],
                                           ['W', ['é', 5, 'tail'], 7, 8]]}
    yield {'isz': 65536, 'ops': [['W', ['€', 30000, 'k'], 1, 1], ['O'], ['W', ['\U0001F600', 40000, ''], 2, 2],
                                 ['W', ['€', 30000, 'k'], 0x8000000000000000, 9], ['O'], ['R', ['€', 30000, 'k']]]}
    # many medium keys filling the initial 64 KiB exactly and beyond
    for keylen in ((1000, 4064) if ctx.thorough else (4064,)):
        ops = [['W', ['k', keylen, '%04d' % i], i, i + 1] for i in range(70 if keylen == 1000 else 17)]
        yield {'isz': 65536, 'ops': ops + [['O'], ['W', ['k', keylen, '0003'], 0x7ff8000000000005, 0], ['R', ['k', keylen, '0000']]]}
    # --- random histories
    n_rand = ctx.n(1500, 40000)
    for i in range(n_rand):
        r = rng.random()
        if r < 0.25:
            isz = 65536
        else:
            isz = rng.choice((8, 9, 16, 24, 40, 64, 100, 128, 1000, 4096))
        nkeys = rng.choice((1, 2, 3, 5, 8, 12))
        ops = rand_history(rng, nkeys, rng.randrange(1, 30))
        if rng.random() < 0.08:
            big = [rng.choice(ATOMS[:4] + ATOMS[7:10]), rng.randrange(100, 9000), rand_key(rng, 6)]
            ops.insert(rng.randrange(len(ops) + 1), ['W', big, rand_bits(rng), rand_bits(rng)])
            if rng.random() < 0.5:
                ops.append(['O'])
                ops.append(['W', big, rand_bits(rng), rand_bits(rng)])
        if i % 3 == 0:
            ops = sprinkle_refused(rng, ops)
        yield {'isz': isz, 'ops': ops}
        if i % 2 == 0:
            yield rand_prog(rng)


# ---------------------------------------------------------------- implementation side
def exc_kind(e):
    n = type(e).__name__
    if isinstance(e, struct.error):
        return 'StructError'
    if isinstance(e, ValueError):
        return 'ValueError'
    if isinstance(e, (IndexError, RuntimeError, KeyError, TypeError, OSError, OverflowError, AttributeError)):
        for c in (IndexError, RuntimeError, KeyError, TypeError, OSError, OverflowError, AttributeError):
            if isinstance(e, c):
                return c.__name__
    return n


def canon_entries(it):
    out = []
    for t in it:
        k, v, ts = t[0], t[1], t[2]
        out.append([ckey(k), bits(v), bits(ts)])
    return out


def attempt(f):
    try:
        return ['ok', f()]
    except Exception as e:      # noqa: any exception is an observation
        return ['err', exc_kind(e)]


def observe2(mod, path, d, peek):
    """the observation of one step, and a digest of the WHOLE file (length included)"""
    raw = open(path, 'rb').read()
    used = struct.unpack_from('<i', raw, 0)[0] if len(raw) >= 4 else -1
    return [len(raw) >= used, used, blob(raw[:max(used, 0)], BLOB_LIMIT),
            attempt(lambda: canon_entries(d.read_all_values())),
            attempt(lambda: canon_entries(mod.MmapedDict.read_all_values_from_file(path))),
            peek], hashlib.md5(raw).hexdigest() + ':%d' % len(raw)


def observe(mod, path, d, peek):
    return observe2(mod, path, d, peek)[0]


def probe(d, keys):
    """read_value of every stored key through the handle (no effect when the handle knows the key)"""
    out = []
    for k in keys:
        v, ts = d.read_value(k)
        out.append([ckey(k), ['ok', [bits(v), bits(ts)]]])
    return out


def raise_kind(e):
    return 'ValueError' if isinstance(e, ValueError) else 'other'


class patched_isz:
    def __init__(self, mod, isz):
        self.mod, self.isz = mod, isz

    def __enter__(self):
        self.old = getattr(self.mod, '_INITIAL_MMAP_SIZE', None)
        if self.old is not None:
            self.mod._INITIAL_MMAP_SIZE = self.isz

    def __exit__(self, *a):
        if self.old is not None:
            self.mod._INITIAL_MMAP_SIZE = self.old


def impl(case):
    if 'prog' in case:
        return impl_prog(case)
    import prometheus_client.mmap_dict as mod
    tmp = tempfile.mkdtemp(prefix='c10-')
    path = os.path.join(tmp, 'counter_1.db')
    steps = []
    d = None
    stored = []         # keys of the calls that did not raise, in first-call order
    try:
        with patched_isz(mod, case['isz']):
            try:
                d = mod.MmapedDict(path)
            except Exception as e:
                return [['err', exc_kind(e)]]
            o, digest = observe2(mod, path, d, None)
            steps.append(o)
            for op in case['ops']:
                peek = None
                try:
                    if op[0] == 'W':
                        k = key_str(op[1])
                        d.write_value(k, frombits(op[2]), frombits(op[3]))
                    elif op[0] == 'R':
                        k = key_str(op[1])
                        v, ts = d.read_value(k)
                        peek = ['ok', [bits(v), bits(ts)]]
                    else:
                        d.close()
                        d = mod.MmapedDict(path)
                except Exception as e:
                    if op[0] == 'O':
                        steps.append(['err', exc_kind(e)])
                        break
                    # write_value / read_value raised: the handle is still open; look at what the call left behind
                    o, digest2 = observe2(mod, path, d, ['raised', raise_kind(e)])
                    steps.append(o + [digest2 == digest, attempt(lambda: probe(d, stored))])
                    digest = digest2
                    continue
                if op[0] != 'O' and not any(type(k) is type(x) and k == x for x in stored):
                    stored.append(k)
                o, digest = observe2(mod, path, d, peek)
                steps.append(o)
            else:
                # after the history: close, reopen by a new writer, read every key through read_value (direct oracle only)
                fin = []
                try:
                    d.close()
                    d = mod.MmapedDict(path)
                    for k in stored:
                        v, ts = d.read_value(k)
                        fin.append([ckey(k), bits(v), bits(ts)])
                    fin = ['ok', fin, attempt(lambda: canon_entries(d.read_all_values()))]
                except Exception as e:
                    fin = ['err', exc_kind(e)]
                steps.append({'final': fin})
    finally:
        try:
            if d is not None:
                d.close()
        except Exception:
            pass
        shutil.rmtree(tmp, ignore_errors=True)
    return steps


# ---------------------------------------------------------------- model side
def le8(b):
    return struct.pack('<Q', b)


def sx_ops(ops):
    out = []
    for op in ops:
        if op[0] == 'W':
            out.append((Sym('W'), key_str(op[1]).encode('utf-8'), le8(op[2]), le8(op[3])))
        elif op[0] == 'R':
            out.append((Sym('R'), key_str(op[1]).encode('utf-8')))
        else:
            out.append((Sym('O'),))
    return out


def d_blob(a):
    if isinstance(a, list):
        return ['md5', a[1], int(a[2])]
    return d_bytes(a).hex()


def d_val(a):
    return [struct.unpack('<Q', d_bytes(a[0]))[0], struct.unpack('<Q', d_bytes(a[1]))[0]]


def d_entries(a):
    if a[0] == 'ok':
        return ['ok', [[d_blob(e[0])] + d_val(e[1]) for e in a[1]]]
    return ['err', a[1]]


def d_step(s):
    if s[0] == 'err':
        return ['err', s[1]]
    if s[0] == 'nofile':
        return ['nofile']
    flen, used = d_int(s[0]), d_int(s[1])
    pk = None
    extra = []
    if s[5] != 'N':
        if s[5][0] == 'raised':
            pk = ['raised', 'ValueError' if s[5][1] == 'ValueError' else 'other']
            extra = [s[7] == 'T', ['ok', [[d_blob(p[0]), ['ok', d_val(p[1][1])] if p[1][0] == 'ok' else ['err', p[1][1]]]
                                          for p in s[8]]]]
        else:
            pk = ['ok', d_val(s[5][1])] if s[5][0] == 'ok' else ['err', s[5][1]]
    return [flen >= used, used, d_blob(s[2]), d_entries(s[3]), d_entries(s[4]), pk] + extra


def sx_key(ks):
    k = key_str(ks)
    if isinstance(k, str):
        return (Sym('s'), k)            # a str travels by its code points: the model does the encoding
    try:
        hash(k)
    except TypeError:
        return Sym('U')
    return Sym('H')


def sx_pops(ops):
    out = []
    for op in ops:
        if op[0] == 'W':
            out.append((Sym('W'), sx_key(op[1]), le8(op[2]), le8(op[3])))
        elif op[0] == 'R':
            out.append((Sym('R'), sx_key(op[1])))
        else:
            out.append((Sym('O'),))
    return out


def model(m, case):
    import mmap
    if 'prog' in case:
        return model_prog(m, case)
    r = m.call('c10_prun', case['isz'], mmap.PAGESIZE, BLOB_LIMIT, sx_pops(case['ops']))
    return [d_step(s) for s in r]


def same(i, mo):
    if isinstance(i, dict) or isinstance(mo, dict):
        return isinstance(i, dict) and isinstance(mo, dict) and prog_comparable(i) == prog_comparable(mo)
    i2 = [s for s in i if not isinstance(s, dict)]
    return i2 == mo


# ---------------------------------------------------------------- direct oracle
def reference(ops, raised=None):
    """last-write-wins map in first-write order after every step (index 0 = after open); a call that raised (raised[i])
    stores nothing"""
    cur = []            # [canonical key, value bits, timestamp bits]
    states = [[]]
    for i, op in enumerate(ops):
        if op[0] != 'O' and not (raised and raised[i]):
            ck = ckey(key_str(op[1]))
            hit = [e for e in cur if e[0] == ck]
            if op[0] == 'W':
                if hit:
                    hit[0][1:] = [op[2], op[3]]
                else:
                    cur.append([ck, op[2], op[3]])
            elif not hit:
                cur.append([ck, 0, 0])
        states.append([list(e) for e in cur])
    return states


def step_raised(s):
    return isinstance(s, list) and len(s) > 5 and isinstance(s[5], list) and s[5][:1] == ['raised']


def direct(case, obs):
    if 'prog' in case:
        return direct_prog(case, obs)
    ops = case['ops']
    steps = [s for s in obs if not isinstance(s, dict)]
    raised = [i + 1 < len(steps) and step_raised(steps[i + 1]) for i in range(len(ops))]
    ref = reference(ops, raised)
    for i, s in enumerate(obs):
        what = 'after open' if i == 0 else 'after step %d %r' % (i, _short(ops[i - 1]) if i <= len(ops) else 'final')
        if isinstance(s, dict):
            fin = s['final']
            exp = ref[len(ops)]
            if fin[0] != 'ok':
                return 'close + reopen by a new writer raised %s%s' % (fin[1], _refused_note(ops, raised))
            if fin[1] != exp:
                return 'read_value after close+reopen: %s, expected %s' % (_diff(fin[1], exp), '')
            if fin[2] != ['ok', exp]:
                return 'read_all_values after close+reopen: %s' % _diff(fin[2][1] if fin[2][0] == 'ok' else fin[2], exp)
            continue
        if s[0] == 'err':
            return '%s: raised %s%s' % (what, s[1], _refused_note(ops[:i], raised))
        exp = ref[i]
        if step_raised(s):
            # a refused call: legitimate only for a key that is not a (well-formed) Unicode str, and only as the identity
            k = key_str(ops[i - 1][1])
            if wellformed(k):
                return '%s: raised %s on a well-formed Unicode key' % (what, s[5][1])
            if s[6] is not True:
                return '%s: the call raised %s but changed the file (length or bytes)' % (what, s[5][1])
            want = ['ok', [[e[0], ['ok', [e[1], e[2]]]] for e in exp]]
            if s[7] != want:
                return '%s: the call raised %s and read_value through the same handle now gives %r, expected %r' % (
                    what, s[5][1], s[7], want)
        if s[0] is not True:
            return '%s: used-bytes header %d exceeds the file length' % (what, s[1])
        if s[3] != ['ok', exp]:
            return '%s: read_all_values(): %s%s' % (what, _diff(s[3][1] if s[3][0] == 'ok' else s[3], exp),
                                                    _refused_note(ops[:i], raised))
        if s[4] != ['ok', exp]:
            return '%s: read_all_values_from_file(): %s%s' % (what, _diff(s[4][1] if s[4][0] == 'ok' else s[4], exp),
                                                              _refused_note(ops[:i], raised))
        if i > 0 and ops[i - 1][0] == 'R' and not step_raised(s):
            k = ckey(key_str(ops[i - 1][1]))
            want = [[v, t] for kk, v, t in exp if kk == k][0]
            if s[5] != ['ok', want]:
                return '%s: read_value returned %r, expected %r' % (what, s[5], want)
    if len(steps) != len(ops) + 1:
        return 'history stopped early'
    return None


def _refused_note(ops, raised):
    """names the accepted keys that are not well-formed Unicode / not strs (the store took a key it cannot give back)"""
    odd = []
    for i, op in enumerate(ops):
        if op[0] != 'O' and not raised[i]:
            k = key_str(op[1])
            if not wellformed(k) and ascii(k) not in odd:
                odd.append(ascii(k) if len(ascii(k)) < 60 else ascii(k)[:50] + '...')
    return ' [accepted without raising: key %s, which strict UTF-8 cannot encode or is not a str]' % ', '.join(odd[:3]) if odd else ''


def _short(op):
    if op[0] == 'O':
        return 'reopen'
    k = key_str(op[1])
    if not isinstance(k, str):
        return [op[0], repr(k)] + op[2:]
    k = k if wellformed(k) else ascii(k)
    return [op[0], k if len(k) <= 24 else k[:10] + '...(%d chars)' % len(k)] + op[2:]


def _diff(got, exp):
    if not isinstance(got, list) or (got and got[0] == 'err'):
        return 'got %r' % (got,)
    if len(got) != len(exp):
        return 'got %d entries %r, expected %d %r' % (len(got), got[:6], len(exp), exp[:6])
    for j, (a, b) in enumerate(zip(got, exp)):
        if a != b:
            return 'entry %d is %r, expected %r' % (j, a, b)
    return 'equal'


def nontrivial(case, obs):
    if 'prog' in case:
        return any(c.startswith('held-across=') for c in classify_prog(case, obs))
    ops = case['ops']
    seen = []
    for op in ops:
        if op[0] == 'O':
            return True
        k = key_str(op[1])
        if not wellformed(k) or k in seen:
            return True
        seen.append(k)
    return any(len(key_str(op[1])) > case['isz'] for op in ops if op[0] != 'O')


def key_class(k):
    if not isinstance(k, str):
        try:
            hash(k)
        except TypeError:
            return ['key=nonstr-unhashable']
        return ['key=nonstr-bytes' if isinstance(k, bytes) else 'key=nonstr-hashable']
    sur = [i for i, c in enumerate(k) if 0xD800 <= ord(c) < 0xE000]
    if not sur:
        return []
    out = ['key=surrogate']
    for i in sur[:4]:
        c = ord(k[i])
        out.append('surrogate=high' if c < 0xDC00 else 'surrogate=pep383-escape' if 0xDC80 <= c <= 0xDCFF else 'surrogate=low-other')
        out.append('surrogate-at=' + ('only' if len(k) == 1 else 'first' if i == 0 else 'last' if i == len(k) - 1 else 'middle'))
    if k.startswith('['):
        out.append('surrogate-in=json-key')
    if any(ord(c) > 127 and not 0xD800 <= ord(c) < 0xE000 for c in k[:50]):
        out.append('surrogate-in=multibyte-text')
    return out


def classify(case, obs):
    if 'prog' in case:
        return classify_prog(case, obs)
    out = []
    ops = case['ops']
    out.append('isz=real' if case['isz'] == 65536 else 'isz=patched-small')
    steps = [s for s in obs if not isinstance(s, dict)]
    refused_before = False
    for i, op in enumerate(ops):
        out.append('op=' + op[0])
        r = i + 1 < len(steps) and step_raised(steps[i + 1])
        if op[0] != 'O':
            k = key_str(op[1])
            out += key_class(k)
            if wellformed(k):
                out.append('keylen%%8=%d' % (len(k.encode('utf-8')) % 8))
                if any(ord(c) > 127 for c in k[:50]):
                    out.append('key=multibyte')
                if refused_before and not r:
                    out.append('accepted-call-after-refused')
            elif len(k) > case['isz'] if isinstance(k, str) else False:
                out.append('refused-key-longer-than-capacity')
            if r:
                out.append('outcome=raised-' + steps[i + 1][5][1])
                refused_before = True
        elif refused_before:
            out.append('reopen-after-refused')
    last = steps[-1]
    if last[0] != 'err':
        used = last[1]
        dbl = 0
        cap = case['isz']
        while used > cap:
            cap *= 2
            dbl += 1
        out.append('doublings>=%d' % min(dbl, 4))
    seen_o = False
    keys = []
    for op in ops:
        if op[0] == 'O':
            seen_o = True
        elif op[0] == 'W' and wellformed(key_str(op[1])):
            if seen_o and key_str(op[1]) in keys:
                out.append('overwrite-after-reopen')
            keys.append(key_str(op[1]))
    return out


def neighbours(case):
    if 'prog' in case:
        return list(shrinks_prog(case))[:60]
    out = []
    ops = case['ops']
    for i in range(len(ops)):
        out.append({'isz': case['isz'], 'ops': ops[:i] + ops[i + 1:]})
        out.append({'isz': case['isz'], 'ops': ops[:i] + [['O']] + ops[i:]})
    return out[:60]


def shrinks(case):
    if 'prog' in case:
        for c in shrinks_prog(case):
            yield c
        return
    ops = case['ops']
    n = len(ops)
    if n > 1:
        yield {'isz': case['isz'], 'ops': ops[:n // 2]}
        yield {'isz': case['isz'], 'ops': ops[n // 2:]}
    for i in range(n):
        yield {'isz': case['isz'], 'ops': ops[:i] + ops[i + 1:]}
    for i, op in enumerate(ops):
        if op[0] != 'O' and isinstance(op[1], list):
            u, c, s = op[1]
            if c > 1:
                yield {'isz': case['isz'], 'ops': ops[:i] + [[op[0], [u, c // 2, s]] + op[2:]] + ops[i + 1:]}
        if op[0] != 'O' and isinstance(op[1], dict) and len(op[1].get('cps', [])) > 1:
            body = op[1]['cps']
            for j in range(len(body)):
                yield {'isz': case['isz'], 'ops': ops[:i] + [[op[0], {'cps': body[:j] + body[j + 1:]}] + op[2:]] + ops[i + 1:]}


# ================================================================ results held alive and consumed later
# A `prog` case drives nf store files at once and keeps results of the lazy read paths alive:
#   ['W', f, key, vbits, tbits] / ['R', f, key] / ['O', f]   write_value / read_value / close + reopen on file f
#   ['H', f, 'F']      ask MmapedDict.read_all_values_from_file(path_f) and KEEP the result (id = number of H before it)
#   ['H', f, 'D']      ask handle_f.read_all_values() and keep the result
#   ['N', id, n]       consume up to n further elements of held result id (n < 0: all that are left)
# after the program every held result is drained (in id order) and every file is read at once through both paths.
# Time t = number of program ops executed (0 = all files open); the final drain happens at t = len(prog).
def prog_plan(case):
    """for every held result: (file, kind, t_hold, t_end, quiet); t_end = the moment it is certainly exhausted (its first
    consume-all, else the final drain); quiet = its file does not change and is not reopened in (t_hold, t_end]"""
    prog = case['prog']
    ref = reference_prog(case)
    plan = []
    for t, op in enumerate(prog):
        if op[0] == 'H':
            hid = len(plan)
            t_end = len(prog)
            for u in range(t + 1, len(prog)):
                if prog[u][0] == 'N' and prog[u][1] == hid and prog[u][2] < 0:
                    t_end = u + 1
                    break
            f = op[1]
            quiet = all(ref[f][u] == ref[f][t + 1] for u in range(t + 1, t_end + 1)) and \
                not any(prog[u][0] == 'O' and prog[u][1] == f for u in range(t + 1, min(t_end, len(prog))))
            plan.append((f, op[2], t + 1, t_end, quiet))
    return plan


def reference_prog(case):
    """per file: the last-write-wins map in first-write order at every time t"""
    nf = case['nf']
    cur = [[] for _ in range(nf)]
    ref = [[[]] for _ in range(nf)]
    for op in case['prog']:
        if op[0] in ('W', 'R'):
            c = cur[op[1]]
            ck = ckey(key_str(op[2]))
            hit = [e for e in c if e[0] == ck]
            if op[0] == 'W':
                if hit:
                    hit[0][1:] = [op[3], op[4]]
                else:
                    c.append([ck, op[3], op[4]])
            elif not hit:
                c.append([ck, 0, 0])
        for f in range(nf):
            ref[f].append([list(e) for e in cur[f]])
    return ref


def impl_prog(case):
    import prometheus_client.mmap_dict as mod
    nf, prog = case['nf'], case['prog']
    tmp = tempfile.mkdtemp(prefix='c10-')
    paths = [os.path.join(tmp, 'counter_%d.db' % (f + 1)) for f in range(nf)]
    ds = [None] * nf
    old = []            # handles replaced by a reopen: closed, but a held result may still refer to them
    held = []           # {'it': iterator or None, 'chunks': [[t, entries]], 'st': 'ok' | 'done' | ['err', kind]}
    steps = []
    plan = prog_plan(case)

    def pull(h, n, t):
        got = []
        while h['st'] == 'ok' and (n < 0 or len(got) < n):
            try:
                e = next(h['it'])
                got += canon_entries([e])
            except StopIteration:
                h['st'] = 'done'
            except Exception as e:      # noqa: any exception is an observation
                h['st'] = ['err', exc_kind(e)]
        if got:
            h['chunks'].append([t, got])

    try:
        with patched_isz(mod, case['isz']):
            try:
                for f in range(nf):
                    ds[f] = mod.MmapedDict(paths[f])
                for t, op in enumerate(prog):
                    if op[0] == 'W':
                        ds[op[1]].write_value(key_str(op[2]), frombits(op[3]), frombits(op[4]))
                        steps.append(None)
                    elif op[0] == 'R':
                        v, ts = ds[op[1]].read_value(key_str(op[2]))
                        steps.append([bits(v), bits(ts)])
                    elif op[0] == 'O':
                        ds[op[1]].close()
                        old.append(ds[op[1]])
                        ds[op[1]] = mod.MmapedDict(paths[op[1]])
                        steps.append(None)
                    elif op[0] == 'H':
                        h = {'chunks': [], 'st': 'ok', 'it': None}
                        try:
                            r = mod.MmapedDict.read_all_values_from_file(paths[op[1]]) if op[2] == 'F' \
                                else ds[op[1]].read_all_values()
                            h['it'] = iter(r)
                        except Exception as e:      # noqa
                            h['st'] = ['err', exc_kind(e)]
                        held.append(h)
                        steps.append(None)
                    else:
                        pull(held[op[1]], op[2], t + 1)
                        steps.append(None)
            except Exception as e:
                return {'prog': {'err': [len(steps), exc_kind(e)]}}
            for h in held:
                pull(h, -1, len(prog))
            final = []
            for f in range(nf):
                final.append([attempt(lambda: canon_entries(ds[f].read_all_values())),
                              attempt(lambda: canon_entries(mod.MmapedDict.read_all_values_from_file(paths[f])))])
    finally:
        for h in held:
            h['it'] = None
        for d in ds + old:
            try:
                if d is not None:
                    d.close()
            except Exception:
                pass
        shutil.rmtree(tmp, ignore_errors=True)
    out = []
    for h, (f, kind, t0, t1, quiet) in zip(held, plan):
        entries = [e for _, es in h['chunks'] for e in es]
        out.append({'value': ['ok', entries] if h['st'] == 'done' else h['st'], 'chunks': h['chunks'],
                    'compare': kind == 'F' or quiet})
    return {'prog': {'held': out, 'peeks': steps, 'final': final}}


def prog_comparable(obs):
    """what the correspondence compares: the value of every held result of the file reader and of every handle result
    whose file did not change before it was consumed; the values read_value returned; the files at the end"""
    p = obs['prog']
    if 'err' in p:
        return p
    return [[h['value'] if h['compare'] else 'live' for h in p['held']], p['peeks'], p['final']]


def model_prog(m, case):
    """every file is a world of its own in the model: its history is the projection of the program on the file, and a
    result held at a moment IS the model's read path applied to the file of that moment (a value; MmapDict.v, `held`)"""
    import mmap
    nf, prog = case['nf'], case['prog']
    local = [[] for _ in range(nf)]
    for op in prog:
        if op[0] in ('W', 'R', 'O'):
            local[op[1]].append([op[0]] + op[2:])
    runs = []
    for f in range(nf):
        r = m.call('c10_prun', case['isz'], mmap.PAGESIZE, BLOB_LIMIT, sx_pops(local[f]))
        runs.append([d_step(s) for s in r])
    done = [0] * nf
    held, peeks = [], []
    plan = prog_plan(case)
    for op in prog:
        peek = None
        if op[0] in ('W', 'R', 'O'):
            done[op[1]] += 1
            st = runs[op[1]][done[op[1]]] if done[op[1]] < len(runs[op[1]]) else ['err', 'stopped']
            if st[0] == 'err':
                return {'prog': {'err': [len(peeks), st[1]]}}
            if op[0] == 'R':
                peek = st[5][1] if st[5] and st[5][0] == 'ok' else st[5]
        elif op[0] == 'H':
            f, kind, t0, t1, quiet = plan[len(held)]
            st = runs[f][done[f]]
            held.append({'value': st[4] if kind == 'F' else st[3], 'compare': kind == 'F' or quiet})
        peeks.append(peek)
    final = [[runs[f][done[f]][3], runs[f][done[f]][4]] for f in range(nf)]
    return {'prog': {'held': held, 'peeks': peeks, 'final': final}}


def _pshort(op):
    if op[0] in ('W', 'R'):
        k = key_str(op[2])
        return [op[0], 'file %d' % op[1], k if len(k) <= 24 else k[:10] + '...(%d chars)' % len(k)] + op[3:]
    return op


def direct_prog(case, obs):
    p = obs['prog']
    prog, nf = case['prog'], case['nf']
    if 'err' in p:
        return 'step %d %r raised %s' % (p['err'][0] + 1, _pshort(prog[p['err'][0]]) if p['err'][0] < len(prog) else 'open', p['err'][1])
    ref = reference_prog(case)
    plan = prog_plan(case)
    for t, (op, pk) in enumerate(zip(prog, p['peeks'])):
        if op[0] == 'R':
            want = [[v, ts] for kk, v, ts in ref[op[1]][t + 1] if kk == ckey(key_str(op[2]))][0]
            if pk != want:
                return 'after step %d %r: read_value returned %r, expected %r' % (t + 1, _pshort(op), pk, want)
    for hid, (h, (f, kind, t0, t1, quiet)) in enumerate(zip(p['held'], plan)):
        name = ('read_all_values_from_file() of file %d' if kind == 'F' else 'read_all_values() of the handle of file %d') % f
        when = [c[0] for c in h['chunks']]
        between = [_pshort(prog[u]) for u in range(t0, min(t1, len(prog))) if prog[u][0] != 'N' or prog[u][1] != hid]
        what = '%s asked after step %d (result %d), consumed at step(s) %s, after %d other call(s) %s' % (
            name, t0 - 1, hid, when[:6] or 'end', len(between), between[:4])
        exp = ref[f][t0]
        val = h['value']
        got = [e for _, es in h['chunks'] for e in es]
        if kind == 'F' or quiet:
            # the result must be the state of ITS file at the moment of ITS call
            if val[0] != 'ok':
                return '%s: raised %s after %d entries on an intact file; expected the %d entries the file held at the call' % (
                    what, val[1], len(got), len(exp))
            if val[1] != exp:
                return '%s: %s (expected = the file as it was at the call)' % (what, _diff(val[1], exp))
            continue
        # a view of the handle consumed while its file changed: every key once, in first-write order, each with a pair it
        # held between the call and its delivery; after a close of that handle an exception is accepted too
        closed = any(prog[u][0] == 'O' and prog[u][1] == f for u in range(t0, min(t1, len(prog))))
        if val[0] != 'ok' and not closed:
            return '%s: raised %s after %d entries (the handle is open)' % (what, val[1], len(got))
        keys_now = [e[0] for e in ref[f][t1]]
        gk = [e[0] for e in got]
        if gk != keys_now[:len(gk)]:
            return '%s: keys %r are not the file\'s keys in first-write order %r' % (what, gk[:6], keys_now[:6])
        if val[0] == 'ok' and len(gk) < len(ref[f][t0]):
            return '%s: %d entries, the file held %d at the call' % (what, len(gk), len(ref[f][t0]))
        j = 0
        for tc, es in h['chunks']:
            for e in es:
                ok = [[x[1], x[2]] for u in range(t0, tc + 1) for x in ref[f][u] if x[0] == e[0]]
                if e[1:] not in ok:
                    return '%s: entry %d is %r, a pair the key never held between the call and its delivery (%r)' % (
                        what, j, e, ok[:4])
                j += 1
    for f in range(nf):
        exp = ref[f][len(prog)]
        for i, nm in ((0, 'read_all_values()'), (1, 'read_all_values_from_file()')):
            r = p['final'][f][i]
            if r != ['ok', exp]:
                return 'after the program, file %d: %s: %s' % (f, nm, _diff(r[1] if r[0] == 'ok' else r, exp))
    return None


def classify_prog(case, obs):
    out = ['prog', 'prog-files=%d' % case['nf'], 'isz=real' if case['isz'] == 65536 else 'isz=patched-small']
    prog = case['prog']
    plan = prog_plan(case)
    ref = reference_prog(case)
    p = obs['prog']
    for hid, (f, kind, t0, t1, quiet) in enumerate(plan):
        out.append('held=' + ('file-reader' if kind == 'F' else 'handle'))
        span = [prog[u] for u in range(t0, min(t1, len(prog)))]
        if any(o[0] == 'H' and o[1] != f for o in span):
            out.append('held-across=read-of-another-file')
        if any(o[0] == 'H' and o[1] == f for o in span):
            out.append('held-across=read-of-the-same-file')
        if any(o[0] in 'WR' and o[1] == f for o in span) and ref[f][t0] != ref[f][min(t1, len(prog))]:
            out.append('held-across=writes-to-its-file')
        if any(o[0] == 'O' and o[1] == f for o in span):
            out.append('held-across=close-reopen-of-its-file')
        if 'held' in p and hid < len(p['held']):
            h = p['held'][hid]
            if len(h['chunks']) > 1:
                out.append('consumed=in-pieces')
            if not h['compare']:
                out.append('held=handle-view-over-changing-file')
            n = sum(len(es) for _, es in h['chunks'])
            out.append('held-entries=%s' % ('0' if n == 0 else '1-3' if n < 4 else '4+'))
    for a in range(len(plan)):
        for b in range(a + 1, len(plan)):
            if plan[b][2] < plan[a][3]:
                out.append('alive-together=' + ('same-file' if plan[a][0] == plan[b][0] else 'two-files'))
                break
    for f in range(case['nf']):
        used = 8 + sum(4 + len(key_str_bytes(k)) + (8 - (len(key_str_bytes(k)) + 4) % 8) + 16 for k in _prog_keys(case, f))
        import mmap
        if used > mmap.PAGESIZE:
            out.append('prog-file-beyond-first-block')
        if used > case['isz']:
            out.append('prog-file-grown')
    return out


def key_str_bytes(k):
    return key_str(k).encode('utf-8')


def _prog_keys(case, f):
    seen = []
    for op in case['prog']:
        if op[0] in ('W', 'R') and op[1] == f and key_str(op[2]) not in [key_str(x) for x in seen]:
            seen.append(op[2])
    return seen


def shrinks_prog(case):
    prog = case['prog']

    def without(i):
        op = prog[i]
        rest = prog[:i] + prog[i + 1:]
        if op[0] != 'H':
            return rest
        hid = sum(1 for o in prog[:i] if o[0] == 'H')
        out = []
        for o in rest:
            if o[0] == 'N':
                if o[1] == hid:
                    continue
                if o[1] > hid:
                    o = ['N', o[1] - 1, o[2]]
            out.append(o)
        return out
    for i in range(len(prog)):
        yield {'isz': case['isz'], 'nf': case['nf'], 'prog': without(i)}
    for i, op in enumerate(prog):
        if op[0] in ('W', 'R') and isinstance(op[2], list) and op[2][1] > 1:
            u, c, sfx = op[2]
            yield {'isz': case['isz'], 'nf': case['nf'], 'prog': prog[:i] + [op[:2] + [[u, c // 2, sfx]] + op[3:]] + prog[i + 1:]}


# ---- generators of prog cases
def prog_structured(ctx):
    def fill(f, n, tag, off=0):
        return [['W', f, '%s%d/\xe9%s' % (tag, f, 'x' * (i + 3 * f)), SPECIAL_BITS[(i + off + 5 * f) % len(SPECIAL_BITS)], 1000 * f + i + off]
                for i in range(n)]
    for isz in (65536, 32):
        two = fill(0, 7, 'proc') + fill(1, 12, 'proc')
        # two files asked, then consumed: in order, reversed, element by element
        yield {'isz': isz, 'nf': 2, 'prog': two + [['H', 0, 'F'], ['H', 1, 'F'], ['N', 0, -1], ['N', 1, -1]]}
        yield {'isz': isz, 'nf': 2, 'prog': two + [['H', 1, 'F'], ['H', 0, 'F'], ['N', 0, -1], ['N', 1, -1]]}
        yield {'isz': isz, 'nf': 2, 'prog': two + [['H', 0, 'F'], ['H', 1, 'F']] + [['N', i % 2, 1] for i in range(26)]}
        yield {'isz': isz, 'nf': 2, 'prog': two + [['H', 0, 'D'], ['H', 1, 'D'], ['H', 0, 'F'], ['H', 1, 'F']] +
               [['N', i % 4, 2] for i in range(30)]}
        # the same keys in both files, different values; an empty second file; a one-entry file
        yield {'isz': isz, 'nf': 2, 'prog': [['W', 0, 'k', 1, 2], ['W', 1, 'k', 3, 4], ['W', 0, 'l', 5, 6], ['W', 1, 'l', 7, 8],
                                             ['H', 0, 'F'], ['H', 1, 'F'], ['H', 0, 'D'], ['H', 1, 'D']]}
        yield {'isz': isz, 'nf': 2, 'prog': fill(0, 5, 'p') + [['H', 0, 'F'], ['H', 1, 'F'], ['H', 0, 'F'], ['N', 2, 2]]}
        yield {'isz': isz, 'nf': 3, 'prog': fill(0, 3, 'p') + fill(1, 1, 'p') + fill(2, 9, 'p') +
               [['H', 2, 'F'], ['H', 1, 'F'], ['H', 0, 'F'], ['N', 0, 4], ['H', 1, 'D'], ['N', 2, 1], ['N', 0, 2]]}
        # one file at several moments: asked, more written (new keys, overwrites, growth, reopen), asked again
        yield {'isz': isz, 'nf': 1, 'prog': fill(0, 4, 'a') + [['H', 0, 'F']] + fill(0, 6, 'a', 3) + [['H', 0, 'F']] +
               [['W', 0, 'a0/\xe9', 0x7ff8000000000001, 0x8000000000000000], ['O', 0], ['H', 0, 'F'], ['W', 0, ['y', 300, ''], 9, 9],
                ['H', 0, 'F'], ['N', 0, -1], ['N', 1, 3], ['N', 3, -1], ['N', 2, -1]]}
        yield {'isz': isz, 'nf': 1, 'prog': fill(0, 4, 'a') + [['H', 0, 'D'], ['N', 0, 1]] + fill(0, 6, 'a', 3) + [['N', 0, 2], ['H', 0, 'D']] +
               [['W', 0, ['y', 300, ''], 9, 9], ['N', 0, 1], ['N', 1, 2], ['O', 0], ['H', 0, 'D'], ['H', 0, 'F'], ['W', 0, 'late', 1, 1]]}
        # handle results held while NOTHING is written (reads only): exact
        yield {'isz': isz, 'nf': 2, 'prog': two + [['H', 0, 'D'], ['H', 1, 'D'], ['R', 0, 'proc0/\xe9'], ['H', 1, 'F'], ['N', 0, 3],
                                             ['H', 0, 'F'], ['N', 1, 5], ['N', 0, -1], ['N', 3, -1]]}
    # files beyond the first block of the reader (used > PAGESIZE): the second read() of the file reader
    big0 = [['W', 0, ['k', 700, '%d' % i], i + 1, i + 2] for i in range(9)]
    big1 = [['W', 1, ['€', 500, '%d' % i], 0x7ff8000000000000 + i + 1, i] for i in range(5)]
    yield {'isz': 65536, 'nf': 2, 'prog': big0 + big1 + [['H', 0, 'F'], ['H', 1, 'F'], ['N', 0, 5], ['N', 1, -1], ['N', 0, -1]]}
    yield {'isz': 65536, 'nf': 2, 'prog': big0 + [['W', 1, 'small', 1, 2], ['H', 0, 'F'], ['H', 1, 'F'], ['H', 0, 'F'], ['N', 2, 3]]}
    yield {'isz': 65536, 'nf': 2, 'prog': big0 + [['W', 1, 'small', 1, 2], ['H', 1, 'F'], ['H', 0, 'F'], ['N', 0, -1]]}
    yield {'isz': 65536, 'nf': 1, 'prog': big0[:4] + [['H', 0, 'F']] + big0[4:] + [['H', 0, 'F'], ['W', 0, ['z', 70000, ''], 1, 1], ['H', 0, 'F'],
                                           ['N', 0, 2], ['N', 1, 2], ['N', 2, 2]]}


def rand_prog(rng):
    isz = 65536 if rng.random() < 0.3 else rng.choice((8, 16, 24, 40, 64, 128, 1000, 4096))
    nf = rng.choice((1, 2, 2, 2, 3))
    shared = [rand_key(rng) for _ in range(rng.randrange(0, 3))]
    pools = []
    for f in range(nf):
        pool = list(shared)
        while len(pool) < rng.choice((1, 2, 3, 5, 8)):
            k = rand_key(rng)
            if k not in pool:
                pool.append(k)
        if rng.random() < 0.12:
            pool.append([rng.choice('ab\xe9€'), rng.randrange(300, 6000), rand_key(rng, 4)])
        pools.append(pool)
    prog = []
    for f in range(nf):        # most files start with some content
        for _ in range(rng.randrange(0, 6)):
            prog.append(['W', f, rng.choice(pools[f]), rand_bits(rng), rand_bits(rng)])
    nheld = 0
    live = []
    quiet_phase = rng.random() < 0.3        # only reads after the first hold: every result is exact
    for _ in range(rng.randrange(3, 28)):
        r = rng.random()
        f = rng.randrange(nf)
        if r < 0.3 and not (quiet_phase and nheld):
            prog.append(['W', f, rng.choice(pools[f]), rand_bits(rng), rand_bits(rng)])
        elif r < 0.36:
            prog.append(['R', f, rng.choice(pools[f])])
        elif r < 0.42 and not (quiet_phase and nheld):
            prog.append(['O', f])
        elif r < 0.68 or not live:
            prog.append(['H', f, 'F' if rng.random() < 0.65 else 'D'])
            live.append(nheld)
            nheld += 1
        else:
            hid = rng.choice(live)
            n = rng.choice((1, 1, 2, 3, -1))
            prog.append(['N', hid, n])
            if n < 0:
                live.remove(hid)
    return {'isz': isz, 'nf': nf, 'prog': prog}


KG_PRELUDE = '''
Definition kg_final (isz : N) (ops : list op) : list N :=
  match start isz with
  | Err _ => [255; 255]
  | Ok (fh, _) =>
      (fix go (fh : fstate * handle) (ops : list op) : list N :=
         match ops with
         | [] => match fst fh with Some b => take (used (snd fh)) b | None => [] end
         | o :: r => match step isz fh o with Err _ => [254; 254] | Ok (fh', _) => go fh' r end
         end) fh ops
  end.
'''


def kernel_guards(ctx, rep):
    """A stateful model under the kernel guard: whole write/read/reopen histories are run by the extracted driver
    (c10_run) and again by vm_compute on the Gallina start/step (kg_final, a fold written in the generated file); the used
    part of the file after the last step must be the same bytes."""
    import mmap
    import random
    from .incoq import kernel_guard, coq_bytes
    rr = random.Random(ctx.seed * 977 + 3)
    keys = ['', 'a', 'ab', 'abc', 'abcd', 'abcde', 'k\u00e9', '\U0001f600', 'x' * 9, 'y' * 40]
    sample = []
    for _ in range(ctx.n(60, 400)):
        ops = []
        for _ in range(rr.randrange(1, 9)):
            r = rr.random()
            k = rr.choice(keys).encode('utf-8')
            if r < 0.7:
                ops.append(('W', k, bytes(rr.getrandbits(8) for _ in range(8)), bytes(rr.getrandbits(8) for _ in range(8))))
            elif r < 0.85:
                ops.append(('R', k))
            else:
                ops.append(('O',))
        isz = rr.choice([64, 128, 1024])
        sxo = [(Sym(o[0]),) + tuple(o[1:]) for o in ops]
        r = ctx.model.call('c10_run', isz, mmap.PAGESIZE, 1 << 20, sxo)
        last = r[-1]
        if last[0] == 'err' or last[0] == 'nofile':
            continue
        term = '[' + '; '.join('Write %s %s %s' % tuple(coq_bytes(x) for x in o[1:]) if o[0] == 'W' else
                               'ReadV %s' % coq_bytes(o[1]) if o[0] == 'R' else 'Reopen' for o in ops) + ']'
        sample.append(('(%d%%N, %s)' % (isz, term), bytes(d_bytes(last[2])).decode('latin-1')))
    kernel_guard(rep, 'mmap_history', ['lib.PyBase', 'model.MmapDict'], '(fun c => kg_final (fst c) (snd c))', sample,
                 prelude=KG_PRELUDE, shard=100)

