"""C10 - the mmap store returns exactly what was written, across growth and reopen.
Implementation: prometheus_client.mmap_dict.MmapedDict driven on temporary files.  Model: coq/model/MmapDict.v."""
import hashlib
import os
import shutil
import struct
import tempfile

from .sx import Sym, d_bytes, d_int

RULE = ('write/read_value/reopen histories over keys of every UTF-8 length modulo 8 (ASCII, 2/3/4-byte code points, NUL, '
        'trailing spaces, JSON mmap_key strings), keys around and beyond the capacity (0, 1, 2, 3 doublings of the real 65536 and many '
        'doublings of a patched small initial size), doubles by bit pattern (NaN payloads incl. signalling, -0.0, subnormals, inf, random '
        'bits), reopen at arbitrary points; exhaustive slice: all histories of length <= 3 over 3 keys x 2 values x reopen at a small '
        'initial size; observation after EVERY step: the first `used` bytes of the file, read_all_values(), '
        'read_all_values_from_file(), read_value(); non-trivial = at least one overwrite or reopen or growth; distinct by case')
TRUSTED = ['UTF-8 encode/decode are inverse on encodable strings (keys are byte strings in the model)',
           "struct packs/unpacks 'd' bit-exactly and 'i' as little-endian signed 32-bit (values are 8-byte strings in the model)",
           'a shared mmap and read() of the same file see the same bytes (Linux unified page cache)']
ASSUMPTIONS = ['keys are encodable strings (no lone surrogates); total used bytes < 2^31 (struct i)',
               'the file length itself is not observed (C10 does not fix it): only file length >= used bytes is checked']
TIME_BUDGET = {'quick': 70, 'thorough': 800}

BLOB_LIMIT = 4096
KEY_LIMIT = 64

SPECIAL_BITS = [0x0, 0x8000000000000000, 0x1, 0x000fffffffffffff, 0x8000000000000001, 0x0010000000000000,
                0x3ff0000000000000, 0xbff0000000000000, 0x7ff0000000000000, 0xfff0000000000000,
                0x7ff8000000000000, 0x7ff8000000000001, 0x7ff0000000000001, 0xfff8000000000000,
                0xffffffffffffffff, 0x7fffffffffffffff, 0x7ff4000000000000, 0x4059000000000000,
                0x2020202020202020, 0x0000000800000000, 0x41d6ad5f3a000000]
ATOMS = ['a', 'b', 'z', ' ', '\x00', '"', '{', '\xe9', '\xdf', '\u20ac', '\u2028', '\U0001F600', '\U00010000', '\x7f', '\u0800', '\uffff']


def frombits(b):
    return struct.unpack('<d', struct.pack('<Q', b & 0xFFFFFFFFFFFFFFFF))[0]


def bits(d):
    return struct.unpack('<Q', struct.pack('<d', d))[0]


def key_str(ks):
    if isinstance(ks, str):
        return ks
    unit, count, suffix = ks
    return unit * count + suffix


def blob(b, limit):
    b = bytes(b)
    if len(b) <= limit:
        return b.hex()
    return ['md5', hashlib.md5(b).hexdigest(), len(b)]


# ---------------------------------------------------------------- generators
def rand_key(rng, maxlen=24):
    n = rng.choice((0, 1, 2, 3, 4, 5, 6, 7, 8, 9, 11, 12, 13, 15, 16, 17, 20)) if rng.random() < 0.7 else rng.randrange(maxlen)
    style = rng.random()
    if style < 0.35:
        return ''.join(rng.choice('abcxyz_01') for _ in range(n))
    if style < 0.85:
        return ''.join(rng.choice(ATOMS) for _ in range(n))
    if style < 0.93:
        return '["m%d", "m%d_total", {"l": "%s"}, "help"]' % (rng.randrange(3), rng.randrange(3), rng.choice(ATOMS) * rng.randrange(4))
    return ''.join(chr(rng.choice([rng.randrange(0x20, 0x7f), rng.randrange(0x80, 0x800), rng.randrange(0x800, 0xd800),
                                   rng.randrange(0xe000, 0x10000), rng.randrange(0x10000, 0x110000)])) for _ in range(n))


def rand_bits(rng):
    r = rng.random()
    if r < 0.45:
        return rng.choice(SPECIAL_BITS)
    if r < 0.6:
        return bits(float(rng.randrange(-1000, 1000)) / rng.choice((1, 2, 3, 10)))
    if r < 0.7:
        return rng.randrange(1, 1 << 52) | (rng.randrange(2) << 63)           # subnormal
    if r < 0.8:
        return 0x7ff0000000000000 | rng.randrange(1, 1 << 52) | (rng.randrange(2) << 63)   # NaN payloads
    return rng.getrandbits(64)


def rand_history(rng, nkeys, nops, key_pool=None):
    keys = key_pool or []
    while len(keys) < nkeys:
        k = rand_key(rng)
        if k not in keys:
            keys.append(k)
    ops = []
    for _ in range(nops):
        r = rng.random()
        k = rng.choice(keys)
        if r < 0.62:
            ops.append(['W', k, rand_bits(rng), rand_bits(rng)])
        elif r < 0.8:
            ops.append(['R', k])
        else:
            ops.append(['O'])
    return ops


def cases(ctx):
    rng = ctx.rng
    # --- every encoded length modulo 8, single- and multi-byte, at the real initial size
    for unit in ('a', 'é', '€', '\U0001F600', ' '):
        ops = []
        for n in range(0, 18):
            ops.append(['W', unit * n, SPECIAL_BITS[n % len(SPECIAL_BITS)], SPECIAL_BITS[(n * 7 + 3) % len(SPECIAL_BITS)]])
        ops += [['O'], ['R', unit * 3], ['W', unit * 5, 0x7ff8000000000001, 0x8000000000000000], ['O'], ['R', unit * 5]]
        yield {'isz': 65536, 'ops': ops}
    # --- all special bit patterns as value and as timestamp
    ops = []
    for i, b in enumerate(SPECIAL_BITS):
        ops.append(['W', 'k%d' % (i % 5), b, SPECIAL_BITS[-1 - i]])
        ops.append(['R', 'k%d' % (i % 5)])
    yield {'isz': 65536, 'ops': ops + [['O']] + [['R', 'k%d' % i] for i in range(5)]}
    # --- exhaustive small slice: histories of length <= 3 over {W k v, R k, O}, small initial size (growth at every step)
    alpha = [['W', k, v, v ^ 1] for k in ('a', 'abcde', 'é') for v in (0x7ff0000000000001, 0x8000000000000000)] + \
            [['R', k] for k in ('a', 'abcde')] + [['O']]
    for isz in (8, 32):
        for a in alpha:
            yield {'isz': isz, 'ops': [a]}
            for b in alpha:
                yield {'isz': isz, 'ops': [a, b]}
                if ctx.thorough or isz == 32:
                    for c in alpha:
                        yield {'isz': isz, 'ops': [a, b, c]}
    # --- keys around / beyond the real capacity: 0, 1, 2, 3 doublings, and the exact-fit boundary
    # an entry for an n-byte key takes 4 + n + pad + 16; the first one starts at 8
    # (an n-byte key first fits exactly for n = 65500..65507; 65508 forces the first doubling)
    sizes = (65507, 65508, 140000) if not ctx.thorough else (
        65499, 65500, 65507, 65508, 65509, 65536, 65537, 70001, 131072 - 28, 131072 - 27, 140000, 300003)
    for n in sizes:
        pre = [['W', 'p', 1, 2]] if n % 2 else []
        yield {'isz': 65536, 'ops': pre + [['W', ['x', n, ''], 0x7ff8000000000001, 3], ['W', 'after', 4, 5], ['O'],
                                           ['W', ['x', n, ''], 0xfff0000000000001, 6], ['R', 'after'],
                                           ['W', ['é', 5, 'tail'], 7, 8]]}
    yield {'isz': 65536, 'ops': [['W', ['€', 30000, 'k'], 1, 1], ['O'], ['W', ['\U0001F600', 40000, ''], 2, 2],
                                 ['W', ['€', 30000, 'k'], 0x8000000000000000, 9], ['O'], ['R', ['€', 30000, 'k']]]}
    # many medium keys filling the initial 64 KiB exactly and beyond
    for keylen in ((1000, 4064) if ctx.thorough else (4064,)):
        ops = [['W', ['k', keylen, '%04d' % i], i, i + 1] for i in range(70 if keylen == 1000 else 17)]
        yield {'isz': 65536, 'ops': ops + [['O'], ['W', ['k', keylen, '0003'], 0x7ff8000000000005, 0], ['R', ['k', keylen, '0000']]]}
    # --- random histories
    n_rand = ctx.n(1500, 40000)
    for i in range(n_rand):
        r = rng.random()
        if r < 0.25:
            isz = 65536
        else:
            isz = rng.choice((8, 9, 16, 24, 40, 64, 100, 128, 1000, 4096))
        nkeys = rng.choice((1, 2, 3, 5, 8, 12))
        ops = rand_history(rng, nkeys, rng.randrange(1, 30))
        if rng.random() < 0.08:
            big = [rng.choice(ATOMS[:4] + ATOMS[7:10]), rng.randrange(100, 9000), rand_key(rng, 6)]
            ops.insert(rng.randrange(len(ops) + 1), ['W', big, rand_bits(rng), rand_bits(rng)])
            if rng.random() < 0.5:
                ops.append(['O'])
                ops.append(['W', big, rand_bits(rng), rand_bits(rng)])
        yield {'isz': isz, 'ops': ops}


# ---------------------------------------------------------------- implementation side
def exc_kind(e):
    n = type(e).__name__
    if isinstance(e, struct.error):
        return 'StructError'
    if isinstance(e, ValueError):
        return 'ValueError'
    if isinstance(e, (IndexError, RuntimeError, KeyError, TypeError, OSError, OverflowError, AttributeError)):
        for c in (IndexError, RuntimeError, KeyError, TypeError, OSError, OverflowError, AttributeError):
            if isinstance(e, c):
                return c.__name__
    return n


def canon_entries(it):
    out = []
    for t in it:
        k, v, ts = t[0], t[1], t[2]
        out.append([blob(k.encode('utf-8'), KEY_LIMIT), bits(v), bits(ts)])
    return out


def attempt(f):
    try:
        return ['ok', f()]
    except Exception as e:      # noqa: any exception is an observation
        return ['err', exc_kind(e)]


def observe(mod, path, d, peek):
    raw = open(path, 'rb').read()
    used = struct.unpack_from('<i', raw, 0)[0] if len(raw) >= 4 else -1
    return [len(raw) >= used, used, blob(raw[:max(used, 0)], BLOB_LIMIT),
            attempt(lambda: canon_entries(d.read_all_values())),
            attempt(lambda: canon_entries(mod.MmapedDict.read_all_values_from_file(path))),
            peek]


class patched_isz:
    def __init__(self, mod, isz):
        self.mod, self.isz = mod, isz

    def __enter__(self):
        self.old = getattr(self.mod, '_INITIAL_MMAP_SIZE', None)
        if self.old is not None:
            self.mod._INITIAL_MMAP_SIZE = self.isz

    def __exit__(self, *a):
        if self.old is not None:
            self.mod._INITIAL_MMAP_SIZE = self.old


def impl(case):
    import prometheus_client.mmap_dict as mod
    tmp = tempfile.mkdtemp(prefix='c10-')
    path = os.path.join(tmp, 'counter_1.db')
    steps = []
    d = None
    try:
        with patched_isz(mod, case['isz']):
            try:
                d = mod.MmapedDict(path)
            except Exception as e:
                return [['err', exc_kind(e)]]
            steps.append(observe(mod, path, d, None))
            for op in case['ops']:
                peek = None
                try:
                    if op[0] == 'W':
                        d.write_value(key_str(op[1]), frombits(op[2]), frombits(op[3]))
                    elif op[0] == 'R':
                        v, ts = d.read_value(key_str(op[1]))
                        peek = ['ok', [bits(v), bits(ts)]]
                    else:
                        d.close()
                        d = mod.MmapedDict(path)
                except Exception as e:
                    steps.append(['err', exc_kind(e)])
                    break
                steps.append(observe(mod, path, d, peek))
            else:
                # after the history: close, reopen by a new writer, read every key through read_value (direct oracle only)
                fin = []
                try:
                    d.close()
                    d = mod.MmapedDict(path)
                    seen = []
                    for op in case['ops']:
                        if op[0] != 'O' and key_str(op[1]) not in seen:
                            seen.append(key_str(op[1]))
                    for k in seen:
                        v, ts = d.read_value(k)
                        fin.append([blob(k.encode('utf-8'), KEY_LIMIT), bits(v), bits(ts)])
                    fin = ['ok', fin, attempt(lambda: canon_entries(d.read_all_values()))]
                except Exception as e:
                    fin = ['err', exc_kind(e)]
                steps.append({'final': fin})
    finally:
        try:
            if d is not None:
                d.close()
        except Exception:
            pass
        shutil.rmtree(tmp, ignore_errors=True)
    return steps


# ---------------------------------------------------------------- model side
def le8(b):
    return struct.pack('<Q', b)


def sx_ops(ops):
    out = []
    for op in ops:
        if op[0] == 'W':
            out.append((Sym('W'), key_str(op[1]).encode('utf-8'), le8(op[2]), le8(op[3])))
        elif op[0] == 'R':
            out.append((Sym('R'), key_str(op[1]).encode('utf-8')))
        else:
            out.append((Sym('O'),))
    return out


def d_blob(a):
    if isinstance(a, list):
        return ['md5', a[1], int(a[2])]
    return d_bytes(a).hex()


def d_val(a):
    return [struct.unpack('<Q', d_bytes(a[0]))[0], struct.unpack('<Q', d_bytes(a[1]))[0]]


def d_entries(a):
    if a[0] == 'ok':
        return ['ok', [[d_blob(e[0])] + d_val(e[1]) for e in a[1]]]
    return ['err', a[1]]


def d_step(s):
    if s[0] == 'err':
        return ['err', s[1]]
    if s[0] == 'nofile':
        return ['nofile']
    flen, used = d_int(s[0]), d_int(s[1])
    pk = None
    if s[5] != 'N':
        pk = ['ok', d_val(s[5][1])] if s[5][0] == 'ok' else ['err', s[5][1]]
    return [flen >= used, used, d_blob(s[2]), d_entries(s[3]), d_entries(s[4]), pk]


def model(m, case):
    import mmap
    r = m.call('c10_run', case['isz'], mmap.PAGESIZE, BLOB_LIMIT, sx_ops(case['ops']))
    return [d_step(s) for s in r]


def same(i, mo):
    i2 = [s for s in i if not isinstance(s, dict)]
    return i2 == mo


# ---------------------------------------------------------------- direct oracle
def reference(ops):
    """last-write-wins map in first-write order after every step (index 0 = after open)"""
    cur = {}
    states = [[]]
    for op in ops:
        if op[0] == 'W':
            cur[key_str(op[1])] = (op[2], op[3])
        elif op[0] == 'R':
            cur.setdefault(key_str(op[1]), (0, 0))
        states.append([[blob(k.encode('utf-8'), KEY_LIMIT), v, t] for k, (v, t) in cur.items()])
    return states


def direct(case, obs):
    ops = case['ops']
    ref = reference(ops)
    for i, s in enumerate(obs):
        what = 'after open' if i == 0 else 'after step %d %r' % (i, _short(ops[i - 1]) if i <= len(ops) else 'final')
        if isinstance(s, dict):
            fin = s['final']
            exp = ref[len(ops)]
            if fin[0] != 'ok':
                return 'close + reopen by a new writer raised %s' % fin[1]
            if fin[1] != exp:
                return 'read_value after close+reopen: %s, expected %s' % (_diff(fin[1], exp), '')
            if fin[2] != ['ok', exp]:
                return 'read_all_values after close+reopen: %s' % _diff(fin[2][1] if fin[2][0] == 'ok' else fin[2], exp)
            continue
        if s[0] == 'err':
            return '%s: raised %s' % (what, s[1])
        exp = ref[i]
        if s[0] is not True:
            return '%s: used-bytes header %d exceeds the file length' % (what, s[1])
        if s[3] != ['ok', exp]:
            return '%s: read_all_values(): %s' % (what, _diff(s[3][1] if s[3][0] == 'ok' else s[3], exp))
        if s[4] != ['ok', exp]:
            return '%s: read_all_values_from_file(): %s' % (what, _diff(s[4][1] if s[4][0] == 'ok' else s[4], exp))
        if i > 0 and ops[i - 1][0] == 'R':
            k = blob(key_str(ops[i - 1][1]).encode('utf-8'), KEY_LIMIT)
            want = [[v, t] for kk, v, t in exp if kk == k][0]
            if s[5] != ['ok', want]:
                return '%s: read_value returned %r, expected %r' % (what, s[5], want)
    if len([s for s in obs if not isinstance(s, dict)]) != len(ops) + 1:
        return 'history stopped early'
    return None


def _short(op):
    if op[0] == 'O':
        return 'reopen'
    k = key_str(op[1])
    return [op[0], k if len(k) <= 24 else k[:10] + '...(%d chars)' % len(k)] + op[2:]


def _diff(got, exp):
    if not isinstance(got, list) or (got and got[0] == 'err'):
        return 'got %r' % (got,)
    if len(got) != len(exp):
        return 'got %d entries %r, expected %d %r' % (len(got), got[:6], len(exp), exp[:6])
    for j, (a, b) in enumerate(zip(got, exp)):
        if a != b:
            return 'entry %d is %r, expected %r' % (j, a, b)
    return 'equal'


def nontrivial(case, obs):
    ops = case['ops']
    seen = set()
    for op in ops:
        if op[0] == 'O':
            return True
        k = key_str(op[1])
        if k in seen:
            return True
        seen.add(k)
    return any(len(key_str(op[1])) > case['isz'] for op in ops if op[0] != 'O')


def classify(case, obs):
    out = []
    ops = case['ops']
    out.append('isz=real' if case['isz'] == 65536 else 'isz=patched-small')
    for op in ops:
        out.append('op=' + op[0])
        if op[0] != 'O':
            out.append('keylen%%8=%d' % (len(key_str(op[1]).encode('utf-8')) % 8))
            if any(ord(c) > 127 for c in key_str(op[1])[:50]):
                out.append('key=multibyte')
    last = [s for s in obs if not isinstance(s, dict)][-1]
    if last[0] != 'err':
        used = last[1]
        dbl = 0
        cap = case['isz']
        while used > cap:
            cap *= 2
            dbl += 1
        out.append('doublings>=%d' % min(dbl, 4))
    seen_o = False
    keys = set()
    for op in ops:
        if op[0] == 'O':
            seen_o = True
        elif op[0] == 'W':
            if seen_o and key_str(op[1]) in keys:
                out.append('overwrite-after-reopen')
            keys.add(key_str(op[1]))
    return out


def neighbours(case):
    out = []
    ops = case['ops']
    for i in range(len(ops)):
        out.append({'isz': case['isz'], 'ops': ops[:i] + ops[i + 1:]})
        out.append({'isz': case['isz'], 'ops': ops[:i] + [['O']] + ops[i:]})
    return out[:60]


def shrinks(case):
    ops = case['ops']
    n = len(ops)
    if n > 1:
        yield {'isz': case['isz'], 'ops': ops[:n // 2]}
        yield {'isz': case['isz'], 'ops': ops[n // 2:]}
    for i in range(n):
        yield {'isz': case['isz'], 'ops': ops[:i] + ops[i + 1:]}
    for i, op in enumerate(ops):
        if op[0] != 'O' and not isinstance(op[1], str):
            u, c, s = op[1]
            if c > 1:
                yield {'isz': case['isz'], 'ops': ops[:i] + [[op[0], [u, c // 2, s]] + op[2:]] + ops[i + 1:]}
