"""C13 - float rendering is exact, injective and canonical.  Implementation: prometheus_client.utils.floatToGoString."""
import math
import re
import struct
import sys
from decimal import Decimal
from fractions import Fraction

from .sx import Sym, d_str

RULE = ('doubles by bit pattern: every power of ten 1e-323..1e308 and its neighbours by 1 and 2 ulps, digit-count and '
        'trailing-zero patterns around 1e6 and 1e16, integers up to 2^64, subnormals, specials, seeded random bit patterns; '
        'non-trivial = finite d >= 1e6 (the rewriting branch) or a special; distinct by bits; plus every rendering site (text and '
        'OpenMetrics sample values, exemplar values with and without timestamp, histogram le labels in both bound orders) on a fixed '
        'list of 21 doubles, each site with one value per family, many values inside one family, and the quoted-name branch; '
        '_created series of labelled children created at different times; quantile/le labels through both expositions and the '
        'OpenMetrics parser; several histograms with different layouts and label sets in one process (bucket lines, per-bucket '
        'exemplars, two scrapes); multiprocess merge of workers, label sets and restarts with DIFFERENT bucket layouts (6 fixed + '
        'seeded random scenarios: different bounds, different bucket counts, shared and disjoint label sets, both file orders, '
        'accumulated or not, collect()): every merged le = the spelling of that bound in the worker\'s own exposition, with its count; '
        'histogram bounds GIVEN in every type/spelling the constructor takes (float() of: float, float subclass with its own repr, '
        '__float__/__index__ objects, int, bool, Decimal, Fraction, bytes/bytearray, and text: repr, %.17g/%e/%E, exact decimal '
        'expansion, integer text, underscores, leading +/zeros, trailing zeros, surrounding whitespace, short/long/upper-case '
        'exponents, .5 / 5. forms, Arabic-Indic and full-width digits; inf/Inf/INF/Infinity/+Inf... for an explicit last bound, '
        '-inf first): every spelling of 41 pool doubles alone in a histogram (labelled and not), seeded random layouts with a '
        'spelling per bound, and the multiprocess scenarios again with spelled bounds (2 fixed + seeded random); every exposed le '
        '(collect(), bucket lines of both expositions, worker file keys, merge) = the rendering of the DOUBLE the bound denotes, '
        'and one double has ONE label string over the whole run whatever way it was given and wherever it was exposed')
TRUSTED = ['CPython repr(float) (shortest round-trip repr; shape D{7,}.D+ for 1e6<=d<1e16 is re-validated on every generated case)',
           'CPython float(str) used by the direct oracle']
ASSUMPTIONS = ['float(repr(x)) == x and float() depends only on the denoted decimal value (CPython facts; checked per case, not proved)']
TIME_BUDGET = {'quick': 90, 'thorough': 900}


def bits(d):
    return struct.unpack('<Q', struct.pack('<d', d))[0]


def frombits(b):
    return struct.unpack('<d', struct.pack('<Q', b & 0xFFFFFFFFFFFFFFFF))[0]


def run(ctx, rep, corpus):
    from .engine import generic_loop
    for v in site_check(ctx.seed, ctx.n(40, 400)):
        rep.violate(dict(site=v.split(':')[0], seed=ctx.seed), v)
    rep.count('rendering_sites_checked', N_SITES)
    # correspondence at the rendering sites: every token found there is the model's go_string of that double
    toks = sorted(set(SEEN_TOKENS))
    del SEEN_TOKENS[:]
    rep.count('site_tokens_held_against_model', len(toks))
    merges = list(MERGES)
    del MERGES[:]
    rep.count('multiprocess_merges_held_against_model', len(merges))
    hists = list(HISTS)
    del HISTS[:]
    rep.count('spelled_histograms_held_against_model', len(hists))
    if ctx.model is not None:
        # the instrumentation class on bounds GIVEN in any type/spelling: model/LeLabels.v hist_le_samples on the doubles
        for case, layout, counts, got in hists:
            mres = ctx.model.call('histle', [fclass(b) for b in layout], counts)
            if mres[0] == 'ok':
                mobs = [(d_str(le), int(n)) for le, n in mres[1]]
            else:
                mobs = str(mres[1])
            if mobs != got:
                rep.disagree(case, got, mobs)
            else:
                rep.traces += 1
        for case, acc, sets, got in merges:
            mout = ctx.model.call('mple', acc, [(p, [(fclass(b), n) for b, n in bs]) for p, bs in sets])
            mobs = [(d_str(p), [(d_str(le), int(n)) for le, n in out]) for p, out in mout]
            if mobs != got:
                rep.disagree(case, got, mobs)
            else:
                rep.traces += 1
        for b, tok in toks:
            mtok = model(ctx.model, b)
            if mtok != tok:
                rep.disagree(dict(site='rendered token', bits=b), tok, mtok)
            else:
                rep.traces += 1
    rep.count('multiprocess_layout_scenarios', len(FIXED_SCENARIOS) + ctx.n(40, 400))
    if ctx.model is not None:
        # kernel guard on extraction: the same calls evaluated by vm_compute on the Gallina go_string itself
        import random
        from .incoq import kernel_guard, coq_str, coq_bool
        rr = random.Random(ctx.seed)
        pool = [bits(x) for x in (0.0, -0.0, math.inf, -math.inf, math.nan, 1e6, 999999.9999999999, 1e16, 9999999999999998.0,
                                  1.5e10, 1e21, 1e22, 1e100, 1e308, 5e-324, 123456789.125, -1e7, 2.0 ** 64, 1e-7)]
        pool += [bits(float('1e%d' % e)) + k for e in range(-20, 40) for k in (-1, 0, 1)]
        pool += [bits(rr.randrange(10 ** 6, 10 ** 17) / rr.choice((1, 2, 4, 8, 10))) for _ in range(ctx.n(150, 1500))]
        pool += [rr.getrandbits(64) for _ in range(ctx.n(100, 1000))]
        sample = []
        for b in pool:
            d = frombits(b)
            if d == math.inf:
                arg = 'FPosInf'
            elif d == -math.inf:
                arg = 'FNegInf'
            elif math.isnan(d):
                arg = 'FNaN'
            else:
                arg = '(FFin %s %s)' % (coq_bool(d > 0), coq_str(repr(d)))
            sample.append((arg, model(ctx.model, b)))
        kernel_guard(rep, 'go_string', ['lib.PyBase', 'model.Utils'], 'go_string', sample)
    generic_loop(sys.modules[__name__], ctx, rep, corpus)
    generic_loop(sys.modules[__name__], ctx, rep, cases(ctx))


def cases(ctx):
    rng = ctx.rng
    seen = set()

    def emit(b):
        b &= 0xFFFFFFFFFFFFFFFF
        if b not in seen:
            seen.add(b)
            return [b]
        return []
    for s in (0.0, -0.0, math.inf, -math.inf, math.nan, frombits(0x7ff8000000000001), frombits(0xfff0000000000001)):
        for b in emit(bits(s)):
            yield b
    # powers of ten and neighbours
    for e in range(-323, 309):
        d = float('1e%d' % e)
        b0 = bits(d)
        for k in (-2, -1, 0, 1, 2):
            for sign in (0, 1 << 63):
                for b in emit((b0 + k) | sign):
                    yield b
    # digit-count / trailing-zero patterns around the switch points
    for ndig in range(1, 18):
        for e in range(4, 19):
            for lead in ('1', '9', '5', '12', '99', '10', '1000001', '123456789', '9999999999999999'):
                digs = (lead + '0' * 20)[:ndig]
                for tail in ('', '5', '01', '25'):
                    try:
                        d = float(digs[0] + '.' + digs[1:] + tail + 'e%d' % e)
                    except ValueError:
                        continue
                    for b in emit(bits(d)):
                        yield b
    # integers up to 2^64
    for k in range(0, 65):
        for off in (-1, 0, 1):
            for b in emit(bits(float(2 ** k + off))):
                yield b
    for _ in range(ctx.n(2000, 40000)):
        for b in emit(bits(float(rng.randrange(10 ** rng.randrange(1, 20))))):
            yield b
    # subnormals
    for _ in range(ctx.n(500, 5000)):
        for b in emit(rng.randrange(1, 1 << 52) | (rng.randrange(2) << 63)):
            yield b
    # halves/quarters in the rewritten range
    for _ in range(ctx.n(4000, 100000)):
        d = rng.randrange(10 ** 6, 10 ** 16) / rng.choice((1, 2, 4, 8, 10, 100, 1000, 3, 7))
        for b in emit(bits(d)):
            yield b
    # random bit patterns
    for _ in range(ctx.n(20000, 600000)):
        for b in emit(rng.getrandbits(64)):
            yield b
    # uniformly random exponents in the rewriting band with short mantissas (trailing zeros)
    for _ in range(ctx.n(4000, 100000)):
        m = rng.randrange(1, 10 ** rng.randrange(1, 8))
        e = rng.randrange(0, 16)
        for b in emit(bits(float(m * 10 ** e))):
            yield b


SEEN_TOKENS = []     # (double as bits, token) of every float found rendered at a site; run() also holds them against the model


MERGES = []          # (case, accumulate, [(label set, [(bound, count)])], [(label set, [(le, value)])]) of every merge run


def _chk(b, tok):
    SEEN_TOKENS.append((b, tok))
    return direct(b, tok)


# ---------------------------------------------------------------------------------------------------------------
# le labels are label STRINGS: one number has one label string, however the bound was given (float, int, text in any
# spelling float() takes, Decimal, Fraction ...), on whichever path it is exposed (in-process, worker file key, merge)
# ---------------------------------------------------------------------------------------------------------------

LE_OF = {}           # double as bits -> (le, how that bound was given / where it was exposed), first sighting
HISTS = []           # (case, [bound as given -> double], [count per bucket], outcome) of every spelled histogram; run()
                     # holds them against the extracted hist_le_samples


def _chk_le(d, le, how):
    """direct oracle for one exposed le label of the bound d (a double)"""
    r = _chk(bits(d), le)
    if r:
        return 'bound %s: %s' % (how, r)
    first = LE_OF.setdefault(bits(d), (le, how))
    if first[0] != le:
        return ('one number, two label strings: bound %r %s has le=%r, but %s it has le=%r'
                % (d, how, le, first[1], first[0]))
    return None


class FancyFloat(float):
    """a float subclass with its own repr/str (as numpy.float64 has): float(x) is the plain double"""
    def __repr__(self):
        return 'FancyFloat<%s>' % float.__repr__(self)

    def __str__(self):
        return 'fancy'


class HasFloat(object):
    def __init__(self, d):
        self.d = d

    def __float__(self):
        return self.d

    def __repr__(self):
        return 'HasFloat(%s)' % float.__repr__(self.d)


class HasIndex(object):
    def __init__(self, i):
        self.i = i

    def __index__(self):
        return self.i

    def __repr__(self):
        return 'HasIndex(%d)' % self.i


ARABIC_INDIC = {ord('0') + i: 0x0660 + i for i in range(10)}
FULLWIDTH = {ord('0') + i: 0xFF10 + i for i in range(10)}


def spellings(d):
    """Everything Histogram(buckets=[...]) takes for the double d (the constructor applies float() to each bound):
    list of (kind, object), every one re-validated here to denote exactly d.  The first is d itself."""
    out = [('float', d), ('float subclass', FancyFloat(d)), ('object with __float__', HasFloat(d))]
    texts = []
    if d != d:
        return out[:1]
    if abs(d) == math.inf:
        sign = '-' if d < 0 else ''
        texts = [sign + t for t in ('inf', 'Inf', 'INF', 'Infinity', 'infinity', 'INFINITY', 'iNf')]
        if d > 0:
            texts += ['+Inf', '+inf', '+Infinity', '+INF']
        texts += [' ' + texts[0] + ' ', '\t' + texts[3] + '\n']
        out += [('Decimal', Decimal(sign + 'Infinity')), ('bytes', (sign + 'inf').encode()), ('bytes', (sign + 'Infinity').encode())]
    else:
        r = repr(d)
        neg = r.startswith('-')
        sign, body = ('-', r[1:]) if neg else ('', r)
        t = Decimal(r).normalize().as_tuple()
        digs = ''.join(map(str, t.digits))
        exp10 = len(digs) - 1 + t.exponent
        mant = digs[0] + ('.' + digs[1:] if len(digs) > 1 else '')
        texts = [r, '%.17g' % d, '%.17e' % d, '%.16E' % d, '%r' % d + ('0' * 3 if 'e' not in r else ''), r.upper(),
                 ' ' + r + ' ', '\t' + r + '\n', r + '\r\n', sign + '00' + body, format(Decimal(d), 'f'), str(Decimal(d)),
                 sign + '%se%d' % (mant, exp10), sign + '%sE%d' % (mant, exp10), sign + '%se%+d' % (mant, exp10),
                 sign + '%se%+04d' % (mant, exp10), sign + '%se%d' % (digs, t.exponent),
                 sign + '%s0e%d' % (digs, t.exponent - 1), sign + '0.%se%d' % (digs, exp10 + 1),
                 r.translate(ARABIC_INDIC), r.translate(FULLWIDTH)]
        if not neg:
            texts += ['+' + r, ' +' + r]
        if body.startswith('0.'):
            texts.append(sign + body[1:])
        if body.endswith('.0'):
            texts += [sign + body[:-1], sign + body[:-2]]
        if d == int(d):
            i = int(d)
            texts += [str(i), format(i, '_'), str(i) + '.', str(i) + '.000', format(i, ',').replace(',', '_') + '.0',
                      str(i).translate(ARABIC_INDIC)]
            out += [('int', i), ('object with __index__', HasIndex(i)), ('Decimal', Decimal(i)), ('Fraction', Fraction(i))]
            if i in (0, 1):
                out.append(('bool', bool(i)))
        out += [('Decimal', Decimal(r)), ('Decimal', Decimal(d)), ('Decimal', Decimal(sign + '%sE%+d' % (mant, exp10))),
                ('Fraction', Fraction(d)), ('Fraction', Fraction(Decimal(r))), ('bytes', r.encode()),
                ('bytes', ('%.17e' % d).encode()), ('bytearray', bytearray(r.encode()))]
    seen = set()
    for t in texts:
        if t not in seen:
            seen.add(t)
            out.append(('str', t))
    good = []
    for kind, o in out:
        try:
            if bits(float(o)) == bits(d):
                good.append((kind, o))
        except (ValueError, OverflowError, TypeError):
            pass
    return good


def _given(ko):
    kind, o = ko
    return 'given as the %s %r' % (kind, o)


SPELL_POOL = [0.0, -0.0, 1.0, -1.0, 0.5, 0.25, 0.005, 0.1, 2.5, 10.0, 1000.0, 100000.0, 999999.0, 999999.5, 1e6, 1000001.0,
              1234567.125, 2.5e6, 1e7, 123456789.0, 1e10, 1.5e10, 123456789012.0, 1e15, 9007199254740992.0,
              9999999999999998.0, 1e16, 1.2e16, 1e21, 1e22, 1e23, 1e100, 5e-324, 5e-05, 1e-07, 0.30000000000000004,
              -1e6, -2.5e6, -1.5e10, float('inf'), float('-inf')]


def _expose(given, labelled, xs):
    """One Histogram built from the bounds as given, observed with xs: the (le, value) pairs of collect() and the le
    labels of its bucket lines in both expositions (None when a line is missing); 'ValueError' / 'EXC:<class>' when the
    constructor raises."""
    from prometheus_client import CollectorRegistry, Histogram
    from prometheus_client.exposition import generate_latest
    from prometheus_client.openmetrics.exposition import generate_latest as om_latest
    reg = CollectorRegistry()
    try:
        h = Histogram('hs', 'help', ['path'] if labelled else [], buckets=given, registry=reg)
    except ValueError:
        return 'ValueError'
    child = h.labels('/a') if labelled else h
    for x in xs:
        child.observe(x)
    pairs = [(s.labels['le'], s.value) for f in reg.collect() for s in f.samples if s.name == 'hs_bucket']
    pat = r'^hs_bucket\{le="([^"]*)"%s\} \S+$' % (',path="/a"' if labelled else '')
    return dict(collect=pairs, text=re.findall(pat, generate_latest(reg).decode(), re.M),
                om=re.findall(pat, om_latest(reg).decode(), re.M))


def _spelled_hist_check(spec, labelled, xs):
    """spec: [(double, (kind, bound as given))], the doubles ascending, an explicit +Inf allowed last.  Oracle: the
    histogram exposes, in order, one bucket per bound (+Inf added when not given), each le the canonical rendering of
    the DOUBLE the bound denotes (direct()), the same string as any other way of giving that number gets, on collect()
    and on the bucket lines of both expositions, with the cumulative count of the observations."""
    bad = []
    inf = float('inf')
    layout = [d for d, _ko in spec]
    given = [ko[1] for _d, ko in spec]
    how = {bits(d): ko for d, ko in spec}
    full = layout if layout and layout[-1] == inf else layout + [inf]
    counts = [0] * len(full)
    for x in xs:
        counts[full.index(_bucket_of(full, x))] += 1
    case = dict(site='histogram built from bounds as given', labelled=labelled,
                bounds=[[kind, repr(o)] for _d, (kind, o) in spec], observed=xs)
    try:
        got = _expose(given, labelled, xs)
    except Exception as e:
        return ['histogram-le-spelled: bounds %s: raised %s: %s'
                % (', '.join(_given(ko) for _d, ko in spec), type(e).__name__, e)]
    if got == 'ValueError':
        HISTS.append((case, layout, counts, 'ValueError'))
        if len(full) >= 2:
            bad.append('histogram-le-spelled: bounds %s (ascending, %d buckets) are refused with ValueError'
                       % (', '.join(_given(ko) for _d, ko in spec), len(full)))
        return bad
    HISTS.append((case, layout, counts, [(le, int(v) if v == int(v) else v) for le, v in got['collect']]))
    if len(got['collect']) != len(full):
        return ['histogram-le-spelled: bounds %s: %d buckets exposed for %d bounds (le = %r)'
                % (', '.join(_given(ko) for _d, ko in spec), len(got['collect']), len(full), [le for le, _v in got['collect']])]
    acc = 0.0
    for i, (d, (le, v)) in enumerate(zip(full, got['collect'])):
        acc += counts[i]
        hw = _given(how[bits(d)]) if bits(d) in how else 'added by the constructor'
        r = _chk_le(d, le, hw + ', exposed in-process')
        if r:
            bad.append('histogram-le-spelled: %s' % r)
        if v != acc:
            bad.append('histogram-le-spelled: bound %r %s: le=%r shows %r, the cumulative count of that bound is %r'
                       % (d, hw, le, v, acc))
    for site in ('text', 'om'):
        if got[site] != [le for le, _v in got['collect']]:
            bad.append('%s-bucket-le-spelled: bounds %s: bucket lines carry le = %r, collect() gives %r'
                       % (site, ', '.join(_given(ko) for _d, ko in spec), got[site], [le for le, _v in got['collect']]))
    return bad


def bound_spelling_check(rng, n_random=40):
    """Histogram bounds in every type and spelling the constructor takes."""
    bad = []
    inf = float('inf')
    n = 0
    # every spelling of every pool value, alone in its histogram (labelled and not, alternating), with the +Inf bound
    # implicit, or explicit in a rotating spelling
    infs = spellings(inf)
    for d in SPELL_POOL:
        for k, ko in enumerate(spellings(d)):
            if d == inf:
                spec = [(1.0, spellings(1.0)[k % 3]), (d, ko)]
            elif k % 3 == 2:
                spec = [(d, ko), (inf, infs[n % len(infs)])]
            else:
                spec = [(d, ko)]
            n += 1
            xs = [d, d, 1e300] if math.isfinite(d) else [0.0, 2.0]
            bad += _spelled_hist_check(spec, k % 2 == 1, xs)
            if len(bad) > 60:
                return bad
    # whole layouts, each bound in a spelling of its own
    finite = [d for d in SPELL_POOL if math.isfinite(d) and d != 0.0]
    for _ in range(n_random):
        layout = sorted(rng.sample(finite, rng.randrange(1, 8)))
        if rng.random() < 0.2:
            layout = [x for x in layout if x < 0] + [rng.choice((0.0, -0.0))] + [x for x in layout if x > 0]
        if rng.random() < 0.15:
            layout = [-inf] + layout
        if rng.random() < 0.4:
            layout = layout + [inf]
        spec = [(d, rng.choice(spellings(d))) for d in layout]
        xs = [rng.choice(finite) * rng.choice((0.5, 1.0, 2.0)) for _ in range(rng.randrange(0, 6))]
        bad += _spelled_hist_check(spec, rng.random() < 0.5, xs)
        if len(bad) > 60:
            return bad
    # fewer than two buckets: refused (ValueError), in every spelling of the lone +Inf
    for spec in [[]] + [[(inf, ko)] for ko in infs]:
        if _expose([ko[1] for _d, ko in spec], False, []) != 'ValueError':
            bad.append('histogram-le-spelled: bounds %r give fewer than two buckets and are accepted' % (spec,))
        HISTS.append((dict(site='histogram built from bounds as given', bounds=[[k, repr(o)] for _d, (k, o) in spec]),
                      [d for d, _ko in spec], [0] * len(spec), 'ValueError'))
    return bad


def spelled_scenario(rng):
    """random_scenario with every worker's bounds given in a type/spelling of their own (a worker configured from text,
    another from literals), sometimes with an explicit last +Inf or a first -Inf"""
    labelled, incs = random_scenario(rng)
    out = []
    for pid, layout, obs in incs:
        if rng.random() < 0.15:
            layout = [float('-inf')] + layout
        src = [rng.choice(spellings(b)) for b in layout]
        if rng.random() < 0.4:
            src.append(rng.choice(spellings(float('inf'))))
        out.append((pid, layout, obs, src))
    return labelled, out


SITE_VALUES = [0.0, -0.0, 1.0, 2.5, 1e6, 2.5e6, 1e10, 1.5e10, 123456789012.0, 1e15, 9007199254740993.0, 1e16, 1e22,
               float('inf'), float('-inf'), float('nan'), 1234567.125, 5e-324, -1e6, -1.5e10, 0.1]


def _find(pattern, text):
    m = re.search(pattern, text, re.M)
    return m.group(1) if m else None


class ReprFloat(float):
    """a float subclass with its own repr/str (what numpy.float64 is under numpy 2): the library renders the DOUBLE"""
    def __repr__(self):
        return 'np.float64(%s)' % float.__repr__(self)
    __str__ = __repr__


def _as_int(d):
    if math.isfinite(d) and d == int(d) and not (d == 0 and math.copysign(1.0, d) < 0):
        return int(d)
    return d


# how a sample / exemplar value is GIVEN to the library: a float, a Python int (custom collectors, parsed documents), a float
# subclass with its own repr
VALUE_FORMS = [('float', lambda d: d), ('int', _as_int), ('float-subclass', ReprFloat)]


def site_tokens(vals, give=lambda d: d):
    """Every place the library renders a float, for the given doubles: returns list of (site, double, token).
    Each site is exercised three ways: one value per family, MANY different values inside one family (one label set
    each), and through the quoted-name (UTF-8) branch of the sample line."""
    from prometheus_client import CollectorRegistry, Histogram, core
    from prometheus_client.exposition import generate_latest
    from prometheus_client.openmetrics.exposition import generate_latest as om_latest
    from prometheus_client.samples import Exemplar
    out = []
    # sample values (text + OpenMetrics), exemplar values with and without timestamp
    reg = CollectorRegistry(auto_describe=False)
    fams = []
    for i, d in enumerate(vals):
        g = core.GaugeMetricFamily('g%d' % i, 'h')
        g.add_metric([], give(d))
        c = core.CounterMetricFamily('c%d' % i, 'h')
        c.add_metric([], 1.0, exemplar=Exemplar({'a': 'b'}, give(d)))
        c2 = core.CounterMetricFamily('d%d' % i, 'h')
        c2.add_metric([], 1.0, exemplar=Exemplar({'a': 'b'}, give(d), 1.5))
        u = core.GaugeMetricFamily('u.g%d' % i, 'h')
        u.add_metric([], give(d))
        fams += [g, c, c2, u]
    # the same sites with every value inside ONE family (a rendering made once per family would show here)
    gl = core.GaugeMetricFamily('gl', 'h', labels=['i'])
    ul = core.GaugeMetricFamily('u.l', 'h', labels=['i'])
    cl = core.CounterMetricFamily('cl', 'h', labels=['i'])
    dl = core.CounterMetricFamily('dl', 'h', labels=['i'])
    for i, d in enumerate(vals):
        gl.add_metric([str(i)], give(d))
        ul.add_metric([str(i)], give(d))
        cl.add_metric([str(i)], 1.0, exemplar=Exemplar({'a': 'b'}, give(d)))
        dl.add_metric([str(i)], 1.0, exemplar=Exemplar({'a': 'b'}, give(d), 1.5))
    hx = core.HistogramMetricFamily('hx', 'h', labels=['p'])
    for p in ('x', 'y'):
        seq = vals if p == 'x' else list(reversed(vals))
        hx.add_metric([p], [('%d.0' % i, float(i), Exemplar({'a': 'b'}, give(d))) for i, d in enumerate(seq)]
                      + [('+Inf', float(len(seq)))], 1.0)
    fams += [gl, ul, cl, dl, hx]

    class C:
        def collect(self):
            return fams
    reg.register(C())
    text = generate_latest(reg).decode()
    om = om_latest(reg).decode()
    for i, d in enumerate(vals):
        out.append(('text-sample', d, _find(r'^g%d (\S+)$' % i, text)))
        out.append(('om-sample', d, _find(r'^g%d (\S+)$' % i, om)))
        out.append(('om-exemplar', d, _find(r'^c%d_total 1\.0 # \{a="b"\} (\S+)$' % i, om)))
        out.append(('om-exemplar-ts', d, _find(r'^d%d_total 1\.0 # \{a="b"\} (\S+) 1\.5$' % i, om)))
        out.append(('text-sample-quoted-name', d, _find(r'^\{"u\.g%d"\} (\S+)$' % i, text)))
        out.append(('om-sample-quoted-name', d, _find(r'^\{"u\.g%d"\} (\S+)$' % i, om)))
        out.append(('text-sample-in-family', d, _find(r'^gl\{i="%d"\} (\S+)$' % i, text)))
        out.append(('om-sample-in-family', d, _find(r'^gl\{i="%d"\} (\S+)$' % i, om)))
        out.append(('text-sample-quoted-name-in-family', d, _find(r'^\{"u\.l", ?i="%d"\} (\S+)$' % i, text)))
        out.append(('om-sample-quoted-name-in-family', d, _find(r'^\{"u\.l", ?i="%d"\} (\S+)$' % i, om)))
        out.append(('om-exemplar-in-family', d, _find(r'^cl_total\{i="%d"\} 1\.0 # \{a="b"\} (\S+)$' % i, om)))
        out.append(('om-exemplar-ts-in-family', d, _find(r'^dl_total\{i="%d"\} 1\.0 # \{a="b"\} (\S+) 1\.5$' % i, om)))
        out.append(('om-bucket-exemplar', d, _find(r'^hx_bucket\{le="%d\.0",p="x"\} \S+ # \{a="b"\} (\S+)$' % i, om)))
        out.append(('om-bucket-exemplar', d,
                    _find(r'^hx_bucket\{le="%d\.0",p="y"\} \S+ # \{a="b"\} (\S+)$' % (len(vals) - 1 - i), om)))
    # histogram le labels through the instrumentation class, bounds in the given order
    finite = [d for d in vals if d == d and abs(d) != float('inf')]
    bounds = sorted(set(finite), key=lambda x: (x, math.copysign(1.0, x)))
    # equal doubles (0.0, -0.0) are kept as separate bounds in both orders
    for order in (bounds, sorted(bounds, key=lambda x: (x, -math.copysign(1.0, x)))):
        try:
            reg2 = CollectorRegistry()
            h = Histogram('h', 'h', buckets=list(order), registry=reg2)
            h.observe(1.0)
            les = [s.labels['le'] for f in reg2.collect() for s in f.samples if s.name == 'h_bucket']
            for d, le in zip(list(order) + [float('inf')], les):
                out.append(('histogram-le', d, le))
        except ValueError:
            pass
    return out


# ---------------------------------------------------------------------------------------------------------------
# histograms with DIFFERENT bucket layouts: several in one process, several label sets, several workers, restarts
# ---------------------------------------------------------------------------------------------------------------

# no signed zero among the merge bounds: the collector keys the buckets of a label set by float EQUALITY, so bounds -0.0 and
# 0.0 (one threshold) are one bucket there, labelled with whichever spelling was merged first (reported, not generated);
# both zeros stay in the in-process stream (site_tokens, histogram-le in both orders)
LAYOUT_POOL = [-2.5e6, -1e6, -1.0, 5e-324, 0.005, 0.1, 0.5, 1.0, 2.5, 10.0, 999999.0, 999999.5, 1e6, 1000001.0,
               1234567.125, 2.5e6, 1e7, 123456789.0, 1e10, 1.5e10, 123456789012.0, 1e15, 9007199254740992.0,
               9999999999999998.0, 1e16, 1.2e16, 1e22, 1e100]
PATHS = ['/a', '/b', '/c']

# a scenario = list of incarnations (pid, layout, {label value: [observations]}); a pid that comes back is a RESTART of that
# worker (same .db file, possibly another layout after a deploy); labelled=False uses a histogram without label names
FIXED_SCENARIOS = [
    # two workers, one endpoint each, same number of buckets, top bucket raised by a deploy
    (True, [(1, [0.1, 1.0, 1e6], {'/a': [0.05, 0.5, 5e5, 3e6]}), (2, [0.1, 1.0, 2.5e6], {'/b': [0.05, 0.5, 2e6, 3e6]})]),
    # different NUMBER of buckets, longer layout first / shorter first (both merge orders are run)
    (True, [(1, [1.0, 1e6, 1e7, 1e16], {'/a': [0.5, 2e6, 1e15, 1e17]}), (2, [2.5e6], {'/b': [1.0, 3e6]}),
            (3, [0.1, 1e6], {'/c': [0.1, 0.2, 1e6]})]),
    # one worker, two endpoints (same layout, by construction), another worker with another layout for one of them
    (True, [(1, [0.5, 1e6, 1e10], {'/a': [0.1, 1e9], '/b': [7e5, 7e5, 2e10]}),
            (2, [1.0, 1.5e10, 1e16, 1e22], {'/b': [0.7, 1.2e10, 1e30], '/c': [1e20]})]),
    # restart of one worker (same pid, same file) with a new layout after a deploy
    (True, [(7, [0.1, 1.0, 1e6], {'/a': [0.05, 2.0]}), (7, [0.1, 2.5e6, 1e7], {'/b': [1e6, 5e6], '/a': [0.01]}),
            (8, [1e6], {'/c': [1.0]})]),
    # no label names at all: the one label set () is shared by workers with different layouts
    (False, [(1, [1.0, 1e6], {None: [0.5, 5.0, 1e7]}), (2, [1.0, 2.5e6, 1e16], {None: [2e6, 1e16, 2e16]})]),
    # negative bounds, layouts disjoint
    (True, [(1, [-1e6, -1.0, 0.1], {'/a': [-2e6, -5.0, 0.0, 1.0]}), (2, [-2.5e6, 1e15], {'/b': [-3e6, 5.0, 1e16]})]),
]


# the same, the bounds GIVEN as text / ints / Decimals (4th element: (kind, bound as given) per bound, possibly one more
# for an explicit +Inf): a worker configured from a file or the environment next to one configured from literals
SPELLED_SCENARIOS = [
    (True, [(1, [0.5, 1e6, 2.5e6, 1.5e10], {'/a': [0.1, 2e6, 1e9]},
             [('str', '0.50'), ('str', '1000000'), ('str', '2.5e6'), ('str', '15000000000'), ('str', 'inf')]),
            (2, [0.5, 1e6, 2.5e6, 1.5e10], {'/a': [0.2, 3e6], '/b': [1e6]},
             [('float', 0.5), ('int', 1000000), ('float', 2.5e6), ('float', 1.5e10)])]),
    (False, [(1, [1.0, 1e3, 1e7], {None: [0.5, 5.0, 1e8]}, [('str', ' 1 '), ('str', '1e3'), ('str', '1_000_0000')]),
             (1, [1.0, 1e3, 1e7], {None: [2.0]}, [('bool', True), ('str', '+1000'), ('Decimal', Decimal('1E+7')), ('str', '+Inf')]),
             (2, [1.0, 1e16], {None: [1e15, 1e17]}, [('str', '1'), ('Fraction', Fraction(10 ** 16)), ('str', 'Infinity')])]),
]


def random_scenario(rng):
    labelled = rng.random() < 0.8
    incs = []
    for _ in range(rng.randrange(2, 5)):
        pid = rng.randrange(1, 4)
        layout = sorted(rng.sample(LAYOUT_POOL, rng.randrange(1, 7)))
        paths = rng.sample(PATHS, rng.randrange(1, 3)) if labelled else [None]
        obs = {}
        for p in paths:
            obs[p] = [rng.choice(LAYOUT_POOL) * rng.choice((0.5, 1.0, 1.0, 2.0)) for _ in range(rng.randrange(0, 6))]
        incs.append((pid, layout, obs))
    return labelled, incs


def _bucket_of(layout, x):
    for b in layout:
        if x <= b:
            return b
    return float('inf')


def _lkey(p):
    return 'path=%s' % p if p is not None else '(no labels)'


def layout_scenario_check(labelled, incs):
    """Runs one scenario through real Histogram objects backed by values.MultiProcessValue (one class per incarnation,
    its pid fixed), keeps each incarnation's OWN in-process exposition, then merges the directory with the
    multiprocess collector in both file orders, with and without accumulation, and through collect()."""
    import os
    import shutil
    import tempfile
    from prometheus_client import CollectorRegistry, Histogram, values
    from prometheus_client.mmap_dict import MmapedDict
    from prometheus_client.multiprocess import MultiProcessCollector
    import json as _json
    bad = []
    inf = float('inf')
    d = tempfile.mkdtemp(prefix='c13mp')
    old_env = os.environ.get('PROMETHEUS_MULTIPROC_DIR')
    old_cls = values.ValueClass
    opened = []
    pid_uses = {}
    incs = [tuple(inc) + (None,) * (4 - len(inc)) for inc in incs]
    for pid, _l, _o, _s in incs:
        pid_uses[pid] = pid_uses.get(pid, 0) + 1
    try:
        os.environ['PROMETHEUS_MULTIPROC_DIR'] = d
        # per label set: non-cumulative count per bound (oracle, from the observations), the in-process spelling of
        # every bound, and the in-process exposition of the incarnations that own it
        want = {}
        spelling = {}
        owners = {}
        for n, (pid, layout, obs, src) in enumerate(incs):
            values.ValueClass = values.MultiProcessValue(lambda pid=pid: pid)
            reg = CollectorRegistry()
            # src: the bounds as GIVEN to the constructor (any type/spelling float() takes; possibly with an explicit
            # last +Inf), layout: the doubles they denote
            given = [b for _k, b in src] if src is not None else list(layout)
            how = dict(zip(layout, src)) if src is not None else {}
            if src is not None and len(src) > len(layout):
                how[inf] = src[-1]
            h = Histogram('h', 'help', ['path'] if labelled else [], buckets=given, registry=reg)
            full = list(layout) + [inf]
            for p, xs in obs.items():
                child = h.labels(p) if labelled else h
                opened.append(child._sum._file)
                w = want.setdefault(p, {})
                for b in full:
                    w.setdefault(b, 0.0)
                for x in xs:
                    child.observe(x)
                    w[_bucket_of(layout, x)] += 1.0
            # the worker's own exposition
            own = {}
            for fam in reg.collect():
                for s in fam.samples:
                    if s.name == 'h_bucket':
                        own.setdefault(s.labels.get('path'), []).append((s.labels['le'], s.value))
            for p, xs in obs.items():
                pairs = own.get(p, [])
                if len(pairs) != len(full):
                    bad.append('histogram-le: %s, layout %r: %d buckets exposed in-process for %d bounds'
                               % (_lkey(p), layout, len(pairs), len(full)))
                    continue
                acc = 0.0
                for b, (le, v) in zip(full, pairs):
                    r = _chk_le(b, le, _given(how.get(b, ('float', b))) + ', exposed in-process by a worker')
                    if r:
                        bad.append('histogram-le: %s, layout %r: %s' % (_lkey(p), layout, r))
                    spelling.setdefault(p, {})[b] = le
                    if pid_uses[pid] == 1:
                        acc += sum(1.0 for x in xs if _bucket_of(layout, x) == b)
                        if v != acc:
                            bad.append('histogram-le: %s, layout %r: in-process bucket le=%r shows %r, the observations '
                                       '%r give %r' % (_lkey(p), layout, le, v, xs, acc))
                owners.setdefault(p, []).append((pid, pairs))
        values.ValueClass = old_cls
        files = sorted(os.path.join(d, f) for f in os.listdir(d) if f.endswith('.db'))
        # the keys the workers wrote (metrics.py, _metric_init): every le in a file is the canonical spelling of a bound
        for f in files:
            for key, _v, _ts, _pos in MmapedDict.read_all_values_from_file(f):
                _mn, name, labels, _help = _json.loads(key)
                if name == 'h_bucket':
                    p = labels.get('path')
                    le = labels['le']
                    try:
                        b = float(le)
                    except ValueError:
                        bad.append('multiprocess-file-le: %s: le=%r in %s does not parse' % (_lkey(p), le, os.path.basename(f)))
                        continue
                    if b not in want.get(p, {}):
                        bad.append('multiprocess-file-le: %s: le=%r in %s is not a bound of that label set'
                                   % (_lkey(p), le, os.path.basename(f)))
                    elif spelling[p][b] != le:
                        bad.append('multiprocess-file-le: %s: bound %r is keyed le=%r in %s but exposed in-process as le=%r'
                                   % (_lkey(p), b, le, os.path.basename(f), spelling[p][b]))

        def check(tag, fams, accumulate):
            got = {}
            dup = []
            seq = {}
            for fam in fams:
                for s in fam.samples:
                    if s.name == 'h_bucket':
                        g = got.setdefault(s.labels.get('path'), {})
                        if s.labels['le'] in g:
                            dup.append((s.labels.get('path'), s.labels['le']))
                        g[s.labels['le']] = s.value
                        seq.setdefault(s.labels.get('path') or '', []).append(
                            (s.labels['le'], int(s.value) if s.value == int(s.value) else s.value))
            # for the correspondence with model/LeLabels.v (run() holds it against the extracted mp_le_samples)
            MERGES.append((dict(site='multiprocess merge', labelled=labelled, workers=repr(incs), how=tag), accumulate,
                           sorted((p or '', [(b, int(want[p][b])) for b in sorted(want[p])]) for p in want),
                           sorted(seq.items())))
            for p, le in dup:
                bad.append('multiprocess-le: %s: %s: le=%r exposed twice' % (tag, _lkey(p), le))
            for p in sorted(want, key=repr):
                exp = {}
                acc = 0.0
                for b in sorted(want[p]):
                    acc = acc + want[p][b] if accumulate else want[p][b]
                    exp[spelling[p][b]] = (b, acc)
                g = got.get(p, {})
                for le, (b, v) in exp.items():
                    if le not in g:
                        wrong = sorted(set(g) - set(exp))
                        bad.append('multiprocess-le: %s: %s: bound %r (le=%r in the worker\'s own exposition, %s %r) is '
                                   'missing from the merged exposition, which shows le in %r%s'
                                   % (tag, _lkey(p), b, le, 'cumulative count' if accumulate else 'count', v, list(g),
                                      '; %r belong(s) to no bound of this label set' % wrong if wrong else ''))
                    elif g[le] != v:
                        bad.append('multiprocess-le: %s: %s: le=%r (bound %r) carries %r, the %s of that bound is %r'
                                   % (tag, _lkey(p), le, b, g[le], 'cumulative count' if accumulate else 'count', v))
                for le in g:
                    if le in exp:
                        r = _chk_le(exp[le][0], le, 'merged by the multiprocess collector (%s)' % tag)
                        if r:
                            bad.append('multiprocess-le: %s: %s: %s' % (tag, _lkey(p), r))
                        continue
                    try:
                        b = float(le)
                    except ValueError:
                        bad.append('multiprocess-le: %s: %s: exposed le=%r does not parse' % (tag, _lkey(p), le))
                        continue
                    if b in want[p]:
                        bad.append('multiprocess-le: %s: %s: bound %r exposed as le=%r, the worker\'s own exposition '
                                   'spells it %r' % (tag, _lkey(p), b, le, spelling[p][b]))
                    else:
                        bad.append('multiprocess-le: %s: %s: exposed le=%r parses to %r, which is not a bound of this '
                                   'label set (bounds %r)' % (tag, _lkey(p), le, b, sorted(want[p])))
                # a label set held by exactly one incarnation of a worker never restarted: the merged exposition IS
                # the worker's own
                if accumulate and len(owners[p]) == 1 and pid_uses[owners[p][0][0]] == 1:
                    own_pairs = dict(owners[p][0][1])
                    if g != own_pairs:
                        bad.append('multiprocess-le: %s: %s: merged buckets %r differ from the only worker\'s own '
                                   'exposition %r' % (tag, _lkey(p), g, own_pairs))
            for p in got:
                if p not in want:
                    bad.append('multiprocess-le: %s: label set %s was never written' % (tag, _lkey(p)))

        for tag, order in (('files in name order', files), ('files in reverse name order', list(reversed(files)))):
            check(tag + ', accumulated', MultiProcessCollector.merge(list(order), accumulate=True), True)
            check(tag + ', not accumulated', MultiProcessCollector.merge(list(order), accumulate=False), False)
        check('collect()', MultiProcessCollector(CollectorRegistry(), path=d).collect(), True)
    except Exception as e:
        import traceback
        bad.append('multiprocess-le: scenario raised %s: %s' % (type(e).__name__, traceback.format_exc()[-300:].replace('\n', ' | ')))
    finally:
        values.ValueClass = old_cls
        if old_env is None:
            os.environ.pop('PROMETHEUS_MULTIPROC_DIR', None)
        else:
            os.environ['PROMETHEUS_MULTIPROC_DIR'] = old_env
        for f in opened:
            try:
                f.close()
            except Exception:
                pass
        shutil.rmtree(d, ignore_errors=True)
    return bad


def multiprocess_spelling_check():
    """Bucket label strings must agree across processes, restarts and clients: .db files whose bucket keys spell one
    bound differently (written by another release or another client) are merged per BOUND by the multiprocess
    collector and re-rendered canonically.  Two label sets with different bounds, so that a spelling kept from the
    first one merged would show."""
    import shutil
    import tempfile
    from prometheus_client.mmap_dict import MmapedDict, mmap_key
    from prometheus_client.multiprocess import MultiProcessCollector
    bad = []
    d = tempfile.mkdtemp(prefix='c13mp')
    try:
        spellings = {'x': {1e6: ['1000000.0', '1e+06', '1e6'], 2.5e10: ['25000000000.0', '2.5e+10'], 1.0: ['1.0', '1'],
                           float('inf'): ['+Inf', 'inf']},
                     'y': {1e7: ['1e7', '10000000.0', '1e+07'], 0.5: ['0.5', '5e-1', '.5'],
                           1.5e10: ['15000000000', '1.5e+10', '1.5e10'], 1e16: ['1e+16', '1e16', '10000000000000000'],
                           float('inf'): ['Inf', '+Inf', 'inf']}}
        files = []
        for pid in range(3):
            path = '%s/histogram_%d.db' % (d, pid)
            md = MmapedDict(path)
            for p, sps in (sorted(spellings.items()) if pid != 1 else sorted(spellings.items(), reverse=True)):
                for bound, sp in sps.items():
                    le = sp[pid % len(sp)]
                    md.write_value(mmap_key('h', 'h_bucket', ['p', 'le'], [p, le], 'help'), 1.0, 0.0)
                md.write_value(mmap_key('h', 'h_sum', ['p'], [p], 'help'), 3.0, 0.0)
            md.close()
            files.append(path)
        for order in (files, list(reversed(files))):
            fams = MultiProcessCollector.merge(list(order), accumulate=True)
            for p, sps in spellings.items():
                pairs = [(s.labels['le'], s.value) for f in fams for s in f.samples
                         if s.name == 'h_bucket' and s.labels.get('p') == p]
                seen = {}
                for le, v in pairs:
                    b = float(le)
                    r = _chk_le(b, le, 'merged by the multiprocess collector from files spelling it %s' % '/'.join(sps.get(b, ['?'])))
                    if r:
                        bad.append('multiprocess-le: p=%s: %s' % (p, r))
                    if b in seen:
                        bad.append('multiprocess-le: p=%s: bound %r exposed twice, as le=%r and le=%r (files spelling one '
                                   'bound differently were not merged per bound)' % (p, b, seen[b], le))
                    seen[b] = le
                    if b not in sps:
                        bad.append('multiprocess-le: p=%s: exposed le=%r parses to %r, the bounds written for this label set '
                                   '(in several spellings) are %r' % (p, le, b, sorted(sps)))
                    else:
                        cum = 3.0 * (sorted(sps).index(b) + 1)
                        if v != cum:
                            bad.append('multiprocess-le: p=%s: le=%r carries %r, the cumulative count of bound %r is %r'
                                       % (p, le, v, b, cum))
                if len(seen) != len(sps):
                    bad.append('multiprocess-le: p=%s: %d bounds exposed for %d written' % (p, len(seen), len(sps)))
    except Exception as e:
        bad.append('multiprocess-le: collector raised %s' % type(e).__name__)
    finally:
        shutil.rmtree(d, ignore_errors=True)
    return bad


def multiprocess_le_check(rng=None, n_random=40):
    import random
    rng = rng or random.Random(13)
    bad = []
    scenarios = FIXED_SCENARIOS + [random_scenario(rng) for _ in range(n_random)]
    scenarios += SPELLED_SCENARIOS + [spelled_scenario(rng) for _ in range(n_random)]
    for labelled, incs in scenarios:
        for v in layout_scenario_check(labelled, incs):
            bad.append('%s [scenario labelled=%r workers (pid, bounds, observations per label value[, bounds as given])=%r]'
                       % (v, labelled, incs))
        if len(bad) > 40:
            break
    return bad + multiprocess_spelling_check()


def inprocess_layout_check(rng):
    """Several histograms with different layouts and several label sets in ONE process and one registry, observed with
    exemplars; gauges with many children.  Checked on the collected samples and on both expositions, twice (values
    change between the two scrapes)."""
    from prometheus_client import CollectorRegistry, Gauge, Histogram
    from prometheus_client.exposition import generate_latest
    from prometheus_client.openmetrics.exposition import generate_latest as om_latest
    bad = []
    inf = float('inf')
    reg = CollectorRegistry()
    hs = []
    for k in range(5):
        layout = sorted(rng.sample(LAYOUT_POOL, rng.randrange(1, 8)))
        if k == 0:
            layout = [0.1, 1.0, 1e6]
        if k == 1:
            layout = [0.1, 1.0, 2.5e6]
        labelled = k != 2
        h = Histogram('h%d' % k, 'help', ['path'] if labelled else [], buckets=list(layout), registry=reg)
        hs.append((k, layout, labelled, h, {}))
    g = Gauge('gg', 'help', ['i'], registry=reg)
    gvals = {}
    for rnd in range(2):
        for k, layout, labelled, h, seen in hs:
            for p in (PATHS if labelled else [None]):
                child = h.labels(p) if labelled else h
                st = seen.setdefault(p, dict(counts={}, ex={}))
                for _ in range(rng.randrange(0, 5)):
                    x = rng.choice(LAYOUT_POOL) * rng.choice((0.5, 1.0, 2.0))
                    child.observe(x, {'k': 'v'})
                    b = _bucket_of(layout, x)
                    st['counts'][b] = st['counts'].get(b, 0.0) + 1.0
                    st['ex'][b] = x
        vals = list(SITE_VALUES)
        rng.shuffle(vals)
        for i, d in enumerate(vals):
            g.labels(str(i)).set(d)
            gvals[i] = d
        fams = list(reg.collect())
        text = generate_latest(reg).decode()
        om = om_latest(reg).decode()
        for i, d in gvals.items():
            for site, doc in (('text-gauge-child', text), ('om-gauge-child', om)):
                tok = _find(r'^gg\{i="%d"\} (\S+)$' % i, doc)
                r = 'rendering of %r not found in the output' % d if tok is None else _chk(bits(d), tok)
                if r:
                    bad.append('%s: scrape %d: %s' % (site, rnd, r))
        for k, layout, labelled, h, seen in hs:
            full = list(layout) + [inf]
            fam = [f for f in fams if f.name == 'h%d' % k][0]
            for p, st in seen.items():
                pairs = [(s.labels['le'], s.value, s.exemplar) for s in fam.samples
                         if s.name == 'h%d_bucket' % k and s.labels.get('path') == p]
                if len(pairs) != len(full):
                    bad.append('histogram-le: h%d %s layout %r: %d buckets for %d bounds' % (k, _lkey(p), layout, len(pairs), len(full)))
                    continue
                acc = 0.0
                for b, (le, v, ex) in zip(full, pairs):
                    acc += st['counts'].get(b, 0.0)
                    r = _chk_le(b, le, 'given as the float %r, exposed in-process' % b)
                    if r:
                        bad.append('histogram-le: h%d %s layout %r: %s' % (k, _lkey(p), layout, r))
                        continue
                    if v != acc:
                        bad.append('histogram-le: h%d %s layout %r: le=%r shows %r, cumulative count of bound %r is %r'
                                   % (k, _lkey(p), layout, le, v, b, acc))
                    lab = ('le="%s",path="%s"' % (re.escape(le), p)) if labelled else 'le="%s"' % re.escape(le)
                    for site, doc in (('text-bucket-line', text), ('om-bucket-line', om)):
                        tok = _find(r'^h%d_bucket\{%s\} (\S+)( #.*)?$' % (k, lab), doc)
                        r = 'bucket line for le=%r not found' % le if tok is None else _chk(bits(acc), tok)
                        if r:
                            bad.append('%s: h%d %s: %s' % (site, k, _lkey(p), r))
                    if b in st['ex']:
                        tok = _find(r'^h%d_bucket\{%s\} \S+ # \{k="v"\} (\S+) \S+$' % (k, lab), om)
                        r = ('exemplar of bucket le=%r not found' % le if tok is None else _chk(bits(st['ex'][b]), tok))
                        if r:
                            bad.append('om-bucket-exemplar: h%d %s: %s' % (k, _lkey(p), r))
    return bad


CREATED_VALUES = [1790000000.123456, 1.5e9, 1e9, 1234567.125, 999999.5, 1e10, 4102444800.0, 1727740800.5, 1790000000.0,
                  1789999999.9999998, 0.0, 1e6, 2.5e6]


def created_check(rng):
    """_created series: every child has its own creation time; each is rendered by the same function in both formats."""
    import time as _time
    import types
    from prometheus_client import CollectorRegistry, Counter, Histogram, Summary, metrics
    from prometheus_client.exposition import generate_latest
    from prometheus_client.openmetrics.exposition import generate_latest as om_latest
    bad = []
    pool = list(CREATED_VALUES)
    rng.shuffle(pool)
    clock = [0.0]
    fake = types.SimpleNamespace(**{k: getattr(_time, k) for k in dir(_time) if not k.startswith('__')})
    fake.time = lambda: clock[0]
    old_time, old_flag = metrics.time, metrics._use_created
    try:
        metrics.time = fake
        metrics._use_created = True
        reg = CollectorRegistry()
        expect = []
        i = 0
        for cls, nm, kw in ((Counter, 'cc', {}), (Summary, 'ss', {}), (Histogram, 'hh', dict(buckets=[1.0, 1e6]))):
            m = cls(nm, 'help', ['l'], registry=reg, **kw)
            for lv in ('a', 'b', 'c'):
                clock[0] = pool[i % len(pool)]
                i += 1
                m.labels(lv)
                expect.append((nm, lv, clock[0]))
            clock[0] = pool[i % len(pool)]
            i += 1
            cls(nm + '0', 'help', registry=reg, **kw)
            expect.append((nm + '0', None, clock[0]))
        clock[0] = 5.0
        text = generate_latest(reg).decode()
        om = om_latest(reg).decode()
        for nm, lv, d in expect:
            lab = r'\{l="%s"\}' % lv if lv is not None else ''
            for site, doc in (('text-created', text), ('om-created', om)):
                tok = _find(r'^%s_created%s (\S+)$' % (nm, lab), doc)
                r = '_created of %s%s (%r) not found in the output' % (nm, lab, d) if tok is None else _chk(bits(d), tok)
                if r:
                    bad.append('%s: %s%s: %s' % (site, nm, lab.replace('\\', ''), r))
    except Exception as e:
        bad.append('created: raised %s: %s' % (type(e).__name__, e))
    finally:
        metrics.time = old_time
        metrics._use_created = old_flag
    return bad


QUANTILES = [0.0, 0.5, 0.9, 0.95, 0.99, 0.999, 1.0, 0.1, 1e-06, 0.30000000000000004]
LE_LABELS = [0.005, 1.0, 999999.5, 1e6, 2.5e6, 1.5e10, 123456789012.0, 1e15, 1e16, 1e22]


def label_passthrough_check():
    """quantile and le labels spelled by floatToGoString go through both expositions unchanged and the OpenMetrics
    parser hands the same strings back (it compares them with floatToGoString for canonicity)."""
    from prometheus_client import CollectorRegistry, core
    from prometheus_client.exposition import generate_latest
    from prometheus_client.openmetrics.exposition import generate_latest as om_latest
    from prometheus_client.openmetrics.parser import text_string_to_metric_families
    from prometheus_client.utils import floatToGoString
    bad = []
    try:
        s = core.Metric('sq', 'help', 'summary')
        for i, q in enumerate(QUANTILES):
            s.add_sample('sq', {'quantile': floatToGoString(q)}, float(i))
        h = core.HistogramMetricFamily('hq', 'help', labels=['p'])
        for p, les in (('x', LE_LABELS), ('y', LE_LABELS[1::2])):
            h.add_metric([p], [(floatToGoString(b), float(i)) for i, b in enumerate(les)] + [('+Inf', float(len(les)))], 1.0)

        class C:
            def collect(self):
                return [s, h]
        reg = CollectorRegistry(auto_describe=False)
        reg.register(C())
        text = generate_latest(reg).decode()
        om = om_latest(reg).decode()
        for i, q in enumerate(QUANTILES):
            for site, doc in (('text-quantile-label', text), ('om-quantile-label', om)):
                tok = _find(r'^sq\{quantile="([^"]*)"\} %s$' % re.escape(repr(float(i))), doc)
                r = 'quantile %r not found in the output' % q if tok is None else _chk(bits(q), tok)
                if r:
                    bad.append('%s: %s' % (site, r))
        back = {}
        for fam in text_string_to_metric_families(om):
            for smp in fam.samples:
                if smp.name == 'sq':
                    back[('q', smp.value)] = smp.labels['quantile']
                if smp.name == 'hq_bucket':
                    back[(smp.labels['p'], smp.value)] = smp.labels['le']
        for i, q in enumerate(QUANTILES):
            tok = back.get(('q', float(i)))
            r = 'quantile %r lost by the OpenMetrics parser' % q if tok is None else _chk(bits(q), tok)
            if r:
                bad.append('om-parsed-quantile-label: %s' % r)
        for p, les in (('x', LE_LABELS), ('y', LE_LABELS[1::2])):
            for i, b in enumerate(les):
                tok = back.get((p, float(i)))
                r = 'le %r of p=%s lost by the OpenMetrics parser' % (b, p) if tok is None else _chk(bits(b), tok)
                if r:
                    bad.append('om-parsed-le-label: p=%s: %s' % (p, r))
    except Exception as e:
        bad.append('label-passthrough: raised %s: %s' % (type(e).__name__, e))
    return bad


N_SITES = 35


def site_check(seed=0, n_random=40):
    """direct oracle over every rendering site; returns list of violation strings"""
    import random
    rng = random.Random(seed * 7919 + 13)
    def guarded(site, fn, *args):
        try:
            return fn(*args)
        except Exception as e:      # rendering a float never raises
            import traceback
            return ['%s: raised %s (%s)' % (site, type(e).__name__, traceback.format_exc()[-300:].replace('\n', ' | '))]

    def tokens():
        out = []
        for form, give in VALUE_FORMS:
            for vals in (SITE_VALUES, list(reversed(SITE_VALUES))):
                for site, d, tok in site_tokens(vals, give):
                    if tok is None:
                        out.append('%s: rendering of %r (given as %s) not found in the output' % (site, d, form))
                        continue
                    r = (_chk_le(d, tok, 'given as the float %r, exposed in-process' % d) if site == 'histogram-le'
                         else _chk(bits(d), tok))
                    if r:
                        out.append('%s (value given as %s): %s' % (site, form, r))
        return out
    LE_OF.clear()
    del HISTS[:]
    bad = guarded('multiprocess-le', multiprocess_le_check, rng, n_random)
    bad += guarded('histogram-le', inprocess_layout_check, rng)
    bad += guarded('histogram-le-spelled', bound_spelling_check, rng, n_random)
    bad += guarded('created', created_check, rng)
    bad += guarded('label-passthrough', label_passthrough_check)
    bad += guarded('site-tokens', tokens)
    return bad


def impl(b):
    from prometheus_client.utils import floatToGoString
    d = frombits(b)
    try:
        out = floatToGoString(d)
        # the same double given as an int or as a float subclass with its own repr renders the same
        for form, give in VALUE_FORMS[1:]:
            o2 = floatToGoString(give(d))
            if o2 != out:
                return 'FORM:%s:%s' % (form, o2)
        return out
    except Exception as e:     # the function is total on floats
        return 'EXC:' + type(e).__name__


def fclass(d):
    if d == math.inf:
        return Sym('pinf')
    if d == -math.inf:
        return Sym('ninf')
    if math.isnan(d):
        return Sym('nan')
    return (Sym('fin'), d > 0, repr(d))


def model(m, b):
    return d_str(m.call('go', fclass(frombits(b))))


CANON = re.compile(r'^[1-9](\.[0-9]*[1-9])?e\+([0-9]{2,})$')
FIXED_REPR = re.compile(r'^[1-9][0-9]{6,}\.[0-9]+$')


def expected_canonical(d):
    """Independent spelling of Go's %g-style shortest form for d >= 1e6, from the shortest repr digits."""
    t = Decimal(repr(d)).normalize().as_tuple()
    digs = ''.join(map(str, t.digits))
    exp10 = len(digs) - 1 + t.exponent
    mant = digs[0] + ('.' + digs[1:] if len(digs) > 1 else '')
    return '%se+%02d' % (mant, exp10)


def direct(b, out):
    d = frombits(b)
    if out.startswith('EXC:'):
        return 'floatToGoString(%r) raised %s' % (d, out[4:])
    if out.startswith('FORM:'):
        return 'floatToGoString renders the double %r differently when it is given as %s' % (d, out[5:])
    if math.isnan(d):
        return None if out == 'NaN' else 'NaN rendered as %r' % out
    if d == math.inf:
        return None if out == '+Inf' else '+Inf rendered as %r' % out
    if d == -math.inf:
        return None if out == '-Inf' else '-Inf rendered as %r' % out
    try:
        back = float(out)
    except ValueError:
        return 'rendering %r of %r does not parse as a float' % (out, d)
    if bits(back) != b:
        return 'rendering %r of %r parses back to %r' % (out, d, back)
    if d >= 1e6:
        m = CANON.match(out)
        if not m:
            return 'rendering %r of %r (>= 1e6) is not in mantissa-exponent form with explicit sign and two-digit-minimum exponent' % (out, d)
        if len(m.group(2)) > 2 and m.group(2)[0] == '0':
            return 'rendering %r of %r has a needless leading zero in the exponent' % (out, d)
        if out != expected_canonical(d):
            return 'rendering %r of %r is not the shortest form %r' % (out, d, expected_canonical(d))
    r = repr(d)
    if d > 0 and r.find('.') > 6 and not FIXED_REPR.match(r):
        return 'CPython hypothesis fixed_repr violated by repr %r (trusted-base fact, not the library)' % r
    return None


def nontrivial(b, out):
    d = frombits(b)
    return not math.isfinite(d) or d >= 1e6


def classify(b, out):
    d = frombits(b)
    if not math.isfinite(d):
        return ['special']
    if d >= 1e16:
        return ['ge1e16']
    if d >= 1e10:
        return ['rewritten_exp>=10']
    if d >= 1e6:
        return ['rewritten_exp<10']
    if d > 0:
        return ['pos<1e6']
    return ['nonpositive']


def neighbours(b):
    return [(b + k) & 0xFFFFFFFFFFFFFFFF for k in (-2, -1, 1, 2)]


def replay(ctx, rep, case):
    from .engine import process
    if isinstance(case, dict):
        for v in site_check(case.get('seed', ctx.seed), ctx.n(40, 400)):
            rep.violate(dict(site=v.split(':')[0], seed=case.get('seed', ctx.seed)), v)
    else:
        process(sys.modules[__name__], ctx, rep, case)
