"""C13 - float rendering is exact, injective and canonical.  Implementation: prometheus_client.utils.floatToGoString."""
import math
import re
import struct
import sys
from decimal import Decimal

from .sx import Sym, d_str

RULE = ('doubles by bit pattern: every power of ten 1e-323..1e308 and its neighbours by 1 and 2 ulps, digit-count and '
        'trailing-zero patterns around 1e6 and 1e16, integers up to 2^64, subnormals, specials, seeded random bit patterns; '
        'non-trivial = finite d >= 1e6 (the rewriting branch) or a special; distinct by bits; plus every rendering site (text and '
        'OpenMetrics sample values, exemplar values with and without timestamp, histogram le labels in both bound orders) on a fixed '
        'list of 21 doubles')
TRUSTED = ['CPython repr(float) (shortest round-trip repr; shape D{7,}.D+ for 1e6<=d<1e16 is re-validated on every generated case)',
           'CPython float(str) used by the direct oracle']
ASSUMPTIONS = ['float(repr(x)) == x and float() depends only on the denoted decimal value (CPython facts; checked per case, not proved)']
TIME_BUDGET = {'quick': 90, 'thorough': 900}


def bits(d):
    return struct.unpack('<Q', struct.pack('<d', d))[0]


def frombits(b):
    return struct.unpack('<d', struct.pack('<Q', b & 0xFFFFFFFFFFFFFFFF))[0]


def run(ctx, rep, corpus):
    from .engine import generic_loop
    for v in site_check():
        rep.violate(dict(site=v.split(':')[0]), v)
    rep.count('rendering_sites_checked', 5)
    generic_loop(sys.modules[__name__], ctx, rep, corpus)
    generic_loop(sys.modules[__name__], ctx, rep, cases(ctx))


def cases(ctx):
    rng = ctx.rng
    seen = set()

    def emit(b):
        b &= 0xFFFFFFFFFFFFFFFF
        if b not in seen:
            seen.add(b)
            return [b]
        return []
    for s in (0.0, -0.0, math.inf, -math.inf, math.nan, frombits(0x7ff8000000000001), frombits(0xfff0000000000001)):
        for b in emit(bits(s)):
            yield b
    # powers of ten and neighbours
    for e in range(-323, 309):
        d = float('1e%d' % e)
        b0 = bits(d)
        for k in (-2, -1, 0, 1, 2):
            for sign in (0, 1 << 63):
                for b in emit((b0 + k) | sign):
                    yield b
    # digit-count / trailing-zero patterns around the switch points
    for ndig in range(1, 18):
        for e in range(4, 19):
            for lead in ('1', '9', '5', '12', '99', '10', '1000001', '123456789', '9999999999999999'):
                digs = (lead + '0' * 20)[:ndig]
                for tail in ('', '5', '01', '25'):
                    try:
                        d = float(digs[0] + '.' + digs[1:] + tail + 'e%d' % e)
                    except ValueError:
                        continue
                    for b in emit(bits(d)):
                        yield b
    # integers up to 2^64
    for k in range(0, 65):
        for off in (-1, 0, 1):
            for b in emit(bits(float(2 ** k + off))):
                yield b
    for _ in range(ctx.n(2000, 40000)):
        for b in emit(bits(float(rng.randrange(10 ** rng.randrange(1, 20))))):
            yield b
    # subnormals
    for _ in range(ctx.n(500, 5000)):
        for b in emit(rng.randrange(1, 1 << 52) | (rng.randrange(2) << 63)):
            yield b
    # halves/quarters in the rewritten range
    for _ in range(ctx.n(4000, 100000)):
        d = rng.randrange(10 ** 6, 10 ** 16) / rng.choice((1, 2, 4, 8, 10, 100, 1000, 3, 7))
        for b in emit(bits(d)):
            yield b
    # random bit patterns
    for _ in range(ctx.n(20000, 600000)):
        for b in emit(rng.getrandbits(64)):
            yield b
    # uniformly random exponents in the rewriting band with short mantissas (trailing zeros)
    for _ in range(ctx.n(4000, 100000)):
        m = rng.randrange(1, 10 ** rng.randrange(1, 8))
        e = rng.randrange(0, 16)
        for b in emit(bits(float(m * 10 ** e))):
            yield b


SITE_VALUES = [0.0, -0.0, 1.0, 2.5, 1e6, 2.5e6, 1e10, 1.5e10, 123456789012.0, 1e15, 9007199254740993.0, 1e16, 1e22,
               float('inf'), float('-inf'), float('nan'), 1234567.125, 5e-324, -1e6, -1.5e10, 0.1]


def site_tokens(vals):
    """Every place the library renders a float, for the given doubles: returns list of (site, double, token)."""
    import re as _re
    from prometheus_client import CollectorRegistry, Histogram, core
    from prometheus_client.exposition import generate_latest
    from prometheus_client.openmetrics.exposition import generate_latest as om_latest
    from prometheus_client.samples import Exemplar
    out = []
    # sample values (text + OpenMetrics), exemplar values with and without timestamp
    reg = CollectorRegistry(auto_describe=False)
    fams = []
    for i, d in enumerate(vals):
        g = core.GaugeMetricFamily('g%d' % i, 'h')
        g.add_metric([], d)
        c = core.CounterMetricFamily('c%d' % i, 'h')
        c.add_metric([], 1.0, exemplar=Exemplar({'a': 'b'}, d))
        c2 = core.CounterMetricFamily('d%d' % i, 'h')
        c2.add_metric([], 1.0, exemplar=Exemplar({'a': 'b'}, d, 1.5))
        fams += [g, c, c2]

    class C:
        def collect(self):
            return fams
    reg.register(C())
    text = generate_latest(reg).decode()
    om = om_latest(reg).decode()
    for i, d in enumerate(vals):
        m = _re.search(r'^g%d (\S+)$' % i, text, _re.M)
        out.append(('text-sample', d, m.group(1) if m else None))
        m = _re.search(r'^g%d (\S+)$' % i, om, _re.M)
        out.append(('om-sample', d, m.group(1) if m else None))
        m = _re.search(r'^c%d_total 1\.0 # \{a="b"\} (\S+)$' % i, om, _re.M)
        out.append(('om-exemplar', d, m.group(1) if m else None))
        m = _re.search(r'^d%d_total 1\.0 # \{a="b"\} (\S+) 1\.5$' % i, om, _re.M)
        out.append(('om-exemplar-ts', d, m.group(1) if m else None))
    # histogram le labels through the instrumentation class, bounds in the given order
    finite = [d for d in vals if d == d and abs(d) != float('inf')]
    bounds = sorted(set(finite), key=lambda x: (x, math.copysign(1.0, x)))
    # equal doubles (0.0, -0.0) are kept as separate bounds in both orders
    for order in (bounds, sorted(bounds, key=lambda x: (x, -math.copysign(1.0, x)))):
        try:
            reg2 = CollectorRegistry()
            h = Histogram('h', 'h', buckets=list(order), registry=reg2)
            h.observe(1.0)
            les = [s.labels['le'] for f in reg2.collect() for s in f.samples if s.name == 'h_bucket']
            for d, le in zip(list(order) + [float('inf')], les):
                out.append(('histogram-le', d, le))
        except ValueError:
            pass
    return out


def multiprocess_le_check():
    """Bucket label strings must agree across processes, restarts and clients: .db files whose bucket keys spell one
    bound differently (written by another release or another client) are merged per BOUND by the multiprocess
    collector and re-rendered canonically."""
    import shutil
    import tempfile
    from prometheus_client.mmap_dict import MmapedDict, mmap_key
    from prometheus_client.multiprocess import MultiProcessCollector
    bad = []
    d = tempfile.mkdtemp(prefix='c13mp')
    try:
        spellings = {1e6: ['1000000.0', '1e+06', '1e6'], 2.5e10: ['25000000000.0', '2.5e+10'], 1.0: ['1.0', '1'],
                     float('inf'): ['+Inf', 'inf']}
        files = []
        for pid in range(3):
            path = '%s/histogram_%d.db' % (d, pid)
            md = MmapedDict(path)
            for bound, sp in spellings.items():
                le = sp[pid % len(sp)]
                md.write_value(mmap_key('h', 'h_bucket', ['le'], [le], 'help'), 1.0, 0.0)
            md.write_value(mmap_key('h', 'h_sum', [], [], 'help'), 3.0, 0.0)
            md.close()
            files.append(path)
        fams = MultiProcessCollector.merge(files, accumulate=True)
        les = [s.labels['le'] for f in fams for s in f.samples if s.name == 'h_bucket']
        seen = {}
        for le in les:
            b = float(le)
            r = direct(bits(b), le)
            if r:
                bad.append('multiprocess-le: ' + r)
            if b in seen:
                bad.append('multiprocess-le: bound %r exposed twice, as le=%r and le=%r (files spelling one bound differently '
                           'were not merged per bound)' % (b, seen[b], le))
            seen[b] = le
        if len(seen) != len(spellings):
            bad.append('multiprocess-le: %d bounds exposed for %d written' % (len(seen), len(spellings)))
    except Exception as e:
        bad.append('multiprocess-le: collector raised %s' % type(e).__name__)
    finally:
        shutil.rmtree(d, ignore_errors=True)
    return bad


def site_check():
    """direct oracle over every rendering site; returns list of violation strings"""
    bad = multiprocess_le_check()
    for vals in (SITE_VALUES, list(reversed(SITE_VALUES))):
        for site, d, tok in site_tokens(vals):
            if tok is None:
                bad.append('%s: rendering of %r not found in the output' % (site, d))
                continue
            r = direct(bits(d), tok)
            if r:
                bad.append('%s: %s' % (site, r))
    return bad


def impl(b):
    from prometheus_client.utils import floatToGoString
    d = frombits(b)
    try:
        return floatToGoString(d)
    except Exception as e:     # the function is total on floats
        return 'EXC:' + type(e).__name__


def fclass(d):
    if d == math.inf:
        return Sym('pinf')
    if d == -math.inf:
        return Sym('ninf')
    if math.isnan(d):
        return Sym('nan')
    return (Sym('fin'), d > 0, repr(d))


def model(m, b):
    return d_str(m.call('go', fclass(frombits(b))))


CANON = re.compile(r'^[1-9](\.[0-9]*[1-9])?e\+([0-9]{2,})$')
FIXED_REPR = re.compile(r'^[1-9][0-9]{6,}\.[0-9]+$')


def expected_canonical(d):
    """Independent spelling of Go's %g-style shortest form for d >= 1e6, from the shortest repr digits."""
    t = Decimal(repr(d)).normalize().as_tuple()
    digs = ''.join(map(str, t.digits))
    exp10 = len(digs) - 1 + t.exponent
    mant = digs[0] + ('.' + digs[1:] if len(digs) > 1 else '')
    return '%se+%02d' % (mant, exp10)


def direct(b, out):
    d = frombits(b)
    if out.startswith('EXC:'):
        return 'floatToGoString(%r) raised %s' % (d, out[4:])
    if math.isnan(d):
        return None if out == 'NaN' else 'NaN rendered as %r' % out
    if d == math.inf:
        return None if out == '+Inf' else '+Inf rendered as %r' % out
    if d == -math.inf:
        return None if out == '-Inf' else '-Inf rendered as %r' % out
    try:
        back = float(out)
    except ValueError:
        return 'rendering %r of %r does not parse as a float' % (out, d)
    if bits(back) != b:
        return 'rendering %r of %r parses back to %r' % (out, d, back)
    if d >= 1e6:
        m = CANON.match(out)
        if not m:
            return 'rendering %r of %r (>= 1e6) is not in mantissa-exponent form with explicit sign and two-digit-minimum exponent' % (out, d)
        if len(m.group(2)) > 2 and m.group(2)[0] == '0':
            return 'rendering %r of %r has a needless leading zero in the exponent' % (out, d)
        if out != expected_canonical(d):
            return 'rendering %r of %r is not the shortest form %r' % (out, d, expected_canonical(d))
    r = repr(d)
    if d > 0 and r.find('.') > 6 and not FIXED_REPR.match(r):
        return 'CPython hypothesis fixed_repr violated by repr %r (trusted-base fact, not the library)' % r
    return None


def nontrivial(b, out):
    d = frombits(b)
    return not math.isfinite(d) or d >= 1e6


def classify(b, out):
    d = frombits(b)
    if not math.isfinite(d):
        return ['special']
    if d >= 1e16:
        return ['ge1e16']
    if d >= 1e10:
        return ['rewritten_exp>=10']
    if d >= 1e6:
        return ['rewritten_exp<10']
    if d > 0:
        return ['pos<1e6']
    return ['nonpositive']


def neighbours(b):
    return [(b + k) & 0xFFFFFFFFFFFFFFFF for k in (-2, -1, 1, 2)]


def replay(ctx, rep, case):
    from .engine import process
    if isinstance(case, dict):
        for v in site_check():
            rep.violate(dict(site=v.split(':')[0]), v)
    else:
        process(sys.modules[__name__], ctx, rep, case)
