"""C14 - "the outcome is the same on every run": parse-history independence as an observation.

Both parser models are pure functions of the document, so the outcome of a document must not depend on what the process
parsed before.  A history case is a short list of items [parser, document]; it is parsed

  fwd    the items in order and then in order again, in one FRESH interpreter state  (d1 d2 d1 d2),
  rev    the items in reverse order, twice, in another fresh state                   (d2 d1 d2 d1),
  solo   an item that is first in neither (the middle one of three) alone in its own fresh state,
  warm   the items in the checker's own process, which has parsed every earlier case of the run,

and all outcomes of one item (families or ValueError) have to be identical; the model gives the same list for every run.

A fresh state costs a fork, not an interpreter start: a server process (its own interpreter, started with a hash seed
different from the checker's, so that an outcome decided by set/dict iteration order differs as well) imports the parser
modules, never parses anything itself, and forks one child per sequence; the child parses and reports.  Only pids
started here are ever signalled."""
import atexit
import json
import os
import select
import signal
import subprocess
import sys
import time

PARSERS = ('text', 'om')
SEQ_TIMEOUT_S = 12.0            # per parse, on top of the parsers' own watchdogs


def parse_one(fmt, text):
    """canonical observation of one parse in THIS process: ['ok', families] | ['err', class]"""
    if fmt == 'text':
        from . import c14
        return c14.run_text_impl(text)
    from . import c14om
    o = c14om.obs_impl(text)
    if o[0] == 'err' and o[1] not in ('ValueError', 'TIMEOUT'):
        return ['err', 'Other:' + o[1]]
    if o[0] == 'err' and o[1] == 'TIMEOUT':
        return ['err', 'Timeout']
    return o


def norm(x):
    """what survives the pipe (tuples become lists)"""
    return json.loads(json.dumps(x))


# ------------------------------------------------------------------ server side (fresh interpreter)
def _child(seq, wfd):
    out = []
    try:
        for fmt, text in seq:
            try:
                out.append(parse_one(fmt, text))
            except BaseException as e:       # the observation functions catch Exception; this is what is left
                out.append(['err', 'Other:' + type(e).__name__])
        data = json.dumps(out).encode()
    except BaseException as e:
        data = json.dumps([['err', 'Other:harness:' + type(e).__name__]] * len(seq)).encode()
    try:
        while data:
            n = os.write(wfd, data)
            data = data[n:]
    finally:
        os._exit(0)


def _run_forked(seq):
    rfd, wfd = os.pipe()
    pid = os.fork()
    if pid == 0:
        os.close(rfd)
        _child(seq, wfd)
    os.close(wfd)
    chunks = []
    deadline = time.time() + SEQ_TIMEOUT_S * max(1, len(seq))
    timed_out = False
    while True:
        left = deadline - time.time()
        if left <= 0:
            timed_out = True
            break
        r, _w, _x = select.select([rfd], [], [], left)
        if not r:
            timed_out = True
            break
        b = os.read(rfd, 1 << 16)
        if not b:
            break
        chunks.append(b)
    os.close(rfd)
    if timed_out:
        try:
            os.kill(pid, signal.SIGKILL)
        except OSError:
            pass
    os.waitpid(pid, 0)
    if timed_out:
        return [['err', 'Timeout']] * len(seq)
    try:
        out = json.loads(b''.join(chunks).decode())
        assert len(out) == len(seq)
        return out
    except Exception:
        return [['err', 'Other:child-died']] * len(seq)


def serve():
    """request line: JSON list of sequences (each a list of [parser, document]); reply line: list of outcome lists"""
    # import everything a parse needs, parse nothing: every child starts from the state "modules imported"
    import prometheus_client.openmetrics.parser  # noqa: F401
    import prometheus_client.parser              # noqa: F401
    from . import c14, c14om                     # noqa: F401
    inp, outp = sys.stdin, sys.stdout
    for line in inp:
        line = line.strip()
        if not line:
            continue
        seqs = json.loads(line)
        rep = [_run_forked(seq) for seq in seqs]
        outp.write(json.dumps(rep) + '\n')
        outp.flush()


# ------------------------------------------------------------------ client side
class Fresh:
    def __init__(self, hashseed='4242'):
        root = os.path.dirname(os.path.dirname(os.path.abspath(__file__)))
        env = dict(os.environ)
        env['PYTHONHASHSEED'] = hashseed
        env['PYTHONPATH'] = root + os.pathsep + os.environ.get('VERIF_REPO', '/repo')
        self.p = subprocess.Popen([sys.executable, '-c', 'from harness import c14hist; c14hist.serve()'],
                                  stdin=subprocess.PIPE, stdout=subprocess.PIPE, text=True, env=env, cwd=root)

    def run(self, seqs):
        self.p.stdin.write(json.dumps(seqs) + '\n')
        self.p.stdin.flush()
        rep = self.p.stdout.readline()
        if not rep:
            raise RuntimeError('C14 fresh-state server died')
        return json.loads(rep)

    def close(self):
        try:
            self.p.stdin.close()
            self.p.wait(timeout=5)
        except Exception:
            try:
                self.p.kill()
            except Exception:
                pass


_fresh = [None]


def fresh():
    if _fresh[0] is None or _fresh[0].p.poll() is not None:
        _fresh[0] = Fresh()
        atexit.register(_fresh[0].close)
    return _fresh[0]


def plan(items):
    """the sequences parsed in fresh states, as index lists: fwd, rev (two items or more), and one solo sequence for
    every item that is first in neither (so that every item has a parse that nothing preceded)"""
    k = len(items)
    fwd = list(range(k)) * 2
    rev = list(range(k - 1, -1, -1)) * 2 if k > 1 else None
    solo = list(range(1, k - 1))
    return solo, fwd, rev


def observe(items):
    """-> {'fwd': [...], 'rev': [...], 'solo': [...], 'warm': [...]} (lists of outcomes in the order parsed)"""
    items = [list(it) for it in items]
    solo, fwd, rev = plan(items)
    seqs = [[items[i] for i in fwd]]
    if rev is not None:
        seqs.append([items[i] for i in rev])
    seqs += [[items[i]] for i in solo]
    rep = fresh().run(seqs)
    obs = {'fwd': rep[0]}
    if rev is not None:
        obs['rev'] = rep[1]
    obs['solo'] = [r[0] for r in rep[len(seqs) - len(solo):]] if solo else []
    obs['warm'] = [norm(parse_one(f, t)) for f, t in items]
    return obs


def expected(items, pure):
    """the same structure from the pure outcome of every item (pure: list aligned with items)"""
    items = [list(it) for it in items]
    solo, fwd, rev = plan(items)
    out = {'fwd': [pure[i] for i in fwd]}
    if rev is not None:
        out['rev'] = [pure[i] for i in rev]
    out['solo'] = [pure[i] for i in solo]
    out['warm'] = list(pure)
    return norm(out)


def first_outcomes(items, obs):
    """outcome of every item when nothing was parsed before it"""
    k = len(items)
    out = [None] * k
    out[0] = obs['fwd'][0]
    if k > 1:
        out[k - 1] = obs['rev'][0]
    for pos, i in enumerate(range(1, k - 1)):
        out[i] = obs['solo'][pos]
    return out


def brief(o):
    if o[0] == 'ok':
        return 'families %r' % [[f[0], f[2], [s[0] for s in f[-1]][:6]] for f in o[1]][:4]
    return o[1]


def per_item(items, obs):
    """-> for every item index the list of (run description, outcome); the first entry is the parse nothing preceded"""
    items = [list(it) for it in items]
    solo, fwd, rev = plan(items)
    first = first_outcomes(items, obs)
    out = {i: [('parsed first in a fresh interpreter', first[i])] for i in range(len(items))}

    def before(order, pos):
        return ' then '.join('%s:%r' % (items[j][0], items[j][1][:120]) for j in order[:pos][-3:])
    for name, order in (('fwd', fwd), ('rev', rev)):
        if order is None:
            continue
        for pos, i in enumerate(order):
            if pos > 0:
                out[i].append(('in a fresh interpreter after parsing ' + before(order, pos), obs[name][pos]))
    for i in range(len(items)):
        out[i].append(('in the checker process, warmed by every earlier document of the run', obs['warm'][i]))
    return out


def direct(items, obs, remembered=None):
    """None or the description of: an escape, a hang, or an outcome that differs between two parses of one document"""
    names = {'text': 'text', 'om': 'OpenMetrics'}
    runs = per_item(items, obs)
    for i, (fmt, text) in enumerate(items):
        for how, o in runs[i]:
            if o[0] == 'ok' or o[1] == 'ValueError':
                continue
            if o[1] == 'Timeout':
                return '%s parser did not terminate on %r (%s)' % (names[fmt], text[:200], how)
            return '%s parser raised %s (not ValueError) on %r (%s)' % (names[fmt], o[1].replace('Other:', ''), text[:200], how)
    for i, (fmt, text) in enumerate(items):
        how0, o0 = runs[i][0]
        for how, o in runs[i][1:]:
            if o != o0:
                return ('%s parser: the outcome depends on the parse history: %r -> %s when %s, but -> %s when parsed %s'
                        % (names[fmt], text[:300], brief(o0), how0, brief(o), how))
        if remembered is not None and remembered[i] is not None and remembered[i] != digest(obs['warm'][i]):
            return ('%s parser: the outcome changed during the run: %r -> %s when parsed again later in the checker '
                    'process; its first parse in this run ended differently' % (names[fmt], text[:300], brief(obs['warm'][i])))
    return None


def digest(o):
    import hashlib
    return hashlib.blake2b(json.dumps(norm(o), sort_keys=True).encode(), digest_size=8).hexdigest()
