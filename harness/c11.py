"""C11 - every intermediate on-disk state of the store is readable and a prefix state.
Implementation: prometheus_client.mmap_dict.MmapedDict with its file effects interposed; after each effect the file
is copied and the copy is read by read_all_values_from_file, reopened by a new MmapedDict, and (some cases) scraped by
MultiProcessCollector together with complete files.  close() is a file operation too (file compared before/after), also
when run by a really forked child on the handle it inherited while the parent writes on; worker files of every metric
type are cut inside label-group creation and scraped (no series may appear that nobody wrote); files of every kind
vanish between the collector's listing and its read.  Model: coq/model/MmapDict.v (effect traces and their cuts,
close_effects, wop/wrun for forked children, read_listed for vanished files)."""
import os
import shutil
import signal
import struct
import sys
import tempfile
import time

from . import c10
from .c10 import (KEY_LIMIT, attempt, bits, blob, canon_entries, exc_kind, frombits, key_str, patched_isz, rand_bits,
                  rand_history, rand_key, sx_ops, d_entries, SPECIAL_BITS)
from .sx import d_int

RULE = ('writer histories as in C10 (new keys, overwrites, read_value initialisation, reopen, growth by 0..n doublings at the real and at '
        'patched small initial sizes, multi-byte and long keys); EVERY cut point: the file is snapshotted after every interposed file '
        'effect (open/create, truncate, each mmap slice assignment) and additionally after every executed source line of mmap_dict.py; '
        'each distinct snapshot is read by read_all_values_from_file, reopened by a new MmapedDict (then written to), and for '
        'collector cases scraped by MultiProcessCollector with two complete worker files beside it; CONTINUATION: from every cut file with a '
        'non-zero tail beyond the used bytes (the unpublished entry of a stopped writer) and from some others, a NEW MmapedDict reopens a '
        'copy and performs further ops - read_value/write_value of keys shorter and longer than the history\'s keys, overwrites, reopen - '
        'with all read paths observed after every step and compared with the model run on the same file bytes (open_, then steps); '
        'CLOSE as a file operation: the file is compared before and after every close() (reopen, end of history) and the model\'s close_effects; '
        'FORKED CHILDREN: at chosen points of the history the writer process really fork()s, the child holds the inherited handle and '
        'later closes it (what its first metric operation does, values.py) while the parent keeps writing through its own mapping - the '
        'file must be unchanged by that close and every later cut is observed as usual (model: wop Fork/CloseInherited); '
        'TYPED WORKER FILES: collector cases also as histogram_/summary_/gauge_<mode>_ files whose histories are label-group creations in the '
        'library\'s order (_sum, buckets ... +Inf; _count, _sum; one gauge key) cut between the entry appends, beside complete files that do '
        'NOT hold the groups being created; at every cut collect() must report only series whose keys some writer wrote (the derived '
        'histogram _count of a group with a written bucket aside); VANISHING FILES: a file of EVERY kind the library knows '
        '(gauge_<mode> for all of Gauge._MULTIPROC_MODES, counter, histogram, summary) is removed between the listing and the read: the '
        'live ones (those mark_process_dead removes) must be skipped silently, outcome of every kind compared with the model\'s read_listed; '
        'exhaustive slice: all histories of '
        'length <= 2 over a 9-op alphabet at a small size; thorough tier: forked writers SIGKILLed at random instants (direct oracle only); '
        'non-trivial = the history has at least 4 distinct cut states; distinct by case')
TRUSTED = ['a slice assignment to a shared mapping is observed whole by a concurrent read (atomicity at slice granularity is the model\'s '
           'granularity; torn slices are not explored)',
           'pages written through a MAP_SHARED mapping survive SIGKILL of the writer (kernel page cache)',
           'cut points are observed at Python level: interposed open/truncate/mmap.__setitem__ plus per-line snapshots',
           'fork() gives the child the parent\'s handle as it is (same open file description, same MAP_SHARED mapping); the child that '
           'closes it is a real forked process, the closes are placed at operation boundaries of the parent',
           'a file removed between glob() and open() is simulated by unlinking it right after the listing call returns',
           'UTF-8 and struct facts as in C10']
ASSUMPTIONS = ['keys are encodable strings; used bytes < 2^31',
               'the reader is run on a private copy of each cut file (a reader concurrent with further writes sees one of the later cuts)']
TIME_BUDGET = {'quick': 85, 'thorough': 800}


# ---------------------------------------------------------------- generators
def coll_key(name, lab):
    import json
    return json.dumps([name, name + '_total', {'l': lab}, 'help ' + name], sort_keys=True)


def shorter(ks):
    if isinstance(ks, str):
        return ks[:len(ks) // 2]
    unit, count, suffix = ks
    return [unit, count // 2, suffix[:1]]


def longer(ks, rng):
    ext = rng.choice(('zz', '\xe9\xe9\xe9', ' ', 'a_longer_suffix_0123456789'))
    if isinstance(ks, str):
        return ks + ext
    unit, count, suffix = ks
    return [unit, count, suffix + ext]


def rand_cont(rng, ops):
    """what a NEW writer does after reopening the file a dead writer left at some cut: initialise / write keys that are
    shorter or longer than the keys of the history (the dead writer's unpublished entry lies beyond the used bytes),
    overwrite old keys, reopen again"""
    hist = []
    for op in ops:
        if op[0] != 'O' and op[1] not in hist:
            hist.append(op[1])
    out = []
    for i in range(rng.randrange(1, 5)):
        r = rng.random()
        if i == 0 and r < 0.7:
            r = rng.random() * 0.5
        if r < 0.3:
            k = rng.choice(['', 'b', 'q7', 'new'] + [shorter(h) for h in hist[-3:]])
            out.append(['R', k] if rng.random() < 0.7 else ['W', k, rand_bits(rng), rand_bits(rng)])
        elif r < 0.5:
            k = longer(rng.choice(hist), rng) if hist and rng.random() < 0.7 else rand_key(rng)
            out.append(['R', k] if rng.random() < 0.6 else ['W', k, rand_bits(rng), rand_bits(rng)])
        elif r < 0.7 and hist:
            out.append(['W', rng.choice(hist), rand_bits(rng), rand_bits(rng)])
        elif r < 0.85 and hist:
            out.append(['R', rng.choice(hist)])
        elif r < 0.93:
            out.append(['O'])
        else:
            out.append(['R', rand_key(rng)])
    return out


def cases(ctx):
    for case in base_cases(ctx):
        if 'kill_us' not in case and 'cont' not in case and 'forks' not in case:
            case['cont'] = rand_cont(ctx.rng, case['ops'])
        yield case


# ---- typed worker files: the keys a label group of each metric type creates, in the library's order
HELP = 'help text'
DEFAULT_BOUNDS = ('0.005', '0.01', '0.025', '0.05', '0.075', '0.1', '0.25', '0.5', '0.75', '1.0', '2.5', '5.0', '7.5', '10.0', '+Inf')
FALLBACK_GAUGE_MODES = ('all', 'liveall', 'min', 'livemin', 'max', 'livemax', 'sum', 'livesum', 'mostrecent', 'livemostrecent')


def gauge_modes():
    """the library's own mode set (falls back to the documented ten when the attribute is not there)"""
    try:
        from prometheus_client import Gauge
        return sorted(Gauge._MULTIPROC_MODES)
    except Exception:
        return list(FALLBACK_GAUGE_MODES)


def mkey(metric, name, labels):
    import json
    return json.dumps([metric, name, labels, HELP], sort_keys=True)


def group_keys(typ, metric, labels, bounds):
    """the keys one label group creates (values.ValueClass(...) calls of _metric_init), in creation order"""
    if typ == 'histogram':
        return [mkey(metric, metric + '_sum', labels)] + \
               [mkey(metric, metric + '_bucket', dict(labels, le=b)) for b in bounds]
    if typ == 'summary':
        return [mkey(metric, metric + '_count', labels), mkey(metric, metric + '_sum', labels)]
    if typ == 'counter':
        return [mkey(metric, metric + '_total', labels)]
    return [mkey(metric, metric, labels)]


def small_bits(rng):
    return bits(float(rng.randrange(0, 50)) / rng.choice((1, 2, 4)))


def typed_case(rng, typ=None):
    """a worker file of a metric type: label groups are created one after the other (read_value of every key of the
    group = one entry append each), with observations in between; `other` is a complete file of another worker which
    does not hold the groups created later"""
    typ = typ or rng.choice(['histogram'] * 5 + ['summary'] * 2 + ['gauge_' + m for m in gauge_modes()] + ['counter'])
    kind = typ.split('_')[0]
    metric = rng.choice(('h', 'lat', 'm0'))
    bounds = rng.choice((('0.5', '1.0', '+Inf'), ('1.0', '+Inf'), ('0.1', '1.0', '10.0', '+Inf'), DEFAULT_BOUNDS))
    labs = rng.sample(['a', 'b', 'c', '', '\xe9 x', '+Inf', '\U0001F600'], rng.randrange(1, 4))
    ops = []
    created = []
    for li, lab in enumerate(labs):
        labels = {'g': lab}
        keys = group_keys(kind, metric, labels, bounds)
        ops += [['R', k] for k in keys]
        created.append(keys)
        for _ in range(rng.randrange(0, 3)):
            keys2 = rng.choice(created)
            if kind == 'histogram':
                ops.append(['W', rng.choice(keys2[1:]), small_bits(rng), 0])
                ops.append(['W', keys2[0], small_bits(rng), 0])
            elif kind == 'summary':
                ops.append(['W', keys2[0], small_bits(rng), 0])
                ops.append(['W', keys2[1], small_bits(rng), 0])
            else:
                ts = bits(float(rng.randrange(1, 2000))) if kind == 'gauge' and rng.random() < 0.7 else 0
                ops.append(['W', keys2[0], small_bits(rng) if rng.random() < 0.8 else rand_bits(rng), ts])
        if rng.random() < 0.12:
            ops.append(['O'])
    # the other worker: a group nobody else has, and sometimes the FIRST group of this worker (never the later ones)
    other = []
    for labels in [{'g': 'zz'}] + ([{'g': labs[0]}] if rng.random() < 0.5 else []):
        for k in group_keys(kind, metric, labels, bounds):
            other.append([k, small_bits(rng), bits(float(rng.randrange(1, 2000))) if kind == 'gauge' else 0])
    return {'isz': rng.choice((65536, 65536, 64, 256, 1000)), 'ops': ops, 'coll': True, 'typ': typ, 'other': other}


def rand_forks(rng, nops, n=None):
    """[[i_fork, i_close or None]]: a child is forked before op i_fork and closes its inherited handle before op i_close
    (nops = after the last op); children close in the order they were forked"""
    n = n or rng.choice((1, 1, 1, 2, 3))
    fs = sorted(rng.randrange(nops + 1) for _ in range(n))
    out = []
    last = 0
    for f in fs:
        if rng.random() < 0.1:
            out.append([f, None])
            continue
        c = rng.randrange(max(f, last), nops + 1)
        if rng.random() < 0.3:
            c = max(f, last)
        out.append([f, c])
        last = c
    return out


def base_cases(ctx):
    rng = ctx.rng
    # a new writer continuing after a dead one: keys shorter and longer than the key that was in flight
    for k in ('a_rather_long_metric_key_0123456789', '\u20ac' * 9, 'abcdefgh'):
        for c in ([['R', 'b']], [['R', '']], [['R', k[:5]], ['R', k + k]], [['W', 'b', 1, 2], ['R', 'c']],
                  [['R', k], ['O'], ['R', 'b']]):
            yield {'isz': 65536 if len(c) == 1 else 64, 'ops': [['W', 'first', 0x3ff0000000000000, 5], ['W', k, 0x4000000000000000, 6]],
                   'cont': c}
    yield {'isz': 65536, 'ops': []}
    yield {'isz': 65536, 'ops': [['W', 'a', 0x3ff0000000000000, 0]]}
    yield {'isz': 65536, 'ops': [['R', 'abcd'], ['W', 'abcd', 0x7ff8000000000001, 0x8000000000000000], ['O'], ['W', 'é', 1, 2]]}
    # exhaustive small slice
    alpha = [['W', k, v, v ^ 1] for k in ('a', 'abcde', '\xe9') for v in (0x7ff0000000000001, 0x8000000000000000)] + \
            [['R', k] for k in ('a', 'abcde')] + [['O']]
    for a in alpha:
        yield {'isz': 32, 'ops': [a]}
        for b in alpha:
            yield {'isz': 32, 'ops': [a, b]}
            if ctx.thorough:
                for c in alpha:
                    yield {'isz': 8, 'ops': [a, b, c]}
    # forked children closing the handle they inherited while the writer goes on (one (fork, close) pair per history,
    # all pairs over the slice), then at the real size with new keys after the child's close
    pairs = [(i, j) for i in range(3) for j in range(i, 3)]
    n = 0
    for a in alpha:
        for b in alpha:
            i, j = pairs[n % len(pairs)]
            n += 1
            yield {'isz': 32, 'ops': [a, b], 'forks': [[i, j]]}
    for isz in (65536, 64):
        yield {'isz': isz, 'ops': [['W', 'a', 0x3ff0000000000000, 0], ['W', 'b', 0x4000000000000000, 0], ['R', 'c']],
               'forks': [[1, 1]]}
        yield {'isz': isz, 'ops': [['W', 'a', 0x3ff0000000000000, 0], ['W', 'b', 0x4000000000000000, 0], ['O'], ['R', 'c'],
                                   ['W', 'a', 1, 2]], 'forks': [[1, 2], [2, 4]]}
    for i in range(ctx.n(40, 1500)):
        ops = rand_history(rng, rng.choice((2, 3, 5, 8)), rng.randrange(1, 10))
        if rng.random() < 0.15:
            big = [rng.choice(('a', '\xe9')), rng.randrange(100, 5000), rand_key(rng, 6)]
            ops.insert(rng.randrange(len(ops) + 1), ['W', big, rand_bits(rng), rand_bits(rng)])
        yield {'isz': 65536 if rng.random() < 0.6 else rng.choice((8, 64, 100, 4096)), 'ops': ops,
               'forks': rand_forks(rng, len(ops))}
    # typed worker files (histogram / summary / gauge modes) cut inside label-group creation, scraped at every cut
    for typ in ('histogram', 'histogram', 'summary', 'gauge_all', 'gauge_livemostrecent', 'gauge_min'):
        yield typed_case(rng, typ)
    for i in range(ctx.n(26, 1200)):
        yield typed_case(rng)
    # growth at the real size: 1 and 2 doublings, in flight at every effect
    for n in ((65507, 65508, 140000) if not ctx.thorough else (65500, 65507, 65508, 65537, 140000, 300003)):
        yield {'isz': 65536, 'ops': [['W', 'p', 1, 2], ['W', ['x', n, ''], 0x7ff8000000000001, 3], ['W', 'after', 4, 5]]}
    # collector cases: keys are mmap_key JSON strings of counters
    for i in range(ctx.n(60, 1500)):
        names = ['m%d' % rng.randrange(3) for _ in range(4)]
        keys = []
        for nm in names:
            k = coll_key(nm, rng.choice(('', 'x', '\xe9', 'a b', '\U0001F600')))
            if k not in keys:
                keys.append(k)
        ops = rand_history(rng, len(keys), rng.randrange(1, 8), key_pool=keys)
        yield {'isz': rng.choice((65536, 64, 256)), 'ops': ops, 'coll': True}
    # thorough tier: real SIGKILL of a forked writer at a random instant (direct oracle only)
    if ctx.thorough:
        for i in range(400):
            ops = rand_history(rng, rng.choice((2, 5, 12)), rng.randrange(5, 60))
            yield {'isz': 65536, 'ops': ops, 'kill_us': rng.choice((0, 50, 100, 200, 400, 800, 1500, 3000)) + rng.randrange(100)}
    # random histories
    for i in range(ctx.n(700, 20000)):
        isz = 65536 if rng.random() < 0.3 else rng.choice((8, 9, 16, 24, 40, 64, 100, 128, 1000, 4096))
        ops = rand_history(rng, rng.choice((1, 2, 3, 5, 8)), rng.randrange(1, 14))
        if rng.random() < 0.1:
            big = [rng.choice(('a', '\xe9', '€')), rng.randrange(100, 5000), rand_key(rng, 6)]
            ops.insert(rng.randrange(len(ops) + 1), ['W', big, rand_bits(rng), rand_bits(rng)])
        yield {'isz': isz, 'ops': ops}


# ---------------------------------------------------------------- implementation side
class Recorder:
    """Collects the sequence of distinct on-disk states of `path` (None = the file does not exist)."""

    def __init__(self, path):
        self.path = path
        self.snaps = []

    def snap(self):
        try:
            with open(self.path, 'rb') as f:
                raw = f.read()
        except FileNotFoundError:
            return
        if not self.snaps or self.snaps[-1] != raw:
            self.snaps.append(raw)


def install(mod, rec):
    """Interpose on mmap_dict's view of `mmap` and `open`, and trace its lines.  Returns an undo function."""
    import builtins
    import mmap as real_mmap

    class RecMmap(real_mmap.mmap):
        def __setitem__(self, idx, val):
            super().__setitem__(idx, val)
            rec.snap()

    class MmapModule:
        mmap = RecMmap

        def __getattr__(self, name):
            return getattr(real_mmap, name)

    class RecFile:
        def __init__(self, f):
            self._f = f

        def truncate(self, *a):
            r = self._f.truncate(*a)
            rec.snap()
            return r

        def __getattr__(self, name):
            return getattr(self._f, name)

        def __enter__(self):
            self._f.__enter__()
            return self

        def __exit__(self, *a):
            return self._f.__exit__(*a)

    def rec_open(file, mode='r', *a, **kw):
        f = builtins.open(file, mode, *a, **kw)
        rec.snap()
        if any(c in mode for c in 'wa+'):
            return RecFile(f)
        return f

    had_open = 'open' in mod.__dict__
    old_open = mod.__dict__.get('open')
    old_mmap = mod.mmap
    mod.mmap = MmapModule()
    mod.open = rec_open
    target = os.path.abspath(mod.__file__)
    if target.endswith('.pyc'):
        target = target[:-1]

    def local(frame, event, arg):
        rec.snap()
        return local

    def tracer(frame, event, arg):
        if event == 'call' and frame.f_code.co_filename == target:
            return local
        return None

    old_trace = sys.gettrace()
    sys.settrace(tracer)

    def undo():
        sys.settrace(old_trace)
        mod.mmap = old_mmap
        if had_open:
            mod.open = old_open
        else:
            del mod.open
    return undo


def write_complete(mod, path, entries):
    d = mod.MmapedDict(path)
    for k, v, t in entries:
        d.write_value(k, v, t)
    d.close()


def collect_dir(d):
    from prometheus_client import CollectorRegistry
    from prometheus_client.multiprocess import MultiProcessCollector
    reg = CollectorRegistry()
    MultiProcessCollector(reg, path=d)
    out = []
    for fam in reg.collect():
        for s in fam.samples:
            out.append([fam.name, fam.type, s.name, sorted(s.labels.items()), bits(float(s.value))])
    out.sort(key=repr)
    return out


_KINDS = [None]


def victim_kinds(mod):
    """[(file name, live?)]: one file name of pid 777 per kind of worker file the library knows - gauge_<mode> for every
    mode of Gauge._MULTIPROC_MODES, counter, histogram, summary.  live = the files the library's own mark_process_dead
    removes (found by running it on a scratch directory) or whose mode starts with 'live'."""
    if _KINDS[0] is None:
        names = ['gauge_%s_777.db' % m for m in gauge_modes()] + ['counter_777.db', 'histogram_777.db', 'summary_777.db']
        removed = set()
        tmp = tempfile.mkdtemp(prefix='c11v-')
        try:
            from prometheus_client.multiprocess import mark_process_dead
            for n in names:
                with open(os.path.join(tmp, n), 'wb') as f:
                    f.write(b'')
            mark_process_dead(777, tmp)
            removed = set(names) - set(os.listdir(tmp))
        except Exception:
            pass
        finally:
            shutil.rmtree(tmp, ignore_errors=True)
        _KINDS[0] = [(n, n in removed or (n.startswith('gauge_') and n.split('_')[1].startswith('live'))) for n in names]
    return _KINDS[0]


def victim_entries(name):
    kind = name.split('_')[0]
    metric = 'v' + kind
    return [(k, 4.0, 7.0) for k in group_keys(kind, metric, {}, ('1.0', '+Inf'))]


def collect_vanishing(mod, d, name):
    """collect() while the file `name` (of pid 777) is removed right after the first directory listing (or, at the
    latest, just before the first file is read)"""
    import glob as _glob
    victim = os.path.join(d, name)
    write_complete(mod, victim, victim_entries(name))
    armed = [True]

    def fire():
        if armed[0]:
            armed[0] = False
            os.unlink(victim)
    og, oi, ol = _glob.glob, _glob.iglob, os.listdir
    orf = mod.MmapedDict.__dict__['read_all_values_from_file']

    def hg(*a, **k):
        r = og(*a, **k); fire(); return r

    def hi(*a, **k):
        r = list(oi(*a, **k)); fire(); return iter(r)

    def hl(*a, **k):
        r = ol(*a, **k); fire(); return r

    def hr(filename):
        fire()
        return orf.__func__(filename)
    _glob.glob, _glob.iglob, os.listdir = hg, hi, hl
    mod.MmapedDict.read_all_values_from_file = staticmethod(hr)
    try:
        return collect_dir(d)
    finally:
        _glob.glob, _glob.iglob, os.listdir = og, oi, ol
        mod.MmapedDict.read_all_values_from_file = orf
        if os.path.exists(victim):
            os.unlink(victim)


def series_of_key(key):
    """(sample name, sorted label items) of an mmap_key string"""
    import json
    metric, name, labels, _help = json.loads(key)
    return (name, tuple(sorted((str(a), str(b)) for a, b in labels.items())))


def phantoms(collected, written):
    """samples of a scrape whose series no writer wrote.  Not counted: the pid label the collector adds to gauges, and
    the histogram _count the collector derives for a label group of which at least one bucket was written."""
    out = []
    for fam_name, fam_type, sname, labels, _v in collected:
        labels = tuple((a, b) for a, b in labels)
        if (sname, labels) in written:
            continue
        nopid = tuple(l for l in labels if l[0] != 'pid')
        if fam_type == 'gauge' and (sname, nopid) in written:
            continue
        if fam_type == 'histogram' and sname == fam_name + '_count' and any(
                n == fam_name + '_bucket' and tuple(l for l in ls if l[0] != 'le') == labels for n, ls in written):
            continue
        out.append([sname, [list(l) for l in labels]])
    return out


def observe_cut(mod, raw, tmp, coll, others, fname='counter_100.db', victims=()):
    """Observations on a private copy of one cut file."""
    cdir = os.path.join(tmp, 'cut')
    shutil.rmtree(cdir, ignore_errors=True)
    os.mkdir(cdir)
    p1 = os.path.join(cdir, fname)
    with open(p1, 'wb') as f:
        f.write(raw)
    reader = attempt(lambda: canon_entries(mod.MmapedDict.read_all_values_from_file(p1)))
    extra = {}
    if coll:
        for name, ents in others:
            write_complete(mod, os.path.join(cdir, name), ents)
        extra['collect'] = attempt(lambda: collect_dir(cdir))
        # a worker's file vanishes between the collector's listing and its reads.  For the files mark_process_dead removes
        # (a dead worker's live gauges) the scrape must succeed and report what the directory holds without that file.
        extra['vanish'] = [[name, attempt(lambda: collect_vanishing(mod, cdir, name))] for name in victims]
        if reader[0] == 'ok':
            try:
                dec = _decode_entries(mod, raw)
                # no series may be reported whose key no writer wrote
                if extra['collect'][0] == 'ok':
                    written = {series_of_key(k) for k, _v, _t in dec}
                    for _n, ents in others:
                        written |= {series_of_key(k) for k, _v, _t in ents}
                    extra['phantom'] = phantoms(extra['collect'][1], written)[:4]
                # the same directory with the cut file replaced by a complete file holding what the reader returned
                os.unlink(p1)
                ents = [(k, frombits(v), frombits(t)) for (k, v, t) in dec]
                write_complete(mod, p1, ents)
                extra['collect_clean'] = attempt(lambda: collect_dir(cdir))
            except Exception as e:
                extra['collect_clean'] = ['err', 'rebuild:' + exc_kind(e)]
    # reopen by a new writer on another private copy, read through the new handle, then keep writing
    p2 = os.path.join(cdir, 'reopen.db')
    with open(p2, 'wb') as f:
        f.write(raw)
    d = None
    try:
        d = mod.MmapedDict(p2)
        ra = attempt(lambda: canon_entries(d.read_all_values()))
        used = struct.unpack_from('<i', open(p2, 'rb').read(4), 0)[0]
        reopen = ['ok', [used, ra]]
        try:
            first = ra[1][0] if ra[0] == 'ok' and ra[1] else None
            d.write_value('\x00probe\xe9', 1.5, -0.0)
            if first is not None and isinstance(first[0], str):
                d.write_value(bytes.fromhex(first[0]).decode('utf-8'), 2.5, 3.5)
            extra['cont'] = [attempt(lambda: canon_entries(d.read_all_values())),
                             attempt(lambda: canon_entries(mod.MmapedDict.read_all_values_from_file(p2)))]
        except Exception as e:
            extra['cont'] = ['err', exc_kind(e)]
    except Exception as e:
        reopen = ['err', exc_kind(e)]
    finally:
        try:
            if d is not None:
                d.close()
        except Exception:
            pass
    return [reader, reopen], extra


def _decode_entries(mod, raw):
    """entries of a cut file with their keys as str, through the implementation's own reader on a scratch copy"""
    p = tempfile.mktemp(prefix='c11-dec-')
    with open(p, 'wb') as f:
        f.write(raw)
    try:
        return [(k, bits(v), bits(t)) for k, v, t, _ in mod.MmapedDict.read_all_values_from_file(p)]
    finally:
        os.unlink(p)


def run_writer(mod, path, ops):
    d = mod.MmapedDict(path)
    for op in ops:
        if op[0] == 'W':
            d.write_value(key_str(op[1]), frombits(op[2]), frombits(op[3]))
        elif op[0] == 'R':
            d.read_value(key_str(op[1]))
        else:
            d.close()
            d = mod.MmapedDict(path)
    return d


def impl_kill(case):
    """Thorough tier: a forked writer is SIGKILLed at a random instant; the file it leaves is read and reopened."""
    import prometheus_client.mmap_dict as mod
    tmp = tempfile.mkdtemp(prefix='c11k-')
    path = os.path.join(tmp, 'counter_100.db')
    try:
        pid = os.fork()
        if pid == 0:
            try:
                d = run_writer(mod, path, case['ops'])
                d.close()
            finally:
                os._exit(0)
        t_end = time.time() + 1.0
        if case['kill_us'] % 3:                      # two thirds of the kills are timed from the creation of the file
            while not os.path.exists(path) and time.time() < t_end:
                pass
        time.sleep(case['kill_us'] / 1e6)
        try:
            os.kill(pid, signal.SIGKILL)
        except ProcessLookupError:
            pass
        os.waitpid(pid, 0)
        if not os.path.exists(path):
            return {'cuts': [], 'extras': [], 'kill': True}
        raw = open(path, 'rb').read()
        o, extra = observe_cut(mod, raw, tmp, False, [])
        return {'cuts': [o], 'extras': [extra], 'kill': True}
    finally:
        shutil.rmtree(tmp, ignore_errors=True)


def _read(path):
    with open(path, 'rb') as f:
        return f.read()


def wops_of(case):
    """the history with its forks merged in: ops, ['F'] (a child is forked), ['C'] (the oldest child that will close
    closes its inherited handle).  Children that never close have no effect on the file and are left out."""
    ops = case['ops']
    forks = [f for f in case.get('forks') or [] if f[1] is not None]
    out = []
    for i in range(len(ops) + 1):
        out += [['F'] for f in forks if min(f[0], len(ops)) == i]
        out += [['C'] for f in forks if min(f[1], len(ops)) == i]
        if i < len(ops):
            out.append(ops[i])
    return out


class Children:
    """forked copies of the writer process, each blocked on a pipe until told to close the handle it inherited"""

    def __init__(self):
        self.live = []          # (pid, write end)

    def fork(self, d):
        r, w = os.pipe()
        pid = os.fork()
        if pid == 0:
            code = 0
            try:
                sys.settrace(None)
                os.close(w)
                cmd = os.read(r, 1)
                if cmd == b'c':
                    d.close()           # what the child's first metric operation does with every inherited file
            except BaseException:
                code = 1
            finally:
                os._exit(code)
        os.close(r)
        self.live.append((pid, w))
        return pid

    def tell(self, pid, cmd):
        for i, (p, w) in enumerate(self.live):
            if p == pid:
                del self.live[i]
                try:
                    os.write(w, cmd)
                finally:
                    os.close(w)
                _, status = os.waitpid(p, 0)
                return status
        return None

    def reap(self):
        for p, _w in list(self.live):
            self.tell(p, b'x')


def sacrificial(mod, path, d, ops):
    """in a forked copy of the writer (so that a SIGBUS stays there): go on with `ops`, then read the file"""
    r, w = os.pipe()
    pid = os.fork()
    if pid == 0:
        try:
            sys.settrace(None)
            os.close(r)
            try:
                for op in ops:
                    if op[0] == 'W':
                        d.write_value(key_str(op[1]), frombits(op[2]), frombits(op[3]))
                    elif op[0] == 'R':
                        d.read_value(key_str(op[1]))
                    else:
                        break
                msg = 'the writer goes on (%d op(s)); then ' % len(ops)
            except Exception as e:
                msg = 'the writer then raises %s; ' % exc_kind(e)
            try:
                n = len(list(mod.MmapedDict.read_all_values_from_file(path)))
                msg += 'read_all_values_from_file returns %d entries' % n
            except Exception as e:
                msg += 'read_all_values_from_file raises %s' % exc_kind(e)
            os.write(w, msg.encode())
        finally:
            os._exit(0)
    os.close(w)
    msg = b''
    while True:
        b = os.read(r, 4096)
        if not b:
            break
        msg += b
    os.close(r)
    _, status = os.waitpid(pid, 0)
    if os.WIFSIGNALED(status):
        return 'the writer, going on, is killed by signal %d' % os.WTERMSIG(status)
    return msg.decode() or 'the writer, going on, exited %r' % status


def run_history(mod, path, case, info):
    """the writer's history with every close() observed as a file operation ([kind, size before, size after, same
    bytes]) and, for fork cases, real forked children closing the handle they inherited"""
    ops = case['ops']
    forks = case.get('forks') or []
    kids = Children()
    pending = []                   # [pid, i_close] in fork order
    closes = info['closes']
    d = mod.MmapedDict(path)
    try:
        for i in range(len(ops) + 1):
            for f in forks:
                if min(f[0], len(ops)) == i:
                    pending.append([kids.fork(d), None if f[1] is None else min(f[1], len(ops))])
            for pc in list(pending):
                if pc[1] == i:
                    pending.remove(pc)
                    before = _read(path)
                    status = kids.tell(pc[0], b'c')
                    after = _read(path)
                    closes.append(['inherited', len(before), len(after), before == after])
                    if status != 0:
                        info['child_failed'] = status
                    if before != after:
                        # the file was changed under the writer's mapping: do not write through it in this process
                        info['after_foreign_close'] = sacrificial(
                            mod, path, d, [op for op in ops[i:i + 3] if op[0] != 'O'] or [['R', '\x00new-series-after-the-close']])
                        info['stopped'] = i
                        return d
            if i == len(ops):
                break
            op = ops[i]
            if op[0] == 'W':
                d.write_value(key_str(op[1]), frombits(op[2]), frombits(op[3]))
            elif op[0] == 'R':
                d.read_value(key_str(op[1]))
            else:
                before = _read(path)
                d.close()
                after = _read(path)
                closes.append(['own', len(before), len(after), before == after])
                d = mod.MmapedDict(path)
        return d
    finally:
        kids.reap()


def typed_names(case):
    """file name of the cut file and the complete files beside it"""
    typ = case.get('typ') or 'counter'
    return typ + '_100.db', typ + '_200.db'


def vanish_plan(mod, case, n):
    """the files that vanish during the scrape at the n-th distinct cut: all live kinds at the first cut, then one kind
    after the other over ALL kinds"""
    kinds = victim_kinds(mod)
    if n == 0:
        return [k for k, live in kinds if live]
    salt = len(case['ops']) * 5 + len(case.get('typ') or '')
    return [kinds[(salt + n) % len(kinds)][0]]


def impl(case):
    if 'kill_us' in case:
        return impl_kill(case)
    import prometheus_client.mmap_dict as mod
    tmp = tempfile.mkdtemp(prefix='c11-')
    path = os.path.join(tmp, 'counter_100.db')
    rec = Recorder(path)
    err = None
    d = None
    info = {'closes': []}
    try:
        with patched_isz(mod, case['isz']):
            undo = install(mod, rec)
            try:
                d = run_history(mod, path, case, info)
            except Exception as e:
                err = exc_kind(e)
            finally:
                undo()
            rec.snap()
            if d is not None:
                try:
                    before = _read(path)
                    d.close()
                    after = _read(path)
                    info['final_close'] = [len(before), len(after), before == after]
                    if 'stopped' not in info and err is None:
                        info['closes'].append(['final', len(before), len(after), before == after])
                except Exception as e:
                    info['final_close'] = ['err', exc_kind(e)]
            coll = bool(case.get('coll'))
            others = []
            fname, oname = typed_names(case)
            if coll:
                ops = case['ops']
                if 'other' in case:
                    others = [(oname, [(k, frombits(v), frombits(t)) for k, v, t in case['other']])]
                else:
                    ks = [key_str(op[1]) for op in ops if op[0] != 'O']
                    others = [(oname, [(k, float(i + 1), 0.0) for i, k in enumerate(ks[:2])])]
                others.append(('counter_300.db', [(coll_key('other', 'z'), 7.0, 0.0)]))
            cuts, extras = [], []
            for raw in rec.snaps:
                o, extra = observe_cut(mod, raw, tmp, False, [])
                if not cuts or cuts[-1] != o:
                    if coll:
                        o, extra = observe_cut(mod, raw, tmp, True, others, fname, vanish_plan(mod, case, len(cuts)))
                    cuts.append(o)
                    extras.append(extra)
            conts = []
            for idx in select_cuts(rec.snaps, case):
                conts.append(continue_from(mod, rec.snaps[idx], tmp, case.get('cont') or []))
            vanish = [[name, r[0] if r[0] == 'ok' else 'err:' + str(r[1])] for e in extras for name, r in e.get('vanish', [])]
            res = {'cuts': cuts, 'extras': extras, 'writer_error': err, 'nsnaps': len(rec.snaps), 'conts': conts,
                   'closes': info['closes'], 'vanish': vanish, 'info': {k: v for k, v in info.items() if k != 'closes'}}
            _LAST[0] = (_case_key(case), [c['file'] for c in conts], [v[0] for v in vanish])
            return res
    finally:
        shutil.rmtree(tmp, ignore_errors=True)


_LAST = [None]       # cut files of the last impl() call, for model(): the model is run on the files found on disk


def _case_key(case):
    import json
    return json.dumps(case, sort_keys=True)


def dirty_tail(raw):
    """bytes beyond the used-bytes header that are not zero: an unpublished entry of a writer that stopped"""
    if len(raw) < 8:
        return False
    used = struct.unpack_from('<i', raw, 0)[0]
    return used >= 8 and any(raw[used:used + 4096]) or (used >= 8 and raw[used:].strip(b'\x00') != b'')


def select_cuts(snaps, case):
    """indices of the cut files a new writer continues from: every one with a dirty tail (at most 4, spread), the first
    states, and one more chosen from the case"""
    if not case.get('cont'):
        return []
    n = len(snaps)
    if n <= 4:
        return list(range(n))
    dirty = [i for i in range(n) if dirty_tail(snaps[i])]
    if len(dirty) > 4:
        step = len(dirty) / 4.0
        dirty = [dirty[int(j * step)] for j in range(4)]
    extra = (len(case['ops']) * 7 + len(case['cont']) * 3 + n) % n
    sel = sorted(set(dirty + [extra]))
    if len(snaps[-1]) > 200000:
        sel = sel[:2]
    return sel


def continue_from(mod, raw, tmp, cont):
    """a new MmapedDict on a private copy of the cut file, then the continuation ops; observations as in C10"""
    cdir = os.path.join(tmp, 'cont')
    shutil.rmtree(cdir, ignore_errors=True)
    os.mkdir(cdir)
    p = os.path.join(cdir, 'counter_100.db')
    with open(p, 'wb') as f:
        f.write(raw)
    prefix = raw.rstrip(b'\x00')
    out = {'file': [prefix.hex(), len(raw)],
           'before': attempt(lambda: canon_entries(mod.MmapedDict.read_all_values_from_file(p)))}
    steps = []
    d = None
    try:
        try:
            d = mod.MmapedDict(p)
        except Exception as e:
            out['steps'] = [['err', exc_kind(e)]]
            return out
        steps.append(c10.observe(mod, p, d, None))
        for op in cont:
            peek = None
            try:
                if op[0] == 'W':
                    d.write_value(key_str(op[1]), frombits(op[2]), frombits(op[3]))
                elif op[0] == 'R':
                    v, ts = d.read_value(key_str(op[1]))
                    peek = ['ok', [bits(v), bits(ts)]]
                else:
                    d.close()
                    d = mod.MmapedDict(p)
            except Exception as e:
                steps.append(['err', exc_kind(e)])
                break
            steps.append(c10.observe(mod, p, d, peek))
    finally:
        try:
            if d is not None:
                d.close()
        except Exception:
            pass
    out['steps'] = steps
    return out


# ---------------------------------------------------------------- model side
def model(m, case):
    if 'kill_us' in case:
        return None
    import mmap
    r = m.call('c11_cuts', case['isz'], mmap.PAGESIZE, sx_wops(wops_of(case)))
    if r[0] == 'err':
        return {'cuts': [['err', r[1]]]}
    closes = [[c[0], d_int(c[1]), d_int(c[2]), c[3] == 'T'] if c[1] != 'err' else [c[0], 'err'] for c in r[2]]
    cuts = []
    for c in r[1]:
        if c[0] in ('err', 'nofile'):
            o = [c[0]]
        else:
            reader = d_entries(c[1])
            if c[3][0] == 'ok':
                reopen = ['ok', [d_int(c[3][1][0]), d_entries(c[3][1][1])]]
            else:
                reopen = ['err', c[3][1]]
            o = [reader, reopen]
        if not cuts or cuts[-1] != o:
            cuts.append(o)
    # continuation: the model's open_ on the very cut files found on disk, then its steps
    conts = []
    if case.get('cont') or case.get('coll'):
        if not _LAST[0] or _LAST[0][0] != _case_key(case):
            impl(case)
    if case.get('cont'):
        for fhex, total in _LAST[0][1]:
            r = m.call('c11_cont', case['isz'], mmap.PAGESIZE, c10.BLOB_LIMIT, (bytes.fromhex(fhex), total),
                       sx_ops(case['cont']))
            conts.append([c10.d_step(st) for st in r])
    # files that vanish between the listing and the read: the model's read_listed on (typ, parts[1]) of each name
    vanish = []
    if case.get('coll'):
        for name in _LAST[0][2]:
            parts = name.split('_')
            if name not in _VANISH:
                v = m.call('c11_vanish', mmap.PAGESIZE, parts[0].encode(), parts[1].encode())
                _VANISH[name] = 'ok' if v[0] == 'ok' else 'err:' + v[1]
            vanish.append([name, _VANISH[name]])
    return {'cuts': cuts, 'conts': conts, 'closes': closes, 'vanish': vanish}


_VANISH = {}


def sx_wops(wops):
    from .sx import Sym
    out = []
    for op in wops:
        if op[0] in ('F', 'C'):
            out.append((Sym(op[0]),))
        else:
            out += sx_ops([op])
    return out


def same(i, mo):
    if mo is None:
        return True
    return (i['cuts'] == mo['cuts'] and not i.get('writer_error')
            and [c['steps'] for c in i.get('conts', [])] == mo.get('conts', [])
            and i.get('closes', []) == mo.get('closes', []) and i.get('vanish', []) == mo.get('vanish', []))


# ---------------------------------------------------------------- direct oracle
def allowed_states(ops):
    """[(m, inflight?, state)] in trace order: the state after m completed ops, optionally plus the new key of op m+1 at zero"""
    ref = c10.reference(ops)
    out = []
    for m in range(len(ops) + 1):
        out.append((m, False, ref[m]))
        if m < len(ops) and ops[m][0] != 'O':
            k = blob(key_str(ops[m][1]).encode('utf-8'), KEY_LIMIT)
            if all(e[0] != k for e in ref[m]):
                out.append((m, True, ref[m] + [[k, 0, 0]]))
    return out


def direct(case, obs):
    ops = case['ops']
    if obs.get('writer_error'):
        return 'the writer raised %s' % obs['writer_error']
    allowed = allowed_states(ops)
    info = obs.get('info') or {}
    # close() of a handle a forked child inherited must leave the file of the (live) parent alone
    for c in obs.get('closes', []):
        if c[0] == 'inherited' and c[-1] is not True:
            return ('a forked child closed the MmapedDict it inherited (what its first metric operation does) and close() changed '
                    'the file its parent is still writing through its own mapping: size %s -> %s%s; %s'
                    % (c[1], c[2] if len(c) > 2 else '?', '' if len(c) < 4 or c[1] != c[2] else ' (bytes differ)',
                       info.get('after_foreign_close', '')))
    if info.get('child_failed'):
        return 'close() of an inherited handle failed in the forked child (status %r)' % (info['child_failed'],)
    live = None
    idx = 0
    for n, (o, extra) in enumerate(zip(obs['cuts'], obs['extras'])):
        reader, reopen = o
        what = 'cut state #%d of %d' % (n + 1, len(obs['cuts']))
        if reader[0] != 'ok':
            return '%s: read_all_values_from_file raised %s' % (what, reader[1])
        j = idx
        while j < len(allowed) and allowed[j][2] != reader[1]:
            j += 1
        if j == len(allowed):
            anyw = [a for a in allowed if a[2] == reader[1]]
            if anyw:
                return '%s: the reader went back to an earlier prefix state %r' % (what, reader[1][:6])
            keys = {repr(e[0]) for a in allowed for e in a[2]}
            bad = [e for e in reader[1] if repr(e[0]) not in keys]
            if bad:
                return '%s: the reader returned a key that was never written: %r' % (what, bad[:3])
            return '%s: the reader returned %r, which is no prefix state (+ in-flight key at zero) of the history' % (what, reader[1][:8])
        idx = j
        if reopen[0] != 'ok':
            return '%s: reopen by a new MmapedDict raised %s' % (what, reopen[1])
        if reopen[1][1] != reader:
            return '%s: the reopened handle reads %r, the file reader %r' % (what, reopen[1][1], reader[1][:8])
        cont = extra.get('cont')
        if cont is not None:
            exp = [list(e) for e in reader[1]]
            probe = blob('\x00probe\xe9'.encode('utf-8'), KEY_LIMIT)
            if exp and isinstance(exp[0][0], str):
                exp[0] = [exp[0][0], bits(2.5), bits(3.5)]
            exp.append([probe, bits(1.5), bits(-0.0)])
            if cont[0] == 'err':
                return '%s: writing after reopen raised %s' % (what, cont[1])
            for c in cont:
                if c != ['ok', exp]:
                    return '%s: after reopen + two writes the store reads %r, expected %r' % (what, c, exp[:8])
        if 'collect' in extra:
            if extra['collect'][0] != 'ok':
                return '%s: MultiProcessCollector.collect() raised %s with this worker file in the directory' % (what, extra['collect'][1])
            if live is None:
                import prometheus_client.mmap_dict as mod
                live = {k for k, l in victim_kinds(mod) if l}
            for name, cv in extra.get('vanish', []):
                if name not in live:
                    continue           # not a file mark_process_dead removes: no tolerance demanded (outcome compared with the model)
                if cv[0] != 'ok':
                    return ('%s: collect() raised %s when %s - a live gauge file of a dead worker, which mark_process_dead removes - '
                            'vanished between listing and reading: one dead worker made the whole scrape fail' % (what, cv[1], name))
                if cv != extra['collect']:
                    return '%s: collect() with the vanishing live gauge file %s reports %r, without the file %r' % (
                        what, name, cv, extra['collect'])
            if extra.get('phantom'):
                return ('%s: collect() reports series whose keys no writer ever wrote: %r (worker file %s cut inside the creation of '
                        'a label group)' % (what, extra['phantom'], typed_names(case)[0]))
            if extra.get('collect_clean') != extra['collect']:
                return '%s: collect() over the cut file %r differs from collect() over the equivalent complete file %r' % (
                    what, extra['collect'], extra.get('collect_clean'))
    for ci, c in enumerate(obs.get('conts', [])):
        r = direct_cont(case, c, allowed)
        if r:
            return 'continuation %d of %d (cut file of %d bytes, %d non-zero-terminated): %s' % (
                ci + 1, len(obs['conts']), c['file'][1], len(c['file'][0]) // 2, r)
    fc = info.get('final_close')
    if fc and fc[0] == 'err':
        return 'close() at the end of the history raised %s' % fc[1]
    if not obs.get('kill'):
        if not obs['cuts']:
            return 'no file state was observed'
        last = obs['cuts'][-1][0]
        if last != ['ok', allowed[-1][2]]:
            return 'the final file reads %r, expected the complete state %r' % (last, allowed[-1][2][:8])
    return None


def direct_cont(case, c, allowed):
    """a new writer reopened a cut file and went on: every read path must return the cut's prefix state updated by exactly
    the new writer's operations - in particular a key it initialises reads (0.0, 0.0), never stale bytes"""
    before = c['before']
    if before[0] != 'ok':
        return 'the cut file is unreadable: %s' % before[1]
    if all(a[2] != before[1] for a in allowed):
        return 'the cut file reads %r, no prefix state' % (before[1][:6],)
    cur = [list(e) for e in before[1]]
    steps = c['steps']
    cont = case['cont']
    for i, s in enumerate(steps):
        what = 'after reopen' if i == 0 else 'after reopen + %d op(s), last %r' % (i, c10._short(cont[i - 1]))
        if s[0] == 'err':
            return '%s: raised %s' % (what, s[1])
        if i > 0:
            op = cont[i - 1]
            if op[0] != 'O':
                k = blob(key_str(op[1]).encode('utf-8'), KEY_LIMIT)
                hit = [e for e in cur if e[0] == k]
                if op[0] == 'W':
                    if hit:
                        hit[0][1], hit[0][2] = op[2], op[3]
                    else:
                        cur.append([k, op[2], op[3]])
                elif not hit:
                    cur.append([k, 0, 0])
                if op[0] == 'R':
                    want = [[e[1], e[2]] for e in cur if e[0] == k][0]
                    if s[5] != ['ok', want]:
                        return '%s: read_value returned %r, expected %r (a value nobody wrote)' % (what, s[5], want)
        if s[0] is not True:
            return '%s: used-bytes header %d exceeds the file length' % (what, s[1])
        if s[3] != ['ok', cur]:
            return '%s: read_all_values(): %s' % (what, c10._diff(s[3][1] if s[3][0] == 'ok' else s[3], cur))
        if s[4] != ['ok', cur]:
            return '%s: read_all_values_from_file(): %s' % (what, c10._diff(s[4][1] if s[4][0] == 'ok' else s[4], cur))
    if len(steps) != len(cont) + 1:
        return 'the continuation stopped early'
    return None


def nontrivial(case, obs):
    return len(obs['cuts']) >= 4


def classify(case, obs):
    out = ['cuts=%d' % min(len(obs['cuts']), 40) if len(obs['cuts']) < 10 else 'cuts>=10']
    if case.get('coll'):
        out.append('collector')
    for c in obs.get('conts', []):
        out.append('continuation')
        if dirty_tail(bytes.fromhex(c['file'][0]) + b'\x00' * (c['file'][1] - len(c['file'][0]) // 2)):
            out.append('continuation-from-dirty-tail')
    if 'kill_us' in case:
        out.append('sigkill')
        if obs['cuts']:
            out.append('sigkill-file-present')
    out.append('isz=real' if case['isz'] == 65536 else 'isz=patched-small')
    allowed = allowed_states(case['ops'])
    infl = {repr(a[2]) for a in allowed if a[1]}
    for o in obs['cuts']:
        if o[0][0] == 'ok' and repr(o[0][1]) in infl:
            out.append('inflight-state-observed')
        if o[0] == ['ok', []]:
            out.append('empty-state-observed')
    if case.get('typ'):
        out.append('typed-file=' + case['typ'])
    for c in obs.get('closes', []):
        out.append('close-observed=' + c[0])
    if case.get('forks'):
        out.append('fork-case')
        nops = len(case['ops'])
        if any(f[1] is not None and f[1] < nops and any(op[0] != 'O' for op in case['ops'][f[1]:]) for f in case['forks']):
            out.append('fork-case-writer-goes-on-after-child-close')
    for name, r in obs.get('vanish', []):
        out.append('vanish=%s:%s' % (name[:-7], r))
    for e in obs.get('extras', []):
        if case.get('typ') == 'histogram' and 'phantom' in e:
            out.append('histogram-cut-scraped')
    return out


def _keep(case, c):
    if case.get('coll'):
        c['coll'] = True
    if case.get('cont'):
        c['cont'] = case['cont']
    for k in ('typ', 'other'):
        if k in case:
            c[k] = case[k]
    if case.get('forks'):
        n = len(c['ops'])
        c['forks'] = [[min(f[0], n), None if f[1] is None else min(f[1], n)] for f in case['forks']]
    return c


def neighbours(case):
    return [_keep(case, c) for c in c10.neighbours(case)]


def shrinks(case):
    for c in c10.shrinks(case):
        yield _keep(case, c)
    cont = case.get('cont') or []
    for i in range(len(cont)):
        yield dict(case, cont=cont[:i] + cont[i + 1:])
    forks = case.get('forks') or []
    if len(forks) > 1:
        for i in range(len(forks)):
            yield dict(case, forks=forks[:i] + forks[i + 1:])
