"""C11 - every intermediate on-disk state of the store is readable and a prefix state.
Implementation: prometheus_client.mmap_dict.MmapedDict with its file effects interposed; after each effect the file
is copied and the copy is read by read_all_values_from_file, reopened by a new MmapedDict, and (some cases) scraped by
MultiProcessCollector together with complete files.  Model: coq/model/MmapDict.v (effect traces and their cuts)."""
import os
import shutil
import signal
import struct
import sys
import tempfile
import time

from . import c10
from .c10 import (KEY_LIMIT, attempt, bits, blob, canon_entries, exc_kind, frombits, key_str, patched_isz, rand_bits,
                  rand_history, rand_key, sx_ops, d_entries, SPECIAL_BITS)
from .sx import d_int

RULE = ('writer histories as in C10 (new keys, overwrites, read_value initialisation, reopen, growth by 0..n doublings at the real and at '
        'patched small initial sizes, multi-byte and long keys); EVERY cut point: the file is snapshotted after every interposed file '
        'effect (open/create, truncate, each mmap slice assignment) and additionally after every executed source line of mmap_dict.py; '
        'each distinct snapshot is read by read_all_values_from_file, reopened by a new MmapedDict (then written to), and for '
        'collector cases scraped by MultiProcessCollector with two complete worker files beside it; CONTINUATION: from every cut file with a '
        'non-zero tail beyond the used bytes (the unpublished entry of a stopped writer) and from some others, a NEW MmapedDict reopens a '
        'copy and performs further ops - read_value/write_value of keys shorter and longer than the history\'s keys, overwrites, reopen - '
        'with all read paths observed after every step and compared with the model run on the same file bytes (open_, then steps); exhaustive slice: all histories of '
        'length <= 2 over a 9-op alphabet at a small size; thorough tier: forked writers SIGKILLed at random instants (direct oracle only); '
        'non-trivial = the history has at least 4 distinct cut states; distinct by case')
TRUSTED = ['a slice assignment to a shared mapping is observed whole by a concurrent read (atomicity at slice granularity is the model\'s '
           'granularity; torn slices are not explored)',
           'pages written through a MAP_SHARED mapping survive SIGKILL of the writer (kernel page cache)',
           'cut points are observed at Python level: interposed open/truncate/mmap.__setitem__ plus per-line snapshots',
           'UTF-8 and struct facts as in C10']
ASSUMPTIONS = ['keys are encodable strings; used bytes < 2^31',
               'the reader is run on a private copy of each cut file (a reader concurrent with further writes sees one of the later cuts)']
TIME_BUDGET = {'quick': 85, 'thorough': 800}


# ---------------------------------------------------------------- generators
def coll_key(name, lab):
    import json
    return json.dumps([name, name + '_total', {'l': lab}, 'help ' + name], sort_keys=True)


def shorter(ks):
    if isinstance(ks, str):
        return ks[:len(ks) // 2]
    unit, count, suffix = ks
    return [unit, count // 2, suffix[:1]]


def longer(ks, rng):
    ext = rng.choice(('zz', '\xe9\xe9\xe9', ' ', 'a_longer_suffix_0123456789'))
    if isinstance(ks, str):
        return ks + ext
    unit, count, suffix = ks
    return [unit, count, suffix + ext]


def rand_cont(rng, ops):
    """what a NEW writer does after reopening the file a dead writer left at some cut: initialise / write keys that are
    shorter or longer than the keys of the history (the dead writer's unpublished entry lies beyond the used bytes),
    overwrite old keys, reopen again"""
    hist = []
    for op in ops:
        if op[0] != 'O' and op[1] not in hist:
            hist.append(op[1])
    out = []
    for i in range(rng.randrange(1, 5)):
        r = rng.random()
        if i == 0 and r < 0.7:
            r = rng.random() * 0.5
        if r < 0.3:
            k = rng.choice(['', 'b', 'q7', 'new'] + [shorter(h) for h in hist[-3:]])
            out.append(['R', k] if rng.random() < 0.7 else ['W', k, rand_bits(rng), rand_bits(rng)])
        elif r < 0.5:
            k = longer(rng.choice(hist), rng) if hist and rng.random() < 0.7 else rand_key(rng)
            out.append(['R', k] if rng.random() < 0.6 else ['W', k, rand_bits(rng), rand_bits(rng)])
        elif r < 0.7 and hist:
            out.append(['W', rng.choice(hist), rand_bits(rng), rand_bits(rng)])
        elif r < 0.85 and hist:
            out.append(['R', rng.choice(hist)])
        elif r < 0.93:
            out.append(['O'])
        else:
            out.append(['R', rand_key(rng)])
    return out


def cases(ctx):
    for case in base_cases(ctx):
        if 'kill_us' not in case and 'cont' not in case:
            case['cont'] = rand_cont(ctx.rng, case['ops'])
        yield case


def base_cases(ctx):
    rng = ctx.rng
    # a new writer continuing after a dead one: keys shorter and longer than the key that was in flight
    for k in ('a_rather_long_metric_key_0123456789', '\u20ac' * 9, 'abcdefgh'):
        for c in ([['R', 'b']], [['R', '']], [['R', k[:5]], ['R', k + k]], [['W', 'b', 1, 2], ['R', 'c']],
                  [['R', k], ['O'], ['R', 'b']]):
            yield {'isz': 65536 if len(c) == 1 else 64, 'ops': [['W', 'first', 0x3ff0000000000000, 5], ['W', k, 0x4000000000000000, 6]],
                   'cont': c}
    yield {'isz': 65536, 'ops': []}
    yield {'isz': 65536, 'ops': [['W', 'a', 0x3ff0000000000000, 0]]}
    yield {'isz': 65536, 'ops': [['R', 'abcd'], ['W', 'abcd', 0x7ff8000000000001, 0x8000000000000000], ['O'], ['W', 'é', 1, 2]]}
    # exhaustive small slice
    alpha = [['W', k, v, v ^ 1] for k in ('a', 'abcde', '\xe9') for v in (0x7ff0000000000001, 0x8000000000000000)] + \
            [['R', k] for k in ('a', 'abcde')] + [['O']]
    for a in alpha:
        yield {'isz': 32, 'ops': [a]}
        for b in alpha:
            yield {'isz': 32, 'ops': [a, b]}
            if ctx.thorough:
                for c in alpha:
                    yield {'isz': 8, 'ops': [a, b, c]}
    # growth at the real size: 1 and 2 doublings, in flight at every effect
    for n in ((65507, 65508, 140000) if not ctx.thorough else (65500, 65507, 65508, 65537, 140000, 300003)):
        yield {'isz': 65536, 'ops': [['W', 'p', 1, 2], ['W', ['x', n, ''], 0x7ff8000000000001, 3], ['W', 'after', 4, 5]]}
    # collector cases: keys are mmap_key JSON strings of counters
    for i in range(ctx.n(60, 1500)):
        names = ['m%d' % rng.randrange(3) for _ in range(4)]
        keys = []
        for nm in names:
            k = coll_key(nm, rng.choice(('', 'x', '\xe9', 'a b', '\U0001F600')))
            if k not in keys:
                keys.append(k)
        ops = rand_history(rng, len(keys), rng.randrange(1, 8), key_pool=keys)
        yield {'isz': rng.choice((65536, 64, 256)), 'ops': ops, 'coll': True}
    # thorough tier: real SIGKILL of a forked writer at a random instant (direct oracle only)
    if ctx.thorough:
        for i in range(400):
            ops = rand_history(rng, rng.choice((2, 5, 12)), rng.randrange(5, 60))
            yield {'isz': 65536, 'ops': ops, 'kill_us': rng.choice((0, 50, 100, 200, 400, 800, 1500, 3000)) + rng.randrange(100)}
    # random histories
    for i in range(ctx.n(700, 20000)):
        isz = 65536 if rng.random() < 0.3 else rng.choice((8, 9, 16, 24, 40, 64, 100, 128, 1000, 4096))
        ops = rand_history(rng, rng.choice((1, 2, 3, 5, 8)), rng.randrange(1, 14))
        if rng.random() < 0.1:
            big = [rng.choice(('a', '\xe9', '€')), rng.randrange(100, 5000), rand_key(rng, 6)]
            ops.insert(rng.randrange(len(ops) + 1), ['W', big, rand_bits(rng), rand_bits(rng)])
        yield {'isz': isz, 'ops': ops}


# ---------------------------------------------------------------- implementation side
class Recorder:
    """Collects the sequence of distinct on-disk states of `path` (None = the file does not exist)."""

    def __init__(self, path):
        self.path = path
        self.snaps = []

    def snap(self):
        try:
            with open(self.path, 'rb') as f:
                raw = f.read()
        except FileNotFoundError:
            return
        if not self.snaps or self.snaps[-1] != raw:
            self.snaps.append(raw)


def install(mod, rec):
    """Interpose on mmap_dict's view of `mmap` and `open`, and trace its lines.  Returns an undo function."""
    import builtins
    import mmap as real_mmap

    class RecMmap(real_mmap.mmap):
        def __setitem__(self, idx, val):
            super().__setitem__(idx, val)
            rec.snap()

    class MmapModule:
        mmap = RecMmap

        def __getattr__(self, name):
            return getattr(real_mmap, name)

    class RecFile:
        def __init__(self, f):
            self._f = f

        def truncate(self, *a):
            r = self._f.truncate(*a)
            rec.snap()
            return r

        def __getattr__(self, name):
            return getattr(self._f, name)

        def __enter__(self):
            self._f.__enter__()
            return self

        def __exit__(self, *a):
            return self._f.__exit__(*a)

    def rec_open(file, mode='r', *a, **kw):
        f = builtins.open(file, mode, *a, **kw)
        rec.snap()
        if any(c in mode for c in 'wa+'):
            return RecFile(f)
        return f

    had_open = 'open' in mod.__dict__
    old_open = mod.__dict__.get('open')
    old_mmap = mod.mmap
    mod.mmap = MmapModule()
    mod.open = rec_open
    target = os.path.abspath(mod.__file__)
    if target.endswith('.pyc'):
        target = target[:-1]

    def local(frame, event, arg):
        rec.snap()
        return local

    def tracer(frame, event, arg):
        if event == 'call' and frame.f_code.co_filename == target:
            return local
        return None

    old_trace = sys.gettrace()
    sys.settrace(tracer)

    def undo():
        sys.settrace(old_trace)
        mod.mmap = old_mmap
        if had_open:
            mod.open = old_open
        else:
            del mod.open
    return undo


def write_complete(mod, path, entries):
    d = mod.MmapedDict(path)
    for k, v, t in entries:
        d.write_value(k, v, t)
    d.close()


def collect_dir(d):
    from prometheus_client import CollectorRegistry
    from prometheus_client.multiprocess import MultiProcessCollector
    reg = CollectorRegistry()
    MultiProcessCollector(reg, path=d)
    out = []
    for fam in reg.collect():
        for s in fam.samples:
            out.append([fam.name, fam.type, s.name, sorted(s.labels.items()), bits(float(s.value))])
    out.sort(key=repr)
    return out


def collect_vanishing(mod, d):
    """collect() while gauge_livesum_777.db is removed right after the first directory listing (or, at the latest, just
    before the first file is read)"""
    import glob as _glob
    victim = os.path.join(d, 'gauge_livesum_777.db')
    import json
    write_complete(mod, victim, [(json.dumps(['vg', 'vg', {}, 'help vg'], sort_keys=True), 4.0, 0.0)])
    armed = [True]

    def fire():
        if armed[0]:
            armed[0] = False
            os.unlink(victim)
    og, oi, ol = _glob.glob, _glob.iglob, os.listdir
    orf = mod.MmapedDict.__dict__['read_all_values_from_file']

    def hg(*a, **k):
        r = og(*a, **k); fire(); return r

    def hi(*a, **k):
        r = list(oi(*a, **k)); fire(); return iter(r)

    def hl(*a, **k):
        r = ol(*a, **k); fire(); return r

    def hr(filename):
        fire()
        return orf.__func__(filename)
    _glob.glob, _glob.iglob, os.listdir = hg, hi, hl
    mod.MmapedDict.read_all_values_from_file = staticmethod(hr)
    try:
        return collect_dir(d)
    finally:
        _glob.glob, _glob.iglob, os.listdir = og, oi, ol
        mod.MmapedDict.read_all_values_from_file = orf
        if os.path.exists(victim):
            os.unlink(victim)


def observe_cut(mod, raw, tmp, coll, others):
    """Observations on a private copy of one cut file."""
    cdir = os.path.join(tmp, 'cut')
    shutil.rmtree(cdir, ignore_errors=True)
    os.mkdir(cdir)
    p1 = os.path.join(cdir, 'counter_100.db')
    with open(p1, 'wb') as f:
        f.write(raw)
    reader = attempt(lambda: canon_entries(mod.MmapedDict.read_all_values_from_file(p1)))
    extra = {}
    if coll:
        for name, ents in others:
            write_complete(mod, os.path.join(cdir, name), ents)
        extra['collect'] = attempt(lambda: collect_dir(cdir))
        # a dead worker's live gauge file vanishes (mark_process_dead) between the collector's listing and its reads:
        # the scrape must succeed and report what the directory holds without that file
        extra['collect_vanish'] = attempt(lambda: collect_vanishing(mod, cdir))
        # the same directory with the cut file replaced by a complete file holding what the reader returned
        if reader[0] == 'ok':
            os.unlink(p1)
            try:
                ents = [(k, frombits(v), frombits(t)) for (k, v, t) in _decode_entries(mod, raw)]
                write_complete(mod, p1, ents)
                extra['collect_clean'] = attempt(lambda: collect_dir(cdir))
            except Exception as e:
                extra['collect_clean'] = ['err', 'rebuild:' + exc_kind(e)]
    # reopen by a new writer on another private copy, read through the new handle, then keep writing
    p2 = os.path.join(cdir, 'reopen.db')
    with open(p2, 'wb') as f:
        f.write(raw)
    d = None
    try:
        d = mod.MmapedDict(p2)
        ra = attempt(lambda: canon_entries(d.read_all_values()))
        used = struct.unpack_from('<i', open(p2, 'rb').read(4), 0)[0]
        reopen = ['ok', [used, ra]]
        try:
            first = ra[1][0] if ra[0] == 'ok' and ra[1] else None
            d.write_value('\x00probe\xe9', 1.5, -0.0)
            if first is not None and isinstance(first[0], str):
                d.write_value(bytes.fromhex(first[0]).decode('utf-8'), 2.5, 3.5)
            extra['cont'] = [attempt(lambda: canon_entries(d.read_all_values())),
                             attempt(lambda: canon_entries(mod.MmapedDict.read_all_values_from_file(p2)))]
        except Exception as e:
            extra['cont'] = ['err', exc_kind(e)]
    except Exception as e:
        reopen = ['err', exc_kind(e)]
    finally:
        try:
            if d is not None:
                d.close()
        except Exception:
            pass
    return [reader, reopen], extra


def _decode_entries(mod, raw):
    """entries of a cut file with their keys as str, through the implementation's own reader on a scratch copy"""
    p = tempfile.mktemp(prefix='c11-dec-')
    with open(p, 'wb') as f:
        f.write(raw)
    try:
        return [(k, bits(v), bits(t)) for k, v, t, _ in mod.MmapedDict.read_all_values_from_file(p)]
    finally:
        os.unlink(p)


def run_writer(mod, path, ops):
    d = mod.MmapedDict(path)
    for op in ops:
        if op[0] == 'W':
            d.write_value(key_str(op[1]), frombits(op[2]), frombits(op[3]))
        elif op[0] == 'R':
            d.read_value(key_str(op[1]))
        else:
            d.close()
            d = mod.MmapedDict(path)
    return d


def impl_kill(case):
    """Thorough tier: a forked writer is SIGKILLed at a random instant; the file it leaves is read and reopened."""
    import prometheus_client.mmap_dict as mod
    tmp = tempfile.mkdtemp(prefix='c11k-')
    path = os.path.join(tmp, 'counter_100.db')
    try:
        pid = os.fork()
        if pid == 0:
            try:
                d = run_writer(mod, path, case['ops'])
                d.close()
            finally:
                os._exit(0)
        t_end = time.time() + 1.0
        if case['kill_us'] % 3:                      # two thirds of the kills are timed from the creation of the file
            while not os.path.exists(path) and time.time() < t_end:
                pass
        time.sleep(case['kill_us'] / 1e6)
        try:
            os.kill(pid, signal.SIGKILL)
        except ProcessLookupError:
            pass
        os.waitpid(pid, 0)
        if not os.path.exists(path):
            return {'cuts': [], 'extras': [], 'kill': True}
        raw = open(path, 'rb').read()
        o, extra = observe_cut(mod, raw, tmp, False, [])
        return {'cuts': [o], 'extras': [extra], 'kill': True}
    finally:
        shutil.rmtree(tmp, ignore_errors=True)


def impl(case):
    if 'kill_us' in case:
        return impl_kill(case)
    import prometheus_client.mmap_dict as mod
    tmp = tempfile.mkdtemp(prefix='c11-')
    path = os.path.join(tmp, 'counter_100.db')
    rec = Recorder(path)
    err = None
    d = None
    try:
        with patched_isz(mod, case['isz']):
            undo = install(mod, rec)
            try:
                d = run_writer(mod, path, case['ops'])
            except Exception as e:
                err = exc_kind(e)
            finally:
                undo()
            rec.snap()
            if d is not None:
                try:
                    d.close()
                except Exception:
                    pass
            coll = bool(case.get('coll'))
            others = []
            if coll:
                ops = case['ops']
                ks = [key_str(op[1]) for op in ops if op[0] != 'O']
                others = [('counter_200.db', [(k, float(i + 1), 0.0) for i, k in enumerate(ks[:2])]),
                          ('counter_300.db', [(coll_key('other', 'z'), 7.0, 0.0)])]
            cuts, extras = [], []
            for raw in rec.snaps:
                o, extra = observe_cut(mod, raw, tmp, coll, others)
                if not cuts or cuts[-1] != o:
                    cuts.append(o)
                    extras.append(extra)
            conts = []
            for idx in select_cuts(rec.snaps, case):
                conts.append(continue_from(mod, rec.snaps[idx], tmp, case.get('cont') or []))
            res = {'cuts': cuts, 'extras': extras, 'writer_error': err, 'nsnaps': len(rec.snaps), 'conts': conts}
            _LAST[0] = (_case_key(case), [c['file'] for c in conts])
            return res
    finally:
        shutil.rmtree(tmp, ignore_errors=True)


_LAST = [None]       # cut files of the last impl() call, for model(): the model is run on the files found on disk


def _case_key(case):
    import json
    return json.dumps(case, sort_keys=True)


def dirty_tail(raw):
    """bytes beyond the used-bytes header that are not zero: an unpublished entry of a writer that stopped"""
    if len(raw) < 8:
        return False
    used = struct.unpack_from('<i', raw, 0)[0]
    return used >= 8 and any(raw[used:used + 4096]) or (used >= 8 and raw[used:].strip(b'\x00') != b'')


def select_cuts(snaps, case):
    """indices of the cut files a new writer continues from: every one with a dirty tail (at most 4, spread), the first
    states, and one more chosen from the case"""
    if not case.get('cont'):
        return []
    n = len(snaps)
    if n <= 4:
        return list(range(n))
    dirty = [i for i in range(n) if dirty_tail(snaps[i])]
    if len(dirty) > 4:
        step = len(dirty) / 4.0
        dirty = [dirty[int(j * step)] for j in range(4)]
    extra = (len(case['ops']) * 7 + len(case['cont']) * 3 + n) % n
    sel = sorted(set(dirty + [extra]))
    if len(snaps[-1]) > 200000:
        sel = sel[:2]
    return sel


def continue_from(mod, raw, tmp, cont):
    """a new MmapedDict on a private copy of the cut file, then the continuation ops; observations as in C10"""
    cdir = os.path.join(tmp, 'cont')
    shutil.rmtree(cdir, ignore_errors=True)
    os.mkdir(cdir)
    p = os.path.join(cdir, 'counter_100.db')
    with open(p, 'wb') as f:
        f.write(raw)
    prefix = raw.rstrip(b'\x00')
    out = {'file': [prefix.hex(), len(raw)],
           'before': attempt(lambda: canon_entries(mod.MmapedDict.read_all_values_from_file(p)))}
    steps = []
    d = None
    try:
        try:
            d = mod.MmapedDict(p)
        except Exception as e:
            out['steps'] = [['err', exc_kind(e)]]
            return out
        steps.append(c10.observe(mod, p, d, None))
        for op in cont:
            peek = None
            try:
                if op[0] == 'W':
                    d.write_value(key_str(op[1]), frombits(op[2]), frombits(op[3]))
                elif op[0] == 'R':
                    v, ts = d.read_value(key_str(op[1]))
                    peek = ['ok', [bits(v), bits(ts)]]
                else:
                    d.close()
                    d = mod.MmapedDict(p)
            except Exception as e:
                steps.append(['err', exc_kind(e)])
                break
            steps.append(c10.observe(mod, p, d, peek))
    finally:
        try:
            if d is not None:
                d.close()
        except Exception:
            pass
    out['steps'] = steps
    return out


# ---------------------------------------------------------------- model side
def model(m, case):
    if 'kill_us' in case:
        return None
    import mmap
    r = m.call('c11_cuts', case['isz'], mmap.PAGESIZE, sx_ops(case['ops']))
    if r[0] == 'err':
        return {'cuts': [['err', r[1]]]}
    cuts = []
    for c in r[1]:
        if c[0] in ('err', 'nofile'):
            o = [c[0]]
        else:
            reader = d_entries(c[1])
            if c[3][0] == 'ok':
                reopen = ['ok', [d_int(c[3][1][0]), d_entries(c[3][1][1])]]
            else:
                reopen = ['err', c[3][1]]
            o = [reader, reopen]
        if not cuts or cuts[-1] != o:
            cuts.append(o)
    # continuation: the model's open_ on the very cut files found on disk, then its steps
    conts = []
    if case.get('cont'):
        if not _LAST[0] or _LAST[0][0] != _case_key(case):
            impl(case)
        for fhex, total in _LAST[0][1]:
            r = m.call('c11_cont', case['isz'], mmap.PAGESIZE, c10.BLOB_LIMIT, (bytes.fromhex(fhex), total),
                       sx_ops(case['cont']))
            conts.append([c10.d_step(st) for st in r])
    return {'cuts': cuts, 'conts': conts}


def same(i, mo):
    if mo is None:
        return True
    return (i['cuts'] == mo['cuts'] and not i.get('writer_error')
            and [c['steps'] for c in i.get('conts', [])] == mo.get('conts', []))


# ---------------------------------------------------------------- direct oracle
def allowed_states(ops):
    """[(m, inflight?, state)] in trace order: the state after m completed ops, optionally plus the new key of op m+1 at zero"""
    ref = c10.reference(ops)
    out = []
    for m in range(len(ops) + 1):
        out.append((m, False, ref[m]))
        if m < len(ops) and ops[m][0] != 'O':
            k = blob(key_str(ops[m][1]).encode('utf-8'), KEY_LIMIT)
            if all(e[0] != k for e in ref[m]):
                out.append((m, True, ref[m] + [[k, 0, 0]]))
    return out


def direct(case, obs):
    ops = case['ops']
    if obs.get('writer_error'):
        return 'the writer raised %s' % obs['writer_error']
    allowed = allowed_states(ops)
    idx = 0
    for n, (o, extra) in enumerate(zip(obs['cuts'], obs['extras'])):
        reader, reopen = o
        what = 'cut state #%d of %d' % (n + 1, len(obs['cuts']))
        if reader[0] != 'ok':
            return '%s: read_all_values_from_file raised %s' % (what, reader[1])
        j = idx
        while j < len(allowed) and allowed[j][2] != reader[1]:
            j += 1
        if j == len(allowed):
            anyw = [a for a in allowed if a[2] == reader[1]]
            if anyw:
                return '%s: the reader went back to an earlier prefix state %r' % (what, reader[1][:6])
            keys = {repr(e[0]) for a in allowed for e in a[2]}
            bad = [e for e in reader[1] if repr(e[0]) not in keys]
            if bad:
                return '%s: the reader returned a key that was never written: %r' % (what, bad[:3])
            return '%s: the reader returned %r, which is no prefix state (+ in-flight key at zero) of the history' % (what, reader[1][:8])
        idx = j
        if reopen[0] != 'ok':
            return '%s: reopen by a new MmapedDict raised %s' % (what, reopen[1])
        if reopen[1][1] != reader:
            return '%s: the reopened handle reads %r, the file reader %r' % (what, reopen[1][1], reader[1][:8])
        cont = extra.get('cont')
        if cont is not None:
            exp = [list(e) for e in reader[1]]
            probe = blob('\x00probe\xe9'.encode('utf-8'), KEY_LIMIT)
            if exp and isinstance(exp[0][0], str):
                exp[0] = [exp[0][0], bits(2.5), bits(3.5)]
            exp.append([probe, bits(1.5), bits(-0.0)])
            if cont[0] == 'err':
                return '%s: writing after reopen raised %s' % (what, cont[1])
            for c in cont:
                if c != ['ok', exp]:
                    return '%s: after reopen + two writes the store reads %r, expected %r' % (what, c, exp[:8])
        if 'collect' in extra:
            if extra['collect'][0] != 'ok':
                return '%s: MultiProcessCollector.collect() raised %s with this worker file in the directory' % (what, extra['collect'][1])
            cv = extra.get('collect_vanish')
            if cv is not None and cv[0] != 'ok':
                return ('%s: collect() raised %s when a dead worker\'s live gauge file vanished between listing and reading: one dead '
                        'worker made the whole scrape fail' % (what, cv[1]))
            if cv is not None and cv != extra['collect']:
                return '%s: collect() with a vanishing live gauge file reports %r, without the file %r' % (what, cv, extra['collect'])
            if extra.get('collect_clean') != extra['collect']:
                return '%s: collect() over the cut file %r differs from collect() over the equivalent complete file %r' % (
                    what, extra['collect'], extra.get('collect_clean'))
    for ci, c in enumerate(obs.get('conts', [])):
        r = direct_cont(case, c, allowed)
        if r:
            return 'continuation %d of %d (cut file of %d bytes, %d non-zero-terminated): %s' % (
                ci + 1, len(obs['conts']), c['file'][1], len(c['file'][0]) // 2, r)
    if not obs.get('kill'):
        if not obs['cuts']:
            return 'no file state was observed'
        last = obs['cuts'][-1][0]
        if last != ['ok', allowed[-1][2]]:
            return 'the final file reads %r, expected the complete state %r' % (last, allowed[-1][2][:8])
    return None


def direct_cont(case, c, allowed):
    """a new writer reopened a cut file and went on: every read path must return the cut's prefix state updated by exactly
    the new writer's operations - in particular a key it initialises reads (0.0, 0.0), never stale bytes"""
    before = c['before']
    if before[0] != 'ok':
        return 'the cut file is unreadable: %s' % before[1]
    if all(a[2] != before[1] for a in allowed):
        return 'the cut file reads %r, no prefix state' % (before[1][:6],)
    cur = [list(e) for e in before[1]]
    steps = c['steps']
    cont = case['cont']
    for i, s in enumerate(steps):
        what = 'after reopen' if i == 0 else 'after reopen + %d op(s), last %r' % (i, c10._short(cont[i - 1]))
        if s[0] == 'err':
            return '%s: raised %s' % (what, s[1])
        if i > 0:
            op = cont[i - 1]
            if op[0] != 'O':
                k = blob(key_str(op[1]).encode('utf-8'), KEY_LIMIT)
                hit = [e for e in cur if e[0] == k]
                if op[0] == 'W':
                    if hit:
                        hit[0][1], hit[0][2] = op[2], op[3]
                    else:
                        cur.append([k, op[2], op[3]])
                elif not hit:
                    cur.append([k, 0, 0])
                if op[0] == 'R':
                    want = [[e[1], e[2]] for e in cur if e[0] == k][0]
                    if s[5] != ['ok', want]:
                        return '%s: read_value returned %r, expected %r (a value nobody wrote)' % (what, s[5], want)
        if s[0] is not True:
            return '%s: used-bytes header %d exceeds the file length' % (what, s[1])
        if s[3] != ['ok', cur]:
            return '%s: read_all_values(): %s' % (what, c10._diff(s[3][1] if s[3][0] == 'ok' else s[3], cur))
        if s[4] != ['ok', cur]:
            return '%s: read_all_values_from_file(): %s' % (what, c10._diff(s[4][1] if s[4][0] == 'ok' else s[4], cur))
    if len(steps) != len(cont) + 1:
        return 'the continuation stopped early'
    return None


def nontrivial(case, obs):
    return len(obs['cuts']) >= 4


def classify(case, obs):
    out = ['cuts=%d' % min(len(obs['cuts']), 40) if len(obs['cuts']) < 10 else 'cuts>=10']
    if case.get('coll'):
        out.append('collector')
    for c in obs.get('conts', []):
        out.append('continuation')
        if dirty_tail(bytes.fromhex(c['file'][0]) + b'\x00' * (c['file'][1] - len(c['file'][0]) // 2)):
            out.append('continuation-from-dirty-tail')
    if 'kill_us' in case:
        out.append('sigkill')
        if obs['cuts']:
            out.append('sigkill-file-present')
    out.append('isz=real' if case['isz'] == 65536 else 'isz=patched-small')
    allowed = allowed_states(case['ops'])
    infl = {repr(a[2]) for a in allowed if a[1]}
    for o in obs['cuts']:
        if o[0][0] == 'ok' and repr(o[0][1]) in infl:
            out.append('inflight-state-observed')
        if o[0] == ['ok', []]:
            out.append('empty-state-observed')
    return out


def _keep(case, c):
    if case.get('coll'):
        c['coll'] = True
    if case.get('cont'):
        c['cont'] = case['cont']
    return c


def neighbours(case):
    return [_keep(case, c) for c in c10.neighbours(case)]


def shrinks(case):
    for c in c10.shrinks(case):
        yield _keep(case, c)
    cont = case.get('cont') or []
    for i in range(len(cont)):
        yield dict(case, cont=cont[:i] + cont[i + 1:])
