"""C11 - every intermediate on-disk state of the store is readable and a prefix state.
Implementation: prometheus_client.mmap_dict.MmapedDict with its file effects interposed; after each effect the file
is copied and the copy is read by read_all_values_from_file, reopened by a new MmapedDict, and (some cases) scraped by
MultiProcessCollector together with complete files.  close() is a file operation too (file compared before/after), also
when run by a really forked child on the handle it inherited while the parent writes on; worker files of every metric
type are cut inside label-group creation and scraped (no series may appear that nobody wrote); files of every kind
vanish between the collector's listing and its read.  THE READER INTERLEAVED WITH THE WRITER: the file object that
read_all_values_from_file opens is wrapped so that every one of its accesses (open, each read, each seek) is a
pre-emption point at which the writer advances by 0..k of the recorded file effects (block size patched small and real).
Model: coq/model/MmapDict.v (effect traces and their cuts, close_effects, wop/wrun for forked children, read_listed for
vanished files, read_all_from_file_il for the reader whose two reads see two different cuts)."""
import os
import shutil
import signal
import struct
import sys
import tempfile
import time

from . import c10
from .c10 import (KEY_LIMIT, attempt, bits, blob, canon_entries, exc_kind, frombits, key_str, patched_isz, rand_bits,
                  rand_history, rand_key, sx_ops, d_entries, SPECIAL_BITS)
from .sx import d_int

RULE = ('writer histories as in C10 (new keys, overwrites, read_value initialisation, reopen, growth by 0..n doublings at the real and at '
        'patched small initial sizes, multi-byte and long keys); EVERY cut point: the file is snapshotted after every interposed file '
        'effect (open/create, truncate, each mmap slice assignment) and additionally after every executed source line of mmap_dict.py; '
        'each distinct snapshot is read by read_all_values_from_file, reopened by a new MmapedDict (then written to), and for '
        'collector cases scraped by MultiProcessCollector with two complete worker files beside it; CONTINUATION: from every cut file with a '
        'non-zero tail beyond the used bytes (the unpublished entry of a stopped writer) and from some others, a NEW MmapedDict reopens a '
        'copy and performs further ops - read_value/write_value of keys shorter and longer than the history\'s keys, overwrites, reopen - '
        'with all read paths observed after every step and compared with the model run on the same file bytes (open_, then steps); '
        'CLOSE as a file operation: the file is compared before and after every close() (reopen, end of history) and the model\'s close_effects; '
        'FORKED CHILDREN: at chosen points of the history the writer process really fork()s, the child holds the inherited handle and '
        'later closes it (what its first metric operation does, values.py) while the parent keeps writing through its own mapping - the '
        'file must be unchanged by that close and every later cut is observed as usual (model: wop Fork/CloseInherited); '
        'TYPED WORKER FILES: collector cases also as histogram_/summary_/gauge_<mode>_ files whose histories are label-group creations in the '
        'library\'s order (_sum, buckets ... +Inf; _count, _sum; one gauge key) cut between the entry appends, beside complete files that do '
        'NOT hold the groups being created; at every cut collect() must report only series whose keys some writer wrote (the derived '
        'histogram _count of a group with a written bucket aside); VANISHING FILES: a file of EVERY kind the library knows '
        '(gauge_<mode> for all of Gauge._MULTIPROC_MODES, counter, histogram, summary) is removed between the listing and the read: the '
        'live ones (those mark_process_dead removes) must be skipped silently, outcome of every kind compared with the model\'s read_listed; '
        'INTERLEAVED READER: the reader is also run on a LIVE file: the file object it opens is replaced by a wrapper (unbuffered, '
        'so that every read() reaches the file) and before each of its accesses - open, every read, every seek - the writer advances by '
        '0..k of the recorded file effects (the successive distinct file states are put into the same inode); schedules: ALL start states x '
        'ALL advances 0..4 between the first and the later accesses for the exhaustive slice at block sizes 16..64 patched into '
        'mmap.PAGESIZE as seen by mmap_dict, random schedules (advances 0..6 or to the end) for random histories at patched block sizes '
        'and for files with more than the REAL mmap.PAGESIZE in use (many keys, long keys, an entry whose value straddles the block '
        'boundary), and MultiProcessCollector.collect() under the same interleaving for collector cases; the result must be Ok, have the '
        'key list of a prefix state (+ in-flight key) lying between the file state of the reader\'s first read and that of its last, every '
        '(value, timestamp) must be one its key held in such a state, a reader that made a single read must return exactly the state of '
        'that read; when the reader\'s accesses are the pinned ones (read(PAGESIZE) [, read(used - PAGESIZE)]) the result is compared '
        'with the model\'s read_all_from_file_il on the same two cuts; '
        'exhaustive slice: all histories of '
        'length <= 2 over a 9-op alphabet at a small size; thorough tier: forked writers SIGKILLed at random instants (direct oracle only); '
        'non-trivial = the history has at least 4 distinct cut states; distinct by case')
TRUSTED = ['a slice assignment to a shared mapping is observed whole by a concurrent read (atomicity at slice granularity is the model\'s '
           'granularity; torn slices are not explored)',
           'pages written through a MAP_SHARED mapping survive SIGKILL of the writer (kernel page cache)',
           'cut points are observed at Python level: interposed open/truncate/mmap.__setitem__ plus per-line snapshots',
           'fork() gives the child the parent\'s handle as it is (same open file description, same MAP_SHARED mapping); the child that '
           'closes it is a real forked process, the closes are placed at operation boundaries of the parent',
           'a file removed between glob() and open() is simulated by unlinking it right after the listing call returns',
           'one read() call of the reader is served whole from one file state (the reader\'s reads and seeks are the pre-emption '
           'points; a read torn by a concurrent slice write is not explored); the reader\'s handle is unbuffered in the harness, so every '
           'read() sees the file as it is then (a buffered handle can only serve older bytes of the same window)',
           'the writer of an interleaved read is replayed: the recorded successive file states are written into the inode the reader '
           'holds open, instead of a second process performing the slice writes',
           'UTF-8 and struct facts as in C10']
ASSUMPTIONS = ['keys are encodable strings; used bytes < 2^31',
               'mmap.PAGESIZE is a multiple of 8 (every patched block size is): a read boundary never cuts a double',
               'atomic cuts: the reader is run on a private copy of each cut file; interleaved reads: the reader\'s accesses are '
               'interleaved with the writer\'s effects at Python level (open/read/seek of the file object obtained from open() in mmap_dict); '
               'a reader that bypasses that file object (fileno, os.read, mmap) is observed as atomic at its first access']
TIME_BUDGET = {'quick': 95, 'thorough': 800}


# ---------------------------------------------------------------- generators
def coll_key(name, lab):
    import json
    return json.dumps([name, name + '_total', {'l': lab}, 'help ' + name], sort_keys=True)


def shorter(ks):
    if isinstance(ks, str):
        return ks[:len(ks) // 2]
    unit, count, suffix = ks
    return [unit, count // 2, suffix[:1]]


def longer(ks, rng):
    ext = rng.choice(('zz', '\xe9\xe9\xe9', ' ', 'a_longer_suffix_0123456789'))
    if isinstance(ks, str):
        return ks + ext
    unit, count, suffix = ks
    return [unit, count, suffix + ext]


def rand_cont(rng, ops):
    """what a NEW writer does after reopening the file a dead writer left at some cut: initialise / write keys that are
    shorter or longer than the keys of the history (the dead writer's unpublished entry lies beyond the used bytes),
    overwrite old keys, reopen again"""
    hist = []
    for op in ops:
        if op[0] != 'O' and op[1] not in hist:
            hist.append(op[1])
    out = []
    for i in range(rng.randrange(1, 5)):
        r = rng.random()
        if i == 0 and r < 0.7:
            r = rng.random() * 0.5
        if r < 0.3:
            k = rng.choice(['', 'b', 'q7', 'new'] + [shorter(h) for h in hist[-3:]])
            out.append(['R', k] if rng.random() < 0.7 else ['W', k, rand_bits(rng), rand_bits(rng)])
        elif r < 0.5:
            k = longer(rng.choice(hist), rng) if hist and rng.random() < 0.7 else rand_key(rng)
            out.append(['R', k] if rng.random() < 0.6 else ['W', k, rand_bits(rng), rand_bits(rng)])
        elif r < 0.7 and hist:
            out.append(['W', rng.choice(hist), rand_bits(rng), rand_bits(rng)])
        elif r < 0.85 and hist:
            out.append(['R', rng.choice(hist)])
        elif r < 0.93:
            out.append(['O'])
        else:
            out.append(['R', rand_key(rng)])
    return out


IL_PGS = (16, 24, 32, 40, 64)


def rand_il(rng, n=None, pg=None):
    """how the reader is interleaved with the writer: block size (0 = the real mmap.PAGESIZE), number of random schedules"""
    if pg is None:
        pg = rng.choice(IL_PGS + (0, 0, 8, 48, 128, 256))
    return {'pg': pg, 'mode': 'rand', 'n': n or rng.choice((4, 6, 10)), 'seed': rng.randrange(1 << 30), 'k': 6}


def cases(ctx):
    for case in base_cases(ctx):
        if 'kill_us' not in case and 'cont' not in case and 'forks' not in case and not case.get('light'):
            case['cont'] = rand_cont(ctx.rng, case['ops'])
        if 'kill_us' not in case and 'il' not in case and len(case['ops']) < 40:
            small = case['isz'] < 4096 and not any(isinstance(op[1], list) for op in case['ops'] if op[0] != 'O')
            case['il'] = rand_il(ctx.rng, pg=None if small else 0)
        yield case


def page_cases(ctx):
    """worker files with more than the REAL mmap.PAGESIZE in use while the writer goes on: many keys, long keys, and a key
    whose 16 value bytes straddle the block boundary; then appends and overwrites of keys on both sides of the boundary"""
    import mmap
    rng = ctx.rng
    pg = mmap.PAGESIZE
    for i in range(ctx.n(10, 300)):
        style = i % 5
        ops = []
        if style == 0:          # many counter-like keys
            w = rng.choice((4, 150, 150, 300))
            nk = rng.randrange(pg // (w + 60), pg // (w + 30)) + 2
            keys = [coll_key('m%d' % (j % 7), ('lab%04d' % j).ljust(w, 'x')) for j in range(nk)]
            ops = [['W', k, small_bits(rng), 0] for k in keys]
        elif style == 1:        # one long key, then short ones
            keys = [[rng.choice(('a', '\xe9')), rng.randrange(pg // 2, 2 * pg), rand_key(rng, 4)]] + [rand_key(rng) for _ in range(4)]
            keys = [k for j, k in enumerate(keys) if k not in keys[:j]]
            ops = [['W', k, rand_bits(rng), rand_bits(rng)] for k in keys]
        elif style == 2:        # an entry ends exactly at / its value straddles / its key straddles the block boundary
            want = pg - rng.choice((8, 8, 8, 0, 16, 24, 40))       # offset of the 16 value bytes of the boundary entry
            keys, used = [], 8
            while want - used > 400:
                k = rand_key(rng)
                if k in keys:
                    continue
                n = len(key_str(k).encode('utf-8'))
                keys.append(k)
                used += 4 + n + (8 - (n + 4) % 8) + 16
            n = want - used - 4 - 1          # key bytes: 4 + n + pad = want - used with pad = 1..8
            if n >= 1:
                keys.append(['q', n, ''])
            keys += [k for k in (rand_key(rng), rand_key(rng)) if k not in keys]
            ops = [['W', k, rand_bits(rng), rand_bits(rng)] for k in keys]
        elif style == 3:        # typed: a histogram with enough label groups
            metric = 'h'
            keys = []
            for g in range(rng.randrange(2, 4)):
                keys += group_keys('histogram', metric, {'g': ('v%d' % g).ljust(rng.choice((2, 120)), 'y')},
                                   DEFAULT_BOUNDS[:rng.randrange(6, 15)] + ('+Inf',))
            while sum(len(k) + 28 for k in keys) < pg + 200:
                keys += group_keys('histogram', metric, {'g': 'w%d' % len(keys)}, ('1.0', '+Inf'))
            ops = [['R', k] for k in keys]
        else:                   # random keys of mixed sizes
            keys = []
            while sum(len(key_str(k).encode('utf-8')) + 28 for k in keys) < pg + rng.randrange(0, pg):
                k = rand_key(rng, 60) if rng.random() < 0.5 else [rng.choice(('a', '\u20ac')), rng.randrange(100, 900), rand_key(rng, 4)]
                if k not in keys:
                    keys.append(k)
            ops = [['W', k, rand_bits(rng), rand_bits(rng)] for k in keys]
        base = len(ops)
        keys = [op[1] for op in ops]
        fresh = 0
        for _ in range(rng.randrange(3, 12)):
            r = rng.random()
            if r < 0.35:
                fresh += 1
                k = 'new%d' % fresh + 'x' * rng.randrange(0, 40)
                if style == 0:
                    k = coll_key('m%d' % (fresh % 7), k)
                elif style == 3:
                    k = mkey('h', 'h_bucket', {'g': k, 'le': '+Inf'})
                ops.append(['W', k, small_bits(rng) if style in (0, 3) else rand_bits(rng), 0 if style in (0, 3) else rand_bits(rng)]
                           if rng.random() < 0.5 else ['R', k])
            elif r < 0.9:
                # overwrite on both sides of the boundary: early keys, late keys, the boundary key
                k = rng.choice(keys[:3] + keys[-4:] + [rng.choice(keys)])
                ops.append(['W', k, rand_bits(rng), rand_bits(rng)])
            else:
                ops.append(['O'])
        yield {'isz': rng.choice((4096, 8192, 8192, 16384, 65536)), 'ops': ops, 'light': True,
               'il': {'pg': 0, 'mode': 'rand', 'n': 24, 'seed': rng.randrange(1 << 30), 'k': 6, 'from': base,
                      'scrape': {0: 'counter', 3: 'histogram'}.get(style)}}


# ---- typed worker files: the keys a label group of each metric type creates, in the library's order
HELP = 'help text'
DEFAULT_BOUNDS = ('0.005', '0.01', '0.025', '0.05', '0.075', '0.1', '0.25', '0.5', '0.75', '1.0', '2.5', '5.0', '7.5', '10.0', '+Inf')
FALLBACK_GAUGE_MODES = ('all', 'liveall', 'min', 'livemin', 'max', 'livemax', 'sum', 'livesum', 'mostrecent', 'livemostrecent')


def gauge_modes():
    """the library's own mode set (falls back to the documented ten when the attribute is not there)"""
    try:
        from prometheus_client import Gauge
        return sorted(Gauge._MULTIPROC_MODES)
    except Exception:
        return list(FALLBACK_GAUGE_MODES)


def mkey(metric, name, labels):
    import json
    return json.dumps([metric, name, labels, HELP], sort_keys=True)


def group_keys(typ, metric, labels, bounds):
    """the keys one label group creates (values.ValueClass(...) calls of _metric_init), in creation order"""
    if typ == 'histogram':
        return [mkey(metric, metric + '_sum', labels)] + \
               [mkey(metric, metric + '_bucket', dict(labels, le=b)) for b in bounds]
    if typ == 'summary':
        return [mkey(metric, metric + '_count', labels), mkey(metric, metric + '_sum', labels)]
    if typ == 'counter':
        return [mkey(metric, metric + '_total', labels)]
    return [mkey(metric, metric, labels)]


def small_bits(rng):
    return bits(float(rng.randrange(0, 50)) / rng.choice((1, 2, 4)))


def typed_case(rng, typ=None):
    """a worker file of a metric type: label groups are created one after the other (read_value of every key of the
    group = one entry append each), with observations in between; `other` is a complete file of another worker which
    does not hold the groups created later"""
    typ = typ or rng.choice(['histogram'] * 5 + ['summary'] * 2 + ['gauge_' + m for m in gauge_modes()] + ['counter'])
    kind = typ.split('_')[0]
    metric = rng.choice(('h', 'lat', 'm0'))
    bounds = rng.choice((('0.5', '1.0', '+Inf'), ('1.0', '+Inf'), ('0.1', '1.0', '10.0', '+Inf'), DEFAULT_BOUNDS))
    labs = rng.sample(['a', 'b', 'c', '', '\xe9 x', '+Inf', '\U0001F600'], rng.randrange(1, 4))
    ops = []
    created = []
    for li, lab in enumerate(labs):
        labels = {'g': lab}
        keys = group_keys(kind, metric, labels, bounds)
        ops += [['R', k] for k in keys]
        created.append(keys)
        for _ in range(rng.randrange(0, 3)):
            keys2 = rng.choice(created)
            if kind == 'histogram':
                ops.append(['W', rng.choice(keys2[1:]), small_bits(rng), 0])
                ops.append(['W', keys2[0], small_bits(rng), 0])
            elif kind == 'summary':
                ops.append(['W', keys2[0], small_bits(rng), 0])
                ops.append(['W', keys2[1], small_bits(rng), 0])
            else:
                ts = bits(float(rng.randrange(1, 2000))) if kind == 'gauge' and rng.random() < 0.7 else 0
                ops.append(['W', keys2[0], small_bits(rng) if rng.random() < 0.8 else rand_bits(rng), ts])
        if rng.random() < 0.12:
            ops.append(['O'])
    # the other worker: a group nobody else has, and sometimes the FIRST group of this worker (never the later ones)
    other = []
    for labels in [{'g': 'zz'}] + ([{'g': labs[0]}] if rng.random() < 0.5 else []):
        for k in group_keys(kind, metric, labels, bounds):
            other.append([k, small_bits(rng), bits(float(rng.randrange(1, 2000))) if kind == 'gauge' else 0])
    return {'isz': rng.choice((65536, 65536, 64, 256, 1000)), 'ops': ops, 'coll': True, 'typ': typ, 'other': other}


def rand_forks(rng, nops, n=None):
    """[[i_fork, i_close or None]]: a child is forked before op i_fork and closes its inherited handle before op i_close
    (nops = after the last op); children close in the order they were forked"""
    n = n or rng.choice((1, 1, 1, 2, 3))
    fs = sorted(rng.randrange(nops + 1) for _ in range(n))
    out = []
    last = 0
    for f in fs:
        if rng.random() < 0.1:
            out.append([f, None])
            continue
        c = rng.randrange(max(f, last), nops + 1)
        if rng.random() < 0.3:
            c = max(f, last)
        out.append([f, c])
        last = c
    return out


def base_cases(ctx):
    rng = ctx.rng
    # a new writer continuing after a dead one: keys shorter and longer than the key that was in flight
    for k in ('a_rather_long_metric_key_0123456789', '\u20ac' * 9, 'abcdefgh'):
        for c in ([['R', 'b']], [['R', '']], [['R', k[:5]], ['R', k + k]], [['W', 'b', 1, 2], ['R', 'c']],
                  [['R', k], ['O'], ['R', 'b']]):
            yield {'isz': 65536 if len(c) == 1 else 64, 'ops': [['W', 'first', 0x3ff0000000000000, 5], ['W', k, 0x4000000000000000, 6]],
                   'cont': c}
    yield {'isz': 65536, 'ops': []}
    # the reader interleaved with the writer: exhaustive slice (all start states x all advances) at patched block sizes
    alpha2 = [['W', k, v, v ^ 1] for k in ('a', 'abcd', '\xe9') for v in (0x7ff0000000000001, 0x8000000000000000)] + \
             [['R', k] for k in ('a', 'abcde')] + [['O']]
    n = 0
    for a in alpha2:
        for b in alpha2:
            for c in (alpha2 if ctx.thorough else [alpha2[(n * 5 + 1) % len(alpha2)]]):
                n += 1
                yield {'isz': 64 if n % 3 else 32, 'ops': [a, b, c], 'light': True,
                       'il': {'pg': IL_PGS[n % len(IL_PGS)], 'mode': 'all', 'k': 4}}
    for case in page_cases(ctx):
        yield case
    yield {'isz': 65536, 'ops': [['W', 'a', 0x3ff0000000000000, 0]]}
    yield {'isz': 65536, 'ops': [['R', 'abcd'], ['W', 'abcd', 0x7ff8000000000001, 0x8000000000000000], ['O'], ['W', 'é', 1, 2]]}
    # exhaustive small slice
    alpha = [['W', k, v, v ^ 1] for k in ('a', 'abcde', '\xe9') for v in (0x7ff0000000000001, 0x8000000000000000)] + \
            [['R', k] for k in ('a', 'abcde')] + [['O']]
    for a in alpha:
        yield {'isz': 32, 'ops': [a]}
        for b in alpha:
            yield {'isz': 32, 'ops': [a, b]}
            if ctx.thorough:
                for c in alpha:
                    yield {'isz': 8, 'ops': [a, b, c]}
    # forked children closing the handle they inherited while the writer goes on (one (fork, close) pair per history,
    # all pairs over the slice), then at the real size with new keys after the child's close
    pairs = [(i, j) for i in range(3) for j in range(i, 3)]
    n = 0
    for a in alpha:
        for b in alpha:
            i, j = pairs[n % len(pairs)]
            n += 1
            yield {'isz': 32, 'ops': [a, b], 'forks': [[i, j]]}
    for isz in (65536, 64):
        yield {'isz': isz, 'ops': [['W', 'a', 0x3ff0000000000000, 0], ['W', 'b', 0x4000000000000000, 0], ['R', 'c']],
               'forks': [[1, 1]]}
        yield {'isz': isz, 'ops': [['W', 'a', 0x3ff0000000000000, 0], ['W', 'b', 0x4000000000000000, 0], ['O'], ['R', 'c'],
                                   ['W', 'a', 1, 2]], 'forks': [[1, 2], [2, 4]]}
    for i in range(ctx.n(40, 1500)):
        ops = rand_history(rng, rng.choice((2, 3, 5, 8)), rng.randrange(1, 10))
        if rng.random() < 0.15:
            big = [rng.choice(('a', '\xe9')), rng.randrange(100, 5000), rand_key(rng, 6)]
            ops.insert(rng.randrange(len(ops) + 1), ['W', big, rand_bits(rng), rand_bits(rng)])
        yield {'isz': 65536 if rng.random() < 0.6 else rng.choice((8, 64, 100, 4096)), 'ops': ops,
               'forks': rand_forks(rng, len(ops))}
    # typed worker files (histogram / summary / gauge modes) cut inside label-group creation, scraped at every cut
    for typ in ('histogram', 'histogram', 'summary', 'gauge_all', 'gauge_livemostrecent', 'gauge_min'):
        yield typed_case(rng, typ)
    for i in range(ctx.n(26, 1200)):
        yield typed_case(rng)
    # growth at the real size: 1 and 2 doublings, in flight at every effect
    for n in ((65507, 65508, 140000) if not ctx.thorough else (65500, 65507, 65508, 65537, 140000, 300003)):
        yield {'isz': 65536, 'ops': [['W', 'p', 1, 2], ['W', ['x', n, ''], 0x7ff8000000000001, 3], ['W', 'after', 4, 5]]}
    # collector cases: keys are mmap_key JSON strings of counters
    for i in range(ctx.n(60, 1500)):
        names = ['m%d' % rng.randrange(3) for _ in range(4)]
        keys = []
        for nm in names:
            k = coll_key(nm, rng.choice(('', 'x', '\xe9', 'a b', '\U0001F600')))
            if k not in keys:
                keys.append(k)
        ops = rand_history(rng, len(keys), rng.randrange(1, 8), key_pool=keys)
        yield {'isz': rng.choice((65536, 64, 256)), 'ops': ops, 'coll': True}
    # thorough tier: real SIGKILL of a forked writer at a random instant (direct oracle only)
    if ctx.thorough:
        for i in range(400):
            ops = rand_history(rng, rng.choice((2, 5, 12)), rng.randrange(5, 60))
            yield {'isz': 65536, 'ops': ops, 'kill_us': rng.choice((0, 50, 100, 200, 400, 800, 1500, 3000)) + rng.randrange(100)}
    # random histories
    for i in range(ctx.n(700, 20000)):
        isz = 65536 if rng.random() < 0.3 else rng.choice((8, 9, 16, 24, 40, 64, 100, 128, 1000, 4096))
        ops = rand_history(rng, rng.choice((1, 2, 3, 5, 8)), rng.randrange(1, 14))
        if rng.random() < 0.1:
            big = [rng.choice(('a', '\xe9', '€')), rng.randrange(100, 5000), rand_key(rng, 6)]
            ops.insert(rng.randrange(len(ops) + 1), ['W', big, rand_bits(rng), rand_bits(rng)])
        yield {'isz': isz, 'ops': ops}


# ---------------------------------------------------------------- implementation side
class Recorder:
    """Collects the sequence of distinct on-disk states of `path` (None = the file does not exist)."""

    def __init__(self, path):
        self.path = path
        self.snaps = []

    def snap(self):
        try:
            with open(self.path, 'rb') as f:
                raw = f.read()
        except FileNotFoundError:
            return
        if not self.snaps or self.snaps[-1] != raw:
            self.snaps.append(raw)


def install(mod, rec):
    """Interpose on mmap_dict's view of `mmap` and `open`, and trace its lines.  Returns an undo function."""
    import builtins
    import mmap as real_mmap

    class RecMmap(real_mmap.mmap):
        def __setitem__(self, idx, val):
            super().__setitem__(idx, val)
            rec.snap()

    class MmapModule:
        mmap = RecMmap

        def __getattr__(self, name):
            return getattr(real_mmap, name)

    class RecFile:
        def __init__(self, f):
            self._f = f

        def truncate(self, *a):
            r = self._f.truncate(*a)
            rec.snap()
            return r

        def __getattr__(self, name):
            return getattr(self._f, name)

        def __enter__(self):
            self._f.__enter__()
            return self

        def __exit__(self, *a):
            return self._f.__exit__(*a)

    def rec_open(file, mode='r', *a, **kw):
        f = builtins.open(file, mode, *a, **kw)
        rec.snap()
        if any(c in mode for c in 'wa+'):
            return RecFile(f)
        return f

    had_open = 'open' in mod.__dict__
    old_open = mod.__dict__.get('open')
    old_mmap = mod.mmap
    mod.mmap = MmapModule()
    mod.open = rec_open
    target = os.path.abspath(mod.__file__)
    if target.endswith('.pyc'):
        target = target[:-1]

    def local(frame, event, arg):
        rec.snap()
        return local

    def tracer(frame, event, arg):
        if event == 'call' and frame.f_code.co_filename == target:
            return local
        return None

    old_trace = sys.gettrace()
    sys.settrace(tracer)

    def undo():
        sys.settrace(old_trace)
        mod.mmap = old_mmap
        if had_open:
            mod.open = old_open
        else:
            del mod.open
    return undo


# ---- the reader interleaved with the writer
class Writer:
    """the writer of an interleaved read, replayed: puts the successive recorded file states into the file (same inode, so
    the handle the reader holds stays valid); idx = the state the file is in"""

    def __init__(self, path, snaps, start):
        self.path, self.snaps = path, snaps
        self.idx = min(start, len(snaps) - 1)
        with open(path, 'wb') as f:
            f.write(snaps[self.idx])

    def advance(self, d):
        j = min(self.idx + d, len(self.snaps) - 1)
        if j != self.idx:
            raw = self.snaps[j]
            with open(self.path, 'r+b') as f:
                f.write(raw)
                f.truncate(len(raw))
            self.idx = j


class Preempted:
    """the file object the reader gets from open(): unbuffered, and before each access the writer advances by the next
    number of the schedule.  Every access is logged with the file state it was served from."""

    def __init__(self, f, il):
        self._f, self._il = f, il

    def _pre(self):
        il = self._il
        il.writer.advance(il.sched.pop(0) if il.sched else 0)

    def read(self, *a):
        self._pre()
        off = self._f.tell()
        n = a[0] if a and a[0] is not None else -1
        data = self._f.read() if n < 0 else self._f.read(n)
        if data is None:
            data = b''
        # a regular file gives short reads only at its end
        while 0 <= len(data) < n:
            more = self._f.read(n - len(data))
            if not more:
                break
            data += more
        self._il.log.append(['read', off, n, len(data), self._il.writer.idx])
        return data

    def readall(self):
        return self.read()

    def readinto(self, b):
        data = self.read(len(b))
        b[:len(data)] = data
        return len(data)

    def seek(self, *a):
        self._pre()
        r = self._f.seek(*a)
        self._il.log.append(['seek', list(a), r, 0, self._il.writer.idx])
        return r

    def fileno(self):
        self._il.escaped = True          # os.read / mmap / fstat on the descriptor: no longer observable here
        return self._f.fileno()

    def __getattr__(self, name):
        return getattr(self._f, name)

    def __enter__(self):
        return self

    def __exit__(self, *a):
        self._f.close()
        return False

    def __iter__(self):
        return iter(self.read().splitlines(True))


class PgModule:
    """mmap as mmap_dict sees it, with another PAGESIZE"""

    def __init__(self, real, pg):
        self._real = real
        self.PAGESIZE = pg

    def __getattr__(self, name):
        return getattr(self._real, name)


class Interleave:
    def __init__(self, mod, path, snaps, sched, pg):
        self.mod, self.path, self.pg = mod, os.path.abspath(path), pg
        self.writer = Writer(path, snaps, sched[0])
        self.sched = list(sched[1:])
        self.log = []
        self.escaped = False
        self.opened = None

    def open(self, file, mode='r', *a, **kw):
        import builtins
        try:
            mine = os.path.abspath(os.fspath(file)) == self.path and 'b' in mode and not any(c in mode for c in 'wa+x')
        except TypeError:
            mine = False
        if not mine:
            return builtins.open(file, mode, *a, **kw)
        self.writer.advance(self.sched.pop(0) if self.sched else 0)
        f = builtins.open(file, 'rb', buffering=0)
        if self.opened is None:
            self.opened = self.writer.idx
        self.log.append(['open', 0, 0, 0, self.writer.idx])
        return Preempted(f, self)

    def __enter__(self):
        mod = self.mod
        self.had_open = 'open' in mod.__dict__
        self.old_open = mod.__dict__.get('open')
        self.old_mmap = mod.mmap
        mod.open = self.open
        if self.pg:
            mod.mmap = PgModule(self.old_mmap, self.pg)
        return self

    def __exit__(self, *a):
        mod = self.mod
        mod.mmap = self.old_mmap
        if self.had_open:
            mod.open = self.old_open
        else:
            del mod.open
        return False

    def summary(self):
        reads = [e for e in self.log if e[0] == 'read']
        first = reads[0][4] if reads and not self.escaped else (self.opened if self.opened is not None else self.writer.idx)
        return {'log': self.log[:12], 'escaped': self.escaped, 'lo': first, 'hi': self.writer.idx}


def il_schedules(il, snaps):
    """[start state, advance before open, before the 1st access after open (the first read), before the 2nd, ...]"""
    import random
    n = len(snaps)
    k = il.get('k', 4)
    if il.get('mode') == 'all':
        out = [[s0, 0, 0, d] for s0 in range(n) for d in range(k + 1)]             # the writer goes on between read 1 and access 2
        out += [[s0, 0, 0, 0, d] for s0 in range(0, n, 2) for d in (1, 2, 3)]       # ... before a THIRD access (a read after a seek)
        out += [[s0, 0, 1, 1, 1] for s0 in range(1, n, 2)]
        return out
    rng = random.Random(il.get('seed', 0))
    lo = 0
    if il.get('from'):
        # start where more than one block is in use: the states of the operations after the first `from`
        import mmap
        pg = il.get('pg') or mmap.PAGESIZE
        big = [i for i, raw in enumerate(snaps) if len(raw) >= 4 and struct.unpack_from('<i', raw, 0)[0] > pg]
        lo = big[0] if big else 0
    out = []
    for _ in range(il.get('n', 6)):
        s0 = rng.randrange(lo, n) if rng.random() < 0.85 else rng.randrange(n)
        adv = []
        for _j in range(4):
            r = rng.random()
            adv.append(0 if r < 0.3 else rng.randrange(1, k + 1) if r < 0.9 else n)
        if rng.random() < 0.5:
            adv[0] = 0
        out.append([s0] + adv)
    return out


def interleaved(mod, snaps, tmp, sched, pg, fname, scrape_others=None):
    """read_all_values_from_file (or a whole scrape) on a file that changes under the reader"""
    d = os.path.join(tmp, 'il')
    shutil.rmtree(d, ignore_errors=True)
    os.mkdir(d)
    p = os.path.join(d, fname)
    il = Interleave(mod, p, snaps, sched, pg)
    if scrape_others is not None:
        for name, ents in scrape_others:
            write_complete(mod, os.path.join(d, name), ents)
    with il:
        if scrape_others is None:
            res = attempt(lambda: canon_entries(mod.MmapedDict.read_all_values_from_file(p)))
        else:
            res = attempt(lambda: collect_dir(d))
    out = il.summary()
    out.update({'sched': sched, 'pg': pg, 'res': res, 'scrape': scrape_others is not None})
    return out


def pinned_pattern(o):
    """(block size, state of the first read, state of the second read) when the reader's accesses are the pinned ones:
    open, read(P) at offset 0 [, read(used - P) right behind it]"""
    if o['escaped'] or o['scrape']:
        return None
    log = o['log']
    if len(log) == 2 and log[0][0] == 'open' and log[1][:2] == ['read', 0] and log[1][2] >= 8:
        return [log[1][2], log[1][4], log[1][4]]
    if (len(log) == 3 and log[0][0] == 'open' and log[1][:2] == ['read', 0] and log[1][2] >= 8 and log[1][3] == log[1][2]
            and log[2][0] == 'read' and log[2][1] == log[1][3] and log[2][2] > 0):
        return [log[1][2], log[1][4], log[2][4]]
    return None


def write_complete(mod, path, entries):
    d = mod.MmapedDict(path)
    for k, v, t in entries:
        d.write_value(k, v, t)
    d.close()


def collect_dir(d):
    from prometheus_client import CollectorRegistry
    from prometheus_client.multiprocess import MultiProcessCollector
    reg = CollectorRegistry()
    MultiProcessCollector(reg, path=d)
    out = []
    for fam in reg.collect():
        for s in fam.samples:
            out.append([fam.name, fam.type, s.name, sorted(s.labels.items()), bits(float(s.value))])
    out.sort(key=repr)
    return out


_KINDS = [None]


def victim_kinds(mod):
    """[(file name, live?)]: one file name of pid 777 per kind of worker file the library knows - gauge_<mode> for every
    mode of Gauge._MULTIPROC_MODES, counter, histogram, summary.  live = the files the library's own mark_process_dead
    removes (found by running it on a scratch directory) or whose mode starts with 'live'."""
    if _KINDS[0] is None:
        names = ['gauge_%s_777.db' % m for m in gauge_modes()] + ['counter_777.db', 'histogram_777.db', 'summary_777.db']
        removed = set()
        tmp = tempfile.mkdtemp(prefix='c11v-')
        try:
            from prometheus_client.multiprocess import mark_process_dead
            for n in names:
                with open(os.path.join(tmp, n), 'wb') as f:
                    f.write(b'')
            mark_process_dead(777, tmp)
            removed = set(names) - set(os.listdir(tmp))
        except Exception:
            pass
        finally:
            shutil.rmtree(tmp, ignore_errors=True)
        _KINDS[0] = [(n, n in removed or (n.startswith('gauge_') and n.split('_')[1].startswith('live'))) for n in names]
    return _KINDS[0]


def victim_entries(name):
    kind = name.split('_')[0]
    metric = 'v' + kind
    return [(k, 4.0, 7.0) for k in group_keys(kind, metric, {}, ('1.0', '+Inf'))]


def collect_vanishing(mod, d, name):
    """collect() while the file `name` (of pid 777) is removed right after the first directory listing (or, at the
    latest, just before the first file is read)"""
    import glob as _glob
    victim = os.path.join(d, name)
    write_complete(mod, victim, victim_entries(name))
    armed = [True]

    def fire():
        if armed[0]:
            armed[0] = False
            os.unlink(victim)
    og, oi, ol = _glob.glob, _glob.iglob, os.listdir
    orf = mod.MmapedDict.__dict__['read_all_values_from_file']

    def hg(*a, **k):
        r = og(*a, **k); fire(); return r

    def hi(*a, **k):
        r = list(oi(*a, **k)); fire(); return iter(r)

    def hl(*a, **k):
        r = ol(*a, **k); fire(); return r

    def hr(filename):
        fire()
        return orf.__func__(filename)
    _glob.glob, _glob.iglob, os.listdir = hg, hi, hl
    mod.MmapedDict.read_all_values_from_file = staticmethod(hr)
    try:
        return collect_dir(d)
    finally:
        _glob.glob, _glob.iglob, os.listdir = og, oi, ol
        mod.MmapedDict.read_all_values_from_file = orf
        if os.path.exists(victim):
            os.unlink(victim)


def series_of_key(key):
    """(sample name, sorted label items) of an mmap_key string"""
    import json
    metric, name, labels, _help = json.loads(key)
    return (name, tuple(sorted((str(a), str(b)) for a, b in labels.items())))


def phantoms(collected, written):
    """samples of a scrape whose series no writer wrote.  Not counted: the pid label the collector adds to gauges, and
    the histogram _count the collector derives for a label group of which at least one bucket was written."""
    out = []
    for fam_name, fam_type, sname, labels, _v in collected:
        labels = tuple((a, b) for a, b in labels)
        if (sname, labels) in written:
            continue
        nopid = tuple(l for l in labels if l[0] != 'pid')
        if fam_type == 'gauge' and (sname, nopid) in written:
            continue
        if fam_type == 'histogram' and sname == fam_name + '_count' and any(
                n == fam_name + '_bucket' and tuple(l for l in ls if l[0] != 'le') == labels for n, ls in written):
            continue
        out.append([sname, [list(l) for l in labels]])
    return out


def observe_cut(mod, raw, tmp, coll, others, fname='counter_100.db', victims=()):
    """Observations on a private copy of one cut file."""
    cdir = os.path.join(tmp, 'cut')
    shutil.rmtree(cdir, ignore_errors=True)
    os.mkdir(cdir)
    p1 = os.path.join(cdir, fname)
    with open(p1, 'wb') as f:
        f.write(raw)
    reader = attempt(lambda: canon_entries(mod.MmapedDict.read_all_values_from_file(p1)))
    extra = {}
    if coll:
        for name, ents in others:
            write_complete(mod, os.path.join(cdir, name), ents)
        extra['collect'] = attempt(lambda: collect_dir(cdir))
        # a worker's file vanishes between the collector's listing and its reads.  For the files mark_process_dead removes
        # (a dead worker's live gauges) the scrape must succeed and report what the directory holds without that file.
        extra['vanish'] = [[name, attempt(lambda: collect_vanishing(mod, cdir, name))] for name in victims]
        if reader[0] == 'ok':
            try:
                dec = _decode_entries(mod, raw)
                # no series may be reported whose key no writer wrote
                if extra['collect'][0] == 'ok':
                    written = {series_of_key(k) for k, _v, _t in dec}
                    for _n, ents in others:
                        written |= {series_of_key(k) for k, _v, _t in ents}
                    extra['phantom'] = phantoms(extra['collect'][1], written)[:4]
                # the same directory with the cut file replaced by a complete file holding what the reader returned
                os.unlink(p1)
                ents = [(k, frombits(v), frombits(t)) for (k, v, t) in dec]
                write_complete(mod, p1, ents)
                extra['collect_clean'] = attempt(lambda: collect_dir(cdir))
            except Exception as e:
                extra['collect_clean'] = ['err', 'rebuild:' + exc_kind(e)]
    # reopen by a new writer on another private copy, read through the new handle, then keep writing
    p2 = os.path.join(cdir, 'reopen.db')
    with open(p2, 'wb') as f:
        f.write(raw)
    d = None
    try:
        d = mod.MmapedDict(p2)
        ra = attempt(lambda: canon_entries(d.read_all_values()))
        used = struct.unpack_from('<i', open(p2, 'rb').read(4), 0)[0]
        reopen = ['ok', [used, ra]]
        try:
            first = ra[1][0] if ra[0] == 'ok' and ra[1] else None
            d.write_value('\x00probe\xe9', 1.5, -0.0)
            if first is not None and isinstance(first[0], str):
                d.write_value(bytes.fromhex(first[0]).decode('utf-8'), 2.5, 3.5)
            extra['cont'] = [attempt(lambda: canon_entries(d.read_all_values())),
                             attempt(lambda: canon_entries(mod.MmapedDict.read_all_values_from_file(p2)))]
        except Exception as e:
            extra['cont'] = ['err', exc_kind(e)]
    except Exception as e:
        reopen = ['err', exc_kind(e)]
    finally:
        try:
            if d is not None:
                d.close()
        except Exception:
            pass
    return [reader, reopen], extra


def _decode_entries(mod, raw):
    """entries of a cut file with their keys as str, through the implementation's own reader on a scratch copy"""
    p = tempfile.mktemp(prefix='c11-dec-')
    with open(p, 'wb') as f:
        f.write(raw)
    try:
        return [(k, bits(v), bits(t)) for k, v, t, _ in mod.MmapedDict.read_all_values_from_file(p)]
    finally:
        os.unlink(p)


def run_writer(mod, path, ops):
    d = mod.MmapedDict(path)
    for op in ops:
        if op[0] == 'W':
            d.write_value(key_str(op[1]), frombits(op[2]), frombits(op[3]))
        elif op[0] == 'R':
            d.read_value(key_str(op[1]))
        else:
            d.close()
            d = mod.MmapedDict(path)
    return d


def impl_kill(case):
    """Thorough tier: a forked writer is SIGKILLed at a random instant; the file it leaves is read and reopened."""
    import prometheus_client.mmap_dict as mod
    tmp = tempfile.mkdtemp(prefix='c11k-')
    path = os.path.join(tmp, 'counter_100.db')
    try:
        pid = os.fork()
        if pid == 0:
            try:
                d = run_writer(mod, path, case['ops'])
                d.close()
            finally:
                os._exit(0)
        t_end = time.time() + 1.0
        if case['kill_us'] % 3:                      # two thirds of the kills are timed from the creation of the file
            while not os.path.exists(path) and time.time() < t_end:
                pass
        time.sleep(case['kill_us'] / 1e6)
        try:
            os.kill(pid, signal.SIGKILL)
        except ProcessLookupError:
            pass
        os.waitpid(pid, 0)
        if not os.path.exists(path):
            return {'cuts': [], 'extras': [], 'kill': True}
        raw = open(path, 'rb').read()
        o, extra = observe_cut(mod, raw, tmp, False, [])
        return {'cuts': [o], 'extras': [extra], 'kill': True}
    finally:
        shutil.rmtree(tmp, ignore_errors=True)


def _read(path):
    with open(path, 'rb') as f:
        return f.read()


def wops_of(case):
    """the history with its forks merged in: ops, ['F'] (a child is forked), ['C'] (the oldest child that will close
    closes its inherited handle).  Children that never close have no effect on the file and are left out."""
    ops = case['ops']
    forks = [f for f in case.get('forks') or [] if f[1] is not None]
    out = []
    for i in range(len(ops) + 1):
        out += [['F'] for f in forks if min(f[0], len(ops)) == i]
        out += [['C'] for f in forks if min(f[1], len(ops)) == i]
        if i < len(ops):
            out.append(ops[i])
    return out


class Children:
    """forked copies of the writer process, each blocked on a pipe until told to close the handle it inherited"""

    def __init__(self):
        self.live = []          # (pid, write end)

    def fork(self, d):
        r, w = os.pipe()
        pid = os.fork()
        if pid == 0:
            code = 0
            try:
                sys.settrace(None)
                os.close(w)
                cmd = os.read(r, 1)
                if cmd == b'c':
                    d.close()           # what the child's first metric operation does with every inherited file
            except BaseException:
                code = 1
            finally:
                os._exit(code)
        os.close(r)
        self.live.append((pid, w))
        return pid

    def tell(self, pid, cmd):
        for i, (p, w) in enumerate(self.live):
            if p == pid:
                del self.live[i]
                try:
                    os.write(w, cmd)
                finally:
                    os.close(w)
                _, status = os.waitpid(p, 0)
                return status
        return None

    def reap(self):
        for p, _w in list(self.live):
            self.tell(p, b'x')


def sacrificial(mod, path, d, ops):
    """in a forked copy of the writer (so that a SIGBUS stays there): go on with `ops`, then read the file"""
    r, w = os.pipe()
    pid = os.fork()
    if pid == 0:
        try:
            sys.settrace(None)
            os.close(r)
            try:
                for op in ops:
                    if op[0] == 'W':
                        d.write_value(key_str(op[1]), frombits(op[2]), frombits(op[3]))
                    elif op[0] == 'R':
                        d.read_value(key_str(op[1]))
                    else:
                        break
                msg = 'the writer goes on (%d op(s)); then ' % len(ops)
            except Exception as e:
                msg = 'the writer then raises %s; ' % exc_kind(e)
            try:
                n = len(list(mod.MmapedDict.read_all_values_from_file(path)))
                msg += 'read_all_values_from_file returns %d entries' % n
            except Exception as e:
                msg += 'read_all_values_from_file raises %s' % exc_kind(e)
            os.write(w, msg.encode())
        finally:
            os._exit(0)
    os.close(w)
    msg = b''
    while True:
        b = os.read(r, 4096)
        if not b:
            break
        msg += b
    os.close(r)
    _, status = os.waitpid(pid, 0)
    if os.WIFSIGNALED(status):
        return 'the writer, going on, is killed by signal %d' % os.WTERMSIG(status)
    return msg.decode() or 'the writer, going on, exited %r' % status


def run_history(mod, path, case, info):
    """the writer's history with every close() observed as a file operation ([kind, size before, size after, same
    bytes]) and, for fork cases, real forked children closing the handle they inherited"""
    ops = case['ops']
    forks = case.get('forks') or []
    kids = Children()
    pending = []                   # [pid, i_close] in fork order
    closes = info['closes']
    d = mod.MmapedDict(path)
    try:
        for i in range(len(ops) + 1):
            for f in forks:
                if min(f[0], len(ops)) == i:
                    pending.append([kids.fork(d), None if f[1] is None else min(f[1], len(ops))])
            for pc in list(pending):
                if pc[1] == i:
                    pending.remove(pc)
                    before = _read(path)
                    status = kids.tell(pc[0], b'c')
                    after = _read(path)
                    closes.append(['inherited', len(before), len(after), before == after])
                    if status != 0:
                        info['child_failed'] = status
                    if before != after:
                        # the file was changed under the writer's mapping: do not write through it in this process
                        info['after_foreign_close'] = sacrificial(
                            mod, path, d, [op for op in ops[i:i + 3] if op[0] != 'O'] or [['R', '\x00new-series-after-the-close']])
                        info['stopped'] = i
                        return d
            if i == len(ops):
                break
            op = ops[i]
            if op[0] == 'W':
                d.write_value(key_str(op[1]), frombits(op[2]), frombits(op[3]))
            elif op[0] == 'R':
                d.read_value(key_str(op[1]))
            else:
                before = _read(path)
                d.close()
                after = _read(path)
                closes.append(['own', len(before), len(after), before == after])
                d = mod.MmapedDict(path)
        return d
    finally:
        kids.reap()


def typed_names(case):
    """file name of the cut file and the complete files beside it"""
    typ = case.get('typ') or 'counter'
    return typ + '_100.db', typ + '_200.db'


def vanish_plan(mod, case, n):
    """the files that vanish during the scrape at the n-th distinct cut: all live kinds at the first cut, then one kind
    after the other over ALL kinds"""
    kinds = victim_kinds(mod)
    if n == 0:
        return [k for k, live in kinds if live]
    salt = len(case['ops']) * 5 + len(case.get('typ') or '')
    return [kinds[(salt + n) % len(kinds)][0]]


def impl(case):
    if 'kill_us' in case:
        return impl_kill(case)
    import prometheus_client.mmap_dict as mod
    tmp = tempfile.mkdtemp(prefix='c11-')
    path = os.path.join(tmp, 'counter_100.db')
    rec = Recorder(path)
    err = None
    d = None
    info = {'closes': []}
    try:
        with patched_isz(mod, case['isz']):
            undo = install(mod, rec)
            try:
                d = run_history(mod, path, case, info)
            except Exception as e:
                err = exc_kind(e)
            finally:
                undo()
            rec.snap()
            if d is not None:
                try:
                    before = _read(path)
                    d.close()
                    after = _read(path)
                    info['final_close'] = [len(before), len(after), before == after]
                    if 'stopped' not in info and err is None:
                        info['closes'].append(['final', len(before), len(after), before == after])
                except Exception as e:
                    info['final_close'] = ['err', exc_kind(e)]
            coll = bool(case.get('coll'))
            others = []
            fname, oname = typed_names(case)
            if coll:
                ops = case['ops']
                if 'other' in case:
                    others = [(oname, [(k, frombits(v), frombits(t)) for k, v, t in case['other']])]
                else:
                    ks = [key_str(op[1]) for op in ops if op[0] != 'O']
                    others = [(oname, [(k, float(i + 1), 0.0) for i, k in enumerate(ks[:2])])]
                others.append(('counter_300.db', [(coll_key('other', 'z'), 7.0, 0.0)]))
            cuts, extras = [], []
            sreads = []
            for raw in rec.snaps:
                o, extra = observe_cut(mod, raw, tmp, False, [])
                sreads.append(o[0])
                if not cuts or cuts[-1] != o:
                    if coll:
                        o, extra = observe_cut(mod, raw, tmp, True, others, fname, vanish_plan(mod, case, len(cuts)))
                    cuts.append(o)
                    extras.append(extra)
            conts = []
            for idx in select_cuts(rec.snaps, case):
                conts.append(continue_from(mod, rec.snaps[idx], tmp, case.get('cont') or []))
            vanish = [[name, r[0] if r[0] == 'ok' else 'err:' + str(r[1])] for e in extras for name, r in e.get('vanish', [])]
            ils, il_cmp = [], []
            ilspec = case.get('il')
            if ilspec and rec.snaps and err is None and 'stopped' not in info:
                import mmap
                for sched in il_schedules(ilspec, rec.snaps):
                    o = interleaved(mod, rec.snaps, tmp, sched, ilspec.get('pg') or 0, fname)
                    o['win'] = _window(sreads, o['lo'], o['hi'])
                    pat = pinned_pattern(o)
                    if pat:
                        il_cmp.append(pat + [o['res']])
                    ils.append(o)
                typ = ilspec.get('scrape')
                if typ:
                    beside = [(typ + '_200.db', [(k, 1.0, 0.0) for k in [key_str(op[1]) for op in case['ops'] if op[0] != 'O'][:2]]),
                              ('counter_300.db', [(coll_key('other', 'z'), 7.0, 0.0)])]
                    for sched in il_schedules(dict(ilspec, n=4), rec.snaps):
                        o = interleaved(mod, rec.snaps, tmp, sched, ilspec.get('pg') or 0, typ + '_100.db', beside)
                        o['win'] = []
                        try:
                            o['written'] = sorted({series_of_key(k) for k, _v, _t in _decode_entries(mod, rec.snaps[o['hi']])} |
                                                  {series_of_key(k) for _n, ents in beside for k, _v, _t in ents})
                        except Exception as e:
                            o['written'] = None
                        ils.append(o)
            res = {'cuts': cuts, 'extras': extras, 'writer_error': err, 'nsnaps': len(rec.snaps), 'conts': conts,
                   'closes': info['closes'], 'vanish': vanish, 'info': {k: v for k, v in info.items() if k != 'closes'},
                   'il': ils, 'il_cmp': [len(rec.snaps), il_cmp] if il_cmp else []}
            _LAST[0] = (_case_key(case), [c['file'] for c in conts], [v[0] for v in vanish], res['il_cmp'])
            return res
    finally:
        shutil.rmtree(tmp, ignore_errors=True)


def _window(sreads, lo, hi):
    """what an atomic reader returns on the file states lo..hi (consecutive duplicates once)"""
    out = []
    for r in sreads[lo:hi + 1]:
        if not out or out[-1] != r:
            out.append(r)
    return out


_LAST = [None]       # cut files of the last impl() call, for model(): the model is run on the files found on disk


def _case_key(case):
    import json
    return json.dumps(case, sort_keys=True)


def dirty_tail(raw):
    """bytes beyond the used-bytes header that are not zero: an unpublished entry of a writer that stopped"""
    if len(raw) < 8:
        return False
    used = struct.unpack_from('<i', raw, 0)[0]
    return used >= 8 and any(raw[used:used + 4096]) or (used >= 8 and raw[used:].strip(b'\x00') != b'')


def select_cuts(snaps, case):
    """indices of the cut files a new writer continues from: every one with a dirty tail (at most 4, spread), the first
    states, and one more chosen from the case"""
    if not case.get('cont'):
        return []
    n = len(snaps)
    if n <= 4:
        return list(range(n))
    dirty = [i for i in range(n) if dirty_tail(snaps[i])]
    if len(dirty) > 4:
        step = len(dirty) / 4.0
        dirty = [dirty[int(j * step)] for j in range(4)]
    extra = (len(case['ops']) * 7 + len(case['cont']) * 3 + n) % n
    sel = sorted(set(dirty + [extra]))
    if len(snaps[-1]) > 200000:
        sel = sel[:2]
    return sel


def continue_from(mod, raw, tmp, cont):
    """a new MmapedDict on a private copy of the cut file, then the continuation ops; observations as in C10"""
    cdir = os.path.join(tmp, 'cont')
    shutil.rmtree(cdir, ignore_errors=True)
    os.mkdir(cdir)
    p = os.path.join(cdir, 'counter_100.db')
    with open(p, 'wb') as f:
        f.write(raw)
    prefix = raw.rstrip(b'\x00')
    out = {'file': [prefix.hex(), len(raw)],
           'before': attempt(lambda: canon_entries(mod.MmapedDict.read_all_values_from_file(p)))}
    steps = []
    d = None
    try:
        try:
            d = mod.MmapedDict(p)
        except Exception as e:
            out['steps'] = [['err', exc_kind(e)]]
            return out
        steps.append(c10.observe(mod, p, d, None))
        for op in cont:
            peek = None
            try:
                if op[0] == 'W':
                    d.write_value(key_str(op[1]), frombits(op[2]), frombits(op[3]))
                elif op[0] == 'R':
                    v, ts = d.read_value(key_str(op[1]))
                    peek = ['ok', [bits(v), bits(ts)]]
                else:
                    d.close()
                    d = mod.MmapedDict(p)
            except Exception as e:
                steps.append(['err', exc_kind(e)])
                break
            steps.append(c10.observe(mod, p, d, peek))
    finally:
        try:
            if d is not None:
                d.close()
        except Exception:
            pass
    out['steps'] = steps
    return out


# ---------------------------------------------------------------- model side
def model(m, case):
    if 'kill_us' in case:
        return None
    import mmap
    if case.get('light') and len(case['ops']) > 24:
        # long histories whose subject is the interleaved reader: the per-cut observations are the direct oracle's here
        r = ['skipped', [], []]
        skipped = True
    else:
        skipped = False
        r = m.call('c11_cuts', case['isz'], mmap.PAGESIZE, sx_wops(wops_of(case)))
    if r[0] == 'err':
        return {'cuts': [['err', r[1]]]}
    closes = [[c[0], d_int(c[1]), d_int(c[2]), c[3] == 'T'] if c[1] != 'err' else [c[0], 'err'] for c in r[2]]
    cuts = []
    for c in r[1]:
        if c[0] in ('err', 'nofile'):
            o = [c[0]]
        else:
            reader = d_entries(c[1])
            if c[3][0] == 'ok':
                reopen = ['ok', [d_int(c[3][1][0]), d_entries(c[3][1][1])]]
            else:
                reopen = ['err', c[3][1]]
            o = [reader, reopen]
        if not cuts or cuts[-1] != o:
            cuts.append(o)
    # continuation: the model's open_ on the very cut files found on disk, then its steps
    conts = []
    if case.get('cont') or case.get('coll') or case.get('il'):
        if not _LAST[0] or _LAST[0][0] != _case_key(case):
            impl(case)
    if case.get('cont'):
        for fhex, total in _LAST[0][1]:
            r = m.call('c11_cont', case['isz'], mmap.PAGESIZE, c10.BLOB_LIMIT, (bytes.fromhex(fhex), total),
                       sx_ops(case['cont']))
            conts.append([c10.d_step(st) for st in r])
    # files that vanish between the listing and the read: the model's read_listed on (typ, parts[1]) of each name
    vanish = []
    if case.get('coll'):
        for name in _LAST[0][2]:
            parts = name.split('_')
            if name not in _VANISH:
                v = m.call('c11_vanish', mmap.PAGESIZE, parts[0].encode(), parts[1].encode())
                _VANISH[name] = 'ok' if v[0] == 'ok' else 'err:' + v[1]
            vanish.append([name, _VANISH[name]])
    # the reader interleaved with the writer: the model's two-read reader on the two file states the implementation's
    # first and second read were served from (only where the implementation's accesses are the pinned ones)
    il_cmp = []
    if case.get('il') and _LAST[0][3]:
        nfiles, pats = _LAST[0][3]
        r = m.call('c11_ileave', case['isz'], sx_wops(wops_of(case)), [[p[0], p[1], p[2]] for p in pats])
        if r[0] == 'err':
            il_cmp = ['err', r[1]]
        else:
            il_cmp = [d_int(r[0]), [p[:3] + [d_entries(x)] for p, x in zip(pats, r[1])]]
    if skipped:
        cuts = closes = None
    return {'cuts': cuts, 'conts': conts, 'closes': closes, 'vanish': vanish, 'il_cmp': il_cmp}


_VANISH = {}


def sx_wops(wops):
    from .sx import Sym
    out = []
    for op in wops:
        if op[0] in ('F', 'C'):
            out.append((Sym(op[0]),))
        else:
            out += sx_ops([op])
    return out


def same(i, mo):
    if mo is None:
        return True
    return ((mo['cuts'] is None or i['cuts'] == mo['cuts']) and not i.get('writer_error')
            and [c['steps'] for c in i.get('conts', [])] == mo.get('conts', [])
            and (mo.get('closes') is None or i.get('closes', []) == mo.get('closes', [])) and i.get('vanish', []) == mo.get('vanish', [])
            and i.get('il_cmp', []) == mo.get('il_cmp', []))


# ---------------------------------------------------------------- direct oracle
def allowed_states(ops):
    """[(m, inflight?, state)] in trace order: the state after m completed ops, optionally plus the new key of op m+1 at zero"""
    ref = c10.reference(ops)
    out = []
    for m in range(len(ops) + 1):
        out.append((m, False, ref[m]))
        if m < len(ops) and ops[m][0] != 'O':
            k = blob(key_str(ops[m][1]).encode('utf-8'), KEY_LIMIT)
            if all(e[0] != k for e in ref[m]):
                out.append((m, True, ref[m] + [[k, 0, 0]]))
    return out


def direct(case, obs):
    ops = case['ops']
    if obs.get('writer_error'):
        return 'the writer raised %s' % obs['writer_error']
    allowed = allowed_states(ops)
    info = obs.get('info') or {}
    # close() of a handle a forked child inherited must leave the file of the (live) parent alone
    for c in obs.get('closes', []):
        if c[0] == 'inherited' and c[-1] is not True:
            return ('a forked child closed the MmapedDict it inherited (what its first metric operation does) and close() changed '
                    'the file its parent is still writing through its own mapping: size %s -> %s%s; %s'
                    % (c[1], c[2] if len(c) > 2 else '?', '' if len(c) < 4 or c[1] != c[2] else ' (bytes differ)',
                       info.get('after_foreign_close', '')))
    if info.get('child_failed'):
        return 'close() of an inherited handle failed in the forked child (status %r)' % (info['child_failed'],)
    live = None
    idx = 0
    for n, (o, extra) in enumerate(zip(obs['cuts'], obs['extras'])):
        reader, reopen = o
        what = 'cut state #%d of %d' % (n + 1, len(obs['cuts']))
        if reader[0] != 'ok':
            return '%s: read_all_values_from_file raised %s' % (what, reader[1])
        j = idx
        while j < len(allowed) and allowed[j][2] != reader[1]:
            j += 1
        if j == len(allowed):
            anyw = [a for a in allowed if a[2] == reader[1]]
            if anyw:
                return '%s: the reader went back to an earlier prefix state %r' % (what, reader[1][:6])
            keys = {repr(e[0]) for a in allowed for e in a[2]}
            bad = [e for e in reader[1] if repr(e[0]) not in keys]
            if bad:
                return '%s: the reader returned a key that was never written: %r' % (what, bad[:3])
            return '%s: the reader returned %r, which is no prefix state (+ in-flight key at zero) of the history' % (what, reader[1][:8])
        idx = j
        if reopen[0] != 'ok':
            return '%s: reopen by a new MmapedDict raised %s' % (what, reopen[1])
        if reopen[1][1] != reader:
            return '%s: the reopened handle reads %r, the file reader %r' % (what, reopen[1][1], reader[1][:8])
        cont = extra.get('cont')
        if cont is not None:
            exp = [list(e) for e in reader[1]]
            probe = blob('\x00probe\xe9'.encode('utf-8'), KEY_LIMIT)
            if exp and isinstance(exp[0][0], str):
                exp[0] = [exp[0][0], bits(2.5), bits(3.5)]
            exp.append([probe, bits(1.5), bits(-0.0)])
            if cont[0] == 'err':
                return '%s: writing after reopen raised %s' % (what, cont[1])
            for c in cont:
                if c != ['ok', exp]:
                    return '%s: after reopen + two writes the store reads %r, expected %r' % (what, c, exp[:8])
        if 'collect' in extra:
            if extra['collect'][0] != 'ok':
                return '%s: MultiProcessCollector.collect() raised %s with this worker file in the directory' % (what, extra['collect'][1])
            if live is None:
                import prometheus_client.mmap_dict as mod
                live = {k for k, l in victim_kinds(mod) if l}
            for name, cv in extra.get('vanish', []):
                if name not in live:
                    continue           # not a file mark_process_dead removes: no tolerance demanded (outcome compared with the model)
                if cv[0] != 'ok':
                    return ('%s: collect() raised %s when %s - a live gauge file of a dead worker, which mark_process_dead removes - '
                            'vanished between listing and reading: one dead worker made the whole scrape fail' % (what, cv[1], name))
                if cv != extra['collect']:
                    return '%s: collect() with the vanishing live gauge file %s reports %r, without the file %r' % (
                        what, name, cv, extra['collect'])
            if extra.get('phantom'):
                return ('%s: collect() reports series whose keys no writer ever wrote: %r (worker file %s cut inside the creation of '
                        'a label group)' % (what, extra['phantom'], typed_names(case)[0]))
            if extra.get('collect_clean') != extra['collect']:
                return '%s: collect() over the cut file %r differs from collect() over the equivalent complete file %r' % (
                    what, extra['collect'], extra.get('collect_clean'))
    torn = None
    for o in obs.get('il', []):
        r = direct_il(case, o, len(obs['cuts']) and obs['nsnaps'])
        if r and r.startswith(TORN):
            torn = torn or r           # reported last: a torn pair at the block boundary is a finding of its own
        elif r:
            return r
    if torn:
        return torn
    for ci, c in enumerate(obs.get('conts', [])):
        r = direct_cont(case, c, allowed)
        if r:
            return 'continuation %d of %d (cut file of %d bytes, %d non-zero-terminated): %s' % (
                ci + 1, len(obs['conts']), c['file'][1], len(c['file'][0]) // 2, r)
    fc = info.get('final_close')
    if fc and fc[0] == 'err':
        return 'close() at the end of the history raised %s' % fc[1]
    if not obs.get('kill'):
        if not obs['cuts']:
            return 'no file state was observed'
        last = obs['cuts'][-1][0]
        if last != ['ok', allowed[-1][2]]:
            return 'the final file reads %r, expected the complete state %r' % (last, allowed[-1][2][:8])
    return None


TORN = 'interleaved-read torn-pair:'


def _klen(k):
    return len(k) // 2 if isinstance(k, str) else k[2]


def _il_what(o, nsnaps):
    acc = ', '.join('%s@#%d' % ('read(%d) at %d got %d' % (e[2], e[1], e[3]) if e[0] == 'read' else
                                 'seek%r' % (tuple(e[1]),) if e[0] == 'seek' else 'open', e[4] + 1) for e in o['log'])
    return ('%s interleaved with the writer (block size %s, schedule %r over the %d successive file states; accesses served from: %s)'
            % ('collect()' if o['scrape'] else 'read_all_values_from_file', o['pg'] or 'mmap.PAGESIZE', o['sched'], nsnaps, acc))


def direct_il(case, o, nsnaps):
    """the reader's accesses were interleaved with the writer's effects; win = what an atomic reader returns on each of the
    file states between the reader's first read and its last access"""
    what = _il_what(o, nsnaps)
    res = o['res']
    if res[0] != 'ok':
        return '%s raised %s: a writer that goes on between two accesses of the reader makes the read fail' % (what, res[1])
    if o['scrape']:
        # a scrape under the same interleaving: no series whose key nobody wrote by the reader's last access (the values are
        # the merge's business, C08)
        if o.get('written') is None:
            return None
        ph = phantoms(res[1], {(n, tuple(tuple(l) for l in ls)) for n, ls in o['written']})
        if ph:
            return '%s reports series whose keys no writer ever wrote: %r' % (what, ph[:4])
        return None
    states = [w[1] for w in o['win'] if w[0] == 'ok']
    if not states:
        return None                      # the atomic oracle reports unreadable cut states
    got = res[1]
    keys = [e[0] for e in got]
    if not any([e[0] for e in st] == keys for st in states):
        known = {repr(e[0]) for st in states for e in st}
        bad = [k for k in keys if repr(k) not in known]
        if bad:
            return '%s returned a key that was never written: %r' % (what, bad[:3])
        return ('%s returned the keys %r: the key list of no prefix state (+ in-flight key) between the state of its first read %r '
                'and the state of its last access %r' % (what, keys[:8], [e[0] for e in states[0]][:8], [e[0] for e in states[-1]][:8]))
    reads = [e for e in o['log'] if e[0] == 'read']
    if len(reads) == 1 and not o['escaped'] and ['ok', got] not in o['win'][:1]:
        # (the window starts at the state of the first read)
        return '%s made a single read and returned %r, not the state of the file at that read %r' % (what, got[:6], o['win'][0])
    pos = 8
    for e in got:
        n = _klen(e[0])
        vpos = pos + 4 + n + (8 - (n + 4) % 8)
        pos = vpos + 16
        pairs = {(x[1], x[2]) for st in states for x in st if x[0] == e[0]}
        if (e[1], e[2]) in pairs:
            continue
        if e[1] in {q[0] for q in pairs} and e[2] in {q[1] for q in pairs}:
            first = reads[0][3] if reads else 0
            if len(reads) == 2 and vpos + 8 == first:
                return ('%s %s returned for key %r the pair (value %#x, timestamp %#x), which was never written: the value is the one '
                        'of the state at the first read, the timestamp the one of a later state; the 16 value bytes of this entry lie at '
                        'offset %d, across the end of the first read (%d bytes)' % (TORN, what, e[0], e[1], e[2], vpos, first))
            return ('%s returned for key %r the pair (value %#x, timestamp %#x): each half was written, the pair never was (value '
                    'bytes at offset %d)' % (what, e[0], e[1], e[2], vpos))
        return ('%s returned for key %r the pair (value %#x, timestamp %#x), which the key held in no state between the reader\'s '
                'first read and its last access: %r' % (what, e[0], e[1], e[2], sorted(pairs)[:4]))
    return None


def direct_cont(case, c, allowed):
    """a new writer reopened a cut file and went on: every read path must return the cut's prefix state updated by exactly
    the new writer's operations - in particular a key it initialises reads (0.0, 0.0), never stale bytes"""
    before = c['before']
    if before[0] != 'ok':
        return 'the cut file is unreadable: %s' % before[1]
    if all(a[2] != before[1] for a in allowed):
        return 'the cut file reads %r, no prefix state' % (before[1][:6],)
    cur = [list(e) for e in before[1]]
    steps = c['steps']
    cont = case['cont']
    for i, s in enumerate(steps):
        what = 'after reopen' if i == 0 else 'after reopen + %d op(s), last %r' % (i, c10._short(cont[i - 1]))
        if s[0] == 'err':
            return '%s: raised %s' % (what, s[1])
        if i > 0:
            op = cont[i - 1]
            if op[0] != 'O':
                k = blob(key_str(op[1]).encode('utf-8'), KEY_LIMIT)
                hit = [e for e in cur if e[0] == k]
                if op[0] == 'W':
                    if hit:
                        hit[0][1], hit[0][2] = op[2], op[3]
                    else:
                        cur.append([k, op[2], op[3]])
                elif not hit:
                    cur.append([k, 0, 0])
                if op[0] == 'R':
                    want = [[e[1], e[2]] for e in cur if e[0] == k][0]
                    if s[5] != ['ok', want]:
                        return '%s: read_value returned %r, expected %r (a value nobody wrote)' % (what, s[5], want)
        if s[0] is not True:
            return '%s: used-bytes header %d exceeds the file length' % (what, s[1])
        if s[3] != ['ok', cur]:
            return '%s: read_all_values(): %s' % (what, c10._diff(s[3][1] if s[3][0] == 'ok' else s[3], cur))
        if s[4] != ['ok', cur]:
            return '%s: read_all_values_from_file(): %s' % (what, c10._diff(s[4][1] if s[4][0] == 'ok' else s[4], cur))
    if len(steps) != len(cont) + 1:
        return 'the continuation stopped early'
    return None


def nontrivial(case, obs):
    return len(obs['cuts']) >= 4


def classify(case, obs):
    out = ['cuts=%d' % min(len(obs['cuts']), 40) if len(obs['cuts']) < 10 else 'cuts>=10']
    if case.get('coll'):
        out.append('collector')
    for c in obs.get('conts', []):
        out.append('continuation')
        if dirty_tail(bytes.fromhex(c['file'][0]) + b'\x00' * (c['file'][1] - len(c['file'][0]) // 2)):
            out.append('continuation-from-dirty-tail')
    if 'kill_us' in case:
        out.append('sigkill')
        if obs['cuts']:
            out.append('sigkill-file-present')
    out.append('isz=real' if case['isz'] == 65536 else 'isz=patched-small')
    allowed = allowed_states(case['ops'])
    infl = {repr(a[2]) for a in allowed if a[1]}
    for o in obs['cuts']:
        if o[0][0] == 'ok' and repr(o[0][1]) in infl:
            out.append('inflight-state-observed')
        if o[0] == ['ok', []]:
            out.append('empty-state-observed')
    if case.get('typ'):
        out.append('typed-file=' + case['typ'])
    for c in obs.get('closes', []):
        out.append('close-observed=' + c[0])
    if case.get('forks'):
        out.append('fork-case')
        nops = len(case['ops'])
        if any(f[1] is not None and f[1] < nops and any(op[0] != 'O' for op in case['ops'][f[1]:]) for f in case['forks']):
            out.append('fork-case-writer-goes-on-after-child-close')
    for name, r in obs.get('vanish', []):
        out.append('vanish=%s:%s' % (name[:-7], r))
    for e in obs.get('extras', []):
        if case.get('typ') == 'histogram' and 'phantom' in e:
            out.append('histogram-cut-scraped')
    for o in obs.get('il', []):
        out.append('il-scrape' if o['scrape'] else 'il-read')
        if o['scrape']:
            continue
        reads = [e for e in o['log'] if e[0] == 'read']
        pat = pinned_pattern(o)
        out.append('il-accesses=' + ('escaped' if o['escaped'] else 'pinned-1-read' if pat and len(reads) == 1 else
                                     'pinned-2-reads' if pat else 'other-%d-reads' % min(len(reads), 4)))
        out.append('il-block=' + ('real' if not o['pg'] else 'patched'))
        if o['hi'] > o['lo']:
            out.append('il-writer-advanced-during-read')
            if len(reads) >= 2:
                out.append('il-2-reads-writer-advanced')
                if len(o['win']) > 1 and o['res'][0] == 'ok':
                    r = ['ok', o['res'][1]]
                    out.append('il-result=' + ('state-of-first-read' if r == o['win'][0] else 'state-of-last-access' if r == o['win'][-1]
                                               else 'a-state-between' if r in o['win'] else 'MIXED-not-a-prefix-state'))
                    if [e[0] for e in o['win'][0][1]] != [e[0] for e in o['win'][-1][1]] if o['win'][0][0] == 'ok' == o['win'][-1][0] else False:
                        out.append('il-2-reads-append-in-between')
    return out


def _keep(case, c):
    if case.get('coll'):
        c['coll'] = True
    if case.get('cont'):
        c['cont'] = case['cont']
    for k in ('typ', 'other', 'il', 'light'):
        if k in case:
            c[k] = case[k]
    if case.get('forks'):
        n = len(c['ops'])
        c['forks'] = [[min(f[0], n), None if f[1] is None else min(f[1], n)] for f in case['forks']]
    return c


def neighbours(case):
    return [_keep(case, c) for c in c10.neighbours(case)]


def shrinks(case):
    for c in c10.shrinks(case):
        yield _keep(case, c)
    cont = case.get('cont') or []
    for i in range(len(cont)):
        yield dict(case, cont=cont[:i] + cont[i + 1:])
    forks = case.get('forks') or []
    if len(forks) > 1:
        for i in range(len(forks)):
            yield dict(case, forks=forks[:i] + forks[i + 1:])
