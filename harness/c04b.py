"""C04, second direction - every document the OpenMetrics parser accepts survives  parse -> expose -> parse.

Library module for harness/c04.py: cases(ctx), impl(case), model(m, case), direct(case, obs), same(impl, model).
Documents: the valid-document generator of omgen plus the accepted ones among its mutations and rule violations
(native-histogram samples excepted, as in the statement).  Direct oracle (implementation alone): the families parsed
from openmetrics.exposition.generate_latest(parsed families) equal the parsed families - name, type, unit, help, and per
sample name, labels, value (numerically), timestamp (by the decimal number it denotes, at the parser's nanosecond
resolution) and exemplar.  Correspondence: the extracted model parses the document to the same families."""
from decimal import Decimal
from fractions import Fraction

from . import c14om, omgen

ORACLE = c14om.ORACLE
RULE = ('documents accepted by the OpenMetrics parser: generated valid documents of every family type and the accepted '
        'ones among their token-level mutations; non-trivial = accepted, at least one sample; distinct by text')
TRUSTED = c14om.TRUSTED
ASSUMPTIONS = c14om.ASSUMPTIONS + [
    'timestamps are compared by the decimal number they denote truncated to nanoseconds (a float timestamp comes back '
    'as Timestamp(sec, nsec)); values numerically']
TIME_BUDGET = {'quick': 100, 'thorough': 1200}


class _Reg:
    def __init__(self, fams):
        self.fams = fams

    def collect(self):
        return self.fams


def _ts_ns(ts):
    """the timestamp as an integer number of nanoseconds, the way its rendering is read back"""
    if ts is None:
        return None
    if hasattr(ts, 'sec') and hasattr(ts, 'nsec'):
        return ts.sec * 10 ** 9 + ts.nsec
    d = Decimal(repr(float(ts)))
    return int((d * 10 ** 9).to_integral_value(rounding='ROUND_DOWN'))


def _canon(fams):
    out = []
    for f in fams:
        ss = []
        for s in f.samples:
            ex = None
            if s.exemplar is not None:
                ex = [c14om.canon_labels(s.exemplar.labels), c14om.canon_num(s.exemplar.value), _ts_ns(s.exemplar.timestamp)]
            ss.append([s.name, c14om.canon_labels(s.labels), c14om.canon_num(s.value), _ts_ns(s.timestamp), ex])
        out.append([f.name, f.documentation, f.type, f.unit, ss])
    return out


def cases(ctx):
    rng = ctx.rng
    seen = set()

    def emit(doc, why):
        if doc in seen or any(0xD800 <= ord(c) < 0xE000 for c in doc):
            return []
        seen.add(doc)
        return [{'doc': doc, 'why': why}]
    for d in omgen.REGRESSION_DOCS + ROUNDTRIP_DOCS:
        yield from emit(d, 'regression')
    for d, n in TWO_EXPOSURE_DOCS:
        for c in emit(d, 'two-exposures'):
            c['nsamples'] = n
            yield c
    # a quoted sample name WITHOUT preceding metadata starts the unknown family of that name: first line of the document,
    # or after a family of any type (before fixes/C04-om-implicit-family-name.diff the family was named by unquoting the
    # sample's name a second time, and its exposition was rejected with a name clash)
    for i in range(ctx.n(160, 1200)):
        g = omgen.Gen(rng, nh=False, rich=True)
        g.used = set()
        fams = [g.family('untyped-sample')]
        if i % 3 == 1:
            fams.insert(0, g.family())
        elif i % 3 == 2:
            fams.append(g.family())
        yield from emit(omgen.render(omgen.Doc(fams)), 'implicit')
    for i in range(ctx.n(900, 6000)):
        g = omgen.Gen(rng, nh=False, rich=(i % 5 != 0))
        sdoc = g.doc()
        doc = omgen.render(sdoc)
        yield from emit(doc, 'valid')
        if i % 3 == 0:        # groups exposed again at a later timestamp (scrape history): no sample may be lost
            rdoc = omgen.repeat_exposures(rng, sdoc)
            for c in emit(omgen.render(rdoc), 'repeat'):
                if rdoc.added:
                    c['base'] = doc
                    c['added'] = rdoc.added
                yield c
        for mdoc, kind in omgen.mutations(rng, doc, single=ctx.n(14, 40), double=ctx.n(4, 10)):
            yield from emit(mdoc, 'mut')


# Known finding c04b_same_instant_two_classes (last entry of the list; the generator avoids it on purpose): one series
# twice at the same instant written once as Timestamp and once as float, e.g.  a 0 1.0 / a 0 1e0 .  The duplicate
# suppression compares timestamps with !=, which is class-sensitive, so both samples are kept; exposed they read
# 1.000000000 and 1.0, both Timestamp(1, 0), and the second is then dropped: the document does not round-trip.
ROUNDTRIP_DOCS = [
    '# TYPE a gauge\na 0 1.0\na 0 1e0\n# EOF\n',
    '# TYPE a gauge\na 1 -1.5\n# EOF\n',                      # Timestamp(-1, -500000000) is written -1.-500000000
    '# TYPE a gauge\na 1 -0.5\n# EOF\n', '# TYPE a gauge\na 1 -.5\n# EOF\n', '# TYPE a gauge\na 1 -0.000000001\n# EOF\n',
    '# TYPE a gauge\na 1 1.5e0\n# EOF\n',
    '# TYPE a gauge\na 9007199254740993\n# EOF\n',            # an int that is not a double
    '# TYPE a gauge\na 1%s\n# EOF\n' % ('0' * 400),           # an int beyond the double range
    '# TYPE a counter\na_total 1 # {a="x\\"y",b="\\\\"} 1\n# EOF\n',
    '# TYPE a counter\na_total 1 # {"a b\\"c"="x"} 1 -2.25\n# EOF\n',
    '# TYPE a_u gauge\n# UNIT a_u u\n# HELP a_u \\\\n \\" \\q\na_u{x="\\\\\\"\\n"} 1\n# EOF\n',
    '# TYPE "a\\nb" gauge\n{"a\\nb"} 1\n# EOF\n',
    # implicit unknown family named by its sample (more of them in omgen.REGRESSION_DOCS)
    '{" a"} 1\n# EOF\n', '{"a "} 1\n# EOF\n', '{" a_total"} 1\n# EOF\n', '{"\\"a\\""} 1\n# EOF\n',
    '{"\ta",x="y"} 1 1.5\n{"\ta",x="y"} 2 2.5\n# EOF\n', '{"a\\nb"} 1\n{" a\\nb"} 1\n# EOF\n',
]


# valid documents in which a group is exposed at two timestamps, with the number of samples the parser must return
# (before fixes/C15-om-later-exposure.diff every series of the later exposure but the first was dropped)
TWO_EXPOSURE_DOCS = [
    ('# TYPE a histogram\na_bucket{le="+Inf"} 3 1\na_count 3 1\na_sum 1 1\na_bucket{le="+Inf"} 4 2\na_count 4 2\na_sum 2 2\n# EOF\n', 6),
    ('# TYPE a histogram\na_bucket{le="1"} 1 1\na_bucket{le="+Inf"} 2 1\na_count 2 1\na_sum 1 1\na_created 0 1\n'
     'a_bucket{le="1"} 1 1.5\na_bucket{le="+Inf"} 3 1.5\na_count 3 1.5\na_sum 1 1.5\na_created 0 1.5\n# EOF\n', 10),
    ('# TYPE a gaugehistogram\na_bucket{x="y",le="+Inf"} 3 1\na_gcount{x="y"} 3 1\na_gsum{x="y"} 1 1\n'
     'a_bucket{x="y",le="+Inf"} 2 7\na_gcount{x="y"} 2 7\na_gsum{x="y"} 0 7\n# EOF\n', 6),
    ('# TYPE a summary\na{quantile="0.5"} 1 1\na_count 1 1\na_sum 1 1\na{quantile="0.5"} 2 2\na_count 2 2\na_sum 3 2\n# EOF\n', 6),
    ('# TYPE a counter\na_total 1 1\na_created 1 1\na_total 2 2\na_created 1 2\n# EOF\n', 4),
    ('# TYPE a stateset\na{a="x"} 1 1\na{a="y"} 0 1\na{a="x"} 0 2\na{a="y"} 1 2\n# EOF\n', 4),
]


def _nsamples(fams):
    return sum(len(f.samples) for f in fams)


def impl(case):
    from prometheus_client.openmetrics.exposition import generate_latest
    doc = case['doc']
    r = c14om.parse_impl(doc)
    if r[0] != 'ok':
        return {'parse': ['err', r[1]], 'rt': 'rejected'}
    fams = r[1]
    obs = {'parse': ['ok', c14om.canon_families(fams)]}
    if 'nsamples' in case and _nsamples(fams) != case['nsamples']:
        obs['lost'] = [case['nsamples'], _nsamples(fams)]
    if 'base' in case:
        rb = c14om.parse_impl(case['base'])
        if rb[0] == 'ok' and _nsamples(rb[1]) + case['added'] != _nsamples(fams):
            obs['lost'] = [_nsamples(rb[1]) + case['added'], _nsamples(fams)]
    if any(s.native_histogram is not None for f in fams for s in f.samples):
        obs['rt'] = 'native-histogram'
        return obs
    try:
        text = generate_latest(_Reg(fams)).decode('utf-8')
    except Exception as e:
        obs['rt'] = ['expose-error', type(e).__name__]
        return obs
    r2 = c14om.parse_impl(text)
    if r2[0] != 'ok':
        obs['rt'] = ['reparse-error', r2[1], text[:300]]
        return obs
    a, b = _canon(fams), _canon(r2[1])
    if a == b:
        obs['rt'] = 'same'
    else:
        diff = next(((x, y) for x, y in zip(a, b) if x != y), (len(a), len(b)))
        obs['rt'] = ['differs', repr(diff)[:500], text[:300]]
    return obs


def model(m, case):
    return c14om.obs_model(m, case['doc'])


def same(impl_obs, model_obs):
    return impl_obs['parse'] == model_obs


def direct(case, obs):
    if obs.get('lost'):
        return 'accepted document with a group exposed at two timestamps: %d samples expected, %d returned: %r' % (
            obs['lost'][0], obs['lost'][1], case['doc'][:300])
    rt = obs['rt']
    if rt in ('rejected', 'native-histogram', 'same'):
        return None
    return 'accepted document does not survive parse -> expose -> parse (%s): %r' % (rt, case['doc'][:300])


def nontrivial(case, obs):
    return obs['parse'][0] == 'ok' and any(f[4] for f in obs['parse'][1])


def classify(case, obs):
    rt = obs['rt']
    return ['why:' + case.get('why', '?'), 'roundtrip:' + (rt if isinstance(rt, str) else rt[0])]


def shrinks(case):
    return c14om.shrinks(case)
