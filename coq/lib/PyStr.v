(* Python str operations over code-point lists, with Python's index/slice conventions. *)
From V Require Import lib.PyBase.
Open Scope N_scope.

(* str.isspace() / the set stripped by str.strip() with no argument: 29 code points *)
Definition is_space_uni (c : char) : bool :=
  ((9 <=? c) && (c <=? 13)) || ((28 <=? c) && (c <=? 32)) || (c =? 133) || (c =? 160)
  || (c =? 5760) || ((8192 <=? c) && (c <=? 8202)) || (c =? 8232) || (c =? 8233)
  || (c =? 8239) || (c =? 8287) || (c =? 12288).

(* string.whitespace = ' \t\n\r\x0b\x0c' *)
Definition is_space_ascii (c : char) : bool := (c =? 32) || ((9 <=? c) && (c <=? 13)).

Fixpoint lstrip_p (p : char -> bool) (s : str) : str :=
  match s with
  | [] => []
  | c :: r => if p c then lstrip_p p r else s
  end.
Definition rstrip_p (p : char -> bool) (s : str) : str := rev (lstrip_p p (rev s)).
Definition strip_p (p : char -> bool) (s : str) : str := rstrip_p p (lstrip_p p s).
Definition strip := strip_p is_space_uni.
Definition lstrip := lstrip_p is_space_uni.
Definition rstrip := rstrip_p is_space_uni.

Definition zlen (s : str) : Z := Z.of_nat (length s).

(* Python slice s[lo:hi] with negative indices and clamping *)
Definition norm_idx (len i : Z) : Z :=
  let j := if (i <? 0)%Z then (i + len)%Z else i in
  if (j <? 0)%Z then 0%Z else if (len <? j)%Z then len else j.
Definition slice (s : str) (lo hi : Z) : str :=
  let len := zlen s in
  let a := norm_idx len lo in
  let b := norm_idx len hi in
  if (b <=? a)%Z then [] else firstn (Z.to_nat (b - a)) (skipn (Z.to_nat a) s).
Definition slice_from (s : str) (lo : Z) : str := slice s lo (zlen s).
Definition slice_to (s : str) (hi : Z) : str := slice s 0 hi.

(* s[i] : IndexError when out of range; negative i counts from the end *)
Definition index (s : str) (i : Z) : res char :=
  let len := zlen s in
  let j := if (i <? 0)%Z then (i + len)%Z else i in
  if (j <? 0)%Z || (len <=? j)%Z then Err IndexError
  else match nth_error s (Z.to_nat j) with Some c => Ok c | None => Err IndexError end.

(* s.find(pat): first index or -1 *)
Fixpoint find_sub_from (pat s : str) (i : Z) : Z :=
  if starts_with pat s then i
  else match s with
       | [] => (-1)%Z
       | _ :: r => find_sub_from pat r (i + 1)%Z
       end.
Definition find_sub (pat s : str) : Z := find_sub_from pat s 0%Z.
Definition contains_sub (pat s : str) : bool := (0 <=? find_sub pat s)%Z.
Definition contains_char (c : char) (s : str) : bool := mem_char c s.

(* s.split(c) for a one-character separator: never returns the empty list *)
Fixpoint split_char_acc (c : char) (s : str) (cur : str) : list str :=
  match s with
  | [] => [rev cur]
  | x :: r => if N.eqb x c then rev cur :: split_char_acc c r []
              else split_char_acc c r (x :: cur)
  end.
Definition split_char (c : char) (s : str) : list str := split_char_acc c s [].

(* s.replace(pat, rep): leftmost, non-overlapping; pat non-empty *)
Fixpoint replace_fuel (fuel : nat) (pat rep s : str) : str :=
  match fuel with
  | O => s
  | S f =>
      match s with
      | [] => []
      | c :: r => if starts_with pat s then rep ++ replace_fuel f pat rep (skipn (length pat) s)
                  else c :: replace_fuel f pat rep r
      end
  end.
Definition replace (pat rep s : str) : str := replace_fuel (S (length s)) pat rep s.

Fixpoint join (sep : str) (l : list str) : str :=
  match l with
  | [] => []
  | [x] => x
  | x :: r => x ++ sep ++ join sep r
  end.

Definition concat_str (l : list str) : str := List.concat l.

(* characters *)
Definition BS : char := 92.
Definition DQ : char := 34.
Definition LF : char := 10.
Definition CH_n : char := 110.
Definition SP : char := 32.
Definition TAB : char := 9.
Definition COMMA : char := 44.
Definition EQS : char := 61.
Definition LBRACE : char := 123.
Definition RBRACE : char := 125.
Definition HASH : char := 35.
Definition USCORE : char := 95.
Definition COLON : char := 58.

Definition is_alpha (c : char) : bool := ((65 <=? c) && (c <=? 90)) || ((97 <=? c) && (c <=? 122)).
Definition is_alnum (c : char) : bool := is_alpha c || is_digit c.
