(* Shared base: exceptions, result monad, Python-dict association lists, strings as code points. *)
From Coq Require Export String Ascii.
From Coq Require Export List ZArith NArith Bool Lia.
Export ListNotations.
Open Scope N_scope.

Inductive exn := ValueError | KeyError | TypeError | IndexError | AttributeError
  | OverflowError | RuntimeError | UnboundLocalError | StructError | OSError
  | OutOfFuel | OtherExn.

Definition exn_eqb (a b : exn) : bool :=
  match a, b with
  | ValueError, ValueError | KeyError, KeyError | TypeError, TypeError
  | IndexError, IndexError | AttributeError, AttributeError
  | OverflowError, OverflowError | RuntimeError, RuntimeError
  | UnboundLocalError, UnboundLocalError | StructError, StructError
  | OSError, OSError | OutOfFuel, OutOfFuel | OtherExn, OtherExn => true
  | _, _ => false
  end.

Inductive res (A : Type) := Ok (a : A) | Err (e : exn).
Arguments Ok {A} a.
Arguments Err {A} e.

Definition bind {A B} (m : res A) (f : A -> res B) : res B :=
  match m with Ok a => f a | Err e => Err e end.
Notation "'do' x <- m ; f" := (bind m (fun x => f))
  (at level 200, x name, m at level 100, f at level 200).
Notation "'do' ' p <- m ; f" := (bind m (fun x => match x with p => f end))
  (at level 200, p pattern, m at level 100, f at level 200).

Definition only_VE {A} (m : res A) : Prop :=
  match m with Ok _ => True | Err e => e = ValueError end.

(* ---------- strings: a Python str is a list of code points ---------- *)
Definition char := N.
Definition str := list char.

Fixpoint s2l (s : string) : str :=
  match s with
  | EmptyString => []
  | String a r => N_of_ascii a :: s2l r
  end.

Fixpoint str_eqb (a b : str) : bool :=
  match a, b with
  | [], [] => true
  | x :: a', y :: b' => N.eqb x y && str_eqb a' b'
  | _, _ => false
  end.

Lemma str_eqb_eq a b : str_eqb a b = true <-> a = b.
Proof.
  revert b; induction a as [|x a IH]; intros [|y b]; simpl; split; intro H;
    try reflexivity; try discriminate.
  - apply andb_true_iff in H as [H1 H2]. apply N.eqb_eq in H1. apply IH in H2. congruence.
  - inversion H; subst. rewrite N.eqb_refl. simpl. apply IH. reflexivity.
Qed.

Lemma str_eqb_refl a : str_eqb a a = true.
Proof. apply str_eqb_eq; reflexivity. Qed.

Lemma str_eqb_neq a b : str_eqb a b = false <-> a <> b.
Proof.
  split; intro H.
  - intro E. apply str_eqb_eq in E. congruence.
  - destruct (str_eqb a b) eqn:E; [apply str_eqb_eq in E; contradiction | reflexivity].
Qed.

(* lexicographic comparison by code point: Python's str ordering *)
Fixpoint str_ltb (a b : str) : bool :=
  match a, b with
  | _, [] => false
  | [], _ :: _ => true
  | x :: a', y :: b' => if N.ltb x y then true else if N.eqb x y then str_ltb a' b' else false
  end.

Fixpoint mem_char (c : char) (l : list char) : bool :=
  match l with [] => false | x :: r => N.eqb c x || mem_char c r end.

Fixpoint mem_str (s : str) (l : list str) : bool :=
  match l with [] => false | x :: r => str_eqb s x || mem_str s r end.

Lemma mem_str_In s l : mem_str s l = true <-> In s l.
Proof.
  induction l as [|x l IH]; simpl; [split; [discriminate|tauto]|].
  rewrite orb_true_iff, IH, str_eqb_eq. split; intros [H|H]; auto.
Qed.

Fixpoint starts_with (p s : str) : bool :=
  match p, s with
  | [], _ => true
  | x :: p', y :: s' => N.eqb x y && starts_with p' s'
  | _ :: _, [] => false
  end.

Definition ends_with (p s : str) : bool := starts_with (rev p) (rev s).

(* ---------- Python dict as insertion-ordered association list ---------- *)
Section Assoc.
  Context {K V : Type} (keq : K -> K -> bool).
  Definition assoc := list (K * V).
  Fixpoint d_find (d : assoc) (k : K) : option V :=
    match d with
    | [] => None
    | (k', v) :: r => if keq k k' then Some v else d_find r k
    end.
  Definition d_mem (d : assoc) (k : K) : bool :=
    match d_find d k with Some _ => true | None => false end.
  Definition d_get (d : assoc) (k : K) : res V :=
    match d_find d k with Some v => Ok v | None => Err KeyError end.
  Fixpoint d_set (d : assoc) (k : K) (v : V) : assoc :=
    match d with
    | [] => [(k, v)]
    | (k', v') :: r => if keq k k' then (k', v) :: r else (k', v') :: d_set r k v
    end.
  Fixpoint d_remove (d : assoc) (k : K) : assoc :=
    match d with
    | [] => []
    | (k', v') :: r => if keq k k' then r else (k', v') :: d_remove r k
    end.
  Definition d_del (d : assoc) (k : K) : res assoc :=
    if d_mem d k then Ok (d_remove d k) else Err KeyError.
End Assoc.
Arguments assoc : clear implicits.

(* decimal rendering of a natural number (Python str(int) for n >= 0) *)
Fixpoint dec_digits_fuel (fuel : nat) (n : N) (acc : str) : str :=
  match fuel with
  | O => acc
  | S f =>
      let d := 48 + n mod 10 in
      let q := n / 10 in
      if N.eqb q 0 then d :: acc else dec_digits_fuel f q (d :: acc)
  end.
Definition dec_of_N (n : N) : str := dec_digits_fuel (S (N.to_nat (N.log2 n))) n [].

Definition is_digit (c : char) : bool := (48 <=? c) && (c <=? 57).

Fixpoint digits_val (acc : N) (s : str) : N :=
  match s with [] => acc | c :: r => digits_val (10 * acc + (c - 48)) r end.

(* keeps nat, N, Z, res and exn in every extracted model so that the shared OCaml glue (conv.ml) always finds them *)
Definition base_witness (n : nat) (a : N) (z : Z) (e : exn) : res (nat * N * Z) :=
  if exn_eqb e ValueError then Ok (n, a, z) else Err e.
