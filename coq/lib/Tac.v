(* Proof-side header: lets lia decide boolean comparisons, N/nat, and div/mod. Import in proof files only. *)
From Coq Require Export ZArith NArith Lia ZifyBool ZifyNat ZifyN.
Ltac Zify.zify_post_hook ::= Z.to_euclidean_division_equations.
