(* Extraction of the executable models to OCaml.  ExtrOcamlBasic only; N, Z, positive stay inductive;
   no Extract Constant.  Run from /verif/ocaml/gen (see /verif/build.sh). *)
Require Extraction.
Require Import ExtrOcamlBasic.
From V Require Import lib.PyBase model.Utils model.Decimal.
Extraction Language OCaml.
Set Extraction KeepSingleton.
Extraction "model.ml"
  (* base *) exn_eqb d_get d_set d_del str_eqb str_ltb dec_of_N
  (* C13 *) go_string go_string_orig denote_signed.
