(* Lemmas about model/OMParser.v for C15 (each validation rule rejects) and C14 (totality, OM half).
   Everything is proved for arbitrary oracles (int()/float(), number comparison, re classes): the Section
   variables below are universally quantified in the theorems. *)
From V Require Import lib.PyBase lib.PyStr lib.Tac model.Validation model.Expo model.TextParser model.OMParser.
Ltac Zify.zify_post_hook ::= Z.to_euclidean_division_equations.
Open Scope N_scope.

Lemma bind_ok {A B} (m : res A) (f : A -> res B) b :
  bind m f = Ok b -> exists a, m = Ok a /\ f a = Ok b.
Proof. destruct m; simpl; intros H; [eauto | discriminate]. Qed.

Lemma bind_err_l {A B} (m : res A) (f : A -> res B) e : m = Err e -> bind m f = Err e.
Proof. intros ->; reflexivity. Qed.

Definition is_err {A} (r : res A) : Prop := exists e, r = Err e.

Lemma is_err_bind_l {A B} (m : res A) (f : A -> res B) : is_err m -> is_err (bind m f).
Proof. intros [e ->]. exists e. reflexivity. Qed.

Lemma is_err_bind {A B} (m : res A) (f : A -> res B) :
  (forall a, m = Ok a -> is_err (f a)) -> is_err (bind m f).
Proof. destruct m as [a|e]; simpl; intros H; [apply H; reflexivity | exists e; reflexivity]. Qed.

Lemma is_err_Err {A} e : is_err (@Err A e).
Proof. exists e; reflexivity. Qed.
#[export] Hint Resolve is_err_Err : om.

Ltac crack H :=
  repeat (first
    [ discriminate H
    | apply bind_ok in H; let a := fresh "a" in let E := fresh "E" in destruct H as (a & E & H)
    | match type of H with
      | (match ?x with _ => _ end) = _ => let D := fresh "D" in destruct x eqn:D
      | (if ?x then _ else _) = _ => let D := fresh "D" in destruct x eqn:D
      end ]).

Lemma str_eqb_sym a b : str_eqb a b = str_eqb b a.
Proof.
  destruct (str_eqb a b) eqn:E; symmetry.
  - apply str_eqb_eq in E. subst. apply str_eqb_refl.
  - apply str_eqb_neq. apply str_eqb_neq in E. congruence.
Qed.

Section P.
  Variable legacy guard_fix fix_nhkeys fix_nhsfx fix_tsmix fix_isnan fix_unit fix_quote fix_tsexp fix_sname : bool.
  Variable NUM : Type.
  Variable parse_num parse_float : str -> option NUM.
  Variable parse_int : str -> option Z.
  Variable num_lt num_eqb : NUM -> NUM -> bool.
  Variable num_isinf num_integral num_huge : NUM -> bool.
  Variable num_zero num_one num_inf : NUM.
  Variable ts_float : Z -> Z -> option NUM.
  Variable is_word is_space_re is_digit_re : char -> bool.

  Notation step := (om_step_line legacy guard_fix fix_nhkeys fix_nhsfx fix_tsmix fix_isnan fix_unit fix_quote fix_tsexp fix_sname
                      NUM parse_num parse_float parse_int num_lt num_eqb num_isinf num_integral num_huge
                      num_zero num_one num_inf ts_float is_word is_space_re is_digit_re).
  Notation run := (om_run_lines legacy guard_fix fix_nhkeys fix_nhsfx fix_tsmix fix_isnan fix_unit fix_quote fix_tsexp fix_sname
                      NUM parse_num parse_float parse_int num_lt num_eqb num_isinf num_integral num_huge
                      num_zero num_one num_inf ts_float is_word is_space_re is_digit_re).
  Notation parse := (om_parse legacy guard_fix fix_nhkeys fix_nhsfx fix_tsmix fix_isnan fix_unit fix_quote fix_tsexp fix_sname
                      NUM parse_num parse_float parse_int num_lt num_eqb num_isinf num_integral num_huge
                      num_zero num_one num_inf ts_float is_word is_space_re is_digit_re).
  Notation flush := (om_flush legacy NUM parse_float num_lt num_eqb num_zero num_inf).
  Notation check_hist := (om_check_histogram NUM parse_float num_lt num_eqb num_zero num_inf).
  Notation hist_step := (om_check_hist_step NUM parse_float num_lt num_eqb num_zero num_inf).
  Notation hist_run := (om_check_hist_run NUM parse_float num_lt num_eqb num_zero num_inf).
  Notation st0 := (@om_st_init NUM).

  (* the line loop without the final flush: state and families after a prefix of the document *)
  Fixpoint om_prefix (st : om_st NUM) (lines : list str) (acc : list (om_family NUM))
    : res (om_st NUM * list (om_family NUM)) :=
    match lines with
    | [] => Ok (st, acc)
    | l :: r => do '(st', out) <- step st l; om_prefix st' r (acc ++ out)
    end.

  Lemma run_app st a b acc :
    run st (a ++ b) acc = do '(st', acc') <- om_prefix st a acc; run st' b acc'.
  Proof.
    revert st acc. induction a as [|l a IH]; intros st acc; simpl; [reflexivity|].
    destruct (step st l) as [[st' out]|e]; simpl; [apply IH | reflexivity].
  Qed.

  (* a line on which the step fails, wherever it stands, makes the whole parse fail *)
  Lemma run_step_err a l b :
    (forall st, is_err (step st l)) -> is_err (run st0 (a ++ l :: b) []).
  Proof.
    intros H. rewrite run_app. apply is_err_bind. intros [st acc] _. simpl.
    apply is_err_bind_l. apply H.
  Qed.

  (* the same with a condition on the state reached by the prefix *)
  Lemma run_step_err_at a l b :
    (forall st acc, om_prefix st0 a [] = Ok (st, acc) -> is_err (step st l)) ->
    is_err (run st0 (a ++ l :: b) []).
  Proof.
    intros H. rewrite run_app. apply is_err_bind. intros [st acc] E. simpl.
    apply is_err_bind_l. eapply H; eauto.
  Qed.

  (* ---------------- blank lines ---------------- *)
  Lemma step_blank st : is_err (step st []).
  Proof. unfold om_step_line. destruct (st_eof st); eauto with om. Qed.

  Lemma blank_line_rejected lines : In [] lines -> is_err (run st0 lines []).
  Proof.
    intros H. apply in_split in H as (a & b & ->). apply run_step_err. apply step_blank.
  Qed.

  (* ---------------- '# EOF' ---------------- *)
  Lemma step_after_eof st l : st_eof st = true -> is_err (step st l).
  Proof. intros H. unfold om_step_line. rewrite H. eauto with om. Qed.

  Lemma step_eof_sets st st' out : step st OM_EOF = Ok (st', out) -> st_eof st' = true.
  Proof.
    unfold om_step_line. destruct (st_eof st); [discriminate|].
    change (str_eqb OM_EOF OM_EOF) with true. cbv iota beta. unfold OM_EOF at 1.
    intros H. inversion H; subst; reflexivity.
  Qed.

  Lemma content_after_eof_rejected a l b : is_err (run st0 (a ++ OM_EOF :: l :: b) []).
  Proof.
    rewrite run_app. apply is_err_bind. intros [st acc] _. simpl.
    apply is_err_bind. intros [st' out] E. simpl.
    apply is_err_bind_l. apply step_after_eof. eapply step_eof_sets; eauto.
  Qed.

  Notation meta_line := (om_meta_line legacy guard_fix fix_unit NUM parse_float num_lt num_eqb num_zero num_inf).
  Notation sample_line := (om_sample_line legacy guard_fix fix_nhkeys fix_nhsfx fix_tsmix fix_isnan fix_quote fix_tsexp fix_sname
                      NUM parse_num parse_float parse_int num_lt num_eqb num_isinf num_integral num_huge
                      num_zero num_one num_inf ts_float is_word is_space_re is_digit_re).
  Notation enter_family := (om_enter_family legacy guard_fix fix_nhsfx fix_sname NUM parse_float num_lt num_eqb num_zero num_inf).
  Notation group_step := (om_group_step fix_tsmix NUM num_lt num_eqb ts_float).

  Lemma meta_line_eof st line st' out : meta_line st line = Ok (st', out) -> st_eof st' = st_eof st.
  Proof.
    unfold om_meta_line. intros H. crack H; inversion H; subst; simpl; crack E1; inversion E1; subst; reflexivity.
  Qed.

  Lemma enter_family_eof st s b st' out : enter_family st s b = Ok (st', out) -> st_eof st' = st_eof st.
  Proof.
    unfold om_enter_family. intros H. crack H; inversion H; subst; reflexivity.
  Qed.

  Lemma group_step_eof st name s st' : group_step st name s = Ok st' -> st_eof st' = st_eof st.
  Proof.
    unfold om_group_step. intros H. crack H; inversion H; subst; reflexivity.
  Qed.

  Lemma sample_line_eof st line st' out : sample_line st line = Ok (st', out) -> st_eof st' = st_eof st.
  Proof.
    unfold om_sample_line. intros H. crack H; inversion H; subst.
    apply enter_family_eof in E0. destruct b; simpl in E2.
    - inversion E2; subst. simpl. congruence.
    - apply group_step_eof in E2. congruence.
  Qed.

  Lemma step_eof_keep st l st' out : step st l = Ok (st', out) -> l <> OM_EOF -> st_eof st' = st_eof st.
  Proof.
    unfold om_step_line. intros H N. destruct (st_eof st) eqn:E0; [discriminate|].
    destruct l as [|c l]; [discriminate|].
    destruct (str_eqb (c :: l) OM_EOF) eqn:E1; [apply str_eqb_eq in E1; contradiction|].
    destruct (c =? HASH).
    - apply meta_line_eof in H. congruence.
    - apply sample_line_eof in H. congruence.
  Qed.

  Lemma prefix_no_eof lines : forall st acc st' acc',
    ~ In OM_EOF lines -> om_prefix st lines acc = Ok (st', acc') -> st_eof st' = st_eof st.
  Proof.
    induction lines as [|l r IH]; intros st acc st' acc' N H; simpl in H.
    - inversion H; subst; reflexivity.
    - apply bind_ok in H as ([st1 out] & E & H).
      apply IH in H; [|intro X; apply N; right; exact X].
      apply step_eof_keep in E; [congruence | intro X; apply N; left; rewrite X; reflexivity].
  Qed.

  Lemma eof_missing_rejected lines : ~ In OM_EOF lines -> is_err (run st0 lines []).
  Proof.
    intros N. rewrite <- (app_nil_r lines). rewrite run_app.
    apply is_err_bind. intros [st acc] E. simpl.
    apply prefix_no_eof in E; [|exact N]. simpl in E.
    apply is_err_bind. intros [out seen] _. simpl. rewrite E. eauto with om.
  Qed.

  (* ---------------- _check_histogram ---------------- *)
  Lemma skipn_app_len {A} (a b : list A) : skipn (length a) (a ++ b) = b.
  Proof. induction a; simpl; auto. Qed.

  Lemma hist_run_app name st a b :
    hist_run name st (a ++ b) = do st' <- hist_run name st a; hist_run name st' b.
  Proof.
    revert st. induction a as [|x a IH]; intros st; simpl; [reflexivity|].
    destruct (hist_step name st x); simpl; [apply IH | reflexivity].
  Qed.

  Lemma group_of_bucket (s : om_sample NUM) name l lev :
    os_name s = name ++ OM_bucket -> os_labels s = Some l -> d_find str_eqb l OM_le = Some lev ->
    om_group_for_sample s name OM_histogram = Ok (Some (d_remove str_eqb l OM_le)).
  Proof.
    intros Hn Hl Hf. unfold om_group_for_sample.
    change (str_eqb OM_histogram OM_info) with false.
    change (str_eqb OM_histogram OM_summary) with false.
    change (str_eqb OM_histogram OM_stateset) with false.
    change (str_eqb OM_histogram OM_histogram) with true.
    cbn [andb orb]. rewrite Hn, str_eqb_refl. unfold om_labels_of. rewrite Hl. cbn [bind].
    unfold d_del, d_mem. rewrite Hf. reflexivity.
  Qed.

  Definition is_bucket_of (name : str) (s : om_sample NUM) (l : assoc str str) (b : NUM) : Prop :=
    os_name s = name ++ OM_bucket /\ os_labels s = Some l /\
    exists lev, d_find str_eqb l OM_le = Some lev /\ parse_float lev = Some b.

  Lemma hist_step_bucket name st s l b st' :
    is_bucket_of name s l b -> hist_step name st s = Ok st' ->
    hs_group st' = Some (d_remove str_eqb l OM_le) /\ hs_ts st' = os_ts s /\
    exists h, hs_hv st' = Some h /\ hv_bucket h = Some b /\ os_value s = Some (hv_value h).
  Proof.
    intros (Hn & Hl & lev & Hf & Hp) H. unfold om_check_hist_step in H.
    rewrite (group_of_bucket s name l lev Hn Hl Hf) in H. cbn [bind] in H.
    rewrite Hn, skipn_app_len in H. unfold OM_bucket at 1 in H. cbv iota in H.
    apply bind_ok in H as (hv0 & E0 & H).
    change (str_eqb OM_bucket OM_bucket) with true in H. cbv iota in H.
    rewrite Hl in H. unfold d_get in H. rewrite Hf in H. cbn [bind] in H. rewrite Hp in H. cbn [bind] in H.
    destruct hv0 as [h|]; [|discriminate].
    crack H. inversion H; subst; clear H. cbn.
    repeat split; auto. eexists; repeat split; eauto.
    unfold om_value_of in E. destruct (os_value s); inversion E; subst; reflexivity.
  Qed.

  Notation num_le := (om_num_le NUM num_lt num_eqb).
  Notation ts_eqb := (om_ts_eqb NUM num_eqb).

  (* a second bucket of the same group and timestamp, processed in a state that remembers the first *)
  Lemma hist_step_bucket_after name st s2 l2 b2 g1 h :
    is_bucket_of name s2 l2 b2 ->
    hs_group st = Some g1 -> hs_hv st = Some h ->
    om_dict_eqb (d_remove str_eqb l2 OM_le) g1 = true -> ts_eqb (os_ts s2) (hs_ts st) = true ->
    (match hv_bucket h with Some b1 => num_le b2 b1 = true | None => False end)
    \/ (match os_value s2 with Some v2 => num_lt v2 (hv_value h) = true | None => True end) ->
    is_err (hist_step name st s2).
  Proof.
    intros (Hn & Hl & lev & Hf & Hp) Hg Hh Hge Hte Hbad. unfold om_check_hist_step.
    rewrite (group_of_bucket s2 name l2 lev Hn Hl Hf). cbn [bind].
    rewrite Hn, skipn_app_len. unfold OM_bucket at 1. cbv iota.
    rewrite Hg. cbn [om_optdict_eqb]. rewrite Hge, Hte. cbn [negb orb bind]. rewrite Hh.
    change (str_eqb OM_bucket OM_bucket) with true. cbv iota.
    rewrite Hl. unfold d_get. rewrite Hf. cbn [bind]. rewrite Hp. cbn [bind].
    destruct Hbad as [Hb | Hv].
    - destruct (hv_bucket h) as [b1|]; [|contradiction]. rewrite Hb. eauto with om.
    - destruct (match hv_bucket h with Some bk => num_le b2 bk | None => false end); [eauto with om|].
      unfold om_value_of. destruct (os_value s2) as [v2|]; cbn [bind]; [|eauto with om].
      rewrite Hv. eauto with om.
  Qed.

  (* two adjacent buckets of one group, anywhere in the sample list *)
  Lemma hist_adjacent_buckets_rejected name pre s1 s2 post l1 l2 b1 b2 :
    is_bucket_of name s1 l1 b1 -> is_bucket_of name s2 l2 b2 ->
    om_dict_eqb (d_remove str_eqb l2 OM_le) (d_remove str_eqb l1 OM_le) = true ->
    ts_eqb (os_ts s2) (os_ts s1) = true ->
    num_le b2 b1 = true
    \/ (match os_value s1, os_value s2 with Some v1, Some v2 => num_lt v2 v1 = true | _, _ => True end) ->
    forall st, is_err (hist_run name st (pre ++ s1 :: s2 :: post)).
  Proof.
    intros B1 B2 Hg Ht Hbad st. rewrite hist_run_app. apply is_err_bind. intros st1 _.
    cbn [om_check_hist_run]. apply is_err_bind. intros st2 E1.
    destruct (hist_step_bucket name st1 s1 l1 b1 st2 B1 E1) as (G & T & h & Hh & Hb & Hv).
    apply is_err_bind_l.
    eapply hist_step_bucket_after; eauto.
    - rewrite T; exact Ht.
    - rewrite Hb. destruct Hbad as [X|X]; [left; exact X | right].
      rewrite Hv in X. destruct (os_value s2); auto.
  Qed.

  Lemma check_hist_run_err name samples :
    is_err (hist_run name {| hs_group := None; hs_ts := None; hs_hv := None |} samples) ->
    is_err (check_hist samples name).
  Proof. intros H. unfold om_check_histogram. apply is_err_bind_l. exact H. Qed.

  Notation do_checks := (om_do_checks NUM num_eqb num_inf).

  Lemma do_checks_no_inf h :
    (match hv_bucket h with Some b => num_eqb b num_inf = false | None => True end) ->
    is_err (do_checks (Some h)).
  Proof.
    intros H. unfold om_do_checks. destruct (hv_bucket h) as [b|]; [rewrite H|]; cbn; eauto with om.
  Qed.

  Lemma do_checks_count_mismatch h c :
    hv_count h = Some c -> num_eqb (hv_value h) c = false -> is_err (do_checks (Some h)).
  Proof.
    intros Hc Hv. unfold om_do_checks. rewrite Hc, Hv.
    destruct (match hv_bucket h with Some b => negb (num_eqb b num_inf) | None => true end); cbn; eauto with om.
  Qed.

  (* the last sample of the family is a bucket whose bound is not +Inf *)
  Lemma hist_last_bucket_not_inf name pre s l b :
    is_bucket_of name s l b -> num_eqb b num_inf = false -> is_err (check_hist (pre ++ [s]) name).
  Proof.
    intros B Hb. unfold om_check_histogram. apply is_err_bind. intros st E.
    rewrite hist_run_app in E. apply bind_ok in E as (st1 & _ & E). cbn [om_check_hist_run] in E.
    apply bind_ok in E as (st2 & E & X). inversion X; subst; clear X.
    destruct (hist_step_bucket name st1 s l b st B E) as (G & T & h & Hh & Hbk & Hv).
    rewrite G, Hh. apply do_checks_no_inf. rewrite Hbk. exact Hb.
  Qed.

  (* a sample that opens another group (or timestamp) closes the current one: its checks run *)
  Lemma hist_step_switch name st s g0 h :
    hs_group st = Some g0 -> hs_hv st = Some h -> is_err (do_checks (Some h)) ->
    skipn (length name) (os_name s) <> [] ->
    (forall g, om_group_for_sample s name OM_histogram = Ok g ->
               om_optdict_eqb g (Some g0) = false \/ ts_eqb (os_ts s) (hs_ts st) = false) ->
    is_err (hist_step name st s).
  Proof.
    intros Hg Hh Hc Hs Hd. unfold om_check_hist_step.
    apply is_err_bind. intros g Eg.
    destruct (skipn (length name) (os_name s)) eqn:Es; [contradiction|].
    apply is_err_bind_l. rewrite Hg.
    destruct (Hd g Eg) as [X|X]; rewrite X; cbn [negb orb]; rewrite ?orb_true_r;
      apply is_err_bind_l; rewrite Hh; exact Hc.
  Qed.

  (* a bucket that is not +Inf directly followed by a sample of another group: any position *)
  Lemma hist_bucket_not_inf_then_switch name pre s l b nxt post :
    is_bucket_of name s l b -> num_eqb b num_inf = false ->
    skipn (length name) (os_name nxt) <> [] ->
    (forall g, om_group_for_sample nxt name OM_histogram = Ok g ->
               om_optdict_eqb g (Some (d_remove str_eqb l OM_le)) = false \/ ts_eqb (os_ts nxt) (os_ts s) = false) ->
    forall st, is_err (hist_run name st (pre ++ s :: nxt :: post)).
  Proof.
    intros B Hb Hs Hd st. rewrite hist_run_app. apply is_err_bind. intros st1 _.
    cbn [om_check_hist_run]. apply is_err_bind. intros st2 E1.
    destruct (hist_step_bucket name st1 s l b st2 B E1) as (G & T & h & Hh & Hbk & Hv).
    apply is_err_bind_l. eapply hist_step_switch; eauto.
    - apply do_checks_no_inf. rewrite Hbk. exact Hb.
    - rewrite T. exact Hd.
  Qed.

  Lemma app_str_eqb_head (a b c : str) : str_eqb (a ++ b) (a ++ c) = str_eqb b c.
  Proof. induction a as [|x a IH]; simpl; [reflexivity|]. rewrite N.eqb_refl. exact IH. Qed.

  (* _count / _gcount straight after the +Inf bucket of its group, at the end of the family, with another value *)
  Definition is_count_of (name : str) (s : om_sample NUM) (l : assoc str str) (c : NUM) : Prop :=
    (os_name s = name ++ OM_count \/ os_name s = name ++ OM_gcount) /\ os_labels s = Some l /\ os_value s = Some c.

  Lemma hist_count_mismatch_last name pre sb lb b vb sc lc c :
    is_bucket_of name sb lb b -> os_value sb = Some vb -> is_count_of name sc lc c ->
    om_dict_eqb lc (d_remove str_eqb lb OM_le) = true -> ts_eqb (os_ts sc) (os_ts sb) = true ->
    num_eqb vb c = false ->
    is_err (check_hist (pre ++ [sb; sc]) name).
  Proof.
    intros B Hvb (Hn & Hl & Hc) Hg Ht Hne. unfold om_check_histogram. apply is_err_bind. intros st E.
    rewrite hist_run_app in E. apply bind_ok in E as (st1 & _ & E). cbn [om_check_hist_run] in E.
    apply bind_ok in E as (st2 & E2 & E). apply bind_ok in E as (st3 & E3 & X). inversion X; subst; clear X.
    destruct (hist_step_bucket name st1 sb lb b st2 B E2) as (G & T & h & Hh & Hbk & Hv).
    rewrite Hvb in Hv. inversion Hv; subst; clear Hv.
    unfold om_check_hist_step in E3.
    assert (Eg : om_group_for_sample sc name OM_histogram = Ok (Some lc)).
    { unfold om_group_for_sample.
      change (str_eqb OM_histogram OM_info) with false.
      change (str_eqb OM_histogram OM_summary) with false.
      change (str_eqb OM_histogram OM_stateset) with false. cbn [andb orb].
      destruct Hn as [Hn|Hn]; rewrite Hn, app_str_eqb_head; cbn; rewrite Hl; reflexivity. }
    rewrite Eg in E3. cbn [bind] in E3. rewrite G, T in E3. cbn [om_optdict_eqb] in E3.
    rewrite Hg, Ht in E3. cbn [negb orb bind] in E3. rewrite Hh, Hc in E3.
    destruct Hn as [Hn|Hn]; rewrite Hn, skipn_app_len in E3; cbn in E3; inversion E3; subst;
      cbn [hs_group hs_hv];
      apply do_checks_count_mismatch with (c := c); cbn [hv_count hv_value]; auto.
  Qed.

  (* ---------------- from the sample list of a family to the document ---------------- *)
  Notation build_metric := (om_build_metric legacy NUM parse_float num_lt num_eqb num_zero num_inf).
  Notation hinit := {| hs_group := None; hs_ts := None; hs_hv := @None (om_hv NUM) |}.

  Definition hist_typ (t : option str) : Prop := t = Some OM_histogram \/ t = Some OM_gaugehistogram.

  Lemma build_metric_hist_err seen name doc t unit samples :
    hist_typ t -> is_err (check_hist samples name) -> is_err (build_metric seen name doc t unit samples).
  Proof.
    intros Ht Hc. unfold om_build_metric.
    destruct Ht as [-> | ->];
    repeat match goal with
           | |- is_err (if ?c then Err _ else _) => destruct c; [eauto with om|]
           end;
    apply is_err_bind_l; cbn; exact Hc.
  Qed.

  (* the family in progress is a histogram whose recorded samples already fail the group checks *)
  Definition BadFamily (st : om_st NUM) : Prop :=
    exists name, st_name st = Some name /\ hist_typ (st_typ st) /\
                 is_err (check_hist (rev (st_samples st)) name).
  (* ... already fail inside the scan, so that later samples cannot repair it *)
  Definition BadRun (st : om_st NUM) : Prop :=
    exists name, st_name st = Some name /\ hist_typ (st_typ st) /\
                 is_err (hist_run name hinit (rev (st_samples st))).

  Lemma BadRun_BadFamily st : BadRun st -> BadFamily st.
  Proof. intros (n & A & B & C). exists n. repeat split; auto. apply check_hist_run_err. exact C. Qed.

  Lemma flush_bad st : BadFamily st -> is_err (flush st).
  Proof.
    intros (n & A & B & C). unfold om_flush. rewrite A. apply is_err_bind_l.
    apply build_metric_hist_err; auto.
  Qed.

  Lemma flush_bad_not_ok st o : BadFamily st -> flush st = Ok o -> False.
  Proof. intros B E. destruct (flush_bad st B) as [e X]. congruence. Qed.

  Lemma meta_line_inv st line st' out :
    meta_line st line = Ok (st', out) ->
    (exists o, flush st = Ok o) \/
    (st_name st' = st_name st /\ st_samples st' = st_samples st /\ (st_typ st' = st_typ st \/ st_typ st = None)).
  Proof.
    unfold om_meta_line. intros H.
    crack H; inversion H; subst; clear H; crack E1; inversion E1; subst; clear E1; cbn;
      try (left; eexists; eassumption); right; auto.
  Qed.

  Lemma enter_family_inv st s b st' out :
    enter_family st s b = Ok (st', out) -> (exists o, flush st = Ok o) \/ st' = st.
  Proof.
    unfold om_enter_family. intros H. crack H; inversion H; subst; clear H;
      try (left; eexists; eassumption); right; auto.
  Qed.

  Lemma group_step_inv st name s st' :
    group_step st name s = Ok st' ->
    st_name st' = st_name st /\ st_typ st' = st_typ st /\
    (st_samples st' = st_samples st \/ st_samples st' = s :: st_samples st).
  Proof.
    unfold om_group_step. intros H. crack H; inversion H; subst; clear H; cbn; repeat split; auto;
      match goal with |- context[if ?c then _ else _] => destruct c; auto end.
  Qed.

  Lemma sample_line_inv st line st' out :
    sample_line st line = Ok (st', out) ->
    (exists o, flush st = Ok o) \/
    (st_name st' = st_name st /\ st_typ st' = st_typ st /\
     (st_samples st' = st_samples st \/ exists s, st_samples st' = s :: st_samples st)).
  Proof.
    unfold om_sample_line. intros H. crack H; inversion H; subst; clear H.
    apply enter_family_inv in E0 as [F | ->]; [left; exact F | right].
    destruct b; cbn in E2.
    - inversion E2; subst. cbn. repeat split; auto. right; eexists; reflexivity.
    - apply group_step_inv in E2 as (A & B & [C|C]); repeat split; auto. right; eexists; exact C.
  Qed.

  Lemma BadRun_step st l st' out : BadRun st -> step st l = Ok (st', out) -> BadRun st'.
  Proof.
    intros Bad H. pose proof (BadRun_BadFamily st Bad) as BF.
    destruct Bad as (n & A & B & C).
    unfold om_step_line in H. destruct (st_eof st); [discriminate|].
    destruct l as [|c l]; [discriminate|].
    destruct (str_eqb (c :: l) OM_EOF).
    { inversion H; subst. exists n. cbn. auto. }
    destruct (c =? HASH).
    - apply meta_line_inv in H as [[o F] | (N & S & T)]; [exfalso; eapply flush_bad_not_ok; eauto|].
      exists n. rewrite N, S. repeat split; auto.
      destruct T as [T|T]; [rewrite T; exact B | destruct B as [B|B]; congruence].
    - apply sample_line_inv in H as [[o F] | (N & T & S)]; [exfalso; eapply flush_bad_not_ok; eauto|].
      exists n. rewrite N, T. repeat split; auto.
      destruct S as [S | [s S]]; rewrite S; [exact C|].
      cbn [rev]. rewrite hist_run_app. apply is_err_bind_l. exact C.
  Qed.

  Lemma BadRun_run lines : forall st acc, BadRun st -> is_err (run st lines acc).
  Proof.
    induction lines as [|l r IH]; intros st acc Bad; cbn [om_run_lines].
    - apply is_err_bind_l. apply flush_bad. apply BadRun_BadFamily. exact Bad.
    - apply is_err_bind. intros [st' out] E. cbn. apply IH. eapply BadRun_step; eauto.
  Qed.

  (* document level: once a prefix of the document has recorded an offending scan, nothing repairs it *)
  Lemma BadRun_document pre post st acc :
    om_prefix st0 pre [] = Ok (st, acc) -> BadRun st -> is_err (run st0 (pre ++ post) []).
  Proof.
    intros E Bad. rewrite run_app, E. cbn. apply BadRun_run. exact Bad.
  Qed.

  (* a family that ends (by a line that closes it, or the end of the document) while its samples fail the
     group checks *)
  Lemma BadFamily_document_end pre st acc :
    om_prefix st0 pre [] = Ok (st, acc) -> BadFamily st -> is_err (run st0 pre []).
  Proof.
    intros E Bad. rewrite <- (app_nil_r pre). rewrite run_app, E. cbn.
    apply is_err_bind_l. apply flush_bad. exact Bad.
  Qed.

  (* ---------------- per-sample rules ---------------- *)
  Notation post_checks := (om_post_checks fix_isnan NUM num_lt num_eqb num_huge num_zero num_one).
  Notation pre_checks := (om_pre_checks NUM parse_float num_lt num_eqb num_integral num_zero num_one num_inf).
  Notation read_sample := (om_read_sample legacy guard_fix fix_nhkeys fix_nhsfx fix_quote fix_tsexp fix_sname NUM parse_num parse_float
                             parse_int num_eqb num_isinf is_word is_space_re is_digit_re).
  Notation num_nan := (om_num_nan NUM num_eqb).

  Ltac skip_if := match goal with
                  | |- is_err (if ?c then Err _ else _) => destruct c eqn:?; [eauto with om|]
                  end.
  Ltac skip_bind := apply is_err_bind; intros [] _.

  Lemma post_nan_rejected name typ s v :
    os_value s = Some v -> num_nan v = true ->
    mem_str (skipn (length name) (os_name s)) [OM_total; OM_sum; OM_count; OM_bucket; OM_gcount; OM_gsum] = true ->
    is_err (post_checks name typ s).
  Proof.
    intros Hv Hn Hm. unfold om_post_checks. cbv zeta. skip_if. skip_if. skip_bind.
    apply is_err_bind_l. rewrite Hm. unfold om_isnan. rewrite Hv.
    destruct fix_isnan; [|destruct (num_huge v)]; cbn [bind]; try rewrite Hn; eauto with om.
  Qed.

  Lemma post_negative_rejected name typ s v :
    os_value s = Some v -> num_lt v num_zero = true ->
    mem_str (skipn (length name) (os_name s)) [OM_total; OM_sum; OM_count; OM_bucket; OM_gcount] = true ->
    is_err (post_checks name typ s).
  Proof.
    intros Hv Hn Hm. unfold om_post_checks. cbv zeta. skip_if. skip_if. skip_bind. skip_bind.
    apply is_err_bind_l. rewrite Hm. unfold om_value_of. rewrite Hv. cbn [bind]. rewrite Hn. eauto with om.
  Qed.

  Lemma post_info_value_rejected name s :
    (match os_value s with Some v => num_eqb v num_one = false | None => True end) ->
    is_err (post_checks name (Some OM_info) s).
  Proof.
    intros Hv. unfold om_post_checks.
    change (om_typ_is (Some OM_info) OM_stateset) with false.
    change (om_typ_is (Some OM_info) OM_info) with true. cbn [andb].
    destruct (os_value s) as [v|]; [rewrite Hv|]; cbn; eauto with om.
  Qed.

  Lemma post_stateset_value_rejected name s :
    (match os_value s with Some v => num_eqb v num_zero = false /\ num_eqb v num_one = false | None => True end) ->
    is_err (post_checks name (Some OM_stateset) s).
  Proof.
    intros Hv. unfold om_post_checks.
    change (om_typ_is (Some OM_stateset) OM_stateset) with true. cbn [andb].
    destruct (os_value s) as [v|]; [destruct Hv as [A B]; rewrite A, B|]; cbn; eauto with om.
  Qed.

  Lemma post_quantile_negative_rejected name s v :
    os_name s = name -> os_value s = Some v -> num_lt v num_zero = true ->
    is_err (post_checks name (Some OM_summary) s).
  Proof.
    intros Hn Hv Hl. unfold om_post_checks.
    change (om_typ_is (Some OM_summary) OM_stateset) with false.
    change (om_typ_is (Some OM_summary) OM_info) with false.
    change (om_typ_is (Some OM_summary) OM_summary) with true. cbn [andb].
    rewrite Hn, str_eqb_refl. apply is_err_bind_l. unfold om_value_of. rewrite Hv. cbn [bind]. rewrite Hl.
    eauto with om.
  Qed.

  Definition exemplar_eligible (typ : option str) (s : om_sample NUM) : bool :=
    ((om_typ_is typ OM_histogram || om_typ_is typ OM_gaugehistogram) && ends_with OM_bucket (os_name s))
    || (om_typ_is typ OM_counter && ends_with OM_total (os_name s)).

  Lemma post_exemplar_rejected name typ s e :
    os_ex s = Some e -> exemplar_eligible typ s = false -> is_err (post_checks name typ s).
  Proof.
    intros He Hn. unfold om_post_checks. cbv zeta. skip_if. skip_if. skip_bind. skip_bind. skip_bind.
    rewrite He. unfold exemplar_eligible in Hn. rewrite Hn. eauto with om.
  Qed.

  Lemma pre_stateset_label_rejected name s l :
    os_labels s = Some l -> d_mem str_eqb l name = false -> is_err (pre_checks name (Some OM_stateset) s).
  Proof.
    intros Hl Hm. unfold om_pre_checks.
    change (om_typ_is (Some OM_stateset) OM_stateset) with true. cbv iota.
    rewrite Hl, Hm. apply is_err_bind_l. eauto with om.
  Qed.

  Ltac pre_skip :=
    repeat match goal with
           | |- is_err (bind ?m _) => apply is_err_bind; intros [] _
           end.

  Lemma pre_quantile_rejected name s l :
    os_name s = name -> os_labels s = Some l ->
    (match d_find str_eqb l OM_quantile with
     | None => True
     | Some qv => match parse_float qv with
                  | None => True
                  | Some q => om_num_le NUM num_lt num_eqb num_zero q && om_num_le NUM num_lt num_eqb q num_one = false
                  end
     end) ->
    is_err (pre_checks name (Some OM_summary) s).
  Proof.
    intros Hn Hl Hq. unfold om_pre_checks. pre_skip.
    change (om_typ_is (Some OM_summary) OM_summary) with true. rewrite Hn, str_eqb_refl. cbn [andb].
    unfold om_labels_of. rewrite Hl. cbn [bind].
    destruct (d_find str_eqb l OM_quantile) as [qv|]; [|eauto with om].
    destruct (parse_float qv) as [q|]; [|eauto with om]. rewrite Hq. cbn. eauto with om.
  Qed.

  Lemma pre_bucket_le_rejected name typ s l :
    os_name s = name ++ OM_bucket -> os_labels s = Some l ->
    (match d_find str_eqb l OM_le with None => True | Some v => v = OM_NaN end) ->
    is_err (pre_checks name typ s).
  Proof.
    intros Hn Hl Hq. unfold om_pre_checks. apply is_err_bind. intros [] _.
    apply is_err_bind_l. rewrite Hn, str_eqb_refl. unfold om_labels_of. rewrite Hl. cbn [bind].
    destruct (d_find str_eqb l OM_le) as [v|]; [|eauto with om]. subst v.
    change (str_eqb OM_NaN OM_NaN) with true. cbv iota. eauto with om.
  Qed.

  Lemma pre_nonintegral_rejected name typ s v :
    os_name s = name ++ OM_bucket \/ os_name s = name ++ OM_count \/ os_name s = name ++ OM_gcount ->
    os_value s = Some v -> num_integral v = false -> is_err (pre_checks name typ s).
  Proof.
    intros Hn Hv Hi. unfold om_pre_checks. apply is_err_bind. intros [] _. apply is_err_bind. intros [] _.
    destruct Hn as [Hn | Hn].
    - apply is_err_bind_l. rewrite Hn, str_eqb_refl. unfold om_not_integral. rewrite Hv. cbn [bind]. rewrite Hi.
      cbn. eauto with om.
    - apply is_err_bind. intros [] _. apply is_err_bind_l.
      destruct Hn as [Hn|Hn]; rewrite Hn, str_eqb_refl; rewrite ?orb_true_r; cbn [orb];
        unfold om_not_integral; rewrite Hv; cbn [bind]; rewrite Hi; cbn; eauto with om.
  Qed.

  (* a sample line that stays in the family in progress and fails one of the per-sample checks *)
  Lemma sample_line_checks_err st line s name :
    read_sample (st_typ st) line = Ok (s, false) ->
    mem_str (os_name s) (st_allowed st) = true -> st_name st = Some name ->
    is_err (pre_checks name (st_typ st) s) \/ is_err (post_checks name (st_typ st) s) ->
    is_err (sample_line st line).
  Proof.
    intros Hr Hm Hn Hc. unfold om_sample_line. rewrite Hr. cbn [bind].
    unfold om_enter_family. rewrite Hm. cbn [negb andb bind]. rewrite Hn.
    destruct Hc as [Hc|Hc]; [apply is_err_bind_l; exact Hc|].
    apply is_err_bind. intros [] _. apply is_err_bind. intros st2 _. apply is_err_bind_l. exact Hc.
  Qed.

  (* timestamps inside a group *)
  Lemma group_step_ts_rejected st name s gd g0 :
    om_group_for_sample s name (match st_typ st with Some t => t | None => [] end) = Ok (Some gd) ->
    st_group st = Some g0 -> om_kvs_eqb (sort_kv gd) g0 = true ->
    (match os_ts s, st_gts st with
     | None, Some _ | Some _, None => True                       (* present on only part of the group *)
     | Some b, Some a => om_ts_gt fix_tsmix NUM num_lt ts_float a b = Ok true   (* going backwards *)
                         /\ om_typ_is (st_typ st) OM_info = false
     | None, None => False
     end) ->
    is_err (group_step st name s).
  Proof.
    intros Hg H0 He Ht. unfold om_group_step. rewrite Hg. cbn [bind]. rewrite H0, He. cbn [negb andb].
    apply is_err_bind_l.
    destruct (os_ts s) as [b|], (st_gts st) as [a|]; cbn; try contradiction; eauto with om.
    destruct Ht as [A B]. rewrite A. cbn [bind]. rewrite B. cbn. eauto with om.
  Qed.

  (* exemplar label sets beyond 128 characters are never returned *)
  Lemma exemplar_length_bound text v ts ex :
    om_parse_remaining_text legacy guard_fix fix_quote fix_tsexp NUM parse_num parse_float parse_int num_eqb num_isinf text
      = Ok (v, ts, Some ex) -> (om_sum_len (oe_labels NUM ex) <= 128)%nat.
  Proof.
    unfold om_parse_remaining_text. intros H. destruct (om_split_first SP text) as [v0 rest].
    crack H; inversion H; subst; clear H. cbn. apply Nat.ltb_ge. assumption.
  Qed.

  (* ---------------- C14: the per-sample stage raises nothing but ValueError (repaired source) ---------------- *)
  Ltac split_ifs :=
    repeat (match goal with
            | |- context[if ?c then _ else _] => destruct c eqn:?
            | |- context[match ?x with Some _ => _ | None => _ end] => destruct x eqn:?
            end; cbn [bind only_VE]); auto.

  Lemma post_checks_only_VE name typ s v :
    fix_isnan = true -> os_value s = Some v -> only_VE (post_checks name typ s).
  Proof.
    intros F Hv. unfold om_post_checks, om_value_of, om_isnan. rewrite Hv, F. cbv zeta. cbn [bind].
    split_ifs.
  Qed.

  Lemma pre_checks_only_VE name typ s v l :
    os_value s = Some v -> os_labels s = Some l -> only_VE (pre_checks name typ s).
  Proof.
    intros Hv Hl. unfold om_pre_checks, om_labels_of, om_not_integral, om_uncanonical. rewrite Hv, Hl. cbn [bind].
    split_ifs.
  Qed.

  (* the checks in front of the grouping code guard its dictionary deletions *)
  Lemma pre_checks_guard name typ s l :
    os_labels s = Some l -> pre_checks name typ s = Ok tt ->
    exists gd, om_group_for_sample s name (match typ with Some t => t | None => [] end) = Ok (Some gd).
  Proof.
    intros Hl H. unfold om_pre_checks, om_labels_of in H. rewrite Hl in H.
    apply bind_ok in H as ([] & HA & H). apply bind_ok in H as ([] & HB & H).
    apply bind_ok in H as ([] & HC & H). apply bind_ok in H as ([] & HD & H).
    unfold om_group_for_sample, om_labels_of, d_del, d_mem. rewrite Hl. cbn [bind].
    destruct typ as [t|]; cbn [om_typ_is om_opt_str_eqb] in *.
    2:{ cbn. eauto. }
    destruct (str_eqb t OM_info) eqn:Ti; [eauto|].
    destruct (str_eqb t OM_summary) eqn:Ts.
    { cbn [andb] in *. rewrite (str_eqb_sym (os_name s) name). destruct (str_eqb name (os_name s)) eqn:En.
      - cbn [bind] in H. destruct (d_find str_eqb l OM_quantile); [cbn; eauto | discriminate].
      - apply str_eqb_eq in Ts. subst t.
        change (str_eqb OM_summary OM_stateset) with false.
        change (str_eqb OM_summary OM_histogram) with false.
        change (str_eqb OM_summary OM_gaugehistogram) with false. cbn. eauto. }
    cbn [andb].
    destruct (str_eqb t OM_stateset) eqn:Tst.
    { unfold d_mem in HA. destruct (d_find str_eqb l name); [cbn; eauto | discriminate]. }
    destruct ((str_eqb t OM_histogram || str_eqb t OM_gaugehistogram) && str_eqb (os_name s) (name ++ OM_bucket)) eqn:Th;
      [|eauto].
    apply andb_true_iff in Th as [_ Th]. rewrite (str_eqb_sym (os_name s)) in Th.
    rewrite Th in HB. cbn [bind] in HB.
    destruct (d_find str_eqb l OM_le); [cbn; eauto | discriminate].
  Qed.

  Lemma group_step_only_VE st name s l :
    fix_tsmix = true -> os_labels s = Some l ->
    (exists gd, om_group_for_sample s name (match st_typ st with Some t => t | None => [] end) = Ok (Some gd)) ->
    only_VE (group_step st name s).
  Proof.
    intros F Hl [gd Hg]. unfold om_group_step, om_labels_of, om_ts_gt. rewrite Hg, Hl, F. cbn [bind].
    destruct (os_ts s) as [[s1 n1|x1]|], (st_gts st) as [[s2 n2|x2]|]; cbn [Bool.eqb negb];
    split_ifs;
      repeat (match goal with
              | |- context[match ?x with OTs _ _ => _ | OTf _ => _ end] => destruct x
              end; cbn [bind only_VE]; split_ifs).
  Qed.
End P.

(* ---------------- duplicate label names (prometheus_client/parser.py: parse_labels) ---------------- *)
Section Labels.
  Variable legacy guard_fix : bool.

  Lemma d_mem_false_notin (d : assoc str str) k : d_mem str_eqb d k = false -> ~ In k (map fst d).
  Proof.
    unfold d_mem. induction d as [|[k' v] d IH]; simpl; intros H; [tauto|].
    destruct (str_eqb k k') eqn:E; [discriminate|].
    intros [X|X]; [subst; rewrite str_eqb_refl in E; discriminate | exact (IH H X)].
  Qed.

  Lemma d_set_fresh (d : assoc str str) k v : d_mem str_eqb d k = false -> d_set str_eqb d k v = d ++ [(k, v)].
  Proof.
    unfold d_mem. induction d as [|[k' v'] d IH]; simpl; intros H; [reflexivity|].
    destruct (str_eqb k k') eqn:E; [discriminate|]. rewrite IH; auto.
  Qed.

  Lemma NoDup_snoc {A} (l : list A) x : NoDup l -> ~ In x l -> NoDup (l ++ [x]).
  Proof.
    induction l as [|y l IH]; simpl; intros ND NI; [constructor; auto; constructor|].
    inversion ND; subst. constructor.
    - rewrite in_app_iff. simpl. intros [X|[X|[]]]; [contradiction | subst; apply NI; left; reflexivity].
    - apply IH; auto.
  Qed.

  Lemma parse_one_label_nodup term labels r :
    NoDup (map fst labels) -> parse_one_label legacy guard_fix term labels = Ok r -> NoDup (map fst r).
  Proof.
    intros ND H. unfold parse_one_label in H. crack H. inversion H; subst; clear H.
    rewrite d_set_fresh by assumption. rewrite map_app. cbn.
    apply NoDup_snoc; [exact ND | apply d_mem_false_notin; assumption].
  Qed.

  Lemma parse_labels_fuel_nodup fuel : forall sub om labels r,
    NoDup (map fst labels) -> parse_labels_fuel legacy guard_fix fuel sub om labels = Ok r -> NoDup (map fst r).
  Proof.
    induction fuel as [|f IH]; intros sub om labels r ND H; simpl in H; [discriminate|].
    destruct sub as [|c sub]; [inversion H; subst; exact ND|].
    apply bind_ok in H as ([term sub'] & E & H).
    destruct term as [|t term].
    - destruct om; [discriminate|]. eapply IH; eauto.
    - apply bind_ok in H as (labels' & E1 & H). eapply IH; [|exact H].
      eapply parse_one_label_nodup; eauto.
  Qed.

  (* every label set the parser returns has pairwise different names: a repeated name is never accepted *)
  Lemma parse_labels_nodup s om r : parse_labels legacy guard_fix s om = Ok r -> NoDup (map fst r).
  Proof.
    unfold parse_labels. intros H. destruct (strip s) as [|c t] eqn:E; [inversion H; constructor|].
    destruct (om && (c =? COMMA)); [discriminate|].
    eapply parse_labels_fuel_nodup; [|exact H]. constructor.
  Qed.
End Labels.
