(* C04 L5, info and stateset families meet family_acc of proofs/OMFamilyRoundTrip.v. *)
From V Require Import lib.PyBase lib.Tac lib.PyStr model.Utils model.Validation model.Expo model.TextParser model.OMParser
  proofs.LabelRoundTrip proofs.OMSampleRoundTrip proofs.OMDocRoundTrip proofs.OMCounterRoundTrip proofs.OMFamilyRoundTrip
  proofs.OMGroupingFacts proofs.OMSummaryRoundTrip proofs.OMGaugeCounterInst.
From Coq Require Import Permutation.
Ltac Zify.zify_post_hook ::= Z.to_euclidean_division_equations.
Open Scope N_scope.

Section InfoState.
  Variable fix_nhkeys fix_nhsfx fix_tsmix fix_isnan fix_tsexp fix_sname : bool.
  Variable NUM : Type.
  Variable parse_num parse_float : str -> option NUM.
  Variable parse_int : str -> option Z.
  Variable num_lt num_eqb : NUM -> NUM -> bool.
  Variable num_isinf num_integral num_huge : NUM -> bool.
  Variable num_zero num_one num_inf : NUM.
  Variable ts_float : Z -> Z -> option NUM.
  Variable is_word is_space_re is_digit_re : char -> bool.
  Variable val_of : sample -> NUM.
  Variable ts_of : sample -> option (om_tsv NUM).
  Variable ex_of : sample -> option (om_exemplar NUM).
  Variable n : str.

  Notation ps := (g_ps_of NUM val_of ts_of ex_of).
  Notation rd_ok := (read_ok fix_tsexp NUM parse_num parse_float parse_int num_eqb num_isinf val_of ts_of ex_of).
  Notation pre_checks := (om_pre_checks NUM parse_float num_lt num_eqb num_integral num_zero num_one num_inf).
  Notation post_checks := (om_post_checks fix_isnan NUM num_lt num_eqb num_huge num_zero num_one).
  Notation s_acc := (sample_acc fix_nhkeys fix_nhsfx fix_isnan fix_tsexp NUM parse_num parse_float parse_int num_lt num_eqb
                       num_isinf num_integral num_huge num_zero num_one num_inf is_word is_space_re is_digit_re val_of ts_of ex_of).
  Notation f_acc := (family_acc fix_nhkeys fix_nhsfx fix_tsmix fix_isnan fix_tsexp NUM parse_num parse_float parse_int num_lt
                       num_eqb num_isinf num_integral num_huge num_zero num_one num_inf ts_float is_word is_space_re is_digit_re
                       val_of ts_of ex_of).

  Lemma plain_none s : rd_ok s -> s_ex s = None -> s_ts_om s = None -> ts_of s = None /\ ex_of s = None.
  Proof. intros (_ & _ & _ & _ & Hts & Hex) He Ht. rewrite Ht in Hts. rewrite He in Hex. split; assumption. Qed.

  (* ---------- info: samples n_info, value 1, one group ---------- *)
  Definition info_sample_ok (s : sample) : Prop :=
    rd_ok s /\ s_ex s = None /\ s_ts_om s = None /\ s_name s = n ++ OM_infosfx /\ num_eqb (val_of s) num_one = true.

  Definition info_family_wf (f : family) : Prop :=
    f_name f = n /\ n <> [] /\ f_type f = Expo.S_infot /\ f_unit f = [] /\
    Forall info_sample_ok (f_samples f) /\
    ForallOrdPairs (fun s1 s2 => ~ Permutation (s_labels s1) (s_labels s2)) (f_samples f).

  Lemma info_sample_acc s : info_sample_ok s -> s_acc OM_info n s.
  Proof.
    intros (Hr & He & Ht & Hn & Hv). destruct (plain_none s Hr He Ht) as [_ Hex].
    split; [exact Hr|]. split; [left; exact He|]. split; [|split; [|split; [|discriminate]]].
    - rewrite Hn. unfold allowed_names. change (om_type_suffixes OM_info [[]]) with [OM_infosfx]. cbn [map mem_str].
      rewrite str_eqb_refl. reflexivity.
    - unfold om_pre_checks. cbn [os_name g_ps_of]. rewrite Hn. rewrite !str_eqb_app_head. reflexivity.
    - unfold om_post_checks. cbn [os_name os_value os_ex g_ps_of]. rewrite Hn, Hex, Hv.
      change (om_typ_is (Some OM_info) OM_stateset) with false. change (om_typ_is (Some OM_info) OM_info) with true.
      change (om_typ_is (Some OM_info) OM_summary) with false. cbn [andb negb]. cbv zeta. cbn [bind].
      rewrite skipn_app, skipn_all, Nat.sub_diag. cbn [skipn app]. reflexivity.
  Qed.

  Definition ikey (_ : sample) : list (str * str) := [].

  Lemma info_key s : key_of NUM val_of ts_of ex_of OM_info n ikey s.
  Proof. unfold key_of, om_group_for_sample. eexists. split; reflexivity. Qed.

  Lemma info_sids l : Forall info_sample_ok l ->
    ForallOrdPairs (fun s1 s2 => ~ Permutation (s_labels s1) (s_labels s2)) l -> NoDup (map sid_of l).
  Proof.
    intros Hok Hp. induction Hp as [|s l Hs _ IH]; [constructor|]. inversion Hok; subst. cbn [map]. constructor; [|apply IH; assumption].
    intro Hin. apply in_map_iff in Hin as (s' & E & Hs'). rewrite Forall_forall in Hs.
    apply (Hs s' Hs'). apply lkey_perm. unfold sid_of in E. inversion E as [[E1 E2]]. exact E2.
  Qed.

  Theorem info_family_acc f : info_family_wf f -> f_acc f.
  Proof.
    intros (Hfn & Hne & Hty & Hun & Hok & Hpw). unfold family_acc. rewrite Hfn, Hty.
    split; [exact Hne|]. split; [reflexivity|]. split; [left; exact Hun|].
    split; [eapply Forall_impl; [|exact Hok]; apply info_sample_acc|].
    split; [|discriminate].
    apply (grun_nots fix_tsmix NUM num_lt num_eqb ts_float val_of ts_of ex_of Expo.S_infot n ikey (f_samples f) None [] []).
    - eapply Forall_impl; [|exact Hok]. intros s (Hr & He & Ht & _). split; [apply info_key|apply (plain_none s Hr He Ht)].
    - destruct (f_samples f) as [|s0 l0] eqn:El; [reflexivity|]. rewrite <- El in *.
      replace (f_samples f) with (concat [f_samples f]) by (cbn [concat]; apply app_nil_r).
      apply wgk_groups; [exact I| | |intros ? ? []].
      + constructor; [|constructor]. split; [rewrite El; discriminate|]. split; [rewrite Forall_forall; intros x _; rewrite El; reflexivity|].
        apply info_sids; assumption.
      + constructor; [intros []|constructor].
  Qed.

  (* ---------- stateset: samples n{n=state,...}, value 0 or 1, grouped by the other labels ---------- *)
  Definition state_sample_ok (s : sample) : Prop :=
    rd_ok s /\ s_ex s = None /\ s_ts_om s = None /\ s_name s = n /\
    (exists st, In (n, st) (s_labels s)) /\
    num_eqb (val_of s) num_zero || num_eqb (val_of s) num_one = true.

  Definition stkey (s : sample) : list (str * str) := sort_kv (d_remove str_eqb (sort_kv (s_labels s)) n).

  Definition stateset_family_wf (f : family) : Prop :=
    f_name f = n /\ n <> [] /\ f_type f = Expo.S_stateset /\ f_unit f = [] /\
    Forall state_sample_ok (f_samples f) /\ wgk stkey None [] [] (f_samples f) = true.

  Lemma state_sample_acc s : state_sample_ok s -> s_acc OM_stateset n s.
  Proof.
    intros (Hr & He & Ht & Hn & (st & Hin) & Hv). destruct (plain_none s Hr He Ht) as [_ Hex].
    assert (Hf : d_find str_eqb (sort_kv (s_labels s)) n = Some st).
    { destruct Hr as (_ & Hnd & _). apply d_find_sorted; assumption. }
    split; [exact Hr|]. split; [left; exact He|]. split; [|split; [|split; [|discriminate]]].
    - rewrite Hn. unfold allowed_names. change (om_type_suffixes OM_stateset [[]]) with [@nil char]. cbn [map mem_str].
      rewrite app_nil_r, str_eqb_refl. reflexivity.
    - unfold om_pre_checks. cbn [os_name os_labels g_ps_of]. rewrite Hn.
      change (om_typ_is (Some OM_stateset) OM_stateset) with true. cbv iota. unfold d_mem. rewrite Hf. cbn [bind].
      rewrite (app_neq_self n OM_bucket), (app_neq_self n OM_count), (app_neq_self n OM_gcount) by discriminate. reflexivity.
    - unfold om_post_checks. cbn [os_name os_value os_ex g_ps_of]. rewrite Hn, Hex, Hv.
      change (om_typ_is (Some OM_stateset) OM_stateset) with true. change (om_typ_is (Some OM_stateset) OM_info) with false.
      change (om_typ_is (Some OM_stateset) OM_summary) with false. cbn [andb negb]. cbv zeta. cbn [bind].
      rewrite skipn_all. reflexivity.
  Qed.

  Lemma state_key s : state_sample_ok s -> key_of NUM val_of ts_of ex_of OM_stateset n stkey s.
  Proof.
    intros (Hr & _ & _ & _ & (st & Hin) & _). unfold key_of, stkey, om_group_for_sample. cbn [os_name os_labels g_ps_of].
    change (str_eqb OM_stateset OM_info) with false. change (str_eqb OM_stateset OM_summary) with false.
    change (str_eqb OM_stateset OM_stateset) with true. cbn [andb].
    unfold om_labels_of. cbn [os_labels g_ps_of bind]. destruct Hr as (_ & Hnd & _).
    unfold d_del, d_mem. rewrite (d_find_sorted _ _ _ Hnd Hin). cbn [bind]. eexists. split; reflexivity.
  Qed.

  Theorem stateset_family_acc f : stateset_family_wf f -> f_acc f.
  Proof.
    intros (Hfn & Hne & Hty & Hun & Hok & Hwg). unfold family_acc. rewrite Hfn, Hty.
    split; [exact Hne|]. split; [reflexivity|]. split; [left; exact Hun|].
    split; [eapply Forall_impl; [|exact Hok]; apply state_sample_acc|].
    split; [|discriminate].
    apply (grun_nots fix_tsmix NUM num_lt num_eqb ts_float val_of ts_of ex_of Expo.S_stateset n stkey (f_samples f) None [] []);
      [|exact Hwg].
    eapply Forall_impl; [|exact Hok]. intros s Hs. split; [apply state_key; exact Hs|].
    destruct Hs as (Hr & He & Ht & _). apply (plain_none s Hr He Ht).
  Qed.
End InfoState.
