(* C04 L3': the label block of the OpenMetrics exposition, read by parse_labels in OpenMetrics mode (om = true;
   proofs/LabelRoundTrip.v has the text mode, om = false), including the block that starts with the quoted metric
   name followed by comma-space. *)
From V Require Import lib.PyBase lib.Tac lib.PyStr model.Validation model.Expo model.TextParser
  proofs.EscapeProofs proofs.ScanFacts proofs.TextParserTotal proofs.LabelRoundTrip proofs.SampleRoundTrip.
From Coq Require Import Permutation.
Ltac Zify.zify_post_hook ::= Z.to_euclidean_division_equations.
Open Scope N_scope.

(* ---------- one scanner step ---------- *)
Lemma nuq0_skip chs c rest : c <> BS -> c <> DQ -> mem_char c chs = false ->
  nuq0 chs (c :: rest) false false = option_map S (nuq0 chs rest false false).
Proof.
  intros Hb Hq Hm. cbn [nuq0]. destruct (N.eqb_spec c BS); [contradiction|]. destruct (N.eqb_spec c DQ); [contradiction|].
  cbn [andb negb]. rewrite Hm. reflexivity.
Qed.

Lemma nuq0_hit chs c rest : c <> DQ -> mem_char c chs = true -> nuq0 chs (c :: rest) false false = Some 0%nat.
Proof.
  intros Hq Hm. cbn [nuq0]. destruct (N.eqb_spec c DQ); [contradiction|]. cbn [andb negb]. rewrite Hm. reflexivity.
Qed.

Lemma strip_sp_cons x : strip (SP :: x) = strip x.
Proof. reflexivity. Qed.

(* the text after a term: nothing, or comma [space] and the remaining pairs *)
Definition sep_text (sp : bool) (r : list (str * str)) : str :=
  match r with [] => [] | _ => COMMA :: (if sp then [SP] else []) ++ ltext r end.

Lemma sep_text_false r : sep_text false r = rest_text r.
Proof. destruct r; reflexivity. Qed.

Lemma strip_sep_text sp r : strip (sep_text sp r) = sep_text sp r.
Proof.
  destruct r as [|kv r]; [reflexivity|]. cbn [sep_text].
  destruct (ltext_shape kv r) as (c & mid & -> & _).
  destruct sp; cbn [app].
  - change (COMMA :: SP :: c :: mid ++ [DQ]) with (COMMA :: (SP :: c :: mid) ++ [DQ]). apply strip_delimited; reflexivity.
  - change (COMMA :: c :: mid ++ [DQ]) with (COMMA :: (c :: mid) ++ [DQ]). apply strip_delimited; reflexivity.
Qed.

(* ---------- _next_term in either mode ---------- *)
Lemma nt_tail_ltext_om om kv r : nt_tail om (ltext (kv :: r)) = Ok (label_pair kv, rest_text r).
Proof.
  unfold nt_tail. rewrite next_unquoted_char_rel.
  destruct r as [|kv2 r2].
  - cbn [ltext rest_text]. pose proof (pair_scan kv []) as P. rewrite app_nil_r in P. cbn [nuq0 option_map] in P.
    rewrite P. rewrite Z.eqb_refl. unfold zlen. rewrite slice_to_firstn, firstn_all by lia.
    rewrite slice_from_skipn, skipn_all by lia. rewrite strip_pair.
    destruct (label_pair_shape kv) as (c & mid & -> & _). reflexivity.
  - change (ltext (kv :: kv2 :: r2)) with (label_pair kv ++ COMMA :: ltext (kv2 :: r2)).
    rewrite pair_scan. cbn [nuq0]. change (COMMA =? BS) with false. change (COMMA =? DQ) with false.
    cbn [andb negb mem_char]. change (COMMA =? COMMA) with true. cbn [orb option_map].
    rewrite Nat.add_0_r.
    replace (Z.of_nat (length (label_pair kv)) =? -1)%Z with false by lia.
    rewrite slice_app_prefix, (slice_app_suffix _ _ _ eq_refl), strip_pair.
    cbn [rest_text]. rewrite strip_comma_ltext.
    destruct (label_pair_shape kv) as (c & mid & -> & _). reflexivity.
Qed.

Lemma nt_tail_sp_ltext_om om kv r : nt_tail om (SP :: ltext (kv :: r)) = Ok (label_pair kv, rest_text r).
Proof.
  unfold nt_tail. rewrite next_unquoted_char_rel. rewrite nuq0_skip by (try discriminate; reflexivity).
  destruct r as [|kv2 r2].
  - cbn [ltext rest_text]. pose proof (pair_scan kv []) as P. rewrite app_nil_r in P. cbn [nuq0 option_map] in P.
    rewrite P. cbn [option_map]. rewrite Z.eqb_refl. unfold zlen. rewrite slice_to_firstn, firstn_all by lia.
    rewrite slice_from_skipn, skipn_all by lia. rewrite strip_sp_cons, strip_pair. reflexivity.
  - change (ltext (kv :: kv2 :: r2)) with (label_pair kv ++ COMMA :: ltext (kv2 :: r2)).
    rewrite pair_scan. cbn [nuq0]. change (COMMA =? BS) with false. change (COMMA =? DQ) with false.
    cbn [andb negb mem_char]. change (COMMA =? COMMA) with true. cbn [orb option_map].
    rewrite Nat.add_0_r.
    replace (Z.of_nat (S (length (label_pair kv))) =? -1)%Z with false by lia.
    change (SP :: label_pair kv ++ COMMA :: ltext (kv2 :: r2)) with ((SP :: label_pair kv) ++ COMMA :: ltext (kv2 :: r2)).
    change (S (length (label_pair kv))) with (length (SP :: label_pair kv)).
    rewrite slice_app_prefix, (slice_app_suffix _ _ _ eq_refl), strip_sp_cons, strip_pair.
    cbn [rest_text]. rewrite strip_comma_ltext. reflexivity.
Qed.

Lemma next_term_ltext_om om kv r : next_term (ltext (kv :: r)) om = Ok (label_pair kv, rest_text r).
Proof.
  destruct (ltext_shape kv r) as (c & mid & E & _ & Hc).
  unfold next_term. rewrite E at 1. rewrite index0_nonempty. cbn [bind].
  destruct (N.eqb_spec c COMMA); [contradiction|]. fold (nt_tail om). apply nt_tail_ltext_om.
Qed.

Lemma next_term_sep_text_om om sp kv r : next_term (sep_text sp (kv :: r)) om = Ok (label_pair kv, rest_text r).
Proof.
  destruct (ltext_shape kv r) as (c & mid & E & _ & Hc).
  unfold next_term, sep_text. rewrite index0_nonempty. cbn [bind]. change (COMMA =? COMMA) with true. cbv iota.
  change 1%Z with (Z.of_nat 1). rewrite slice_from_skipn by (cbn; lia). cbn [skipn].
  destruct sp; cbn [app].
  - change (SP =? COMMA) with false. cbv iota. fold (nt_tail om). apply nt_tail_sp_ltext_om.
  - rewrite E at 1. cbv iota beta. destruct (N.eqb_spec c COMMA); [contradiction|]. fold (nt_tail om).
    apply nt_tail_ltext_om.
Qed.

(* ---------- the loop ---------- *)
Lemma loop_sep_text_om : forall kvs fuel acc om sp,
  (length kvs < fuel)%nat ->
  Forall key_ok (map fst kvs) -> NoDup (map fst kvs) ->
  (forall k, In k (map fst kvs) -> d_mem str_eqb acc k = false) ->
  parse_labels_fuel false true fuel (sep_text sp kvs) om acc = Ok (set_all acc kvs).
Proof.
  induction kvs as [|[k v] r IH]; intros fuel acc om sp Hf Hok Hnd Hacc.
  - destruct fuel; [cbn in Hf; lia|]. reflexivity.
  - destruct fuel as [|fuel]; [cbn in Hf; lia|].
    assert (Hsub : exists r', sep_text sp ((k, v) :: r) = COMMA :: r') by (cbn [sep_text]; eauto).
    destruct Hsub as (r' & Es). rewrite Es. rewrite plf_step. rewrite <- Es.
    rewrite next_term_sep_text_om. cbn [bind].
    destruct (label_pair_shape (k, v)) as (c2 & mid2 & E2 & _). rewrite E2. rewrite <- E2.
    inversion Hok as [|? ? [Hres Hnm] Hok']; subst. inversion Hnd as [|? ? Hnin Hnd']; subst.
    rewrite parse_one_label_pair; auto; [|apply Hacc; left; reflexivity].
    cbn [bind set_all]. rewrite <- sep_text_false.
    apply IH; auto; [cbn [length] in *; lia|].
    intros k' Hk'. rewrite d_mem_set_other; [apply Hacc; right; exact Hk'|].
    apply str_eqb_neq. intro E3; subst k'. apply Hnin. exact Hk'.
Qed.

Lemma loop_ltext_om kv r fuel om :
  (length (kv :: r) < fuel)%nat ->
  Forall key_ok (map fst (kv :: r)) -> NoDup (map fst (kv :: r)) ->
  parse_labels_fuel false true fuel (ltext (kv :: r)) om [] = Ok (kv :: r).
Proof.
  intros Hf Hok Hnd. destruct fuel as [|fuel]; [cbn in Hf; lia|].
  destruct (ltext_shape kv r) as (c & mid & E & _). rewrite E. rewrite plf_step. rewrite <- E.
  rewrite next_term_ltext_om. cbn [bind]. destruct kv as [k v].
  destruct (label_pair_shape (k, v)) as (c2 & mid2 & E2 & _). rewrite E2. rewrite <- E2.
  inversion Hok as [|? ? [Hres Hnm] Hok']; subst. inversion Hnd as [|? ? Hnin Hnd']; subst.
  rewrite parse_one_label_pair; auto. cbn [bind d_set]. rewrite <- sep_text_false.
  rewrite loop_sep_text_om; auto.
  - rewrite (set_all_fresh r [(k, v)]); auto.
    intros k' Hk'. unfold d_mem. cbn [d_find]. destruct (str_eqb k' k) eqn:E3; [|reflexivity].
    apply str_eqb_eq in E3. subst k'. contradiction.
  - cbn [length] in *. lia.
  - intros k' Hk'. unfold d_mem. cbn [d_find]. destruct (str_eqb k' k) eqn:E3; [|reflexivity].
    apply str_eqb_eq in E3. subst k'. contradiction.
Qed.

(* L3 in OpenMetrics mode *)
Theorem parse_labels_ltext_om om kvs :
  Forall key_ok (map fst kvs) -> NoDup (map fst kvs) ->
  parse_labels false true (ltext kvs) om = Ok kvs.
Proof.
  intros Hok Hnd. unfold parse_labels. destruct kvs as [|kv r]; [reflexivity|].
  rewrite strip_ltext. destruct (ltext_shape kv r) as (c & mid & E & _ & Hc). rewrite E at 1. cbv iota.
  destruct (N.eqb_spec c COMMA); [contradiction|]. rewrite andb_false_r.
  apply loop_ltext_om; auto. pose proof (ltext_length (kv :: r)). lia.
Qed.

Theorem labelstr_roundtrip_om om labels :
  Forall key_ok (map fst labels) -> NoDup (map fst labels) ->
  parse_labels false true (labelstr labels) om = Ok (sort_kv labels).
Proof.
  intros Hok Hnd. unfold labelstr. rewrite <- ltext_join. apply parse_labels_ltext_om.
  - eapply Permutation_Forall; [apply Permutation_map, sort_kv_perm|exact Hok].
  - eapply Permutation_NoDup; [apply Permutation_map, sort_kv_perm|exact Hnd].
Qed.

(* ---------- the block that starts with the quoted metric name ---------- *)
Lemma nt_tail_quoted_name_om om sp nm (r : list (str * str)) :
  nt_tail om (quote (escape nm) ++ sep_text sp r) = Ok (quote (escape nm), sep_text sp r).
Proof.
  unfold nt_tail. rewrite next_unquoted_char_rel.
  destruct (quoted_scan [COMMA; RBRACE] nm (sep_text sp r) eq_refl) as [Hq _]. rewrite Hq.
  destruct r as [|kv r2].
  - cbn [sep_text nuq0 option_map]. rewrite Z.eqb_refl, app_nil_r. unfold zlen.
    rewrite slice_to_firstn, firstn_all by lia. rewrite slice_from_skipn, skipn_all by lia.
    rewrite strip_quoted. unfold quote. reflexivity.
  - assert (Es : exists t, sep_text sp (kv :: r2) = COMMA :: t) by (cbn [sep_text]; eauto).
    destruct Es as [t Es].
    assert (Hn : nuq0 [COMMA; RBRACE] (sep_text sp (kv :: r2)) false false = Some 0%nat)
      by (rewrite Es; apply nuq0_hit; [discriminate|reflexivity]).
    rewrite Hn.
    cbn [option_map]. rewrite Nat.add_0_r.
    replace (Z.of_nat (length (quote (escape nm))) =? -1)%Z with false by lia.
    rewrite slice_app_prefix, (slice_app_suffix _ _ _ eq_refl), strip_quoted, strip_sep_text.
    unfold quote. reflexivity.
Qed.

Lemma sep_text_length sp kvs : (length kvs <= length (sep_text sp kvs))%nat.
Proof.
  destruct kvs as [|kv r]; [cbn; lia|]. cbn [sep_text length]. rewrite app_length.
  pose proof (ltext_length (kv :: r)). cbn [length] in *. lia.
Qed.

Theorem parse_labels_quoted_name_om om sp nm kvs :
  Forall key_ok (map fst kvs) -> NoDup (map fst kvs) ->
  parse_labels false true (quote (escape nm) ++ sep_text sp kvs) om = Ok ((S_name_key, nm) :: kvs).
Proof.
  intros Hok Hnd. unfold parse_labels.
  assert (Hshape : exists mid, quote (escape nm) ++ sep_text sp kvs = DQ :: mid ++ [DQ]).
  { destruct kvs as [|kv r]; [cbn [sep_text]; rewrite app_nil_r; exists (escape nm); reflexivity|].
    cbn [sep_text]. destruct (ltext_shape kv r) as (c & mid & -> & _).
    exists (escape nm ++ DQ :: COMMA :: (if sp then [SP] else []) ++ c :: mid). unfold quote. cbn [app].
    rewrite <- !app_assoc. cbn [app]. rewrite <- !app_assoc. reflexivity. }
  assert (Hstrip : strip (quote (escape nm) ++ sep_text sp kvs) = quote (escape nm) ++ sep_text sp kvs)
    by (destruct Hshape as [mid ->]; apply strip_delimited; reflexivity).
  rewrite Hstrip. unfold quote at 1. cbn [app]. change (DQ =? COMMA) with false. rewrite andb_false_r.
  change (DQ :: (escape nm ++ [DQ]) ++ sep_text sp kvs) with (quote (escape nm) ++ sep_text sp kvs).
  set (sub := quote (escape nm) ++ sep_text sp kvs).
  assert (Hlen : (length kvs + 2 <= length sub)%nat).
  { subst sub. rewrite app_length. unfold quote. cbn [length]. rewrite app_length. cbn [length].
    pose proof (sep_text_length sp kvs). lia. }
  assert (Hsub : exists r', sub = DQ :: r') by (subst sub; unfold quote; eexists; reflexivity).
  destruct Hsub as [r' Es]. rewrite Es. rewrite plf_step.
  assert (Hnt : next_term (DQ :: r') om = Ok (quote (escape nm), sep_text sp kvs)).
  { rewrite <- Es. subst sub. unfold next_term.
    assert (Hi : index (quote (escape nm) ++ sep_text sp kvs) 0 = Ok DQ) by (unfold quote; apply index0_nonempty).
    rewrite Hi. cbn [bind]. change (DQ =? COMMA) with false. cbv iota. fold (nt_tail om). apply nt_tail_quoted_name_om. }
  rewrite Hnt. cbn [bind]. unfold quote at 1. rewrite parse_one_label_name. cbn [bind].
  rewrite Es in Hlen.
  rewrite loop_sep_text_om; auto.
  - rewrite (set_all_fresh kvs [(S_name_key, nm)]); auto.
    intros k Hk. unfold d_mem. cbn [d_find]. rewrite Forall_forall in Hok. destruct (Hok k Hk) as [_ Hn].
    rewrite Hn. reflexivity.
  - cbn [length] in *. lia.
  - intros k Hk. unfold d_mem. cbn [d_find]. rewrite Forall_forall in Hok. destruct (Hok k Hk) as [_ Hn].
    rewrite Hn. reflexivity.
Qed.
