(* C03 L4: a sample line written by the text exposition is read back exactly by _parse_sample. *)
From V Require Import lib.PyBase lib.Tac lib.PyStr model.Utils model.Validation model.Expo model.TextParser
  proofs.EscapeProofs proofs.ScanFacts proofs.TextParserTotal proofs.LabelRoundTrip.
From Coq Require Import Permutation.
Ltac Zify.zify_post_hook ::= Z.to_euclidean_division_equations.
Open Scope N_scope.

(* a value / timestamp token: non-empty, no whitespace of any kind, no underscore, no brace, quote or backslash
   (true of every floatToGoString result and every decimal integer; re-checked per case by the harness) *)
Definition token_ok (t : str) : Prop :=
  t <> [] /\ Forall (fun c => is_space_uni c = false /\ c <> USCORE /\ c <> LBRACE /\ c <> DQ /\ c <> BS) t.

Lemma token_strip t : token_ok t -> strip t = t.
Proof.
  intros [Hne Hall]. apply strip_ends; [exact Hne| |].
  - intros c r E. subst t. inversion Hall as [|? ? [H _] _]. exact H.
  - intros p d E. subst t. apply Forall_app in Hall as [_ Hd]. inversion Hd as [|? ? [H _] _]. exact H.
Qed.

Lemma token_no c t : token_ok t -> is_space_uni c = true \/ c = USCORE -> mem_char c t = false.
Proof.
  intros [_ Hall] Hc. induction Hall as [|x l [Hx1 [Hx2 _]] _ IH]; [reflexivity|]. cbn [mem_char].
  destruct (N.eqb_spec c x) as [->|_]; [|exact IH].
  destruct Hc as [Hc|Hc]; [rewrite Hc in Hx1; discriminate|contradiction].
Qed.

Lemma split_char_no c t : mem_char c t = false -> split_char c t = [t].
Proof.
  unfold split_char. assert (G : forall cur, mem_char c t = false -> split_char_acc c t cur = [rev cur ++ t]).
  { induction t as [|x r IH]; intros cur H; cbn [split_char_acc]; [rewrite app_nil_r; reflexivity|].
    cbn [mem_char] in H. apply orb_false_iff in H as [H1 H2]. rewrite N.eqb_sym in H1. rewrite H1.
    rewrite IH by exact H2. cbn [rev]. rewrite <- app_assoc. reflexivity. }
  intro H. rewrite G by exact H. reflexivity.
Qed.

Lemma split_char_one c a b : mem_char c a = false -> mem_char c b = false ->
  split_char c (a ++ c :: b) = [a; b].
Proof.
  unfold split_char. intros Ha Hb.
  assert (G : forall cur, mem_char c a = false -> split_char_acc c (a ++ c :: b) cur = [rev cur ++ a; b]).
  { induction a as [|x r IH]; intros cur H; cbn [app split_char_acc].
    - rewrite N.eqb_refl, app_nil_r. f_equal. pose proof (split_char_no c b Hb) as Hs. unfold split_char in Hs.
      rewrite Hs. reflexivity.
    - cbn [mem_char] in H. apply orb_false_iff in H as [H1 H2]. rewrite N.eqb_sym in H1. rewrite H1.
      rewrite IH by exact H2. cbn [rev]. rewrite <- app_assoc. reflexivity. }
  rewrite G by exact Ha. reflexivity.
Qed.

Lemma token_nonblank t : token_ok t -> nonblank t = true.
Proof. intro H. unfold nonblank. rewrite token_strip by exact H. destruct H as [Hne _]. destruct t; [congruence|reflexivity]. Qed.

Section Tail.
  Variable NUM : Type.
  Variable parse_num parse_float : str -> option NUM.
  Variable div1000 : NUM -> res NUM.

  Lemma parse_value_token t n : token_ok t -> parse_num t = Some n -> parse_value NUM parse_num t = Ok n.
  Proof.
    intros Ht Hn. unfold parse_value. rewrite token_strip, str_eqb_refl by exact Ht. cbn [negb orb].
    rewrite (token_no USCORE t Ht) by (right; reflexivity). rewrite Hn. reflexivity.
  Qed.

  Lemma lstrip_sp_token t : token_ok t -> lstrip (SP :: t) = t.
  Proof.
    intros [Hne Hall]. unfold lstrip. cbn [lstrip_p]. change (is_space_uni SP) with true. cbv iota.
    destruct t as [|c r]; [congruence|]. inversion Hall as [|? ? [Hc _] _]. apply lstrip_p_head. exact Hc.
  Qed.
  Lemma lstrip_token t : token_ok t -> lstrip t = t.
  Proof.
    intros [Hne Hall]. unfold lstrip. destruct t as [|c r]; [congruence|].
    inversion Hall as [|? ? [Hc _] _]. apply lstrip_p_head. exact Hc.
  Qed.

  (* value only: " v" or "v" *)
  Lemma pvt_value lead vt nv :
    token_ok vt -> parse_num vt = Some nv ->
    parse_value_and_timestamp NUM parse_num parse_float div1000 true ((if lead : bool then [SP] else []) ++ vt)
    = Ok (nv, None).
  Proof.
    intros Hv Hn. unfold parse_value_and_timestamp.
    assert (Hl : lstrip ((if lead then [SP] else []) ++ vt) = vt)
      by (destruct lead; [apply lstrip_sp_token|apply lstrip_token]; exact Hv).
    rewrite Hl. rewrite (token_no SP vt Hv) by (left; reflexivity).
    rewrite split_char_no by (apply (token_no TAB vt Hv); left; reflexivity).
    cbn [filter]. rewrite (token_nonblank vt Hv). cbn [map]. rewrite token_strip by exact Hv.
    rewrite (parse_value_token vt nv Hv Hn). reflexivity.
  Qed.

  (* value and timestamp: " v t" or "v t" *)
  Lemma pvt_value_ts lead vt nv tt nt nts :
    token_ok vt -> parse_num vt = Some nv -> token_ok tt -> parse_num tt = Some nt -> div1000 nt = Ok nts ->
    parse_value_and_timestamp NUM parse_num parse_float div1000 true ((if lead : bool then [SP] else []) ++ vt ++ SP :: tt)
    = Ok (nv, Some nts).
  Proof.
    intros Hv Hn Ht Hnt Hd. unfold parse_value_and_timestamp.
    assert (Hvt : exists c r, vt = c :: r /\ is_space_uni c = false).
    { destruct Hv as [Hne Hall]. destruct vt as [|c r]; [congruence|]. inversion Hall as [|? ? [Hc _] _]. eauto. }
    destruct Hvt as (c & r & Evt & Hc).
    assert (Hl : lstrip ((if lead then [SP] else []) ++ vt ++ SP :: tt) = vt ++ SP :: tt).
    { unfold lstrip. destruct lead; cbn [app lstrip_p]; [change (is_space_uni SP) with true; cbv iota|];
        rewrite Evt; cbn [app]; apply lstrip_p_head; exact Hc. }
    rewrite Hl.
    assert (Hsp : mem_char SP (vt ++ SP :: tt) = true).
    { clear. induction vt as [|x l IH]; cbn [app mem_char]; [rewrite N.eqb_refl; reflexivity|].
      rewrite IH. apply orb_true_r. }
    rewrite Hsp.
    rewrite split_char_one by (apply token_no; auto; left; reflexivity).
    cbn [filter]. rewrite (token_nonblank vt Hv), (token_nonblank tt Ht). cbn [map].
    rewrite !token_strip by assumption.
    rewrite (parse_value_token vt nv Hv Hn). cbn [bind last].
    rewrite (parse_value_token tt nt Ht Hnt). cbn [bind]. rewrite Hd. reflexivity.
  Qed.
End Tail.

(* ---------- scanning over the pieces of a sample line ---------- *)
Definition chs_ok (chs : list char) : Prop :=
  mem_char DQ chs = false /\ mem_char BS chs = false /\ mem_char EQS chs = false /\ mem_char COMMA chs = false /\
  (forall c, name_rest c = true -> mem_char c chs = false).

Lemma label_rest_name_rest c : label_rest c = true -> name_rest c = true.
Proof. intro H. apply (label_rest_plain c H). Qed.

Lemma pair_scan_gen chs kv tail : chs_ok chs ->
  nuq0 chs (label_pair kv ++ tail) false false
  = option_map (fun n => (length (label_pair kv) + n)%nat) (nuq0 chs tail false false).
Proof.
  intros (Hq & Hb & He & Hc & Hn).
  destruct kv as [k v]. unfold label_pair. cbn [fst snd]. fold (name_part k). rewrite escape_chain_eq.
  destruct (name_part_facts k) as (Hscan & _).
  rewrite <- !app_assoc. rewrite Hscan; [|exact Hq|exact Hb|].
  2:{ intros c Hc'. apply Hn. apply label_rest_name_rest. exact Hc'. }
  cbn [app nuq0]. change (EQS =? BS) with false. change (EQS =? DQ) with false. cbn [andb negb].
  rewrite He. cbn [andb].
  destruct (quoted_scan chs v tail Hq) as [Hqs _]. rewrite Hqs.
  destruct (nuq0 chs tail false false); cbn [option_map]; [|reflexivity].
  f_equal. rewrite !app_length. cbn [length]. lia.
Qed.

Lemma ltext_scan chs kvs tail : chs_ok chs ->
  nuq0 chs (ltext kvs ++ tail) false false
  = option_map (fun n => (length (ltext kvs) + n)%nat) (nuq0 chs tail false false).
Proof.
  intro Hok. induction kvs as [|kv r IH].
  - cbn. destruct (nuq0 chs tail false false); reflexivity.
  - destruct r as [|kv2 r2]; [apply pair_scan_gen; exact Hok|].
    change (ltext (kv :: kv2 :: r2)) with (label_pair kv ++ [COMMA] ++ ltext (kv2 :: r2)).
    rewrite <- !app_assoc. rewrite pair_scan_gen by exact Hok.
    cbn [app nuq0]. change (COMMA =? BS) with false. change (COMMA =? DQ) with false. cbn [andb negb].
    destruct Hok as (Hq & Hb & He & Hc & Hn). rewrite Hc. cbn [andb]. rewrite IH.
    destruct (nuq0 chs tail false false); cbn [option_map]; [|reflexivity].
    f_equal. rewrite !app_length. cbn [length]. lia.
Qed.

Lemma legacy_name_chars n : is_valid_legacy_metric_name n = true ->
  exists c r, n = c :: r /\ Forall (fun x => name_rest x = true) (c :: r).
Proof.
  unfold is_valid_legacy_metric_name, re_name. destruct n as [|c r]; [discriminate|]. intro H.
  apply andb_true_iff in H as [H1 H2]. exists c, r. split; [reflexivity|].
  constructor; [unfold name_rest; rewrite H1; reflexivity|apply match_rest_forall; exact H2].
Qed.

Lemma name_rest_plain c : name_rest c = true ->
  c <> BS /\ c <> DQ /\ c <> LBRACE /\ c <> RBRACE /\ c <> SP /\ c <> TAB /\ is_space_uni c = false.
Proof.
  intro H. unfold name_rest, name_start, is_alpha, is_digit, is_space_uni, BS, DQ, LBRACE, RBRACE, SP, TAB, USCORE, COLON in *.
  repeat split; try (intro E; subst c; vm_compute in H; discriminate); lia.
Qed.

Lemma name_scan chs n rest : is_valid_legacy_metric_name n = true ->
  (forall c, name_rest c = true -> mem_char c chs = false) ->
  nuq0 chs (n ++ rest) false false = option_map (fun k => (length n + k)%nat) (nuq0 chs rest false false).
Proof.
  intros Hn Hch. destruct (legacy_name_chars n Hn) as (c & r & -> & Hall).
  apply plain_scan. intros x Hx. rewrite Forall_forall in Hall. specialize (Hall x Hx).
  destruct (name_rest_plain x Hall) as (H1 & H2 & _). auto.
Qed.

Lemma strip_legacy_name n : is_valid_legacy_metric_name n = true -> strip n = n.
Proof.
  intro Hn. destruct (legacy_name_chars n Hn) as (c & r & -> & Hall). rewrite Forall_forall in Hall.
  apply strip_ends; [discriminate| |].
  - intros c0 r0 E. inversion E; subst. apply (name_rest_plain c0). apply Hall. left; reflexivity.
  - intros p d E. apply (name_rest_plain d). apply Hall. rewrite E. apply in_or_app. right. left. reflexivity.
Qed.

Lemma find_sub_none pat s c : In c pat -> ~ In c s -> pat <> [] -> find_sub pat s = (-1)%Z.
Proof.
  intros Hc Hs Hne. unfold find_sub. generalize 0%Z as i.
  induction s as [|x r IH]; intro i; cbn [find_sub_from].
  - destruct pat; [congruence|reflexivity].
  - assert (Hst : starts_with pat (x :: r) = false).
    { clear IH. revert Hs. generalize (x :: r) as t. induction pat as [|p ps IHp]; intros t Ht; [destruct Hc|].
      destruct t as [|y t']; [reflexivity|]. cbn [starts_with].
      destruct (N.eqb_spec p y) as [->|_]; [|reflexivity]. cbn [andb].
      destruct Hc as [->|Hc]; [exfalso; apply Ht; left; reflexivity|].
      destruct ps as [|p2 ps2]; [destruct Hc|]. apply IHp; [exact Hc|discriminate|].
      intro Hin. apply Ht. right. exact Hin. }
    rewrite Hst. apply IH. intro Hin. apply Hs. right. exact Hin.
Qed.

Lemma no_exsep s : ~ In SP s -> contains_sub S_exsep s = false.
Proof.
  intro H. unfold contains_sub. rewrite (find_sub_none S_exsep s SP); [reflexivity| |exact H|discriminate].
  left. reflexivity.
Qed.

Lemma legacy_no_sp n : is_valid_legacy_metric_name n = true -> ~ In SP n.
Proof.
  intros Hn Hin. destruct (legacy_name_chars n Hn) as (c & r & -> & Hall). rewrite Forall_forall in Hall.
  destruct (name_rest_plain SP (Hall SP Hin)) as (_ & _ & _ & _ & H & _). congruence.
Qed.

Lemma chs_ok_rbrace : chs_ok [RBRACE].
Proof.
  repeat split; try reflexivity. intros c Hc. destruct (name_rest_plain c Hc) as (_ & _ & _ & Hr & _).
  cbn [mem_char]. destruct (N.eqb_spec c RBRACE); [contradiction|reflexivity].
Qed.

Lemma keys_no_name (kvs : list (str * str)) :
  Forall key_ok (map fst kvs) -> d_mem str_eqb kvs S_name_key = false.
Proof.
  intro H. unfold d_mem. induction kvs as [|[k v] r IH]; [reflexivity|].
  cbn [map fst] in H. inversion H as [|? ? [_ Hk] Hr]; subst. cbn [d_find].
  rewrite str_eqb_neq in Hk. destruct (str_eqb S_name_key k) eqn:E; [apply str_eqb_eq in E; congruence|].
  apply IH. exact Hr.
Qed.

Lemma parse_labels_ltext kvs : Forall key_ok (map fst kvs) -> NoDup (map fst kvs) ->
  parse_labels false true (ltext kvs) false = Ok kvs.
Proof. intros. rewrite ltext_join. apply parse_labels_roundtrip; assumption. Qed.

Section Heads.
  Variable NUM : Type.
  Variable parse_num parse_float : str -> option NUM.
  Variable div1000 : NUM -> res NUM.
  Notation p_sample := (parse_sample false true NUM parse_num parse_float div1000 true).
  Notation pvt := (parse_value_and_timestamp NUM parse_num parse_float div1000 true).

  (* name{labels} <tail> *)
  Lemma parse_sample_legacy_labels n kvs tailv nv ts :
    is_valid_legacy_metric_name n = true -> kvs <> [] ->
    Forall key_ok (map fst kvs) -> NoDup (map fst kvs) ->
    pvt (SP :: tailv) = Ok (nv, ts) ->
    p_sample (n ++ LBRACE :: ltext kvs ++ RBRACE :: SP :: tailv)
    = Ok {| ps_name := n; ps_labels := kvs; ps_value := nv; ps_ts := ts |}.
  Proof.
    intros Hn Hne Hok Hnd Htail. unfold parse_sample.
    set (text := n ++ LBRACE :: ltext kvs ++ RBRACE :: SP :: tailv).
    assert (Hls : next_unquoted_char text [LBRACE] 0 = Z.of_nat (length n)).
    { rewrite next_unquoted_char_rel. subst text. rewrite name_scan; [|exact Hn|].
      - cbn [nuq0]. change (LBRACE =? BS) with false. change (LBRACE =? DQ) with false. cbn [andb negb mem_char].
        change (LBRACE =? LBRACE) with true. cbn [orb option_map]. f_equal. lia.
      - intros c Hc. destruct (name_rest_plain c Hc) as (_ & _ & Hl & _). cbn [mem_char].
        destruct (N.eqb_spec c LBRACE); [contradiction|reflexivity]. }
    assert (Hle : next_unquoted_char text [RBRACE] 0 = Z.of_nat (length n + 1 + length (ltext kvs))).
    { rewrite next_unquoted_char_rel. subst text. rewrite name_scan; [|exact Hn|].
      - cbn [nuq0]. change (LBRACE =? BS) with false. change (LBRACE =? DQ) with false. cbn [andb negb mem_char].
        change (LBRACE =? RBRACE) with false. cbn [orb andb].
        rewrite ltext_scan by exact chs_ok_rbrace.
        cbn [nuq0]. change (RBRACE =? BS) with false. change (RBRACE =? DQ) with false. cbn [andb negb mem_char].
        change (RBRACE =? RBRACE) with true. cbn [orb option_map]. f_equal. lia.
      - intros c Hc. destruct (name_rest_plain c Hc) as (_ & _ & _ & Hr & _). cbn [mem_char].
        destruct (N.eqb_spec c RBRACE); [contradiction|reflexivity]. }
    rewrite Hls, Hle.
    replace (Z.of_nat (length n) =? -1)%Z with false by lia. cbn [orb].
    subst text. rewrite slice_app_prefix. rewrite (no_exsep n (legacy_no_sp n Hn)).
    rewrite (strip_legacy_name n Hn).
    replace (Z.of_nat (length n) + 1)%Z with (Z.of_nat (length n + 1)) by lia.
    assert (Hslice : slice (n ++ LBRACE :: ltext kvs ++ RBRACE :: SP :: tailv) (Z.of_nat (length n + 1))
                       (Z.of_nat (length n + 1 + length (ltext kvs))) = ltext kvs).
    { rewrite slice_nat by (rewrite !app_length; cbn [length]; rewrite app_length; cbn [length]; lia).
      replace (n ++ LBRACE :: ltext kvs ++ RBRACE :: SP :: tailv)
        with ((n ++ [LBRACE]) ++ ltext kvs ++ RBRACE :: SP :: tailv) by (rewrite <- app_assoc; reflexivity).
      replace (length n + 1)%nat with (length (n ++ [LBRACE])) by (rewrite app_length; reflexivity).
      rewrite skipn_app, skipn_all, Nat.sub_diag. cbn [skipn app].
      replace (length (n ++ [LBRACE]) + length (ltext kvs) - length (n ++ [LBRACE]))%nat with (length (ltext kvs)) by lia.
      rewrite firstn_app, firstn_all, Nat.sub_diag. cbn [firstn]. apply app_nil_r. }
    rewrite Hslice, (parse_labels_ltext kvs Hok Hnd). cbn [bind].
    remember (n ++ LBRACE :: ltext kvs ++ RBRACE :: SP :: tailv) as T eqn:ET.
    destruct (legacy_name_chars n Hn) as (c & r & En & _). rewrite En. cbv iota. rewrite <- En.
    rewrite (keys_no_name kvs Hok). cbn [bind]. subst T.
    replace (Z.of_nat (length n + 1 + length (ltext kvs)) + 1)%Z
      with (Z.of_nat (length (n ++ LBRACE :: ltext kvs ++ [RBRACE])))
      by (rewrite !app_length; cbn [length]; rewrite app_length; cbn [length]; lia).
    replace (n ++ LBRACE :: ltext kvs ++ RBRACE :: SP :: tailv)
      with ((n ++ LBRACE :: ltext kvs ++ [RBRACE]) ++ SP :: tailv)
      by (rewrite <- !app_assoc; cbn [app]; rewrite <- !app_assoc; reflexivity).
    rewrite (slice_app_suffix _ _ _ eq_refl), Htail. reflexivity.
  Qed.

  (* name <tail>   (no labels) *)
  Lemma parse_sample_legacy_bare n tailv nv ts :
    is_valid_legacy_metric_name n = true ->
    nuq0 [LBRACE] tailv false false = None ->
    pvt tailv = Ok (nv, ts) ->
    p_sample (n ++ SP :: tailv) = Ok {| ps_name := n; ps_labels := []; ps_value := nv; ps_ts := ts |}.
  Proof.
    intros Hn Hnb Htail. unfold parse_sample.
    assert (Hls : next_unquoted_char (n ++ SP :: tailv) [LBRACE] 0 = (-1)%Z).
    { rewrite next_unquoted_char_rel. rewrite name_scan; [|exact Hn|].
      - cbn [nuq0]. change (SP =? BS) with false. change (SP =? DQ) with false. cbn [andb negb mem_char].
        change (SP =? LBRACE) with false. cbn [orb andb]. rewrite Hnb. reflexivity.
      - intros c Hc. destruct (name_rest_plain c Hc) as (_ & _ & Hl & _). cbn [mem_char].
        destruct (N.eqb_spec c LBRACE); [contradiction|reflexivity]. }
    rewrite Hls. cbn [Z.eqb orb].
    assert (Hne : next_unquoted_char (n ++ SP :: tailv) [SP; TAB] 0 = Z.of_nat (length n)).
    { rewrite next_unquoted_char_rel. rewrite name_scan; [|exact Hn|].
      - cbn [nuq0]. change (SP =? BS) with false. change (SP =? DQ) with false. cbn [andb negb mem_char].
        change (SP =? SP) with true. cbn [orb option_map]. f_equal. lia.
      - intros c Hc. destruct (name_rest_plain c Hc) as (_ & _ & _ & _ & Hs & Ht & _). cbn [mem_char].
        destruct (N.eqb_spec c SP); [contradiction|]. destruct (N.eqb_spec c TAB); [contradiction|]. reflexivity. }
    rewrite Hne, slice_app_prefix, (strip_legacy_name n Hn), Hn. cbn [negb].
    replace (Z.of_nat (length n) + 1)%Z with (Z.of_nat (length (n ++ [SP]))) by (rewrite app_length; cbn [length]; lia).
    replace (n ++ SP :: tailv) with ((n ++ [SP]) ++ tailv) by (rewrite <- app_assoc; reflexivity).
    rewrite (slice_app_suffix _ _ _ eq_refl), Htail. reflexivity.
  Qed.
End Heads.

Lemma token_plain_scan t rest : token_ok t ->
  nuq0 [LBRACE] (t ++ rest) false false = option_map (fun k => (length t + k)%nat) (nuq0 [LBRACE] rest false false).
Proof.
  intros [_ Hall]. apply plain_scan. intros c Hc. rewrite Forall_forall in Hall.
  destruct (Hall c Hc) as (_ & _ & Hl & Hq & Hb). repeat split; auto. cbn [mem_char].
  destruct (N.eqb_spec c LBRACE); [contradiction|reflexivity].
Qed.

Lemma sort_kv_nonempty l : l <> [] -> sort_kv l <> [].
Proof.
  intros H E. apply H. pose proof (sort_kv_perm l) as P. rewrite E in P. apply Permutation_sym, Permutation_nil in P. exact P.
Qed.

Lemma ltext_nonempty kvs : kvs <> [] -> ltext kvs <> [].
Proof.
  destruct kvs as [|kv r]; [congruence|]. intros _ E. destruct (ltext_shape kv r) as (c & mid & E2 & _). congruence.
Qed.

Section SampleLine.
  Variable NUM : Type.
  Variable parse_num parse_float : str -> option NUM.
  Variable div1000 : NUM -> res NUM.
  Notation p_sample := (parse_sample false true NUM parse_num parse_float div1000 true).

  (* what the timestamp of s must parse to *)
  Definition ts_spec (s : sample) (tsv : option NUM) : Prop :=
    match s_ts_ms s with
    | None => tsv = None
    | Some ms => token_ok (dec_of_Z ms) /\
                 exists nt nts, parse_num (dec_of_Z ms) = Some nt /\ div1000 nt = Ok nts /\ tsv = Some nts
    end.

  Theorem text_sample_roundtrip_legacy s nv tsv :
    is_valid_legacy_metric_name (s_name s) = true ->
    Forall key_ok (map fst (s_labels s)) -> NoDup (map fst (s_labels s)) ->
    token_ok (go_string (s_value s)) -> parse_num (go_string (s_value s)) = Some nv ->
    ts_spec s tsv ->
    exists body, text_sample_line s = body ++ [LF] /\
      p_sample body = Ok {| ps_name := s_name s; ps_labels := sort_kv (s_labels s); ps_value := nv; ps_ts := tsv |}.
  Proof.
    intros Hn Hok Hnd Hv Hpv Hts. unfold text_sample_line. cbv zeta. rewrite Hn.
    set (vt := go_string (s_value s)) in *.
    (* the value/timestamp tail and what it parses to *)
    assert (Htail : exists tail,
              (match s_ts_ms s with None => [] | Some ms => SP :: dec_of_Z ms end) = tail /\
              nuq0 [LBRACE] (vt ++ tail) false false = None /\
              forall lead, parse_value_and_timestamp NUM parse_num parse_float div1000 true
                             ((if lead : bool then [SP] else []) ++ vt ++ tail) = Ok (nv, tsv)).
    { unfold ts_spec in Hts. destruct (s_ts_ms s) as [ms|].
      - destruct Hts as (Htok & nt & nts & Hnt & Hd & ->). exists (SP :: dec_of_Z ms). split; [reflexivity|]. split.
        + rewrite token_plain_scan by exact Hv. cbn [nuq0]. change (SP =? BS) with false. change (SP =? DQ) with false.
          cbn [andb negb mem_char]. change (SP =? LBRACE) with false. cbn [orb andb].
          rewrite <- (app_nil_r (dec_of_Z ms)), token_plain_scan by exact Htok. reflexivity.
        + intro lead. apply pvt_value_ts with (nt := nt); assumption.
      - subst tsv. exists []. split; [reflexivity|]. split.
        + rewrite token_plain_scan by exact Hv. reflexivity.
        + intro lead. rewrite app_nil_r. apply pvt_value; assumption. }
    destruct Htail as (tail & -> & Hnb & Hp).
    assert (Hperm : Permutation (map fst (s_labels s)) (map fst (sort_kv (s_labels s))))
      by (apply Permutation_map, sort_kv_perm).
    destruct (s_labels s) as [|l0 lr] eqn:El.
    - (* no labels: name SP value... *)
      exists (s_name s ++ SP :: vt ++ tail). split; [repeat (cbn [app]; rewrite <- ?app_assoc); reflexivity|].
      cbn [sort_kv fold_right]. apply parse_sample_legacy_bare; [exact Hn|exact Hnb|exact (Hp false)].
    - rewrite <- El in *. unfold labelstr. rewrite <- ltext_join.
      assert (Hne : sort_kv (s_labels s) <> []) by (apply sort_kv_nonempty; rewrite El; discriminate).
      pose proof (ltext_nonempty _ Hne) as Hlne.
      destruct (ltext (sort_kv (s_labels s))) as [|t0 tr] eqn:Elt; [congruence|]. rewrite <- Elt.
      exists (s_name s ++ LBRACE :: ltext (sort_kv (s_labels s)) ++ RBRACE :: SP :: vt ++ tail).
      split; [repeat (cbn [app]; rewrite <- ?app_assoc); reflexivity|].
      apply parse_sample_legacy_labels; [exact Hn|exact Hne| | |exact (Hp true)].
      + eapply Permutation_Forall; [exact Hperm|exact Hok].
      + eapply Permutation_NoDup; [exact Hperm|exact Hnd].
  Qed.
End SampleLine.

(* ---------- samples whose name is not a legacy name: {"name"} and {"name",labels} ---------- *)
Lemma quoted_no_eq v : nuq0 [EQS] (quote (escape v)) false false = None.
Proof.
  destruct (quoted_scan [EQS] v [] eq_refl) as [H _]. rewrite app_nil_r in H. exact H.
Qed.

Lemma strip_quoted v : strip (quote (escape v)) = quote (escape v).
Proof. unfold quote. apply strip_delimited; reflexivity. Qed.

(* the quoted metric name as a label term: recorded under __name__ *)
Lemma parse_one_label_name nm :
  parse_one_label false true (quote (escape nm)) [] = Ok [(S_name_key, nm)].
Proof.
  unfold parse_one_label. rewrite next_unquoted_char_rel, quoted_no_eq.
  change ((-1 =? -1)%Z) with true. cbv iota. cbn [bind negb andb].
  rewrite strip_quoted. unfold quote at 1. change (DQ =? DQ) with true. cbn [negb].
  assert (Hfc : (match escape nm ++ [DQ] with
                 | [] => Ok 1%Z
                 | _ => match find_close (escape nm ++ [DQ]) 1%Z false with Some i => Ok i | None => Err ValueError end
                 end) = Ok (1 + Z.of_nat (length (escape nm)))%Z).
  { rewrite find_close_escape. destruct (escape nm ++ [DQ]) eqn:E; [destruct (escape nm); discriminate|reflexivity]. }
  rewrite Hfc. cbn [bind].
  assert (Hz : zlen (quote (escape nm)) = (1 + Z.of_nat (length (escape nm)) + 1)%Z)
    by (unfold quote, zlen; cbn [length]; rewrite app_length; cbn [length]; lia).
  rewrite Hz, Z.eqb_refl. cbn [negb].
  replace (slice_to (quote (escape nm)) (1 + Z.of_nat (length (escape nm)) + 1)) with (quote (escape nm)).
  2:{ rewrite <- Hz. unfold zlen. rewrite slice_to_firstn by lia. rewrite firstn_all. reflexivity. }
  unfold unquote_unescape. rewrite unq_quoted. cbn [bind]. rewrite str_eqb_refl. cbn [bind d_mem d_find]. reflexivity.
Qed.

Lemma nt_tail_quoted_name nm (r : list (str * str)) :
  nt_tail false (quote (escape nm) ++ rest_text r) = Ok (quote (escape nm), rest_text r).
Proof.
  unfold nt_tail. rewrite next_unquoted_char_rel.
  destruct (quoted_scan [COMMA; RBRACE] nm (rest_text r) eq_refl) as [Hq _]. rewrite Hq.
  destruct r as [|kv r2].
  - cbn [rest_text nuq0 option_map]. rewrite Z.eqb_refl, app_nil_r. unfold zlen.
    rewrite slice_to_firstn, firstn_all by lia. rewrite slice_from_skipn, skipn_all by lia.
    rewrite strip_quoted. unfold quote. reflexivity.
  - cbn [rest_text nuq0]. change (COMMA =? BS) with false. change (COMMA =? DQ) with false.
    cbn [andb negb mem_char]. change (COMMA =? COMMA) with true. cbn [orb option_map]. rewrite Nat.add_0_r.
    replace (Z.of_nat (length (quote (escape nm))) =? -1)%Z with false by lia.
    rewrite slice_app_prefix, (slice_app_suffix _ _ _ eq_refl), strip_quoted, strip_comma_ltext.
    unfold quote. reflexivity.
Qed.

Lemma plf_step l g f c r om labels :
  parse_labels_fuel l g (S f) (c :: r) om labels =
  (do '(term, sub') <- next_term (c :: r) om;
   match term with
   | [] => if om then Err ValueError else parse_labels_fuel l g f sub' om labels
   | _ => do labels' <- parse_one_label l g term labels; parse_labels_fuel l g f sub' om labels'
   end).
Proof. reflexivity. Qed.

Lemma parse_labels_quoted_name nm kvs :
  Forall key_ok (map fst kvs) -> NoDup (map fst kvs) ->
  parse_labels false true (quote (escape nm) ++ rest_text kvs) false = Ok ((S_name_key, nm) :: kvs).
Proof.
  intros Hok Hnd. unfold parse_labels.
  assert (Hshape : exists mid, quote (escape nm) ++ rest_text kvs = DQ :: mid ++ [DQ]).
  { destruct kvs as [|kv r]; [cbn [rest_text]; rewrite app_nil_r; exists (escape nm); reflexivity|].
    cbn [rest_text]. destruct (ltext_shape kv r) as (c & mid & -> & _).
    exists (escape nm ++ DQ :: COMMA :: c :: mid). unfold quote. cbn [app]. rewrite <- !app_assoc. reflexivity. }
  assert (Hstrip : strip (quote (escape nm) ++ rest_text kvs) = quote (escape nm) ++ rest_text kvs)
    by (destruct Hshape as [mid ->]; apply strip_delimited; reflexivity).
  rewrite Hstrip. unfold quote at 1. cbn [app andb].
  change (DQ :: (escape nm ++ [DQ]) ++ rest_text kvs) with (quote (escape nm) ++ rest_text kvs).
  set (sub := quote (escape nm) ++ rest_text kvs).
  assert (Hlen : (length kvs + 2 <= length sub)%nat).
  { subst sub. rewrite app_length. unfold quote. cbn [length]. rewrite app_length. cbn [length].
    destruct kvs as [|kv r]; [cbn; lia|]. cbn [rest_text length]. pose proof (ltext_length (kv :: r)). cbn [length] in *. lia. }
  assert (Hsub : exists r', sub = DQ :: r') by (subst sub; unfold quote; eexists; reflexivity).
  destruct Hsub as [r' Es]. rewrite Es. rewrite plf_step.
  assert (Hnt : next_term (DQ :: r') false = Ok (quote (escape nm), rest_text kvs)).
  { rewrite <- Es. subst sub. unfold next_term.
    assert (Hi : index (quote (escape nm) ++ rest_text kvs) 0 = Ok DQ) by (unfold quote; apply index0_nonempty).
    rewrite Hi. cbn [bind]. change (DQ =? COMMA) with false. cbv iota. fold (nt_tail false). apply nt_tail_quoted_name. }
  rewrite Hnt. cbn [bind]. unfold quote at 1. rewrite parse_one_label_name. cbn [bind].
  rewrite Es in Hlen.
  destruct kvs as [|kv r].
  - cbn [rest_text]. reflexivity.
  - cbn [rest_text].
    match goal with |- parse_labels_fuel false true ?f _ false _ = _ =>
      pose proof (loop_ltext (kv :: r) f [(S_name_key, nm)] false) as HL end.
    cbv iota in HL. rewrite HL; auto.
    + rewrite (set_all_fresh (kv :: r) [(S_name_key, nm)]); auto.
      intros k Hk. unfold d_mem. cbn [d_find]. rewrite Forall_forall in Hok. destruct (Hok k Hk) as [_ Hn].
      rewrite Hn. reflexivity.
    + cbn [length] in *. lia.
    + intros k Hk. unfold d_mem. cbn [d_find]. rewrite Forall_forall in Hok. destruct (Hok k Hk) as [_ Hn].
      rewrite Hn. reflexivity.
Qed.

Section HeadsQuoted.
  Variable NUM : Type.
  Variable parse_num parse_float : str -> option NUM.
  Variable div1000 : NUM -> res NUM.
  Notation p_sample := (parse_sample false true NUM parse_num parse_float div1000 true).
  Notation pvt := (parse_value_and_timestamp NUM parse_num parse_float div1000 true).

  (* {"name"} <tail>  and  {"name",labels} <tail> *)
  Lemma parse_sample_quoted nm kvs tailv nv ts :
    Forall key_ok (map fst kvs) -> NoDup (map fst kvs) ->
    pvt (SP :: tailv) = Ok (nv, ts) ->
    p_sample (LBRACE :: quote (escape nm) ++ rest_text kvs ++ RBRACE :: SP :: tailv)
    = Ok {| ps_name := nm; ps_labels := kvs; ps_value := nv; ps_ts := ts |}.
  Proof.
    intros Hok Hnd Htail. unfold parse_sample.
    set (inner := quote (escape nm) ++ rest_text kvs).
    assert (Htext : LBRACE :: quote (escape nm) ++ rest_text kvs ++ RBRACE :: SP :: tailv
                    = [LBRACE] ++ inner ++ RBRACE :: SP :: tailv)
      by (subst inner; cbn [app]; rewrite <- app_assoc; reflexivity).
    rewrite Htext. set (text := [LBRACE] ++ inner ++ RBRACE :: SP :: tailv).
    assert (Hls : next_unquoted_char text [LBRACE] 0 = 0%Z).
    { rewrite next_unquoted_char_rel. subst text. cbn [app nuq0].
      change (LBRACE =? BS) with false. change (LBRACE =? DQ) with false. cbn [andb negb mem_char].
      change (LBRACE =? LBRACE) with true. reflexivity. }
    assert (Hinner : forall tl, nuq0 [RBRACE] (inner ++ tl) false false
                       = option_map (fun k => (length inner + k)%nat) (nuq0 [RBRACE] tl false false)).
    { intro tl. subst inner. rewrite <- app_assoc.
      destruct (quoted_scan [RBRACE] nm (rest_text kvs ++ tl) eq_refl) as [Hq _]. rewrite Hq.
      destruct kvs as [|kv r].
      - cbn [rest_text app]. rewrite app_nil_r. reflexivity.
      - cbn [rest_text app nuq0]. change (COMMA =? BS) with false. change (COMMA =? DQ) with false.
        cbn [andb negb mem_char]. change (COMMA =? RBRACE) with false. cbn [orb andb].
        rewrite (ltext_scan [RBRACE] (kv :: r) tl chs_ok_rbrace).
        destruct (nuq0 [RBRACE] tl false false); cbn [option_map]; [|reflexivity].
        f_equal. rewrite !app_length. cbn [length]. lia. }
    assert (Hle : next_unquoted_char text [RBRACE] 0 = Z.of_nat (1 + length inner)).
    { rewrite next_unquoted_char_rel. subst text. cbn [app nuq0].
      change (LBRACE =? BS) with false. change (LBRACE =? DQ) with false. cbn [andb negb mem_char].
      change (LBRACE =? RBRACE) with false. cbn [orb andb]. rewrite Hinner.
      cbn [nuq0]. change (RBRACE =? BS) with false. change (RBRACE =? DQ) with false. cbn [andb negb mem_char].
      change (RBRACE =? RBRACE) with true. cbn [orb option_map]. f_equal. lia. }
    rewrite Hls, Hle. cbn [Z.eqb orb].
    change (slice_to text 0) with (slice_to text (Z.of_nat 0)). rewrite slice_to_firstn by lia. cbn [firstn].
    change (contains_sub S_exsep []) with false. cbv iota.
    change (strip []) with (@nil char).
    assert (Hslice : slice text (0 + 1) (Z.of_nat (1 + length inner)) = inner).
    { change (0 + 1)%Z with (Z.of_nat 1). subst text.
      rewrite slice_nat by (rewrite !app_length; cbn [length]; lia).
      cbn [app skipn]. replace (1 + length inner - 1)%nat with (length inner) by lia.
      rewrite firstn_app, firstn_all, Nat.sub_diag. cbn [firstn]. apply app_nil_r. }
    rewrite Hslice. subst inner. rewrite (parse_labels_quoted_name nm kvs Hok Hnd). cbn [bind d_find].
    rewrite str_eqb_refl. cbn [bind d_remove]. rewrite str_eqb_refl.
    replace (Z.of_nat (1 + length (quote (escape nm) ++ rest_text kvs)) + 1)%Z
      with (Z.of_nat (length ([LBRACE] ++ (quote (escape nm) ++ rest_text kvs) ++ [RBRACE])))
      by (rewrite !app_length; cbn [length]; lia).
    subst text.
    replace ([LBRACE] ++ (quote (escape nm) ++ rest_text kvs) ++ RBRACE :: SP :: tailv)
      with (([LBRACE] ++ (quote (escape nm) ++ rest_text kvs) ++ [RBRACE]) ++ SP :: tailv)
      by (rewrite <- !app_assoc; reflexivity).
    rewrite (slice_app_suffix _ _ _ eq_refl), Htail. reflexivity.
  Qed.

  (* the full sample-line theorem, whatever the sample name *)
  Theorem text_sample_roundtrip s nv tsv :
    Forall key_ok (map fst (s_labels s)) -> NoDup (map fst (s_labels s)) ->
    token_ok (go_string (s_value s)) -> parse_num (go_string (s_value s)) = Some nv ->
    ts_spec NUM parse_num div1000 s tsv ->
    exists body, text_sample_line s = body ++ [LF] /\
      p_sample body = Ok {| ps_name := s_name s; ps_labels := sort_kv (s_labels s); ps_value := nv; ps_ts := tsv |}.
  Proof.
    intros Hok Hnd Hv Hpv Hts.
    destruct (is_valid_legacy_metric_name (s_name s)) eqn:Hn;
      [apply text_sample_roundtrip_legacy; assumption|].
    unfold text_sample_line. cbv zeta. rewrite Hn. unfold escape_metric_name. rewrite Hn, escape_chain_eq.
    set (vt := go_string (s_value s)) in *.
    assert (Htail : exists tail,
              (match s_ts_ms s with None => [] | Some ms => SP :: dec_of_Z ms end) = tail /\
              parse_value_and_timestamp NUM parse_num parse_float div1000 true (SP :: vt ++ tail) = Ok (nv, tsv)).
    { unfold ts_spec in Hts. destruct (s_ts_ms s) as [ms|].
      - destruct Hts as (Htok & nt & nts & Hnt & Hd & ->). exists (SP :: dec_of_Z ms). split; [reflexivity|].
        apply (pvt_value_ts NUM parse_num parse_float div1000 true vt nv (dec_of_Z ms) nt nts); assumption.
      - subst tsv. exists []. split; [reflexivity|]. rewrite app_nil_r.
        apply (pvt_value NUM parse_num parse_float div1000 true vt nv); assumption. }
    destruct Htail as (tail & -> & Hp).
    assert (Hperm : Permutation (map fst (s_labels s)) (map fst (sort_kv (s_labels s))))
      by (apply Permutation_map, sort_kv_perm).
    assert (Hok' : Forall key_ok (map fst (sort_kv (s_labels s)))) by (eapply Permutation_Forall; eauto).
    assert (Hnd' : NoDup (map fst (sort_kv (s_labels s)))) by (eapply Permutation_NoDup; eauto).
    exists (LBRACE :: quote (escape (s_name s)) ++ rest_text (sort_kv (s_labels s)) ++ RBRACE :: SP :: vt ++ tail).
    split; [|apply parse_sample_quoted; assumption].
    destruct (s_labels s) as [|l0 lr] eqn:El.
    - cbn [sort_kv fold_right rest_text]. repeat (cbn [app]; rewrite <- ?app_assoc). reflexivity.
    - rewrite <- El in *. unfold labelstr. rewrite <- ltext_join.
      assert (Hne : sort_kv (s_labels s) <> []) by (apply sort_kv_nonempty; rewrite El; discriminate).
      pose proof (ltext_nonempty _ Hne) as Hlne.
      destruct (sort_kv (s_labels s)) as [|k0 kr] eqn:Esk; [congruence|]. cbn [rest_text].
      destruct (ltext (k0 :: kr)) as [|t0 tr] eqn:Elt; [congruence|].
      repeat (cbn [app]; rewrite <- ?app_assoc). reflexivity.
  Qed.
End HeadsQuoted.
