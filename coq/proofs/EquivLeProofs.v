(* C12 - non-vacuity of the domain of C12_equiv for families that carry a USER label named `le`: the library reserves
   `le` for Histogram only (keys_wf excludes it for histograms only), so a counter, a summary and a gauge declared with a
   label called le - whose values need not be numbers - are inside the domain (wf_reg). *)
From V Require Import lib.PyBase lib.Tac model.Metrics model.Equiv proofs.EquivProofs.
From V Require model.Multiproc.
Open Scope N_scope.

Module ToyLe.
  Import Toy12.
  (* Counter('c','help',['le']); Summary('s','help',['z','le']); Gauge('g','doc',['le'], multiprocess_mode='sum') *)
  Definition le_fams : mregistry Z :=
    [mkMFamily KCounter (s2l "c") [Multiproc.S_le] [] [] (Ctr (CF 0%Z)) [];
     mkMFamily KSummary (s2l "s") [s2l "z"; Multiproc.S_le] [] [] (Smy 0 0%Z) [];
     mkMFamily KGauge (s2l "g") [Multiproc.S_le] [] [] (Gge 0%Z) []].
  Definition le_metas := [meta0; meta0; mkMeta Multiproc.M_sum (s2l "doc")].
  (* le values: a text float() rejects, and two spellings of one number *)
  Definition le_ops : list (Z * mcall Z) :=
    [(1000%Z, CUpd 0 (Lab [s2l "abc"] []) (Inc (AInt 2)));
     (1001%Z, CUpd 0 (Lab [s2l "1"] []) (Inc (AFloat 3%Z)));
     (1002%Z, CUpd 0 (Lab [s2l "1.0"] []) (Inc (AInt 4)));
     (1003%Z, CUpd 0 (Lab [s2l "abc"] []) (Inc (AInt 5)));
     (1004%Z, CUpd 1 (Lab [s2l "x"; s2l "abc"] []) (Observe (AInt 6)));
     (1005%Z, CUpd 2 (Lab [s2l "0.5"] []) (SetV (AInt 8)));
     (1006%Z, CUpd 2 (Lab [s2l "abc"] []) (SetV (AInt 9)))].
End ToyLe.

Lemma le_wf : wf_reg Z 0%Z Toy12.tfmt ToyLe.le_metas ToyLe.le_fams.
Proof.
  split; [reflexivity|split; [|split]].
  - cbn. repeat constructor; cbn; intuition discriminate.
  - intros fam [<-|[<-|[<-|[]]]].
    + split; [split; [cbn; repeat constructor; cbn; intuition discriminate|discriminate]|split; [reflexivity|split; reflexivity]].
    + split; [split; [cbn; repeat constructor; cbn; intuition discriminate|discriminate]|split; [reflexivity|split; reflexivity]].
    + split; [split; [cbn; repeat constructor; cbn; intuition discriminate|discriminate]|split; [reflexivity|split; reflexivity]].
  - intros [|[|[|f]]] fam me Hf Hm Hk; cbn in Hf, Hm; try discriminate; inversion Hf; inversion Hm; subst; try discriminate.
    + split; [cbn; intuition discriminate|cbn; tauto].
    + destruct f; discriminate.
Qed.

Lemma le_calls : Forall (call_ok Z 0%Z Z.ltb) ToyLe.le_ops.
Proof. repeat constructor. Qed.
