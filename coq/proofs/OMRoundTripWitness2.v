(* Non-vacuity witnesses for C04 L5 (summary, histogram, info, stateset, mixed documents): hostile families evaluated on the
   models with a NUMERIC toy instance of the CPython oracles - a number is its value in thousandths (milli_num reads
   plain decimals with up to three fraction digits, a leading minus, and +Inf / -Inf; NaN and anything else is not read),
   int() is toy_int of proofs/OMWitness.v. *)
From V Require Import lib.PyBase lib.PyStr model.Utils model.Validation model.Expo model.TextParser model.OMParser
  proofs.LabelRoundTrip proofs.SampleRoundTrip proofs.OMWitness proofs.OMSampleRoundTrip proofs.OMDocRoundTrip
  proofs.OMCounterRoundTrip proofs.OMFamilyRoundTrip proofs.OMGroupingFacts proofs.OMSummaryRoundTrip proofs.OMRoundTripWitness.
From Coq Require Import Permutation.
Open Scope N_scope.

Definition MILLI_INF : Z := 1000000000000000%Z.
Definition frac3 (s : str) : option Z :=
  match s with
  | [] => None
  | _ => if forallb is_digit s && Nat.leb (length s) 3
         then Some (Z.of_N (digits_val 0 (s ++ repeat 48 (3 - length s)))) else None
  end.
Definition milli_pos (s : str) : option Z :=
  let '(a, b) := om_split_first 46 s in
  match toy_int a with
  | None => None
  | Some z => match b with
              | None => Some (z * 1000)%Z
              | Some fr => match frac3 fr with Some f => Some (z * 1000 + f)%Z | None => None end
              end
  end.
Definition milli_num (s : str) : option Z :=
  if str_eqb s (s2l "+Inf") then Some MILLI_INF
  else if str_eqb s (s2l "-Inf") then Some (- MILLI_INF)%Z
  else match s with
       | 45 :: r => option_map Z.opp (milli_pos r)
       | _ => milli_pos s
       end.

Definition toy_text2 (fix_tsexp fix_sname : bool) (doc : str) : res (list (om_family Z)) :=
  om_parse false true true true true true true true fix_tsexp fix_sname Z milli_num milli_num toy_int
    Z.ltb Z.eqb (fun z => (Z.abs z =? MILLI_INF)%Z) (fun z => (z mod 1000 =? 0)%Z) (fun _ => false) 0%Z 1000%Z MILLI_INF
    (fun _ _ => None) toy_word is_space_ascii is_digit doc.

Definition milli_val (s : sample) : Z := match milli_num (go_string (s_value s)) with Some z => z | None => 0%Z end.
Definition toy_ts (s : sample) : option (om_tsv Z) :=
  match s_ts_om s with Some (TsNanos sec ns) => Some (OTs sec (Z.of_N ns)) | Some (TsInt z) => Some (OTs z 0) | _ => None end.
Definition toy_ex (s : sample) : option (om_exemplar Z) :=
  match s_ex s with
  | Some e => Some {| oe_labels := sort_kv (ex_labels e);
                      oe_value := match milli_num (go_string (ex_value e)) with Some z => z | None => 0%Z end;
                      oe_ts := match ex_ts e with Some (TsNanos a b) => Some (OTs a (Z.of_N b)) | Some (TsInt z) => Some (OTs z 0)
                                                | _ => None end |}
  | None => None
  end.

Definition msample (nm : str) (labels : list (str * str)) (v : string) (e : option exemplar) : sample :=
  {| s_name := nm; s_labels := labels; s_value := FFin true (s2l v); s_ts_ms := None; s_ts_om := None; s_ex := e |}.

(* what read_ok asks of a sample without timestamp and exemplar, as a tactic *)
Ltac read_ok_plain :=
  split; [repeat constructor|];
  split; [vm_compute; repeat (constructor; [cbn [In]; intuition discriminate|]); constructor|];
  split; [apply om_token_okb_ok; vm_compute; reflexivity|];
  split; [vm_compute; reflexivity|];
  split; reflexivity.

(* ---------- a hostile summary ---------- *)
Definition hostile_summary : family :=
  {| f_name := hostile_name; f_doc := [SP; DQ; BS; LF; SP]; f_type := s2l "summary"; f_unit := [];
     f_samples := [msample hostile_name ((s2l "quantile", s2l "0.5") :: hostile_labels) "1.5" None;
                   msample hostile_name ((s2l "quantile", s2l "1.0") :: hostile_labels) "2.5" None;
                   msample (hostile_name ++ s2l "_count") hostile_labels "3.0" None;
                   msample (hostile_name ++ s2l "_sum") hostile_labels "4.5" None;
                   msample (hostile_name ++ s2l "_created") hostile_labels "123.5" None;
                   msample (hostile_name ++ s2l "_count") [] "0.0" None;
                   msample (hostile_name ++ s2l "_sum") [] "0.0" None] |}.
Definition hostile_summary_text : str := match om_render true [hostile_summary] with Ok t => t | Err _ => [] end.

Lemma hostile_summary_hyps fix_isnan fix_tsexp :
  summary_family_ok fix_isnan fix_tsexp Z milli_num milli_num toy_int Z.ltb Z.eqb (fun z => (Z.abs z =? MILLI_INF)%Z)
    (fun z => (z mod 1000 =? 0)%Z) (fun _ => false) 0%Z 1000%Z MILLI_INF milli_val toy_ts toy_ex hostile_name hostile_summary
  /\ om_render true [hostile_summary] = Ok hostile_summary_text.
Proof.
  split; [|vm_compute; reflexivity].
  split; [reflexivity|]. split; [discriminate|]. split; [reflexivity|]. split; [left; reflexivity|].
  split; [|vm_compute; reflexivity].
  constructor; [split; [read_ok_plain|split; [reflexivity|split; [reflexivity|]]]|].
  { left. split; [reflexivity|]. exists (s2l "0.5"), 500%Z. repeat split; try reflexivity. left. reflexivity. }
  constructor; [split; [read_ok_plain|split; [reflexivity|split; [reflexivity|]]]|].
  { left. split; [reflexivity|]. exists (s2l "1.0"), 1000%Z. repeat split; try reflexivity. left. reflexivity. }
  constructor; [split; [read_ok_plain|split; [reflexivity|split; [reflexivity|]]]|].
  { right. left. repeat split; try reflexivity. right. reflexivity. }
  constructor; [split; [read_ok_plain|split; [reflexivity|split; [reflexivity|]]]|].
  { right. right. left. repeat split; try reflexivity. right. reflexivity. }
  constructor; [split; [read_ok_plain|split; [reflexivity|split; [reflexivity|]]]|].
  { right. right. right. reflexivity. }
  constructor; [split; [read_ok_plain|split; [reflexivity|split; [reflexivity|]]]|].
  { right. left. repeat split; try reflexivity. right. reflexivity. }
  constructor; [split; [read_ok_plain|split; [reflexivity|split; [reflexivity|]]]|constructor].
  { right. right. left. repeat split; try reflexivity. right. reflexivity. }
Qed.

Lemma hostile_summary_reads fix_tsexp fix_sname :
  toy_text2 fix_tsexp fix_sname hostile_summary_text = Ok [gfam_of Z milli_val toy_ts toy_ex hostile_summary].
Proof. destruct fix_tsexp, fix_sname; vm_compute; reflexivity. Qed.

(* ---------- a mixed document: gauge, counter with an exemplar, summary ---------- *)
From V Require Import proofs.OMGaugeCounterInst proofs.OMInfoStateRoundTrip proofs.OMHistogramRoundTrip proofs.OMDocumentRoundTrip.

Definition gname : str := hostile_name ++ s2l "g_a b".
Definition cname : str := hostile_name ++ s2l "c".
Definition mixed_gauge : family :=
  {| f_name := gname; f_doc := [SP; DQ; BS; LF; SP; HASH; SP; 69; 79; 70; SP]; f_type := s2l "gauge"; f_unit := s2l "a b";
     f_samples := [ {| s_name := gname; s_labels := hostile_labels; s_value := FFin true (s2l "1.5"); s_ts_ms := None;
                       s_ts_om := Some (TsNanos 1 500); s_ex := None |};
                    {| s_name := gname; s_labels := []; s_value := FFin false (s2l "-0.5"); s_ts_ms := None;
                       s_ts_om := Some (TsInt 7); s_ex := None |} ] |}.
Definition mixed_counter : family :=
  {| f_name := cname; f_doc := []; f_type := s2l "counter"; f_unit := [];
     f_samples := [msample (cname ++ s2l "_total") hostile_labels "3.0" (Some hostile_ex);
                   msample (cname ++ s2l "_created") hostile_labels "123.5" None;
                   msample (cname ++ s2l "_total") [] "1.0" None] |}.
Definition mixed_doc : list family := [mixed_gauge; mixed_counter; hostile_summary].
Definition mixed_text : str := match om_render true mixed_doc with Ok t => t | Err _ => [] end.

Ltac names_apart_tac :=
  let x := fresh "x" in let Hx := fresh "Hx" in let Hin := fresh "Hin" in
  intros x Hx Hin; vm_compute in Hx; vm_compute in Hin;
  repeat (destruct Hx as [Hx|Hx]; [subst x; repeat (destruct Hin as [Hin|Hin]; [discriminate Hin|]); destruct Hin|]); destruct Hx.

Lemma mixed_doc_hyps fix_isnan fix_tsexp :
  Forall (family_wf fix_isnan fix_tsexp Z milli_num milli_num toy_int Z.ltb Z.eqb (fun z => (Z.abs z =? MILLI_INF)%Z)
            (fun z => (z mod 1000 =? 0)%Z) (fun _ => false) 0%Z 1000%Z MILLI_INF milli_val toy_ts toy_ex) mixed_doc
  /\ ForallOrdPairs names_apart mixed_doc
  /\ om_render true mixed_doc = Ok mixed_text.
Proof.
  split; [|split; [|vm_compute; reflexivity]].
  - constructor; [|constructor; [|constructor; [|constructor]]].
    + left. split; [reflexivity|]. split; [discriminate|]. split; [reflexivity|]. split; [right; vm_compute; reflexivity|].
      split.
      * constructor; [|constructor; [|constructor]].
        -- split; [|split; reflexivity].
           split; [repeat constructor|]. split; [vm_compute; repeat (constructor; [cbn [In]; intuition discriminate|]); constructor|].
           split; [apply om_token_okb_ok; vm_compute; reflexivity|]. split; [vm_compute; reflexivity|]. split; [|reflexivity].
           split; [apply om_token_okb_ok; vm_compute; reflexivity|]. eexists. split; [|reflexivity].
           destruct fix_tsexp; vm_compute; reflexivity.
        -- split; [|split; reflexivity].
           split; [constructor|]. split; [constructor|].
           split; [apply om_token_okb_ok; vm_compute; reflexivity|]. split; [vm_compute; reflexivity|]. split; [|reflexivity].
           split; [apply om_token_okb_ok; vm_compute; reflexivity|]. eexists. split; [|reflexivity].
           destruct fix_tsexp; vm_compute; reflexivity.
      * repeat constructor. intro P. apply Permutation_length in P. discriminate.
    + right. left. split; [reflexivity|]. split; [discriminate|]. split; [reflexivity|]. split; [left; reflexivity|].
      split; [|vm_compute; reflexivity].
      constructor; [|constructor; [|constructor; [|constructor]]].
      * split; [|split; [reflexivity|left; split; [reflexivity|repeat split; try reflexivity; right; reflexivity]]].
        split; [repeat constructor|]. split; [vm_compute; repeat (constructor; [cbn [In]; intuition discriminate|]); constructor|].
        split; [apply om_token_okb_ok; vm_compute; reflexivity|]. split; [vm_compute; reflexivity|]. split; [reflexivity|].
        split; [repeat constructor|]. split; [vm_compute; repeat (constructor; [cbn [In]; intuition discriminate|]); constructor|].
        split; [vm_compute; lia|]. split; [apply om_token_okb_ok; vm_compute; reflexivity|].
        eexists _, _. split; [vm_compute; reflexivity|]. split; [|reflexivity].
        split; [apply om_token_okb_ok; vm_compute; reflexivity|]. eexists. split; [|reflexivity].
        destruct fix_tsexp; vm_compute; reflexivity.
      * split; [read_ok_plain|split; [reflexivity|right; split; reflexivity]].
      * split; [read_ok_plain|split; [reflexivity|left; split; [reflexivity|repeat split; try reflexivity; right; reflexivity]]].
    + right. right. left. apply hostile_summary_hyps.
  - constructor; [|constructor; [|constructor; [|constructor]]].
    + constructor; [names_apart_tac|constructor; [names_apart_tac|constructor]].
    + constructor; [names_apart_tac|constructor].
    + constructor.
Qed.

Lemma mixed_doc_reads fix_tsexp fix_sname :
  toy_text2 fix_tsexp fix_sname mixed_text = Ok (map (gfam_of Z milli_val toy_ts toy_ex) mixed_doc).
Proof. destruct fix_tsexp, fix_sname; vm_compute; reflexivity. Qed.

(* ---------- info and stateset ---------- *)
Definition iname : str := hostile_name ++ s2l "i".
Definition sname : str := hostile_name ++ s2l "s".
Definition hostile_info : family :=
  {| f_name := iname; f_doc := [SP; DQ; BS; LF; SP]; f_type := s2l "info"; f_unit := [];
     f_samples := [msample (iname ++ s2l "_info") hostile_labels "1.0" None; msample (iname ++ s2l "_info") [] "1.0" None] |}.
Definition hostile_stateset : family :=
  {| f_name := sname; f_doc := s2l "st"; f_type := s2l "stateset"; f_unit := [];
     f_samples := [msample sname ((sname, s2l "on") :: hostile_labels) "1.0" None;
                   msample sname ((sname, [111; 102; 102; SP; DQ; SP; BS; SP; LF; SP; 120]) :: hostile_labels) "0.0" None;
                   msample sname [(sname, s2l "on")] "0.0" None] |}.
Definition info_state_doc : list family := [hostile_info; hostile_stateset].
Definition info_state_text : str := match om_render true info_state_doc with Ok t => t | Err _ => [] end.

Lemma info_state_hyps fix_isnan fix_tsexp :
  Forall (family_wf fix_isnan fix_tsexp Z milli_num milli_num toy_int Z.ltb Z.eqb (fun z => (Z.abs z =? MILLI_INF)%Z)
            (fun z => (z mod 1000 =? 0)%Z) (fun _ => false) 0%Z 1000%Z MILLI_INF milli_val toy_ts toy_ex) info_state_doc
  /\ ForallOrdPairs names_apart info_state_doc
  /\ om_render true info_state_doc = Ok info_state_text.
Proof.
  split; [|split; [|vm_compute; reflexivity]].
  - constructor; [|constructor; [|constructor]].
    + right. right. right. left.
      split; [reflexivity|]. split; [discriminate|]. split; [reflexivity|]. split; [reflexivity|]. split.
      * constructor; [|constructor; [|constructor]];
          (split; [read_ok_plain|split; [reflexivity|split; [reflexivity|split; reflexivity]]]).
      * repeat constructor. intro P. apply Permutation_length in P. discriminate.
    + right. right. right. right. left.
      split; [reflexivity|]. split; [discriminate|]. split; [reflexivity|]. split; [reflexivity|]. split; [|vm_compute; reflexivity].
      constructor; [|constructor; [|constructor; [|constructor]]];
        (split; [read_ok_plain|split; [reflexivity|split; [reflexivity|split; [reflexivity|split; [|reflexivity]]]]]);
        eexists; left; reflexivity.
  - constructor; [|constructor; [|constructor]].
    + constructor; [names_apart_tac|constructor].
    + constructor.
Qed.

Lemma info_state_reads fix_tsexp fix_sname :
  toy_text2 fix_tsexp fix_sname info_state_text = Ok (map (gfam_of Z milli_val toy_ts toy_ex) info_state_doc).
Proof. destruct fix_tsexp, fix_sname; vm_compute; reflexivity. Qed.

(* ---------- a hostile histogram: buckets with exemplars, _count, _sum, _created; a second child with the +Inf bucket only ---------- *)
Definition hname : str := hostile_name ++ s2l "h".
Definition ex_plain : exemplar := {| ex_labels := []; ex_value := FFin true (s2l "7.5"); ex_ts := None |}.
Definition hb1 := msample (hname ++ s2l "_bucket") ((s2l "le", s2l "0.5") :: hostile_labels) "1.0" (Some hostile_ex).
Definition hb2 := msample (hname ++ s2l "_bucket") ((s2l "le", s2l "2.5") :: hostile_labels) "3.0" None.
Definition hb3 := msample (hname ++ s2l "_bucket") ((s2l "le", s2l "+Inf") :: hostile_labels) "4.0" (Some ex_plain).
Definition hcn := msample (hname ++ s2l "_count") hostile_labels "4.0" None.
Definition hsm := msample (hname ++ s2l "_sum") hostile_labels "9.5" None.
Definition hcr := msample (hname ++ s2l "_created") hostile_labels "123.5" None.
Definition hb0 := msample (hname ++ s2l "_bucket") [(s2l "le", s2l "+Inf")] "0.0" None.
Definition hgroups : list (list sample) := [[hb1; hb2; hb3; hcn; hsm; hcr]; [hb0]].
Definition hostile_histogram : family :=
  {| f_name := hname; f_doc := [SP; DQ; BS; LF; SP]; f_type := s2l "histogram"; f_unit := []; f_samples := concat hgroups |}.
Definition hostile_histogram_text : str := match om_render true [hostile_histogram] with Ok t => t | Err _ => [] end.

Ltac read_ok_ex fix_tsexp :=
  split; [repeat constructor|];
  split; [vm_compute; repeat (constructor; [cbn [In]; intuition discriminate|]); constructor|];
  split; [apply om_token_okb_ok; vm_compute; reflexivity|];
  split; [vm_compute; reflexivity|];
  split; [reflexivity|];
  (split; [repeat constructor|]);
  (split; [vm_compute; repeat (constructor; [cbn [In]; intuition discriminate|]); constructor|]);
  (split; [vm_compute; lia|]); (split; [apply om_token_okb_ok; vm_compute; reflexivity|]);
  eexists _, _; (split; [vm_compute; reflexivity|]); (split; [|reflexivity]);
  try reflexivity;
  (split; [apply om_token_okb_ok; vm_compute; reflexivity|]); eexists; (split; [|reflexivity]);
  destruct fix_tsexp; vm_compute; reflexivity.

Lemma hostile_histogram_hyps fix_isnan fix_tsexp :
  histogram_family_wf fix_isnan fix_tsexp Z milli_num milli_num toy_int Z.ltb Z.eqb (fun z => (Z.abs z =? MILLI_INF)%Z)
    (fun z => (z mod 1000 =? 0)%Z) (fun _ => false) 0%Z MILLI_INF milli_val toy_ts toy_ex hname hostile_histogram
  /\ om_render true [hostile_histogram] = Ok hostile_histogram_text.
Proof.
  split; [|vm_compute; reflexivity].
  split; [reflexivity|]. split; [discriminate|]. split; [reflexivity|]. split; [left; reflexivity|].
  exists hgroups. split; [reflexivity|].
  assert (Hb1 : om_hsample_ok fix_isnan fix_tsexp Z milli_num milli_num toy_int Z.ltb Z.eqb (fun z => (Z.abs z =? MILLI_INF)%Z)
                  (fun z => (z mod 1000 =? 0)%Z) (fun _ => false) 0%Z MILLI_INF milli_val toy_ts toy_ex hname hb1).
  { split; [read_ok_ex fix_tsexp|]. split; [reflexivity|]. left. split; [reflexivity|]. split.
    - exists (s2l "0.5"), 500%Z. repeat split; try reflexivity. left. reflexivity.
    - repeat split; try reflexivity. right. reflexivity. }
  assert (Hb2 : om_hsample_ok fix_isnan fix_tsexp Z milli_num milli_num toy_int Z.ltb Z.eqb (fun z => (Z.abs z =? MILLI_INF)%Z)
                  (fun z => (z mod 1000 =? 0)%Z) (fun _ => false) 0%Z MILLI_INF milli_val toy_ts toy_ex hname hb2).
  { split; [read_ok_plain|]. split; [reflexivity|]. left. split; [reflexivity|]. split.
    - exists (s2l "2.5"), 2500%Z. repeat split; try reflexivity. left. reflexivity.
    - repeat split; try reflexivity. right. reflexivity. }
  assert (Hb3 : om_hsample_ok fix_isnan fix_tsexp Z milli_num milli_num toy_int Z.ltb Z.eqb (fun z => (Z.abs z =? MILLI_INF)%Z)
                  (fun z => (z mod 1000 =? 0)%Z) (fun _ => false) 0%Z MILLI_INF milli_val toy_ts toy_ex hname hb3).
  { split; [read_ok_ex fix_tsexp|]. split; [reflexivity|]. left. split; [reflexivity|]. split.
    - exists (s2l "+Inf"), MILLI_INF. repeat split; try reflexivity. left. reflexivity.
    - repeat split; try reflexivity. right. reflexivity. }
  assert (Hcn : om_hsample_ok fix_isnan fix_tsexp Z milli_num milli_num toy_int Z.ltb Z.eqb (fun z => (Z.abs z =? MILLI_INF)%Z)
                  (fun z => (z mod 1000 =? 0)%Z) (fun _ => false) 0%Z MILLI_INF milli_val toy_ts toy_ex hname hcn).
  { split; [read_ok_plain|]. split; [reflexivity|]. right. left. repeat split; try reflexivity. right. reflexivity. }
  assert (Hsm : om_hsample_ok fix_isnan fix_tsexp Z milli_num milli_num toy_int Z.ltb Z.eqb (fun z => (Z.abs z =? MILLI_INF)%Z)
                  (fun z => (z mod 1000 =? 0)%Z) (fun _ => false) 0%Z MILLI_INF milli_val toy_ts toy_ex hname hsm).
  { split; [read_ok_plain|]. split; [reflexivity|]. right. right. left. repeat split; try reflexivity. right. reflexivity. }
  assert (Hcr : om_hsample_ok fix_isnan fix_tsexp Z milli_num milli_num toy_int Z.ltb Z.eqb (fun z => (Z.abs z =? MILLI_INF)%Z)
                  (fun z => (z mod 1000 =? 0)%Z) (fun _ => false) 0%Z MILLI_INF milli_val toy_ts toy_ex hname hcr).
  { split; [read_ok_plain|]. split; [reflexivity|]. right. right. right. split; reflexivity. }
  assert (Hb0 : om_hsample_ok fix_isnan fix_tsexp Z milli_num milli_num toy_int Z.ltb Z.eqb (fun z => (Z.abs z =? MILLI_INF)%Z)
                  (fun z => (z mod 1000 =? 0)%Z) (fun _ => false) 0%Z MILLI_INF milli_val toy_ts toy_ex hname hb0).
  { split; [read_ok_plain|]. split; [reflexivity|]. left. split; [reflexivity|]. split.
    - exists (s2l "+Inf"), MILLI_INF. repeat split; try reflexivity. left. reflexivity.
    - repeat split; try reflexivity. right. reflexivity. }
  split; [|split].
  - constructor; [|constructor; [|constructor]].
    + exists (hkey hname hb1), [hb1; hb2; hb3], [hcn; hsm], [hcr]. split; [reflexivity|].
      split; [repeat (constructor; [split; [assumption|vm_compute; reflexivity]|]); constructor|].
      split; [discriminate|]. split; [repeat constructor|]. split; [vm_compute; intuition|].
      split; [exists MILLI_INF; split; vm_compute; reflexivity|].
      split; [right; exists hcn, hsm; repeat split; vm_compute; reflexivity|].
      right. exists hcr. split; reflexivity.
    + exists (hkey hname hb0), [hb0], [], []. split; [reflexivity|].
      split; [repeat (constructor; [split; [assumption|vm_compute; reflexivity]|]); constructor|].
      split; [discriminate|]. split; [repeat constructor|]. split; [vm_compute; intuition|].
      split; [exists MILLI_INF; split; vm_compute; reflexivity|].
      split; left; reflexivity.
  - vm_compute. repeat (constructor; [cbn [In]; intuition discriminate|]). constructor.
  - constructor; [|constructor; [|constructor]]; vm_compute; repeat (constructor; [cbn [In]; intuition discriminate|]); constructor.
Qed.

Lemma hostile_histogram_reads fix_tsexp fix_sname :
  toy_text2 fix_tsexp fix_sname hostile_histogram_text = Ok [gfam_of Z milli_val toy_ts toy_ex hostile_histogram].
Proof. destruct fix_tsexp, fix_sname; vm_compute; reflexivity. Qed.

(* ---------- all six types in one document ---------- *)
Definition all_doc : list family := mixed_doc ++ info_state_doc ++ [hostile_histogram].
Definition all_text : str := match om_render true all_doc with Ok t => t | Err _ => [] end.

Lemma all_doc_hyps fix_isnan fix_tsexp :
  Forall (family_wf fix_isnan fix_tsexp Z milli_num milli_num toy_int Z.ltb Z.eqb (fun z => (Z.abs z =? MILLI_INF)%Z)
            (fun z => (z mod 1000 =? 0)%Z) (fun _ => false) 0%Z 1000%Z MILLI_INF milli_val toy_ts toy_ex) all_doc
  /\ ForallOrdPairs names_apart all_doc
  /\ om_render true all_doc = Ok all_text.
Proof.
  split; [|split; [|vm_compute; reflexivity]].
  - unfold all_doc. apply Forall_app. split; [apply mixed_doc_hyps|]. apply Forall_app. split; [apply info_state_hyps|].
    constructor; [|constructor]. right. right. right. right. right. apply hostile_histogram_hyps.
  - unfold all_doc, mixed_doc, info_state_doc. cbn [app].
    repeat (constructor; [repeat (constructor; [names_apart_tac|]); constructor|]). constructor.
Qed.

Lemma all_doc_reads fix_tsexp fix_sname :
  toy_text2 fix_tsexp fix_sname all_text = Ok (map (gfam_of Z milli_val toy_ts toy_ex) all_doc).
Proof. destruct fix_tsexp, fix_sname; vm_compute; reflexivity. Qed.
