(* C04 L5: documents of several families of mixed types.  family_wf lists, per type, the hypotheses on the values alone
   (proved sufficient for family_acc in OMGaugeCounterInst.v, OMSummaryRoundTrip.v, OMInfoStateRoundTrip.v,
   OMHistogramRoundTrip.v); names_apart is the non-clash condition on the names build_metric reserves. *)
From V Require Import lib.PyBase lib.Tac lib.PyStr model.Utils model.Validation model.Expo model.TextParser model.OMParser
  proofs.LabelRoundTrip proofs.OMSampleRoundTrip proofs.OMDocRoundTrip proofs.OMCounterRoundTrip proofs.OMFamilyRoundTrip
  proofs.OMGroupingFacts proofs.OMSummaryRoundTrip proofs.OMGaugeCounterInst proofs.OMInfoStateRoundTrip proofs.OMHistogramRoundTrip.
From Coq Require Import Permutation.
Open Scope N_scope.

(* the table of reserved names, type by type *)
Lemma fnames_table n :
  fnames n OM_gauge = [n ++ []] /\
  fnames n OM_counter = [n ++ OM_total; n ++ OM_created; n ++ []] /\
  fnames n OM_summary = [n ++ OM_count; n ++ OM_sum; n ++ OM_created; n ++ []] /\
  fnames n OM_histogram = [n ++ OM_count; n ++ OM_sum; n ++ OM_bucket; n ++ OM_created; n ++ []] /\
  fnames n OM_gaugehistogram = [n ++ OM_gcount; n ++ OM_gsum; n ++ OM_bucket; n ++ []] /\
  fnames n OM_info = [n ++ OM_infosfx; n ++ []] /\
  fnames n OM_stateset = [n ++ []] /\
  fnames n OM_unknown = [n ++ []].
Proof. repeat split; reflexivity. Qed.

Section Document.
  Variable fix_nhkeys fix_nhsfx fix_tsmix fix_isnan fix_tsexp fix_sname : bool.
  Variable NUM : Type.
  Variable parse_num parse_float : str -> option NUM.
  Variable parse_int : str -> option Z.
  Variable num_lt num_eqb : NUM -> NUM -> bool.
  Variable num_isinf num_integral num_huge : NUM -> bool.
  Variable num_zero num_one num_inf : NUM.
  Variable ts_float : Z -> Z -> option NUM.
  Variable is_word is_space_re is_digit_re : char -> bool.
  Variable val_of : sample -> NUM.
  Variable ts_of : sample -> option (om_tsv NUM).
  Variable ex_of : sample -> option (om_exemplar NUM).

  Notation p_text := (om_parse false true fix_nhkeys fix_nhsfx fix_tsmix fix_isnan true true fix_tsexp fix_sname NUM
                      parse_num parse_float parse_int num_lt num_eqb num_isinf num_integral num_huge num_zero num_one num_inf
                      ts_float is_word is_space_re is_digit_re).

  (* a well-formed family of one of the supported types *)
  Definition family_wf (f : family) : Prop :=
    gauge_family_wf fix_tsexp NUM parse_num parse_float parse_int num_eqb num_isinf val_of ts_of ex_of (f_name f) f
    \/ counter_family_wf fix_isnan fix_tsexp NUM parse_num parse_float parse_int num_lt num_eqb num_isinf num_huge num_zero
         val_of ts_of ex_of (f_name f) f
    \/ summary_family_ok fix_isnan fix_tsexp NUM parse_num parse_float parse_int num_lt num_eqb num_isinf num_integral num_huge
         num_zero num_one num_inf val_of ts_of ex_of (f_name f) f
    \/ info_family_wf fix_tsexp NUM parse_num parse_float parse_int num_eqb num_isinf num_one val_of ts_of ex_of (f_name f) f
    \/ stateset_family_wf fix_tsexp NUM parse_num parse_float parse_int num_eqb num_isinf num_zero num_one val_of ts_of ex_of
         (f_name f) f
    \/ histogram_family_wf fix_isnan fix_tsexp NUM parse_num parse_float parse_int num_lt num_eqb num_isinf num_integral num_huge
         num_zero num_inf val_of ts_of ex_of (f_name f) f.

  Theorem family_wf_acc f : family_wf f ->
    family_acc fix_nhkeys fix_nhsfx fix_tsmix fix_isnan fix_tsexp NUM parse_num parse_float parse_int num_lt
      num_eqb num_isinf num_integral num_huge num_zero num_one num_inf ts_float is_word is_space_re is_digit_re
      val_of ts_of ex_of f.
  Proof.
    intros [H|[H|[H|[H|[H|H]]]]].
    - eapply gauge_family_acc; exact H.
    - eapply counter_family_acc; exact H.
    - eapply summary_family_acc; exact H.
    - eapply info_family_acc; exact H.
    - eapply stateset_family_acc; exact H.
    - eapply histogram_family_acc; exact H.
  Qed.

  (* C04 L5: a document of several families of mixed types *)
  Theorem om_mixed_document_roundtrip fams text :
    Forall family_wf fams -> ForallOrdPairs names_apart fams ->
    om_render true fams = Ok text ->
    p_text text = Ok (map (gfam_of NUM val_of ts_of ex_of) fams).
  Proof.
    intros Hwf Hap Hr.
    apply (om_document_roundtrip fix_nhkeys fix_nhsfx fix_tsmix fix_isnan fix_tsexp fix_sname NUM parse_num parse_float parse_int
             num_lt num_eqb num_isinf num_integral num_huge num_zero num_one num_inf ts_float is_word is_space_re is_digit_re
             val_of ts_of ex_of fams text); [|exact Hap|exact Hr].
    eapply Forall_impl; [|exact Hwf]. apply family_wf_acc.
  Qed.

  (* one family of any supported type *)
  Corollary om_family_wf_roundtrip f text :
    family_wf f -> om_render true [f] = Ok text -> p_text text = Ok [gfam_of NUM val_of ts_of ex_of f].
  Proof.
    intros Hf Hr. apply (om_mixed_document_roundtrip [f] text); [|repeat constructor|exact Hr].
    constructor; [exact Hf|constructor].
  Qed.

  Corollary om_info_family_roundtrip n f text :
    info_family_wf fix_tsexp NUM parse_num parse_float parse_int num_eqb num_isinf num_one val_of ts_of ex_of n f ->
    om_render true [f] = Ok text -> p_text text = Ok [gfam_of NUM val_of ts_of ex_of f].
  Proof.
    intros Hf. apply om_family_wf_roundtrip. right. right. right. left.
    destruct Hf as (Hn & Hrest). rewrite Hn. split; [exact Hn|exact Hrest].
  Qed.

  Corollary om_stateset_family_roundtrip n f text :
    stateset_family_wf fix_tsexp NUM parse_num parse_float parse_int num_eqb num_isinf num_zero num_one val_of ts_of ex_of n f ->
    om_render true [f] = Ok text -> p_text text = Ok [gfam_of NUM val_of ts_of ex_of f].
  Proof.
    intros Hf. apply om_family_wf_roundtrip. right. right. right. right. left.
    destruct Hf as (Hn & Hrest). rewrite Hn. split; [exact Hn|exact Hrest].
  Qed.
End Document.
