(* Non-vacuity witnesses for C04 L4/L5: hostile samples evaluated on the models, with the small ASCII instance of the
   CPython oracles of proofs/OMWitness.v for int() (toy_int: plain digit strings) and, for float(), the token itself
   standing for the number CPython reads from it (tok_num: digits, sign, dot, exponent, Inf/NaN letters only). *)
From V Require Import lib.PyBase lib.PyStr model.Utils model.Validation model.Expo model.TextParser model.OMParser
  proofs.LabelRoundTrip proofs.SampleRoundTrip proofs.OMWitness proofs.OMSampleRoundTrip.
Open Scope N_scope.

Definition tok_num (s : str) : option str :=
  match s with
  | [] => None
  | _ => if forallb (fun c => is_digit c || mem_char c (s2l "+-.eInfNa")) s then Some s else None
  end.

Definition hostile_name : str := [LF; DQ; BS; RBRACE; SP; HASH; SP; LBRACE; COMMA].
Definition hostile_sample : sample :=
  {| s_name := hostile_name;
     s_labels := [([DQ; LF; SP; HASH; EQS], [BS; DQ; COMMA; RBRACE; SP; HASH; SP; LBRACE; LF]); (s2l "le", s2l "+Inf")];
     s_value := FFin true (s2l "1000000.0");
     s_ts_ms := None;
     s_ts_om := Some (TsNanos 1 500);
     s_ex := Some {| ex_labels := [([SP; HASH; SP; LBRACE; DQ; COMMA], [RBRACE; DQ; BS; LF; SP; HASH; SP; BS]);
                                   (s2l "trace_id", s2l "abc def")];
                     ex_value := FFin true (s2l "0.5");
                     ex_ts := Some (TsInt 1234) |} |}.

Definition toy_sample (fix_tsexp fix_sname : bool) (body : str) : res (om_sample str) :=
  om_parse_sample false true true fix_tsexp fix_sname str tok_num tok_num toy_int str_eqb (fun _ => false) body.

Definition hostile_line : str :=
  match Expo.om_sample_line true (s2l "histogram") hostile_name hostile_sample with Ok l => l | Err _ => [] end.

Definition hostile_exr : om_exemplar str :=
  {| oe_labels := sort_kv [([SP; HASH; SP; LBRACE; DQ; COMMA], [RBRACE; DQ; BS; LF; SP; HASH; SP; BS]);
                           (s2l "trace_id", s2l "abc def")];
     oe_value := s2l "0.5"; oe_ts := Some (OTs 1234 0) |}.

Lemma hostile_hyps fix_tsexp :
  Forall key_ok (map fst (s_labels hostile_sample)) /\ NoDup (map fst (s_labels hostile_sample)) /\
  om_token_ok (go_string (s_value hostile_sample)) /\
  tok_num (go_string (s_value hostile_sample)) = Some (s2l "1e+06") /\
  ts_reads fix_tsexp str tok_num toy_int str_eqb (fun _ => false) (s_ts_om hostile_sample) (Some (OTs 1 500)) /\
  ex_reads fix_tsexp str tok_num tok_num toy_int str_eqb (fun _ => false) (s_ex hostile_sample) (Some hostile_exr) /\
  Expo.om_sample_line true (s2l "histogram") hostile_name hostile_sample = Ok hostile_line.
Proof.
  split; [repeat constructor|]. split.
  { constructor; [intros [H|[]]; discriminate|]. constructor; [intros []|constructor]. }
  split; [apply om_token_okb_ok; vm_compute; reflexivity|]. split; [vm_compute; reflexivity|].
  split.
  { split; [apply om_token_okb_ok; vm_compute; reflexivity|]. eexists. split; [|reflexivity].
    destruct fix_tsexp; vm_compute; reflexivity. }
  split; [|vm_compute; reflexivity].
  split; [repeat constructor|]. split.
  { constructor; [intros [H|[]]; discriminate|]. constructor; [intros []|constructor]. }
  split; [vm_compute; lia|]. split; [apply om_token_okb_ok; vm_compute; reflexivity|].
  exists (s2l "0.5"), (Some (OTs 1234 0)). split; [vm_compute; reflexivity|]. split; [|reflexivity].
  split; [apply om_token_okb_ok; vm_compute; reflexivity|]. eexists. split; [|reflexivity].
  destruct fix_tsexp; vm_compute; reflexivity.
Qed.

(* and the conclusion, computed *)
Lemma hostile_reads fix_tsexp fix_sname :
  toy_sample fix_tsexp fix_sname (removelast hostile_line)
  = Ok {| os_name := hostile_name; os_labels := Some (sort_kv (s_labels hostile_sample));
          os_value := Some (s2l "1e+06"); os_ts := Some (OTs 1 500); os_ex := Some hostile_exr; os_nh := None |}.
Proof. destruct fix_tsexp, fix_sname; vm_compute; reflexivity. Qed.

(* the pinned quote toggle (fix_quote = false) does not read this line *)
Lemma hostile_orig_quote_toggle :
  om_parse_sample false true false true true str tok_num tok_num toy_int str_eqb (fun _ => false) (removelast hostile_line)
  = Err ValueError.
Proof. vm_compute. reflexivity. Qed.

(* ---------- L5: a hostile gauge family with a unit ---------- *)
From V Require Import proofs.OMDocRoundTrip.
From Coq Require Import Permutation.

Definition toy_text (fix_tsexp fix_sname : bool) (doc : str) : res (list (om_family str)) :=
  om_parse false true true true true true true true fix_tsexp fix_sname str tok_num tok_num toy_int
    (fun _ _ => false) str_eqb (fun _ => false) (fun _ => true) (fun _ => false) (s2l "0") (s2l "1") (s2l "+Inf")
    (fun _ _ => None) toy_word is_space_ascii is_digit doc.

Definition hostile_fname : str := hostile_name ++ s2l "_a b".
Definition hostile_g1 : sample :=
  {| s_name := hostile_fname;
     s_labels := [([DQ; LF; SP; HASH; EQS], [BS; DQ; COMMA; RBRACE; SP; HASH; SP; LBRACE; LF]); (s2l "le", s2l "+Inf")];
     s_value := FFin true (s2l "1000000.0"); s_ts_ms := None; s_ts_om := Some (TsNanos 1 500); s_ex := None |}.
Definition hostile_g2 : sample :=
  {| s_name := hostile_fname; s_labels := []; s_value := FFin false (s2l "-0.5"); s_ts_ms := None;
     s_ts_om := Some (TsInt 7); s_ex := None |}.
Definition hostile_family : family :=
  {| f_name := hostile_fname; f_doc := [SP; DQ; BS; LF; SP; HASH; SP; 69; 79; 70; SP]; f_type := s2l "gauge";
     f_unit := s2l "a b"; f_samples := [hostile_g1; hostile_g2] |}.

Definition hostile_val (s : sample) : str := go_string (s_value s).
Definition hostile_ts (s : sample) : option (om_tsv str) :=
  match s_ts_om s with Some (TsNanos sec ns) => Some (OTs sec (Z.of_N ns)) | Some (TsInt z) => Some (OTs z 0) | _ => None end.

Definition hostile_text : str := match om_render true [hostile_family] with Ok t => t | Err _ => [] end.

Lemma hostile_family_hyps fix_tsexp :
  f_name hostile_family <> [] /\ f_type hostile_family = Expo.S_gauge /\
  ends_with (USCORE :: f_unit hostile_family) (f_name hostile_family) = true /\
  Forall (om_sample_ok fix_tsexp str tok_num tok_num toy_int str_eqb (fun _ => false) hostile_val hostile_ts)
         (f_samples hostile_family) /\
  Forall (fun s => s_name s = f_name hostile_family) (f_samples hostile_family) /\
  ForallOrdPairs (fun s1 s2 => ~ Permutation (s_labels s1) (s_labels s2)) (f_samples hostile_family) /\
  om_render true [hostile_family] = Ok hostile_text.
Proof.
  split; [discriminate|]. split; [reflexivity|]. split; [vm_compute; reflexivity|].
  split.
  { constructor; [|constructor; [|constructor]].
    - split; [repeat constructor|]. split.
      { constructor; [intros [H|[]]; discriminate|]. constructor; [intros []|constructor]. }
      split; [apply om_token_okb_ok; vm_compute; reflexivity|]. split; [vm_compute; reflexivity|].
      split; [|reflexivity].
      split; [apply om_token_okb_ok; vm_compute; reflexivity|]. eexists. split; [|reflexivity].
      destruct fix_tsexp; vm_compute; reflexivity.
    - split; [constructor|]. split; [constructor|].
      split; [apply om_token_okb_ok; vm_compute; reflexivity|]. split; [vm_compute; reflexivity|].
      split; [|reflexivity].
      split; [apply om_token_okb_ok; vm_compute; reflexivity|]. eexists. split; [|reflexivity].
      destruct fix_tsexp; vm_compute; reflexivity. }
  split; [repeat constructor|]. split; [|vm_compute; reflexivity].
  repeat constructor. intro P. apply Permutation_length in P. discriminate.
Qed.

Lemma hostile_family_reads fix_tsexp fix_sname :
  toy_text fix_tsexp fix_sname hostile_text
  = Ok [ {| of_name := hostile_fname; of_doc := f_doc hostile_family; of_type := OM_gauge; of_unit := s2l "a b";
            of_samples := map (om_ps_of str hostile_val hostile_ts) (f_samples hostile_family) |} ].
Proof. destruct fix_tsexp, fix_sname; vm_compute; reflexivity. Qed.

(* two families in one document *)
Definition plain_family : family :=
  {| f_name := s2l "g"; f_doc := []; f_type := s2l "gauge"; f_unit := [];
     f_samples := [ {| s_name := s2l "g"; s_labels := [(s2l "a", [LF])]; s_value := FNaN; s_ts_ms := None; s_ts_om := None;
                       s_ex := None |} ] |}.
Definition two_text : str := match om_render true [hostile_family; plain_family] with Ok t => t | Err _ => [] end.

Lemma two_families_hyps fix_tsexp :
  Forall (gauge_family_ok fix_tsexp str tok_num tok_num toy_int str_eqb (fun _ => false) hostile_val hostile_ts)
         [hostile_family; plain_family] /\
  NoDup (map f_name [hostile_family; plain_family]) /\
  om_render true [hostile_family; plain_family] = Ok two_text.
Proof.
  split; [|split; [|vm_compute; reflexivity]].
  - destruct (hostile_family_hyps fix_tsexp) as (H1 & H2 & H3 & H4 & H5 & H6 & _).
    constructor; [repeat split; auto|]. constructor; [|constructor].
    split; [discriminate|]. split; [reflexivity|]. split; [left; reflexivity|].
    split; [|split; [repeat constructor|repeat constructor]].
    constructor; [|constructor].
    split; [repeat constructor|]. split; [constructor; [intros []|constructor]|].
    split; [apply om_token_okb_ok; vm_compute; reflexivity|]. split; [vm_compute; reflexivity|].
    split; reflexivity.
  - constructor; [intros [H|[]]; discriminate|]. constructor; [intros []|constructor].
Qed.

Lemma two_families_read fix_tsexp fix_sname :
  toy_text fix_tsexp fix_sname two_text
  = Ok (map (fam_of str hostile_val hostile_ts) [hostile_family; plain_family]).
Proof. destruct fix_tsexp, fix_sname; vm_compute; reflexivity. Qed.

(* the pinned exposition wrote an exemplar on ANY sample named like its family (the `and ... or` of
   _is_valid_exemplar_metric), the parser accepts exemplars on counters and histogram buckets only: a gauge sample
   carrying an exemplar (possible through Metric.add_sample in a custom collector) was written and then rejected.
   Repaired (fixes/C04-exemplar-eligibility.diff): the exposition refuses it with ValueError, like every other
   ineligible exemplar *)
Definition gauge_ex_sample : sample :=
  {| s_name := s2l "g"; s_labels := []; s_value := FFin true (s2l "1.0"); s_ts_ms := None; s_ts_om := None;
     s_ex := Some {| ex_labels := [(s2l "a", s2l "b")]; ex_value := FFin true (s2l "0.5"); ex_ts := None |} |}.
Definition gauge_with_exemplar : family :=
  {| f_name := s2l "g"; f_doc := s2l "h"; f_type := s2l "gauge"; f_unit := []; f_samples := [gauge_ex_sample] |}.
(* what the pinned source wrote for it *)
Definition gauge_with_exemplar_text : str :=
  s2l "# HELP g h" ++ [LF] ++ s2l "# TYPE g gauge" ++ [LF] ++ s2l "g 1.0 # {a=" ++ [DQ] ++ s2l "b" ++ [DQ] ++ s2l "} 0.5" ++ [LF]
  ++ s2l "# EOF" ++ [LF].
Lemma gauge_exemplar_orig_refuted :
  is_valid_exemplar_metric_orig (s2l "gauge") (s2l "g") gauge_ex_sample = true /\
  toy_text true true gauge_with_exemplar_text = Err ValueError /\
  is_valid_exemplar_metric (s2l "gauge") (s2l "g") gauge_ex_sample = false /\
  om_render true [gauge_with_exemplar] = Err ValueError.
Proof. repeat split; vm_compute; reflexivity. Qed.

(* the pinned eligibility test compared `metric.type in ('gaugehistogram')`: a substring test, so a GAUGE family with a
   sample named *_bucket was eligible too; the parser rejects the line it wrote.  Repaired: equality of types. *)
Definition gauge_bucket_sample : sample :=
  {| s_name := s2l "f_bucket"; s_labels := []; s_value := FFin true (s2l "1.0"); s_ts_ms := None; s_ts_om := None;
     s_ex := Some {| ex_labels := [(s2l "a", s2l "b")]; ex_value := FFin true (s2l "0.5"); ex_ts := None |} |}.
Definition gauge_bucket_family : family :=
  {| f_name := s2l "f_bucket"; f_doc := s2l "h"; f_type := s2l "gauge"; f_unit := []; f_samples := [gauge_bucket_sample] |}.
Definition gauge_bucket_text : str :=
  s2l "# HELP f_bucket h" ++ [LF] ++ s2l "# TYPE f_bucket gauge" ++ [LF] ++ s2l "f_bucket 1.0 # {a=" ++ [DQ] ++ s2l "b" ++ [DQ] ++ s2l "} 0.5" ++ [LF]
  ++ s2l "# EOF" ++ [LF].
Lemma exemplar_type_substring_orig_refuted :
  is_valid_exemplar_metric_orig (s2l "gauge") (s2l "g") gauge_bucket_sample = true /\
  toy_text true true gauge_bucket_text = Err ValueError /\
  is_valid_exemplar_metric (s2l "gauge") (s2l "g") gauge_bucket_sample = false /\
  om_render true [gauge_bucket_family] = Err ValueError.
Proof. repeat split; vm_compute; reflexivity. Qed.

(* ---------- L5: a hostile counter family with exemplars ---------- *)
From V Require Import proofs.OMCounterRoundTrip.

Definition hostile_labels : list (str * str) :=
  [([DQ; LF; SP; HASH; EQS], [BS; DQ; COMMA; RBRACE; SP; HASH; SP; LBRACE; LF]); (s2l "zone", s2l "a b")].
Definition hostile_ex : exemplar :=
  {| ex_labels := [([SP; HASH; SP; LBRACE; DQ; COMMA], [RBRACE; DQ; BS; LF; SP; HASH; SP; BS]); (s2l "trace_id", s2l "abc def")];
     ex_value := FFin true (s2l "0.5"); ex_ts := Some (TsNanos 1 500) |}.
Definition csample (sfx : string) (labels : list (str * str)) (v : string) (e : option exemplar) : sample :=
  {| s_name := hostile_name ++ s2l sfx; s_labels := labels; s_value := FFin true (s2l v); s_ts_ms := None; s_ts_om := None;
     s_ex := e |}.
Definition hostile_counter : family :=
  {| f_name := hostile_name; f_doc := [SP; DQ; BS; LF; SP]; f_type := s2l "counter"; f_unit := [];
     f_samples := [csample "_total" hostile_labels "3.0" (Some hostile_ex); csample "_created" hostile_labels "123.5" None;
                   csample "_total" [] "1.0" None; csample "_created" [] "124.5" None] |}.
Definition hostile_cex (s : sample) : option (om_exemplar str) :=
  match s_ex s with
  | Some e => Some {| oe_labels := sort_kv (ex_labels e); oe_value := go_string (ex_value e);
                      oe_ts := match ex_ts e with Some (TsNanos a b) => Some (OTs a (Z.of_N b)) | Some (TsInt z) => Some (OTs z 0)
                                                | _ => None end |}
  | None => None
  end.
Definition hostile_counter_text : str := match om_render true [hostile_counter] with Ok t => t | Err _ => [] end.

Lemma hostile_counter_hyps fix_isnan fix_tsexp :
  counter_family_ok fix_isnan fix_tsexp str tok_num tok_num toy_int (fun _ _ => false) str_eqb (fun _ => false) (fun _ => false)
    (s2l "0") hostile_val hostile_cex hostile_name hostile_counter
  /\ om_render true [hostile_counter] = Ok hostile_counter_text.
Proof.
  split; [|vm_compute; reflexivity].
  split; [reflexivity|]. split; [discriminate|]. split; [reflexivity|]. split; [left; reflexivity|].
  split; [|vm_compute; reflexivity].
  assert (Hkeys : Forall key_ok (map fst hostile_labels) /\ NoDup (map fst hostile_labels)).
  { split; [repeat constructor|]. constructor; [intros [H|[]]; discriminate|]. constructor; [intros []|constructor]. }
  destruct Hkeys as [Hk Hnd].
  constructor; [|constructor; [|constructor; [|constructor; [|constructor]]]].
  - split; [exact Hk|]. split; [exact Hnd|]. split; [apply om_token_okb_ok; vm_compute; reflexivity|].
    split; [vm_compute; reflexivity|]. split; [reflexivity|]. split.
    + split; [repeat constructor|]. split.
      { constructor; [intros [H|[]]; discriminate|]. constructor; [intros []|constructor]. }
      split; [vm_compute; lia|]. split; [apply om_token_okb_ok; vm_compute; reflexivity|].
      eexists _, _. split; [vm_compute; reflexivity|]. split; [|reflexivity].
      split; [apply om_token_okb_ok; vm_compute; reflexivity|]. eexists. split; [|reflexivity].
      destruct fix_tsexp; vm_compute; reflexivity.
    + left. split; [reflexivity|]. split; [apply str_eqb_refl|]. split; [reflexivity|]. right. reflexivity.
  - split; [exact Hk|]. split; [exact Hnd|]. split; [apply om_token_okb_ok; vm_compute; reflexivity|].
    split; [vm_compute; reflexivity|]. split; [reflexivity|]. split; [reflexivity|]. right. split; reflexivity.
  - split; [constructor|]. split; [constructor|]. split; [apply om_token_okb_ok; vm_compute; reflexivity|].
    split; [vm_compute; reflexivity|]. split; [reflexivity|]. split; [reflexivity|].
    left. split; [reflexivity|]. split; [apply str_eqb_refl|]. split; [reflexivity|]. right. reflexivity.
  - split; [constructor|]. split; [constructor|]. split; [apply om_token_okb_ok; vm_compute; reflexivity|].
    split; [vm_compute; reflexivity|]. split; [reflexivity|]. split; [reflexivity|]. right. split; reflexivity.
Qed.

Lemma hostile_counter_reads fix_tsexp fix_sname :
  toy_text fix_tsexp fix_sname hostile_counter_text = Ok [cfam_of str hostile_val hostile_cex hostile_counter].
Proof. destruct fix_tsexp, fix_sname; vm_compute; reflexivity. Qed.
