(* C14, native-histogram part of model/OMParser.v: the use of the never-bound `elems` in _compose_deltas
   (UnboundLocalError) is unreachable, because the re_deltas pattern only captures a text that starts with '-' or
   a \d character, and such a character is not whitespace (platform fact, checked over all code points by
   harness/c14om.check_platform_facts).  A pattern that also captured the empty text would break exactly this. *)
From V Require Import lib.PyBase lib.PyStr lib.Tac model.Validation model.Expo model.TextParser model.OMParser.
From V Require Import proofs.OMProofs.
Open Scope N_scope.

Section NH.
  Variable is_digit_re : char -> bool.
  Variable parse_int : str -> option Z.
  Hypothesis digit_not_space : forall c, is_digit_re c = true -> is_space_uni c = false.

  Definition starts_nonblank (v : str) : Prop := exists c t, v = c :: t /\ is_space_uni c = false.

  Lemma lstrip_snoc_nonempty p (l : str) c : p c = false -> lstrip_p p (l ++ [c]) <> [].
  Proof.
    intros H. induction l as [|x l IH]; simpl.
    - rewrite H. discriminate.
    - destruct (p x); [exact IH | discriminate].
  Qed.

  Lemma strip_nonblank v : starts_nonblank v -> strip v <> [].
  Proof.
    intros (c & t & -> & H). unfold strip, strip_p, rstrip_p. cbn [lstrip_p]. rewrite H.
    intro E. apply (f_equal (@rev char)) in E. rewrite rev_involutive in E. cbn [rev] in E.
    revert E. apply lstrip_snoc_nonempty. exact H.
  Qed.

  Lemma span_head p s c d r : om_span p s = (c :: d, r) -> p c = true.
  Proof.
    destruct s as [|x s]; simpl; [discriminate|].
    destruct (p x) eqn:E; [|discriminate].
    destruct (om_span p s) as [a b]. intros H. inversion H; subst. exact E.
  Qed.

  Lemma digits1_head s d r : om_digits1 is_digit_re s = Some (d, r) -> starts_nonblank d.
  Proof.
    unfold om_digits1. destruct (om_span is_digit_re s) as [a b] eqn:E.
    destruct a as [|c a]; [discriminate|]. intros H. inversion H; subst.
    exists c, a. split; [reflexivity|]. apply digit_not_space. eapply span_head; eauto.
  Qed.

  Lemma sdigits_head s p r : om_sdigits is_digit_re s = Some (p, r) -> starts_nonblank p.
  Proof.
    unfold om_sdigits. destruct s as [|c s]; [discriminate|].
    destruct (c =? OM_MINUS) eqn:E.
    - destruct (om_digits1 is_digit_re s) as [[d r']|]; [|discriminate]. intros H. inversion H; subst.
      exists c, d. split; [reflexivity|]. apply N.eqb_eq in E. subst c. reflexivity.
    - apply digits1_head.
  Qed.

  Lemma app_nonblank a b : starts_nonblank a -> starts_nonblank (a ++ b).
  Proof. intros (c & t & -> & H). exists c, (t ++ b). split; [reflexivity | exact H]. Qed.

  (* what re_deltas captures never strips to the empty text *)
  Lemma deltas_at_nonblank s k v r : om_deltas_at is_digit_re s = Some ((k, v), r) -> starts_nonblank v.
  Proof.
    unfold om_deltas_at.
    assert (K : forall key x,
      match om_strip_prefix (key ++ [COLON; OM_LBRACK]) s with
      | Some r0 =>
          match om_sdigits is_digit_re r0 with
          | Some (p, r1) =>
              let '(m, r2) := om_deltas_more is_digit_re (length r1) r1 in
              match r2 with
              | c :: r3 => if c =? OM_RBRACK then Some ((key, p ++ m), r3) else None
              | [] => None
              end
          | None => None
          end
      | None => None
      end = Some x -> starts_nonblank (snd (fst x))).
    { intros key x. destruct (om_strip_prefix (key ++ [COLON; OM_LBRACK]) s) as [r0|]; [|discriminate].
      destruct (om_sdigits is_digit_re r0) as [[p r1]|] eqn:E; [|discriminate].
      destruct (om_deltas_more is_digit_re (length r1) r1) as [m r2].
      destruct r2 as [|c r3]; [discriminate|]. destruct (c =? OM_RBRACK); [|discriminate].
      intros H. inversion H; subst. cbn. apply app_nonblank. eapply sdigits_head; eauto. }
    intros H.
    match type of H with
    | match ?a with Some x => Some x | None => ?b end = _ =>
        destruct a as [x|] eqn:E1; [inversion H; subst; apply (K _ _ E1) | apply (K _ _ H)]
    end.
  Qed.

  Definition vals_nonblank (d : list (str * str)) : Prop := Forall (fun kv => starts_nonblank (snd kv)) d.

  Lemma findall_fuel_vals fuel : forall s l,
    om_findall_fuel fuel (om_deltas_at is_digit_re) s = Ok l -> vals_nonblank l.
  Proof.
    induction fuel as [|f IH]; intros s l H; simpl in H; [discriminate|].
    destruct s as [|c s]; [inversion H; constructor|].
    destruct (om_deltas_at is_digit_re (c :: s)) as [[[k v] rest]|] eqn:E.
    - apply bind_ok in H as (l' & E' & H). inversion H; subst. constructor.
      + cbn. eapply deltas_at_nonblank; eauto.
      + eapply IH; eauto.
    - eapply IH; eauto.
  Qed.

  Lemma d_set_vals (d : assoc str str) k v : vals_nonblank d -> starts_nonblank v -> vals_nonblank (d_set str_eqb d k v).
  Proof.
    intros Hd Hv. induction d as [|[k' v'] d IH]; simpl.
    - constructor; [exact Hv | constructor].
    - inversion Hd as [|x d' H1 H2]; subst. destruct (str_eqb k k').
      + constructor; [exact Hv | exact H2].
      + constructor; [exact H1 | exact (IH H2)].
  Qed.

  Lemma dict_of_vals l : forall d, vals_nonblank l -> vals_nonblank d -> vals_nonblank (om_dict_of l d).
  Proof.
    induction l as [|[k v] l IH]; intros d Hl Hd; simpl; [exact Hd|].
    inversion Hl; subst. apply IH; [assumption|]. apply d_set_vals; assumption.
  Qed.

  Lemma d_find_vals (d : assoc str str) k v : vals_nonblank d -> d_find str_eqb d k = Some v -> starts_nonblank v.
  Proof.
    intros Hd. induction d as [|[k' v'] d IH]; simpl; [discriminate|].
    inversion Hd; subst. destruct (str_eqb k k'); [intros H; inversion H; subst; assumption | auto].
  Qed.

  Lemma map_res_not {A B} (f : A -> res B) e (l : list A) :
    (forall x, f x <> Err e) -> om_map_res f l <> Err e.
  Proof.
    intros H. induction l as [|x l IH]; simpl; [discriminate|].
    destruct (f x) eqn:E; simpl; [|intro X; inversion X; subst; exact (H x E)].
    destruct (om_map_res f l); simpl; [discriminate | exact IH].
  Qed.

  (* _compose_deltas on the dictionary built from re_deltas.findall never reads the unbound `elems` *)
  Lemma compose_deltas_bound text l name :
    om_findall (om_deltas_at is_digit_re) text = Ok l ->
    om_compose_deltas parse_int (om_dict_of l []) name <> Err UnboundLocalError.
  Proof.
    intros H. unfold om_findall in H. apply findall_fuel_vals in H.
    unfold om_compose_deltas.
    destruct (d_find str_eqb (om_dict_of l []) name) as [out|] eqn:E; [|discriminate].
    assert (N : strip out <> []).
    { apply strip_nonblank. eapply d_find_vals; [|exact E]. apply dict_of_vals; [exact H | constructor]. }
    destruct (strip out) eqn:S; [contradiction|].
    match goal with |- bind ?m _ <> _ => destruct m eqn:M end; simpl; [discriminate|].
    intro X. inversion X; subst.
    revert M. apply map_res_not. intros x. unfold om_int. destruct (parse_int (strip x)); discriminate.
  Qed.
End NH.
