(* C02 - proofs linking the final state of a finished execution to the PROGRAM TEXT (the operations issued),
   termination, and the widened discipline theorem.  Model: model/Conc.v; base invariant: proofs/ConcProofs.v. *)
From V Require Import lib.PyBase lib.Tac model.Conc proofs.ConcProofs.
Ltac Zify.zify_post_hook ::= Z.to_euclidean_division_equations.
Open Scope N_scope.

(* ---------- what one step does to the stepping thread's code and to the trace ---------- *)
Definition ev_tid (e : event) : nat :=
  match e with
  | EvAcq t _ | EvRel t _ | EvLoad t _ _ | EvUpd t _ _ | EvLookup t _ _ _ | EvCopy t _ | EvTWrite t _ _
  | EvNew t _ | EvCall t _ _ | EvRet t _ | EvRetZ t _ | EvExc t => t
  end.
Definition plain_ev (e : event) : Prop :=
  match e with EvUpd _ _ _ | EvExc _ | EvTWrite _ _ _ | EvNew _ _ => False | _ => True end.

Definition outcome (bodies : N -> list instr) (t : nat) (i : instr) (rest : list instr) (rg : reg -> val) (hd : list lock)
    (nx : N) (evs : list event) (code' : list instr) : Prop :=
  match i with
  | Store x e => evs = [EvUpd t (res_loc rg x) (ev_of rg e)] /\ code' = rest
  | TblInsert tb k v => evs = [EvTWrite t tb (WIns k (res_id rg v))] /\ code' = rest
  | TblDel tb k => evs = [EvTWrite t tb (WDel k)] /\ code' = rest
  | TblClear tb => evs = [EvTWrite t tb WClear] /\ code' = rest
  | New r => evs = [EvNew t nx] /\ code' = rest
  | JmpIf p r k => evs = [] /\ (code' = rest \/ code' = skipn k rest)
  | ForSnap r rr b => evs = [] /\ (code' = rest \/ code' = bodies b ++ ForSnap r rr b :: rest)
  | Callout ci => evs = [EvCall t (res_id rg ci) hd] /\ code' = bodies (res_id rg ci) ++ rest
  | Raise => (evs = [EvExc t] /\ code' = [] /\ hd = []) \/ (exists k, evs = [EvRel t k] /\ code' = Raise :: rest /\ hd <> [])
  | _ => (exists ev, evs = [ev] /\ ev_tid ev = t /\ plain_ev ev) /\ code' = rest
  end.

Lemma set_thr_same' c t th : set_thr c t th t = th.
Proof. unfold set_thr, updf. rewrite Nat.eqb_refl. reflexivity. Qed.
Lemma set_thr_other' c t th t' : t' <> t -> set_thr c t th t' = thr c t'.
Proof. intro H. unfold set_thr, updf. apply Nat.eqb_neq in H. rewrite H. reflexivity. Qed.

Ltac pick_evs :=
  match goal with
  | |- exists evs, ?e :: ?tr = evs ++ ?tr /\ _ => exists [e]; split; [reflexivity|]
  | |- exists evs, ?tr = evs ++ ?tr /\ _ => exists []; split; [reflexivity|]
  end.
Ltac plain1 := split; [eexists; split; [reflexivity|split; [reflexivity|exact I]]|reflexivity].

Lemma step_outcome bodies t c c' : step bodies t c = Some c' ->
  exists i rest, code (thr c t) = i :: rest /\
  (forall t', t' <> t -> thr c' t' = thr c t') /\
  exists evs, trace c' = evs ++ trace c /\
  outcome bodies t i rest (regs (thr c t)) (held (thr c t)) (next c) evs (code (thr c' t)).
Proof.
  unfold step. destruct (thr c t) as [cd rg hd] eqn:Hthr. simpl.
  destruct cd as [|i rest]; [discriminate|]. intro Hs. exists i, rest. split; [reflexivity|].
  destruct i; simpl in Hs;
    try (injection Hs as <-; simpl; split; [intros t' Ht'; apply set_thr_other'; exact Ht'|];
         pick_evs; rewrite set_thr_same'; simpl; first [plain1 | split; reflexivity]).
  - (* Acq *)
    destruct (locks c (res_lock rg l)); [discriminate|]. injection Hs as <-. simpl.
    split; [intros t' Ht'; apply set_thr_other'; exact Ht'|].
    pick_evs. rewrite set_thr_same'. simpl. plain1.
  - (* JmpIf *)
    injection Hs as <-. simpl. split; [intros t' Ht'; apply set_thr_other'; exact Ht'|].
    pick_evs. rewrite set_thr_same'. simpl. split; [reflexivity|].
    destruct (Bool.eqb (is_present (rg r)) present); auto.
  - (* ForSnap *)
    destruct (rg r) as [| | |[|[k0 id] more]]; injection Hs as <-; simpl;
      (split; [intros t' Ht'; apply set_thr_other'; exact Ht'|]); pick_evs; rewrite set_thr_same'; simpl; auto.
  - (* Raise *)
    destruct hd as [|k more]; injection Hs as <-; simpl;
      (split; [intros t' Ht'; apply set_thr_other'; exact Ht'|]); pick_evs; rewrite set_thr_same'; simpl.
    + left; auto.
    + right; exists k; repeat split; auto; discriminate.
Qed.

Lemma outcome_tid bodies t i rest rg hd nx evs code' :
  outcome bodies t i rest rg hd nx evs code' -> Forall (fun e => ev_tid e = t) evs.
Proof.
  destruct i; simpl; intro H;
    try (destruct H as [(ev & -> & Ht & _) _]; repeat constructor; exact Ht);
    try (destruct H as [-> _]; repeat constructor; fail).
  destruct H as [(-> & _)|(k & -> & _)]; repeat constructor.
Qed.

(* ---------- finite sums ---------- *)
Definition zsum (l : list Z) : Z := fold_right Z.add 0%Z l.
Lemma zsum_app a b : zsum (a ++ b) = (zsum a + zsum b)%Z.
Proof. induction a as [|z a IH]; simpl; [reflexivity|]. rewrite IH. lia. Qed.
Lemma zsum_zero {A} (l : list A) : zsum (map (fun _ => 0%Z) l) = 0%Z.
Proof. induction l; simpl; auto. Qed.
Lemma zsum_nodelta (g : nat -> Z) a t' : forall n s, (t' < s)%nat ->
  zsum (map (fun t => (g t + (if Nat.eqb t' t then a else 0))%Z) (seq s n)) = zsum (map g (seq s n)).
Proof.
  induction n as [|n IH]; intros s Hs; simpl; [reflexivity|].
  rewrite IH by lia. destruct (Nat.eqb t' s) eqn:E; [apply Nat.eqb_eq in E; lia|lia].
Qed.
Lemma zsum_delta (g : nat -> Z) a t' : forall n s, (s <= t' < s + n)%nat ->
  zsum (map (fun t => (g t + (if Nat.eqb t' t then a else 0))%Z) (seq s n)) = (zsum (map g (seq s n)) + a)%Z.
Proof.
  induction n as [|n IH]; intros s Hs; simpl; [lia|].
  destruct (Nat.eqb t' s) eqn:E.
  - apply Nat.eqb_eq in E; subst s. rewrite zsum_nodelta by lia. lia.
  - apply Nat.eqb_neq in E. rewrite IH by lia. lia.
Qed.
Lemma map_nth_seq {A B} (g : A -> B) (d : A) (l : list A) :
  map (fun t => g (nth t l d)) (seq 0 (length l)) = map g l.
Proof.
  induction l as [|a l IH]; simpl; [reflexivity|]. f_equal.
  rewrite <- seq_shift, map_map. exact IH.
Qed.

(* the increments of cell x applied by thread t *)
Fixpoint sum_incs_t (t : nat) (x : loc) (tr : list event) : Z :=
  match tr with
  | [] => 0%Z
  | EvUpd t' y (UAdd a) :: older =>
      if Nat.eqb t' t && loc_eqb y x then (sum_incs_t t x older + a)%Z else sum_incs_t t x older
  | _ :: older => sum_incs_t t x older
  end.

Lemma sum_incs_split x N tr : Forall (fun e => (ev_tid e < N)%nat) tr ->
  sum_incs x tr = zsum (map (fun t => sum_incs_t t x tr) (seq 0 N)).
Proof.
  induction tr as [|ev tr IH]; intro H.
  - simpl. symmetry. apply zsum_zero.
  - inversion H as [|? ? Hev Htr]; subst. specialize (IH Htr).
    destruct ev; simpl; try exact IH.
    destruct u as [z|a]; [exact IH|]. simpl in Hev.
    destruct (loc_eqb x0 x).
    + rewrite IH. rewrite <- (zsum_delta (fun t0 => sum_incs_t t0 x tr) a t N 0) by lia.
      f_equal. apply map_ext. intro t0. rewrite andb_true_r. destruct (Nat.eqb t t0); lia.
    + rewrite IH. f_equal. apply map_ext. intro t0. rewrite andb_false_r. reflexivity.
Qed.

Lemma sum_incs_t_other t t' x evs tr :
  Forall (fun e => ev_tid e = t') evs -> t <> t' -> sum_incs_t t x (evs ++ tr) = sum_incs_t t x tr.
Proof.
  intros H Hne. induction H as [|ev evs Hev _ IH]; simpl; [reflexivity|].
  destruct ev; try exact IH. destruct u; [exact IH|]. simpl in Hev. subst t0.
  assert (E : Nat.eqb t' t = false) by (apply Nat.eqb_neq; congruence). rewrite E. exact IH.
Qed.

(* ---------- static cells: what a piece of code WILL add to the static cell n ---------- *)
Fixpoint pend (n : N) (code : list instr) : Z :=
  match code with
  | [] => 0%Z
  | Store (SLoc m) (EAdd _ a) :: rest => if N.eqb m n then (a + pend n rest)%Z else pend n rest
  | _ :: rest => pend n rest
  end.
(* the code never SETS cell n, and no jump skips an increment of cell n *)
Fixpoint acc_ok (n : N) (code : list instr) : Prop :=
  match code with
  | [] => True
  | i :: rest =>
      match i with
      | Store (SLoc m) (EConst _) | Store (SLoc m) (EReg _) => m <> n
      | JmpIf _ _ k => pend n (skipn k rest) = pend n rest
      | _ => True
      end /\ acc_ok n rest
  end.
(* collector / loop bodies: no store to cell n at all, jumps stay inside the body *)
Definition nostore (n : N) (b : list instr) : Prop :=
  Forall (fun i => match i with Store (SLoc m) _ => m <> n | _ => True end) b.
Fixpoint jumps_in (b : list instr) : Prop :=
  match b with
  | [] => True
  | JmpIf _ _ k :: rest => (k <= length rest)%nat /\ jumps_in rest
  | _ :: rest => jumps_in rest
  end.

Lemma pend_app n a b : pend n (a ++ b) = (pend n a + pend n b)%Z.
Proof.
  induction a as [|i a IH]; simpl; [reflexivity|].
  destruct i; auto. destruct x; auto. destruct e; auto. destruct (N.eqb n0 n); lia.
Qed.
Lemma Forall_skipn {A} (P : A -> Prop) k : forall l, Forall P l -> Forall P (skipn k l).
Proof. induction k as [|k IH]; intros [|a l] H; simpl; auto. inversion H; auto. Qed.
Lemma acc_ok_skipn n k : forall l, acc_ok n l -> acc_ok n (skipn k l).
Proof. induction k as [|k IH]; intros [|a l] H; simpl; auto. destruct H; auto. Qed.
Lemma nostore_pend n b : nostore n b -> pend n b = 0%Z.
Proof.
  induction 1 as [|i b Hi _ IH]; simpl; [reflexivity|].
  destruct i; auto. destruct x; auto. destruct e; auto.
  destruct (N.eqb n0 n) eqn:E; [apply N.eqb_eq in E; contradiction|exact IH].
Qed.
Lemma acc_ok_body n b : forall rest, nostore n b -> jumps_in b -> acc_ok n rest -> acc_ok n (b ++ rest).
Proof.
  induction b as [|i b IH]; intros rest Hn Hj Hr; simpl; [exact Hr|].
  inversion Hn as [|? ? Hi Hb]; subst.
  assert (Hj' : jumps_in b) by (destruct i; simpl in Hj; try exact Hj; destruct Hj; assumption).
  split; [|apply IH; assumption].
  destruct i; auto.
  - destruct x; auto. destruct e; auto.
  - simpl in Hj. destruct Hj as [Hk _]. rewrite skipn_app.
    replace (n0 - length b)%nat with O by lia. simpl.
    rewrite !pend_app. rewrite (nostore_pend n b Hb), (nostore_pend n (skipn n0 b)); [reflexivity|].
    apply Forall_skipn; exact Hb.
Qed.

Lemma only_incs_plain x ev tr : plain_ev ev -> only_incs x tr -> only_incs x (ev :: tr).
Proof. destruct ev; simpl; auto; contradiction. Qed.
Lemma sum_incs_t_plain t x ev tr : (match ev with EvUpd _ _ _ => False | _ => True end) ->
  sum_incs_t t x (ev :: tr) = sum_incs_t t x tr.
Proof. destruct ev; simpl; auto; contradiction. Qed.

Section Static.
  Variable bodies : N -> list instr.
  Variable n : N.
  Hypothesis Hbn : forall b, nostore n (bodies b).
  Hypothesis Hbj : forall b, jumps_in (bodies b).

  Definition raising (t : nat) (c : config) : Prop :=
    In (EvExc t) (trace c) \/ exists rest, code (thr c t) = Raise :: rest.
  (* per thread: what it has added to cell n so far plus what its remaining code will add is what its program adds *)
  Definition SI (p : list instr) (t : nat) (c : config) : Prop :=
    acc_ok n (code (thr c t)) /\
    (raising t c \/ (sum_incs_t t (LStat n) (trace c) + pend n (code (thr c t)) = pend n p)%Z).

  Lemma SI_adv p t c c' i rest evs :
    code (thr c t) = i :: rest -> trace c' = evs ++ trace c -> code (thr c' t) = rest ->
    i <> Raise ->
    (sum_incs_t t (LStat n) (evs ++ trace c) + pend n rest = sum_incs_t t (LStat n) (trace c) + pend n (i :: rest))%Z ->
    acc_ok n rest -> SI p t c -> SI p t c'.
  Proof.
    intros Hc Htr Hc' Hnr Heq Hok [_ Hacc]. split; [rewrite Hc'; exact Hok|].
    destruct Hacc as [[Hex|(r0 & Hr)]|Hacc].
    - left; left. rewrite Htr. apply in_or_app; right; exact Hex.
    - rewrite Hc in Hr. injection Hr as -> _. contradiction.
    - right. rewrite Htr, Hc', Heq, <- Hc. exact Hacc.
  Qed.

  Lemma SI_step p t t' c c' : step bodies t' c = Some c' -> SI p t c -> SI p t c'.
  Proof.
    intros Hs HSI. destruct (step_outcome _ _ _ _ Hs) as (i & rest & Hc & Hoth & evs & Htr & Hout).
    destruct (Nat.eq_dec t t') as [->|Hne].
    2:{ destruct HSI as [Hok Hacc]. unfold SI, raising. rewrite (Hoth t Hne), Htr.
        split; [exact Hok|]. destruct Hacc as [[Hex|Hr]|Hacc].
        - left; left. apply in_or_app; right; exact Hex.
        - left; right; exact Hr.
        - right. rewrite (sum_incs_t_other t t' _ evs); [exact Hacc|eapply outcome_tid; eauto|exact Hne]. }
    pose proof HSI as [Hok _]. rewrite Hc in Hok. simpl in Hok. destruct Hok as [Hi Hok].
    destruct i; simpl in Hout;
      try (destruct Hout as [(ev & -> & _ & Hpl) Hc'];
           apply (SI_adv p t' c c' _ rest [ev] Hc Htr Hc'); [discriminate| |exact Hok|exact HSI];
           simpl app; rewrite sum_incs_t_plain by (destruct ev; simpl in Hpl |- *; auto); reflexivity);
      try (destruct Hout as [-> Hc'];
           apply (SI_adv p t' c c' _ rest _ Hc Htr Hc'); [discriminate| |exact Hok|exact HSI];
           simpl; reflexivity).
    - (* Store *)
      destruct Hout as [-> Hc'].
      apply (SI_adv p t' c c' _ rest _ Hc Htr Hc'); [discriminate| |exact Hok|exact HSI].
      destruct x as [m|r j]; destruct e as [z|r0|r0 a]; simpl; try reflexivity.
      + rewrite Nat.eqb_refl. simpl. destruct (N.eqb m n); lia.
      + rewrite andb_false_r. reflexivity.
    - (* JmpIf *)
      destruct Hout as [-> [Hc'|Hc']].
      + apply (SI_adv p t' c c' _ rest [] Hc Htr Hc'); [discriminate|reflexivity|exact Hok|exact HSI].
      + destruct HSI as [_ Hacc]. split; [rewrite Hc'; apply acc_ok_skipn; exact Hok|].
        destruct Hacc as [[Hex|(r0 & Hr)]|Hacc].
        * left; left. rewrite Htr. exact Hex.
        * rewrite Hc in Hr. discriminate.
        * right. rewrite Htr, Hc', Hi. rewrite Hc in Hacc. exact Hacc.
    - (* ForSnap *)
      destruct Hout as [-> [Hc'|Hc']].
      + apply (SI_adv p t' c c' _ rest [] Hc Htr Hc'); [discriminate|reflexivity|exact Hok|exact HSI].
      + destruct HSI as [_ Hacc].
        assert (Hok' : acc_ok n (ForSnap r rr b :: rest)) by (simpl; auto).
        split; [rewrite Hc'; apply acc_ok_body; auto|].
        destruct Hacc as [[Hex|(r0 & Hr)]|Hacc].
        * left; left. rewrite Htr. exact Hex.
        * rewrite Hc in Hr. discriminate.
        * right. rewrite Htr, Hc', pend_app, (nostore_pend n _ (Hbn b)). rewrite Hc in Hacc. exact Hacc.
    - (* Callout *)
      destruct Hout as [-> Hc']. destruct HSI as [_ Hacc].
      split; [rewrite Hc'; apply acc_ok_body; auto|].
      destruct Hacc as [[Hex|(r0 & Hr)]|Hacc].
      + left; left. rewrite Htr. right; exact Hex.
      + rewrite Hc in Hr. discriminate.
      + right. rewrite Htr, Hc', pend_app, (nostore_pend n _ (Hbn _)). rewrite Hc in Hacc. exact Hacc.
    - (* Raise *)
      destruct Hout as [(-> & Hc' & _)|(k & -> & Hc' & _)].
      + split; [rewrite Hc'; exact I|]. left; left. rewrite Htr. left; reflexivity.
      + split; [rewrite Hc'; simpl; auto|]. left; right. eauto.
  Qed.
End Static.

(* ---------- thread identifiers in the trace are those of the given programs ---------- *)
Lemma thr_of_list_code ps t : code (thr_of_list ps t) = nth t ps [].
Proof. revert t; induction ps as [|p ps IH]; intros [|t]; simpl; auto. Qed.

Definition tids_ok (N : nat) (c : config) : Prop :=
  (forall t, (N <= t)%nat -> code (thr c t) = []) /\ Forall (fun e => (ev_tid e < N)%nat) (trace c).

Lemma tids_step bodies N t c c' : step bodies t c = Some c' -> tids_ok N c -> tids_ok N c'.
Proof.
  intros Hs [Hfin Htr]. destruct (step_outcome _ _ _ _ Hs) as (i & rest & Hc & Hoth & evs & Htr' & Hout).
  assert (Hlt : (t < N)%nat).
  { destruct (Nat.lt_ge_cases t N) as [H|H]; [exact H|]. rewrite (Hfin t H) in Hc. discriminate. }
  split.
  - intros t' Ht'. rewrite Hoth by lia. apply Hfin; exact Ht'.
  - rewrite Htr'. apply Forall_app; split; [|exact Htr].
    eapply Forall_impl; [|eapply outcome_tid; eauto]. simpl. intros e ->. exact Hlt.
Qed.

Lemma tids_init h0 tb0 n0 ps : tids_ok (length ps) (init_config h0 tb0 n0 ps).
Proof.
  split; simpl; [|constructor]. intros t Ht. rewrite thr_of_list_code. apply nth_overflow; exact Ht.
Qed.

(* ---------- no Raise instruction anywhere: no thread ever raises ---------- *)
Definition noraise (code : list instr) : Prop := Forall (fun i => i <> Raise) code.
Definition noexc (c : config) : Prop :=
  (forall t, noraise (code (thr c t))) /\ forall t, ~ In (EvExc t) (trace c).
Lemma noexc_step bodies t c c' : (forall b, noraise (bodies b)) ->
  step bodies t c = Some c' -> noexc c -> noexc c'.
Proof.
  intros Hb Hs [Hnr Hne]. destruct (step_outcome _ _ _ _ Hs) as (i & rest & Hc & Hoth & evs & Htr' & Hout).
  pose proof (Hnr t) as Ht. rewrite Hc in Ht. inversion Ht as [|? ? Hi Hrest]; subst.
  assert (Hcode : noraise (code (thr c' t)) /\ forall tq, ~ In (EvExc tq) evs).
  { destruct i; simpl in Hout;
      try (destruct Hout as [(ev & -> & _ & Hpl) ->]; split; [exact Hrest|];
           intros tq [->|[]]; exact Hpl);
      try (destruct Hout as [-> ->]; split; [exact Hrest|]; intros tq [E|[]]; discriminate).
    - destruct Hout as [-> [E|E]]; rewrite E; (split; [|intros tq []]); [exact Hrest|apply Forall_skipn; exact Hrest].
    - destruct Hout as [-> [E|E]]; rewrite E; (split; [|intros tq []]); [exact Hrest|].
      apply Forall_app; split; [apply Hb|]. constructor; [discriminate|exact Hrest].
    - destruct Hout as [-> ->]. split; [|intros tq [E|[]]; discriminate].
      apply Forall_app; split; [apply Hb|exact Hrest].
    - contradiction. }
  destruct Hcode as [Hc' Hev]. split.
  - intro t0. destruct (Nat.eq_dec t0 t) as [->|Hne0]; [exact Hc'|rewrite Hoth by exact Hne0; apply Hnr].
  - intros tq Hin. rewrite Htr' in Hin. apply in_app_or in Hin as [Hin|Hin]; [eapply Hev; eauto|eapply Hne; eauto].
Qed.

Lemma only_incs_step bodies n t c c' : step bodies t c = Some c' ->
  acc_ok n (code (thr c t)) -> only_incs (LStat n) (trace c) -> only_incs (LStat n) (trace c').
Proof.
  intros Hs Hok Ho. destruct (step_outcome _ _ _ _ Hs) as (i & rest & Hc & _ & evs & -> & Hout).
  rewrite Hc in Hok. simpl in Hok. destruct Hok as [Hi _].
  destruct i; simpl in Hout;
    try (destruct Hout as [(ev & -> & _ & Hpl) _]; apply only_incs_plain; assumption);
    try (destruct Hout as [-> _]; simpl; exact Ho).
  - destruct Hout as [-> _]. destruct x as [m|r j]; destruct e as [z|r0|r0 a]; simpl; auto.
    + split; [apply N.eqb_neq; exact Hi|exact Ho].
    + split; [apply N.eqb_neq; exact Hi|exact Ho].
  - destruct Hout as [(-> & _)|(k & -> & _)]; simpl; exact Ho.
Qed.

Section StaticFinal.
  Variable mp : bool.
  Variable bodies : N -> list instr.
  Variable h0 : loc -> Z.
  Variable tb0 : tbl -> list (key * N).
  Variable n0 : N.
  Variable ps : list (list instr).
  Variable n : N.
  Hypothesis Hw : wf_world mp bodies ps.
  Hypothesis Hbn : forall b, nostore n (bodies b).
  Hypothesis Hbj : forall b, jumps_in (bodies b).
  Hypothesis Hps : Forall (acc_ok n) ps.

  Definition GS (c : config) : Prop :=
    (forall t, SI n (nth t ps []) t c) /\ only_incs (LStat n) (trace c) /\ tids_ok (length ps) c.

  Lemma GS_init : GS (init_config h0 tb0 n0 ps).
  Proof.
    split; [|split; [exact I|apply tids_init]].
    intro t. unfold SI. simpl. rewrite thr_of_list_code. split.
    - destruct (Nat.lt_ge_cases t (length ps)) as [H|H].
      + eapply Forall_forall; [exact Hps|]. apply nth_In; exact H.
      + rewrite nth_overflow by exact H. exact I.
    - right. simpl. reflexivity.
  Qed.
  Lemma GS_exec s : forall c, GS c -> GS (exec bodies s c).
  Proof.
    induction s as [|t s IH]; intros c HG; simpl; [exact HG|].
    destruct (step bodies t c) as [c'|] eqn:E; [|apply IH; exact HG]. apply IH.
    destruct HG as (H1 & H2 & H3). split; [|split].
    - intro t0. eapply SI_step; eauto.
    - eapply only_incs_step; eauto. apply (H1 t).
    - eapply tids_step; eauto.
  Qed.

  Lemma static_sum_gen c : reach bodies h0 tb0 n0 ps c ->
    (forall t, code (thr c t) = []) -> (forall t, ~ In (EvExc t) (trace c)) ->
    heap c (LStat n) = (h0 (LStat n) + zsum (map (pend n) ps))%Z.
  Proof.
    intros Hr Hfin Hne. pose proof Hr as [s Hs].
    assert (HG : GS c) by (rewrite Hs; apply GS_exec; apply GS_init).
    destruct HG as (H1 & H2 & (_ & H3)).
    rewrite (fin_sum mp bodies h0 tb0 n0 ps Hw c Hr _ H2). f_equal.
    rewrite (sum_incs_split _ (length ps) _ H3).
    rewrite <- (map_nth_seq (pend n) [] ps). f_equal. apply map_ext. intro t.
    destruct (H1 t) as [_ [[Hex|(r0 & Hr0)]|Hacc]].
    - exfalso; eapply Hne; eauto.
    - rewrite Hfin in Hr0; discriminate.
    - rewrite Hfin in Hacc. simpl in Hacc. lia.
  Qed.
End StaticFinal.

(* ---------- the compiled operations: what they add to a static cell, syntactically ---------- *)
Definition lockonly (l : list instr) : Prop :=
  Forall (fun i => match i with Acq _ | Rel _ => True | _ => False end) l.
Lemma ctor_lockonly mp nc : lockonly (ctor_prog mp nc).
Proof. induction nc as [|nc IH]; simpl; [constructor|]. destruct mp; [repeat constructor|]; exact IH. Qed.
Lemma pend_lockonly n l X : lockonly l -> pend n (l ++ X) = pend n X.
Proof. induction 1 as [|i l Hi _ IH]; simpl; [reflexivity|]. destruct i; try contradiction; exact IH. Qed.
Lemma acc_ok_lockonly n l X : lockonly l -> acc_ok n X -> acc_ok n (l ++ X).
Proof. induction 1 as [|i l Hi _ IH]; simpl; auto. destruct i; try contradiction; auto. Qed.
Lemma jumps_in_lockonly l X : lockonly l -> jumps_in X -> jumps_in (l ++ X).
Proof. induction 1 as [|i l Hi _ IH]; simpl; auto. destruct i; try contradiction; auto. Qed.
Lemma noraise_lockonly l : lockonly l -> noraise l.
Proof. induction 1 as [|i l Hi _ IH]; constructor; auto. destruct i; try contradiction; discriminate. Qed.
Lemma nostore_lockonly n l : lockonly l -> nostore n l.
Proof. induction 1 as [|i l Hi _ IH]; constructor; auto. destruct i; try contradiction; exact I. Qed.

Lemma skipn_over {A} (l : list A) (a : A) (tl : list A) : skipn (S (length l)) (l ++ a :: tl) = tl.
Proof.
  rewrite skipn_app. rewrite skipn_all2 by lia.
  replace (S (length l) - length l)%nat with 1%nat by lia. reflexivity.
Qed.

Lemma skipn_over2 {A} (x : A) (l : list A) (a : A) (tl : list A) :
  skipn (2 + length l) (x :: l ++ a :: tl) = tl.
Proof. change (skipn (S (length l)) (l ++ a :: tl) = tl). apply skipn_over. Qed.

Lemma labels_unfold mp rb tb k nc tail :
  labels_prog mp rb tb k nc ++ tail =
  Acq (plock tb) :: TblLookup rb tb k :: JmpIf true rb (2 + length (ctor_prog mp nc)) :: New (rb + 1) ::
  ctor_prog mp nc ++ TblInsert tb k (IReg (rb + 1)) :: TblLookup rb tb k :: Rel (plock tb) :: Ret (IReg rb) :: tail.
Proof. unfold labels_prog. simpl. rewrite <- app_assoc. reflexivity. Qed.

Lemma jumps_in_app a : forall b, jumps_in a -> jumps_in b -> jumps_in (a ++ b).
Proof.
  induction a as [|i a IH]; intros b Ha Hb; simpl; [exact Hb|].
  destruct i; simpl in Ha; auto. destruct Ha as [Hk Ha]. split; [rewrite app_length; lia|auto].
Qed.
Lemma acc_ok_app n a : forall b, acc_ok n a -> jumps_in a -> acc_ok n b -> acc_ok n (a ++ b).
Proof.
  induction a as [|i a IH]; intros b Ha Hj Hb; simpl; [exact Hb|].
  destruct Ha as [Hi Ha].
  assert (Hj' : jumps_in a) by (destruct i; simpl in Hj; try exact Hj; destruct Hj; assumption).
  split; [|apply IH; assumption].
  destruct i; auto. simpl in Hj. destruct Hj as [Hk _].
  rewrite skipn_app. replace (n0 - length a)%nat with O by lia. simpl. rewrite !pend_app, Hi. reflexivity.
Qed.

(* ---------- the multi-name register / unregister programs and the metric constructor (construct_prog) ---------- *)
(* the instructions these programs consist of: lock operations, look-ups, jumps, the duplicate / unknown-collector raise,
   and writes to the two registry tables (numbered below 2) *)
Definition regshape (i : instr) : Prop :=
  match i with
  | Acq _ | Rel _ | Raise | TblLookup _ _ _ | JmpIf _ _ _ => True
  | TblInsert tb _ _ | TblDel tb _ => tb < 2
  | _ => False
  end.
Lemma lockonly_regshape l : lockonly l -> Forall regshape l.
Proof. intro H. eapply Forall_impl; [|exact H]. intros i; destruct i; simpl; auto; contradiction. Qed.
Lemma dupcheck_cons rb k ks tail :
  dupcheck_prog rb (k :: ks) ++ tail = TblLookup rb RN k :: JmpIf false rb 1 :: Raise :: dupcheck_prog rb ks ++ tail.
Proof. reflexivity. Qed.
Lemma regshape_dupcheck rb ks : Forall regshape (dupcheck_prog rb ks).
Proof. induction ks as [|k ks IH]; [constructor|]. rewrite <- (app_nil_r (dupcheck_prog rb (k :: ks))), dupcheck_cons, app_nil_r.
  repeat (constructor; [exact I|]). exact IH. Qed.
Lemma regshape_register rb c ks : Forall regshape (register_names_prog rb c ks).
Proof.
  unfold register_names_prog. constructor; [exact I|].
  apply Forall_app; split; [apply regshape_dupcheck|]. apply Forall_app; split.
  - apply Forall_forall. intros i Hi. apply in_map_iff in Hi. destruct Hi as (k & <- & _). unfold RN. simpl. lia.
  - repeat constructor; unfold RC; simpl; lia.
Qed.
Lemma regshape_unregister rb c ks : Forall regshape (unregister_names_prog rb c ks).
Proof.
  unfold unregister_names_prog. repeat (constructor; [exact I|]).
  apply Forall_app; split.
  - apply Forall_forall. intros i Hi. apply in_map_iff in Hi. destruct Hi as (k & <- & _). unfold RN. simpl. lia.
  - repeat constructor; unfold RC, RN; simpl; lia.
Qed.
Lemma regshape_construct mp rb c ks nc : Forall regshape (construct_prog mp rb c ks nc).
Proof. apply Forall_app; split; [apply lockonly_regshape, ctor_lockonly|apply regshape_register]. Qed.
Lemma regshape_nostore n l : Forall regshape l -> nostore n l.
Proof. intro H. eapply Forall_impl; [|exact H]. intros i; destruct i; simpl; auto; contradiction. Qed.
Lemma jumps_in_dupcheck rb ks : forall X, jumps_in X -> jumps_in (dupcheck_prog rb ks ++ X).
Proof.
  induction ks as [|k ks IH]; intros X HX; [exact HX|]. rewrite dupcheck_cons.
  cbn [jumps_in length]. split; [lia|]. apply IH. exact HX.
Qed.
Lemma jumps_in_nojump l : Forall (fun i => match i with JmpIf _ _ _ => False | _ => True end) l -> jumps_in l.
Proof. induction 1 as [|i l Hi _ IH]; simpl; auto. destruct i; auto; contradiction. Qed.
Lemma jumps_in_register rb c ks : jumps_in (register_names_prog rb c ks).
Proof.
  unfold register_names_prog. cbn [jumps_in]. apply jumps_in_dupcheck. apply jumps_in_nojump.
  apply Forall_app; split; [|repeat constructor].
  apply Forall_forall. intros i Hi. apply in_map_iff in Hi. destruct Hi as (k & <- & _). exact I.
Qed.
Lemma jumps_in_unregister rb c ks : jumps_in (unregister_names_prog rb c ks).
Proof.
  unfold unregister_names_prog. cbn [jumps_in length]. split; [rewrite app_length; simpl; lia|].
  apply jumps_in_nojump. apply Forall_app; split; [|repeat constructor].
  apply Forall_forall. intros i Hi. apply in_map_iff in Hi. destruct Hi as (k & <- & _). exact I.
Qed.
Lemma jumps_in_construct mp rb c ks nc : jumps_in (construct_prog mp rb c ks nc).
Proof. apply jumps_in_lockonly; [apply ctor_lockonly|apply jumps_in_register]. Qed.
Lemma acc_ok_nostore n l : nostore n l -> jumps_in l -> acc_ok n l.
Proof. intros H1 H2. rewrite <- (app_nil_r l). apply acc_ok_body; [exact H1|exact H2|exact I]. Qed.

Definition issued_stat (n : N) (o : op) : Z :=
  match o with OInc (SLoc m) a => if N.eqb m n then a else 0%Z | _ => 0%Z end.
Definition no_set (n : N) (o : op) : Prop := match o with OSet (SLoc m) _ => m <> n | _ => True end.
Definition untouched (n : N) (o : op) : Prop :=
  match o with OSet (SLoc m) _ | OInc (SLoc m) _ => m <> n | _ => True end.
Definition nonraising (o : op) : Prop :=
  match o with ORegister _ | OUnregister _ | OConstruct _ _ _ | OUnregisterN _ _ | OIncFail _ _ => False | _ => True end.

Ltac opgo := cbn -[N.add N.ltb N.eqb]; repeat split; auto; try discriminate.

Lemma op_pend mp n rb o : pend n (compile_op mp rb o) = issued_stat n o.
Proof.
  destruct o; try (destruct mp; reflexivity).
  - destruct x; cbn -[N.add N.ltb N.eqb]; [destruct (N.eqb n0 n); lia|reflexivity].
  - destruct x; reflexivity.
  - destruct locked, exsec; reflexivity.
  - unfold compile_op. rewrite <- (app_nil_r (labels_prog _ _ _ _ _)), labels_unfold.
    cbn -[N.add N.ltb N.eqb ctor_prog]. apply pend_lockonly, ctor_lockonly.
  - unfold compile_op. rewrite labels_unfold.
    cbn -[N.add N.ltb N.eqb ctor_prog]. rewrite pend_lockonly by apply ctor_lockonly. reflexivity.
  - apply nostore_pend, regshape_nostore, regshape_construct.
  - apply nostore_pend, regshape_nostore, regshape_unregister.
  - destruct inlock; reflexivity.
Qed.

Lemma op_jumps_in mp rb o : jumps_in (compile_op mp rb o).
Proof.
  destruct o; try (opgo; fail).
  - destruct locked, exsec; opgo.
  - unfold compile_op. rewrite <- (app_nil_r (labels_prog _ _ _ _ _)), labels_unfold.
    cbn -[N.add N.ltb N.eqb ctor_prog]. split; [rewrite app_length; simpl; lia|].
    apply jumps_in_lockonly; [apply ctor_lockonly|exact I].
  - unfold compile_op. rewrite labels_unfold.
    cbn -[N.add N.ltb N.eqb ctor_prog]. split; [rewrite app_length; simpl; lia|].
    apply jumps_in_lockonly; [apply ctor_lockonly|exact I].
  - apply jumps_in_construct.
  - apply jumps_in_unregister.
  - destruct inlock; opgo.
Qed.

Lemma op_acc_ok mp n rb o : no_set n o -> acc_ok n (compile_op mp rb o).
Proof.
  intro H. destruct o; try (opgo; fail).
  - destruct x; opgo.
  - destruct locked, exsec; opgo.
  - unfold compile_op. rewrite <- (app_nil_r (labels_prog _ _ _ _ _)), labels_unfold.
    cbn -[N.add N.ltb N.eqb ctor_prog skipn Nat.add]. repeat split; auto.
    + rewrite skipn_over2. rewrite pend_lockonly by apply ctor_lockonly. reflexivity.
    + apply acc_ok_lockonly; [apply ctor_lockonly|]. simpl; repeat split; auto.
  - unfold compile_op. rewrite labels_unfold.
    cbn -[N.add N.ltb N.eqb ctor_prog skipn Nat.add]. repeat split; auto.
    + rewrite skipn_over2. rewrite pend_lockonly by apply ctor_lockonly. reflexivity.
    + apply acc_ok_lockonly; [apply ctor_lockonly|]. simpl; repeat split; auto.
  - apply acc_ok_nostore; [apply regshape_nostore, regshape_construct|apply jumps_in_construct].
  - apply acc_ok_nostore; [apply regshape_nostore, regshape_unregister|apply jumps_in_unregister].
  - destruct inlock; opgo.
Qed.

Lemma op_noraise mp rb o : nonraising o -> noraise (compile_op mp rb o).
Proof.
  intro H. destruct o; try contradiction; try (repeat constructor; discriminate).
  - destruct locked, exsec; repeat constructor; discriminate.
  - unfold compile_op. rewrite <- (app_nil_r (labels_prog _ _ _ _ _)), labels_unfold.
    repeat (constructor; [discriminate|]). apply Forall_app; split; [apply noraise_lockonly, ctor_lockonly|].
    repeat constructor; discriminate.
  - unfold compile_op. rewrite labels_unfold.
    repeat (constructor; [discriminate|]). apply Forall_app; split; [apply noraise_lockonly, ctor_lockonly|].
    repeat constructor; discriminate.
Qed.

Lemma op_nostore mp n rb o : untouched n o -> nostore n (compile_op mp rb o).
Proof.
  intro H. destruct o; try (repeat constructor; fail).
  - destruct x; repeat constructor; exact H.
  - destruct x; repeat constructor; exact H.
  - destruct locked, exsec; repeat constructor.
  - unfold compile_op. rewrite <- (app_nil_r (labels_prog _ _ _ _ _)), labels_unfold.
    repeat (constructor; [exact I|]). apply Forall_app; split; [apply nostore_lockonly, ctor_lockonly|].
    repeat constructor.
  - unfold compile_op. rewrite labels_unfold.
    repeat (constructor; [exact I|]). apply Forall_app; split; [apply nostore_lockonly, ctor_lockonly|].
    repeat constructor.
  - apply regshape_nostore, regshape_construct.
  - apply regshape_nostore, regshape_unregister.
  - destruct inlock; repeat constructor.
Qed.

Definition issued_stat_ops (n : N) (ops : list op) : Z := zsum (map (issued_stat n) ops).

Lemma from_pend mp n ops : forall rb, pend n (compile_from mp rb ops) = issued_stat_ops n ops.
Proof.
  induction ops as [|o ops IH]; intro rb; simpl; [reflexivity|].
  rewrite pend_app, op_pend, IH. reflexivity.
Qed.
Lemma from_jumps_in mp ops : forall rb, jumps_in (compile_from mp rb ops).
Proof.
  induction ops as [|o ops IH]; intro rb; simpl; [exact I|]. apply jumps_in_app; [apply op_jumps_in|apply IH].
Qed.
Lemma from_acc_ok mp n ops : forall rb, Forall (no_set n) ops -> acc_ok n (compile_from mp rb ops).
Proof.
  induction ops as [|o ops IH]; intros rb H; simpl; [exact I|]. inversion H; subst.
  apply acc_ok_app; [apply op_acc_ok; assumption|apply op_jumps_in|apply IH; assumption].
Qed.
Lemma from_noraise mp ops : forall rb, Forall nonraising ops -> noraise (compile_from mp rb ops).
Proof.
  induction ops as [|o ops IH]; intros rb H; simpl; [constructor|]. inversion H; subst.
  apply Forall_app; split; [apply op_noraise; assumption|apply IH; assumption].
Qed.
Lemma from_nostore mp n ops : forall rb, Forall (untouched n) ops -> nostore n (compile_from mp rb ops).
Proof.
  induction ops as [|o ops IH]; intros rb H; simpl; [constructor|]. inversion H; subst.
  apply Forall_app; split; [apply op_nostore; assumption|apply IH; assumption].
Qed.

Lemma body_table_prop (P : list instr -> Prop) l : P [] -> Forall (fun e => P (snd e)) l -> forall b, P (body_table l b).
Proof.
  intros H0 H b. induction H as [|[b' p] l Hp _ IH]; simpl; [exact H0|].
  destruct (N.eqb b b'); [exact Hp|exact IH].
Qed.

Lemma noexc_reach bodies h0 tb0 n0 ps c :
  (forall b, noraise (bodies b)) -> Forall noraise ps -> reach bodies h0 tb0 n0 ps c ->
  forall t, ~ In (EvExc t) (trace c).
Proof.
  intros Hb Hps [s ->].
  assert (H0 : noexc (init_config h0 tb0 n0 ps)).
  { split; [|intros t []]. intro t. simpl. rewrite thr_of_list_code.
    destruct (Nat.lt_ge_cases t (length ps)) as [H|H].
    - apply (proj1 (Forall_forall noraise ps) Hps). apply nth_In; exact H.
    - rewrite nth_overflow by exact H. constructor. }
  revert H0. generalize (init_config h0 tb0 n0 ps).
  induction s as [|t s IH]; intros c HG; simpl; [apply HG|].
  destruct (step bodies t c) as [c'|] eqn:E; [|apply IH; exact HG]. apply IH. eapply noexc_step; eauto.
Qed.

Definition total_issued_stat (n : N) (opss : list (list op)) : Z := zsum (map (issued_stat_ops n) opss).

(* C02_final_sum, static cells: the final value is the initial value plus ALL the increments the programs issue *)
Theorem final_sum_static mp bodies h0 tb0 n0 opss n :
  let ps := map (compile_thread mp) opss in
  wf_world mp bodies ps ->
  (forall b, nostore n (bodies b) /\ jumps_in (bodies b)) ->
  Forall (Forall (no_set n)) opss ->
  forall c, reach bodies h0 tb0 n0 ps c -> (forall t, code (thr c t) = []) ->
  (forall t, ~ In (EvExc t) (trace c)) ->
  heap c (LStat n) = (h0 (LStat n) + total_issued_stat n opss)%Z.
Proof.
  intros ps Hw Hb Hops c Hr Hfin Hne.
  rewrite (static_sum_gen mp bodies h0 tb0 n0 ps n Hw (fun b => proj1 (Hb b)) (fun b => proj2 (Hb b))); auto.
  - f_equal. unfold total_issued_stat, ps. rewrite map_map. f_equal. apply map_ext.
    intro ops. apply from_pend.
  - unfold ps. apply Forall_map. eapply Forall_impl; [|exact Hops]. intros ops H. apply from_acc_ok; exact H.
Qed.

(* ... and when neither the programs nor the bodies can raise (no register/unregister), no hypothesis on the trace is left *)
Theorem final_sum_static_noraise mp bodies h0 tb0 n0 opss n :
  let ps := map (compile_thread mp) opss in
  wf_world mp bodies ps ->
  (forall b, nostore n (bodies b) /\ jumps_in (bodies b) /\ noraise (bodies b)) ->
  Forall (Forall (fun o => no_set n o /\ nonraising o)) opss ->
  forall c, reach bodies h0 tb0 n0 ps c -> (forall t, code (thr c t) = []) ->
  heap c (LStat n) = (h0 (LStat n) + total_issued_stat n opss)%Z.
Proof.
  intros ps Hw Hb Hops c Hr Hfin.
  apply (final_sum_static mp bodies h0 tb0 n0 opss n); auto.
  - intro b. destruct (Hb b) as (A & B & _). auto.
  - eapply Forall_impl; [|exact Hops]. intros ops H. eapply Forall_impl; [|exact H]. simpl. tauto.
  - apply (noexc_reach bodies h0 tb0 n0 ps c); [intro b; apply Hb| |exact Hr].
    unfold ps. apply Forall_map. eapply Forall_impl; [|exact Hops]. intros ops H. apply from_noraise.
      eapply Forall_impl; [|exact H]. simpl. tauto.
Qed.

(* ---------- (3) the discipline theorem widened: children with ANY number of value objects, any field ---------- *)
Lemma ctor_false nc : ctor_prog false nc = [].
Proof. induction nc; simpl; auto. Qed.

Lemma wf_ctor_true D : forall nc f h ld ms rest,
  mem_kref (SLock S_LOCK) h = false -> all_below D h (SLock S_LOCK) = true ->
  ld_keep D h ld = ld -> ms_keep D h ms = ms ->
  wf D f h ld ms rest = true -> wf D (2 * nc + f) h ld ms (ctor_prog true nc ++ rest) = true.
Proof.
  induction nc as [|nc IH]; intros f h ld ms rest H1 H2 H3 H4 Hw; [exact Hw|].
  replace (2 * S nc + f)%nat with (S (S (2 * nc + f))) by lia.
  cbn -[Nat.mul Nat.add]. rewrite H1, H2, H3, H4. cbn -[Nat.mul Nat.add]. apply IH; assumption.
Qed.



Section WfEq.
  Variable D : discipline.
  Lemma wf_Acq f h ld ms k rest : wf D (S f) h ld ms (Acq k :: rest) =
    negb (mem_kref k h) && all_below D h k && wf D f (k :: h) ld ms rest.
  Proof. reflexivity. Qed.
  Lemma wf_Rel f k' h' ld ms k rest : wf D (S f) (k' :: h') ld ms (Rel k :: rest) =
    kref_eqb k k' && wf D f h' (ld_keep D h' ld) (ms_keep D h' ms) rest.
  Proof. reflexivity. Qed.
  Lemma wf_Lookup f h ld ms r tb k rest : wf D (S f) h ld ms (TblLookup r tb k :: rest) =
    tguard D h tb && negb (held_uses r h) && wf D f h (kill r ld) (MLooked r tb k) rest.
  Proof. reflexivity. Qed.
  Lemma wf_Insert f h ld ms tb k v rest : wf D (S f) h ld ms (TblInsert tb k v :: rest) =
    tguard D h tb && (negb (create_only D tb) || ms_is_missing ms tb k) && wf D f h ld (tkill tb ms) rest.
  Proof. reflexivity. Qed.
  Lemma wf_JmpIf f h ld ms p r n rest : wf D (S f) h ld ms (JmpIf p r n :: rest) =
    Nat.leb n (length rest) && wf D f h ld (ms_branch p false r ms) rest
    && wf D f h ld (ms_branch p true r ms) (skipn n rest).
  Proof. reflexivity. Qed.
  Lemma wf_New f h ld ms r rest : wf D (S f) h ld ms (New r :: rest) =
    negb (held_uses r h) && wf D f h (kill r ld) (mkill r ms) rest.
  Proof. reflexivity. Qed.
  Lemma wf_Ret f h ld ms e rest : wf D (S f) h ld ms (Ret e :: rest) = wf D f h ld ms rest.
  Proof. reflexivity. Qed.
End WfEq.

Ltac wfr := cbn [negb andb orb mem_kref kref_eqb all_below krank lib_disc towner create_only owner_ref guards tguard
                 held_uses kref_uses lref_uses lref_eqb kill mkill tkill ms_branch ms_is_missing ld_keep ms_keep plock lk
                 Bool.eqb].
Lemma wf_labels_true rb tb k nc tail f : tb < 40 -> wf (lib_disc true) f [] None MNone tail = true ->
   wf (lib_disc true) (2 * nc + 30 + f) [] None MNone (labels_prog true rb tb k nc ++ tail) = true.
Proof.
  intros Hlt Ht. tbfacts tb Hlt. rewrite labels_unfold.
  replace (2 * nc + 30 + f)%nat with (S (S (S (S (2 * nc + (26 + f)))))) by lia.
  set (F := (2 * nc + (26 + f))%nat).
  rewrite wf_Acq, wf_Lookup, wf_JmpIf, wf_New. wfr. rewrite !N.eqb_refl. wfr.
  rewrite skipn_over2.
  assert (X1 : (S_LOCK =? (if tb <? 2 then R_LOCK else 10 + tb)) = false)
    by (destruct (tb <? 2); [reflexivity|exact E4]).
  assert (X2 : ((if tb <? 2 then R_LOCK else 10 + tb) =? S_LOCK) = false)
    by (destruct (tb <? 2); [reflexivity|exact E3]).
  assert (X3 : ((if tb <? 2 then R_LOCK else 10 + tb) <? 50) = true)
    by (destruct (tb <? 2); [reflexivity|exact E2]).
  assert (Hsuf : forall ms, wf (lib_disc true) (3 + f) [plock tb] None ms
            (TblLookup rb tb k :: Rel (plock tb) :: Ret (IReg rb) :: tail) = true).
  { intro ms. cbn [Nat.add]. rewrite wf_Lookup, wf_Rel, wf_Ret. wfr. rewrite !N.eqb_refl. wfr.
    exact Ht. }
  apply andb_true_intro; split; [apply andb_true_intro; split|].
  - apply Nat.leb_le. cbn [length]. rewrite app_length. cbn [length]. lia.
  - unfold F. apply wf_ctor_true.
    + wfr. rewrite X1. reflexivity.
    + wfr. rewrite X2, X3. reflexivity.
    + reflexivity.
    + wfr. rewrite N.eqb_refl. reflexivity.
    + replace (26 + f)%nat with (S (25 + f)) by lia. rewrite wf_Insert. wfr. rewrite !N.eqb_refl. wfr.
      rewrite orb_true_r. wfr. eapply wf_mono; [apply Hsuf|lia].
  - eapply wf_mono; [apply Hsuf|lia].
Qed.

(* the multi-name register / unregister programs and the constructor pass the discipline check, for EVERY list of
   names and every number of value objects, in both back-ends *)
Lemma wf_dupcheck mp rb : forall ks f ms tail,
  (forall ms', wf (lib_disc mp) f [SLock R_LOCK] None ms' tail = true) ->
  wf (lib_disc mp) (3 * length ks + f) [SLock R_LOCK] None ms (dupcheck_prog rb ks ++ tail) = true.
Proof.
  induction ks as [|k ks IH]; intros f ms tail Ht; [apply Ht|].
  cbn [length]. replace (3 * S (length ks) + f)%nat with (S (S (S (3 * length ks + f)))) by lia.
  rewrite dupcheck_cons, wf_Lookup, wf_JmpIf. unfold RN, R_LOCK. wfr. cbn [N.ltb N.compare Pos.compare Pos.compare_cont N.eqb Pos.eqb].
  rewrite N.eqb_refl. wfr.
  apply andb_true_intro; split; [reflexivity|].
  cbn [skipn]. eapply wf_mono; [apply IH; exact Ht|lia].
Qed.
Lemma wf_rn_writes mp (g : key -> instr) :
  (forall k, exists v, g k = TblInsert RN k v) \/ (forall k, g k = TblDel RN k) ->
  forall ks f ms tail,
  (forall ms', wf (lib_disc mp) f [SLock R_LOCK] None ms' tail = true) ->
  wf (lib_disc mp) (length ks + f) [SLock R_LOCK] None ms (map g ks ++ tail) = true.
Proof.
  intros Hg. induction ks as [|k ks IH]; intros f ms tail Ht; [apply Ht|].
  cbn [length map app Nat.add]. destruct Hg as [Hg|Hg].
  - destruct (Hg k) as [v ->]. rewrite wf_Insert. unfold RN, R_LOCK. wfr.
    cbn [N.ltb N.compare Pos.compare Pos.compare_cont N.eqb Pos.eqb]. wfr. apply IH. exact Ht.
  - rewrite (Hg k). unfold RN, R_LOCK. cbn [wf]. wfr.
    cbn [N.ltb N.compare Pos.compare Pos.compare_cont N.eqb Pos.eqb]. wfr. apply IH. exact Ht.
Qed.
Lemma wf_register_names mp rb c ks f tail : wf (lib_disc mp) f [] None MNone tail = true ->
  wf (lib_disc mp) (S (3 * length ks + (length ks + (3 + f)))) [] None MNone (register_names_prog rb c ks ++ tail) = true.
Proof.
  intro Ht. unfold register_names_prog. cbn [app]. rewrite wf_Acq. unfold R_LOCK at 1 2. wfr.
  rewrite <- app_assoc. apply wf_dupcheck. intro ms1.
  rewrite <- app_assoc. apply wf_rn_writes; [left; intro k; eexists; reflexivity|]. intro ms2.
  cbn [app Nat.add]. rewrite wf_Lookup, wf_Insert. unfold RC, R_LOCK. cbn [wf]. wfr.
  cbn [N.ltb N.compare Pos.compare Pos.compare_cont N.eqb Pos.eqb]. wfr. exact Ht.
Qed.
Lemma wf_unregister_names mp rb c ks : lib_disciplined mp (unregister_names_prog rb c ks).
Proof.
  exists (S (S (S (S (length ks + 3)))))%nat. unfold unregister_names_prog.
  rewrite wf_Acq, wf_Lookup, wf_JmpIf. unfold RC, R_LOCK. wfr.
  cbn [N.ltb N.compare Pos.compare Pos.compare_cont N.eqb Pos.eqb]. rewrite N.eqb_refl. wfr.
  apply andb_true_intro; split; [reflexivity|]. cbn [skipn].
  eapply wf_mono; [|apply Nat.le_succ_diag_r].
  apply wf_rn_writes; [right; intro k; reflexivity|]. intro ms'.
  unfold RC, RN, R_LOCK. cbn [wf]. wfr. unfold R_LOCK. cbn [N.ltb N.compare Pos.compare Pos.compare_cont N.eqb Pos.eqb]. wfr.
  destruct ms' as [|r tb k|tb k]; cbn [tkill ms_keep]; try reflexivity.
  - destruct (0 =? tb); cbn [ms_keep tguard mem_kref]; reflexivity.
  - destruct (0 =? tb); cbn [ms_keep tguard mem_kref]; reflexivity.
Qed.
Lemma wf_construct mp rb c ks nc : lib_disciplined mp (construct_prog mp rb c ks nc).
Proof.
  unfold construct_prog. rewrite <- (app_nil_r (register_names_prog rb c ks)).
  destruct mp.
  - eexists. apply wf_ctor_true; [reflexivity|reflexivity|reflexivity|reflexivity|].
    apply (wf_register_names true rb c ks 1 []). reflexivity.
  - rewrite ctor_false. eexists. apply (wf_register_names false rb c ks 1 []). reflexivity.
Qed.

Definition simple_op_w (rb : reg) (o : op) : Prop :=
  match o with
  | OInc (SLoc _) _ | OSet (SLoc _) _ | OGet (SLoc _) _ _ => True
  | OInc (DLoc r _) _ | OSet (DLoc r _) _ | OGet (DLoc r _) _ _ => r < rb
  | OLabels tb _ _ | OLabelsInc tb _ _ _ _ => tb < 40
  | ORemove tb _ | OClear tb | OMulti tb _ => tb < 40
  | ORegister _ | OUnregister _ | OLookup _ | OCollect _ => True
  | OConstruct _ _ _ | OUnregisterN _ _ => True
  | OIncFail (SLoc _) _ => True
  | OIncFail (DLoc r _) _ => r < rb
  | _ => False
  end.

Lemma op_disciplined_w mp rb o : simple_op_w rb o -> lib_disciplined mp (compile_op mp rb o).
Proof.
  intro H. destruct o; simpl in H; try contradiction;
    try (apply op_disciplined; simpl; auto; fail).
  - destruct x as [m|r j]; [apply op_disciplined; exact I|].
    assert (R1 : (rb =? r) = false) by (apply N.eqb_neq; lia).
    exists 40%nat. destruct mp; wf_go; rewrite ?R1; wf_go.
  - destruct x as [m|r j]; [apply op_disciplined; exact I|].
    exists 40%nat. destruct mp; wf_go.
  - destruct x as [m|r j]; [apply op_disciplined; exact I|].
    assert (R1 : (rb =? r) = false) by (apply N.eqb_neq; lia).
    exists 40%nat. destruct mp; destruct locked; destruct exsec; wf_go; rewrite ?R1; wf_go.
  - destruct mp.
    + exists (2 * nc + 30 + 1)%nat. unfold compile_op. rewrite <- (app_nil_r (labels_prog _ _ _ _ _)).
      apply wf_labels_true; [exact H|reflexivity].
    + replace (compile_op false rb (OLabels tb k nc)) with (compile_op false rb (OLabels tb k 1)).
      * apply op_disciplined. simpl; auto.
      * unfold compile_op, labels_prog. rewrite !ctor_false. reflexivity.
  - destruct mp.
    + exists (2 * nc + 30 + 10)%nat. unfold compile_op.
      apply wf_labels_true; [exact H|].
      assert (R1 : (rb + 2 =? rb) = false) by (apply N.eqb_neq; lia).
      wf_go; rewrite ?R1; wf_go.
    + replace (compile_op false rb (OLabelsInc tb k nc j a)) with (compile_op false rb (OLabelsInc tb k 1 j a)).
      * apply op_disciplined. simpl; auto.
      * unfold compile_op, labels_prog. rewrite !ctor_false. reflexivity.
  - apply wf_construct.
  - apply wf_unregister_names.
  - destruct inlock; [|exists 40%nat; reflexivity]. destruct x as [m|r j].
    + exists 40%nat. destruct mp; destruct (m =? 0) eqn:E; wf_go; rewrite ?E; wf_go.
    + assert (R1 : (rb =? r) = false) by (apply N.eqb_neq; lia).
      exists 40%nat. destruct mp; wf_go; rewrite ?R1; wf_go.
Qed.

Lemma simple_op_w_mono rb rb' o : rb <= rb' -> simple_op_w rb o -> simple_op_w rb' o.
Proof. intros Hle H. destruct o; simpl in *; auto; destruct x; auto; lia. Qed.

Lemma compile_disciplined_w mp ops : forall rb, Forall (simple_op_w rb) ops -> lib_disciplined mp (compile_from mp rb ops).
Proof.
  induction ops as [|o ops IH]; intros rb H; simpl.
  - exists 1%nat. reflexivity.
  - inversion H as [|? ? Ho Hops]; subst.
    destruct (op_disciplined_w mp rb o Ho) as [f1 H1].
    destruct (IH (rb + 4)) as [f2 H2].
    { eapply Forall_impl; [|exact Hops]. intros o'. apply simple_op_w_mono. lia. }
    exists (f1 + f2)%nat. apply wf_app; assumption.
Qed.

(* ---------- (2) termination: a measure that every step decreases, except for entering a collector / loop body ---------- *)
Definition tw (th : thread) : nat := (2 * length (code th) + length (held th))%nat.
Definition grow (bodies : N -> list instr) (th : thread) : nat :=
  match code th with
  | ForSnap _ _ b :: _ => (2 * length (bodies b) + 1)%nat
  | Callout ci :: _ => (2 * length (bodies (res_id (regs th) ci)))%nat
  | _ => 0%nat
  end.

Lemma remove_lock_length k h : (length (remove_lock k h) <= length h)%nat.
Proof. induction h as [|x h IH]; simpl; [lia|]. destruct (lock_eqb x k); simpl; lia. Qed.

Lemma step_weight bodies t c c' : step bodies t c = Some c' ->
  (tw (thr c' t) + 1 <= tw (thr c t) + grow bodies (thr c t))%nat /\ forall t', t' <> t -> thr c' t' = thr c t'.
Proof.
  unfold step, tw, grow. destruct (thr c t) as [cd rg hd] eqn:Hthr. simpl.
  destruct cd as [|i rest]; [discriminate|]. intro Hs.
  destruct i; simpl in Hs;
    try (injection Hs as <-; simpl; rewrite set_thr_same'; simpl;
         split; [|intros t' Ht'; apply set_thr_other'; exact Ht']; try lia).
  - destruct (locks c (res_lock rg l)); [discriminate|]. injection Hs as <-. simpl. rewrite set_thr_same'. simpl.
    split; [lia|intros t' Ht'; apply set_thr_other'; exact Ht'].
  - pose proof (remove_lock_length (res_lock rg l) hd). lia.
  - destruct (Bool.eqb (is_present (rg r)) present); [rewrite skipn_length|]; lia.
  - destruct (rg r) as [| | |[|[k0 id] more]]; injection Hs as <-; simpl; rewrite set_thr_same'; simpl;
      (split; [try rewrite app_length; simpl; lia|intros t' Ht'; apply set_thr_other'; exact Ht']).
  - rewrite app_length. lia.
  - destruct hd as [|k more]; injection Hs as <-; simpl; rewrite set_thr_same'; simpl;
      (split; [|intros t' Ht'; apply set_thr_other'; exact Ht']); [lia|].
    rewrite lock_eqb_refl. simpl. lia.
Qed.

Definition mu (N : nat) (c : config) : nat := list_sum (map (fun t => tw (thr c t)) (seq 0 N)).

Lemma list_sum_same (f f' : nat -> nat) t : forall n s, (t < s)%nat ->
  (forall t', t' <> t -> f' t' = f t') -> list_sum (map f' (seq s n)) = list_sum (map f (seq s n)).
Proof. induction n as [|n IH]; intros s Hs He; simpl; [reflexivity|]. rewrite He by lia. rewrite IH by (auto; lia). reflexivity. Qed.
Lemma list_sum_change (f f' : nat -> nat) g t : forall n s, (s <= t < s + n)%nat ->
  (forall t', t' <> t -> f' t' = f t') -> (f' t + 1 <= f t + g)%nat ->
  (list_sum (map f' (seq s n)) + 1 <= list_sum (map f (seq s n)) + g)%nat.
Proof.
  induction n as [|n IH]; intros s Hs He Ht; simpl; [lia|].
  destruct (Nat.eq_dec t s) as [->|Hne].
  - rewrite (list_sum_same f f' s n (S s)) by (auto; lia). lia.
  - rewrite He by lia. specialize (IH (S s)). assert (S s <= t < S s + n)%nat by lia. specialize (IH H He Ht). lia.
Qed.

Fixpoint nsteps (bodies : N -> list instr) (s : list nat) (c : config) : nat :=
  match s with
  | [] => 0%nat
  | t :: s' => match step bodies t c with Some c' => S (nsteps bodies s' c') | None => nsteps bodies s' c end
  end.
Fixpoint ngrow (bodies : N -> list instr) (s : list nat) (c : config) : nat :=
  match s with
  | [] => 0%nat
  | t :: s' => match step bodies t c with
               | Some c' => (grow bodies (thr c t) + ngrow bodies s' c')%nat
               | None => ngrow bodies s' c end
  end.
Definition is_call (th : thread) : bool :=
  match code th with ForSnap _ _ _ :: _ | Callout _ :: _ => true | _ => false end.
Fixpoint ncalls (bodies : N -> list instr) (s : list nat) (c : config) : nat :=
  match s with
  | [] => 0%nat
  | t :: s' => match step bodies t c with
               | Some c' => ((if is_call (thr c t) then 1 else 0) + ncalls bodies s' c')%nat
               | None => ncalls bodies s' c end
  end.

Lemma mu_step bodies N t c c' : tids_ok N c -> step bodies t c = Some c' ->
  (mu N c' + 1 <= mu N c + grow bodies (thr c t))%nat.
Proof.
  intros [Hfin _] Hs. destruct (step_weight _ _ _ _ Hs) as [Hw Hoth].
  assert (Hlt : (t < N)%nat).
  { destruct (Nat.lt_ge_cases t N) as [H|H]; [exact H|]. unfold step in Hs. rewrite (Hfin t H) in Hs. discriminate. }
  unfold mu. apply (list_sum_change _ _ _ t); [lia| |exact Hw].
  intros t' Ht'. rewrite Hoth by exact Ht'. reflexivity.
Qed.

Lemma mu_exec bodies N s : forall c, tids_ok N c ->
  (nsteps bodies s c + mu N (exec bodies s c) <= mu N c + ngrow bodies s c)%nat.
Proof.
  induction s as [|t s IH]; intros c Ht; simpl; [lia|].
  destruct (step bodies t c) as [c'|] eqn:E; [|apply IH; exact Ht].
  pose proof (mu_step bodies N t c c' Ht E). specialize (IH c' (tids_step _ _ _ _ _ E Ht)). lia.
Qed.

Lemma ngrow_calls bodies L s : (forall b, (length (bodies b) <= L)%nat) ->
  forall c, (ngrow bodies s c <= (2 * L + 1) * ncalls bodies s c)%nat.
Proof.
  intro HL. induction s as [|t s IH]; intro c; simpl; [lia|].
  destruct (step bodies t c) as [c'|] eqn:E; [|apply IH]. specialize (IH c').
  assert (grow bodies (thr c t) <= (2 * L + 1) * (if is_call (thr c t) then 1 else 0))%nat.
  { unfold grow, is_call. destruct (code (thr c t)) as [|i r]; [lia|].
    destruct i; try lia.
    - pose proof (HL b). lia.
    - pose proof (HL (res_id (regs (thr c t)) c0)). lia. }
  lia.
Qed.

(* loop-free code: no ForSnap, no Callout *)
Definition straight (code : list instr) : Prop :=
  Forall (fun i => match i with ForSnap _ _ _ | Callout _ => False | _ => True end) code.
Lemma straight_step bodies t c c' : step bodies t c = Some c' ->
  (forall t0, straight (code (thr c t0))) ->
  (forall t0, straight (code (thr c' t0))) /\ grow bodies (thr c t) = 0%nat.
Proof.
  intros Hs Hst. destruct (step_outcome _ _ _ _ Hs) as (i & rest & Hc & Hoth & evs & _ & Hout).
  pose proof (Hst t) as Ht. rewrite Hc in Ht. inversion Ht as [|? ? Hi Hrest]; subst.
  assert (H' : straight (code (thr c' t))).
  { destruct i; simpl in Hout; try contradiction;
      try (destruct Hout as [_ ->]; exact Hrest).
    - destruct Hout as [_ [E|E]]; rewrite E; [exact Hrest|apply Forall_skipn; exact Hrest].
    - destruct Hout as [(_ & E & _)|(k & _ & E & _)]; rewrite E; [constructor|constructor; [exact I|exact Hrest]]. }
  split.
  - intro t0. destruct (Nat.eq_dec t0 t) as [->|Hne]; [exact H'|rewrite Hoth by exact Hne; apply Hst].
  - unfold grow. rewrite Hc. destruct i; try reflexivity; contradiction.
Qed.
Lemma straight_ngrow bodies s : forall c, (forall t0, straight (code (thr c t0))) -> ngrow bodies s c = 0%nat.
Proof.
  induction s as [|t s IH]; intros c Hst; simpl; [reflexivity|].
  destruct (step bodies t c) as [c'|] eqn:E; [|apply IH; exact Hst].
  destruct (straight_step _ _ _ _ E Hst) as [H1 H2]. rewrite H2, IH by exact H1. reflexivity.
Qed.

Definition total_steps (ps : list (list instr)) : nat := list_sum (map (fun p => (2 * length p)%nat) ps).
Lemma mu_init h0 tb0 n0 ps : mu (length ps) (init_config h0 tb0 n0 ps) = total_steps ps.
Proof.
  unfold mu, total_steps.
  rewrite <- (map_nth_seq (fun p => (2 * length p)%nat) [] ps). f_equal. apply map_ext. intro t.
  unfold tw. change (thr (init_config h0 tb0 n0 ps) t) with (thr_of_list ps t).
  rewrite thr_of_list_code, thr_of_list_held. simpl. lia.
Qed.

Lemma list_sum_In x l : In x l -> (x <= list_sum l)%nat.
Proof. induction l as [|y l IH]; simpl; [tauto|]. intros [->|H]; [lia|specialize (IH H); lia]. Qed.
Lemma mu_ge N c t : (t < N)%nat -> (tw (thr c t) <= mu N c)%nat.
Proof.
  intro H. unfold mu. apply list_sum_In. apply in_map_iff. exists t. split; [reflexivity|].
  apply in_seq. lia.
Qed.

Lemma exec_app bodies s1 : forall s2 c, exec bodies (s1 ++ s2) c = exec bodies s2 (exec bodies s1 c).
Proof.
  induction s1 as [|t s1 IH]; intros s2 c; simpl; [reflexivity|].
  destruct (step bodies t c); apply IH.
Qed.
Lemma exec_done bodies s : forall c, (forall t, code (thr c t) = []) -> exec bodies s c = c.
Proof.
  induction s as [|t s IH]; intros c H; simpl; [reflexivity|].
  unfold step. rewrite (H t). apply IH; exact H.
Qed.
Lemma nsteps_enabled bodies t0 s : forall c, In t0 s -> step bodies t0 c <> None -> (1 <= nsteps bodies s c)%nat.
Proof.
  induction s as [|t s IH]; intros c Hin He; simpl; [destruct Hin|].
  destruct (step bodies t c) as [c'|] eqn:E; [lia|].
  destruct Hin as [->|Hin]; [congruence|]. apply IH; assumption.
Qed.
Lemma done_or_not N c : tids_ok N c ->
  (forall t, code (thr c t) = []) \/ exists t, (t < N)%nat /\ code (thr c t) <> [].
Proof.
  intros [Hfin _].
  assert (H : forall n, (forall t, (t < n)%nat -> code (thr c t) = []) \/ exists t, (t < n)%nat /\ code (thr c t) <> []).
  { induction n as [|n [IH|(t & Ht & Hc)]].
    - left. intros t Ht. lia.
    - destruct (code (thr c n)) eqn:E.
      + left. intros t Ht. destruct (Nat.eq_dec t n) as [->|Hne]; [exact E|apply IH; lia].
      + right. exists n. split; [lia|congruence].
    - right. exists t. split; [lia|exact Hc]. }
  destruct (H N) as [Hall|Hex]; [left|right; exact Hex].
  intro t. destruct (Nat.lt_ge_cases t N); [apply Hall; assumption|apply Hfin; assumption].
Qed.
Lemma tids_exec bodies N s : forall c, tids_ok N c -> tids_ok N (exec bodies s c).
Proof.
  induction s as [|t s IH]; intros c H; simpl; [exact H|].
  destruct (step bodies t c) eqn:E; [apply IH; eapply tids_step; eauto|apply IH; exact H].
Qed.
Lemma straight_exec bodies s : forall c, (forall t0, straight (code (thr c t0))) ->
  forall t0, straight (code (thr (exec bodies s c) t0)).
Proof.
  induction s as [|t s IH]; intros c H; simpl; [exact H|].
  destruct (step bodies t c) eqn:E; [apply IH; eapply straight_step; eauto|apply IH; exact H].
Qed.

Section Terminates.
  Variable mp : bool.
  Variable bodies : N -> list instr.
  Variable h0 : loc -> Z.
  Variable tb0 : tbl -> list (key * N).
  Variable n0 : N.
  Variable ps : list (list instr).
  Hypothesis Hw : wf_world mp bodies ps.
  Hypothesis Hst : Forall straight ps.
  Let c0 := init_config h0 tb0 n0 ps.
  Let NT := length ps.

  Lemma straight_init : forall t0, straight (code (thr c0 t0)).
  Proof.
    intro t. unfold c0. simpl. rewrite thr_of_list_code.
    destruct (Nat.lt_ge_cases t (length ps)) as [H|H].
    - apply (proj1 (Forall_forall straight ps) Hst). apply nth_In; exact H.
    - rewrite nth_overflow by exact H. constructor.
  Qed.

  (* no execution is longer than total_steps *)
  Lemma term_bound s : (nsteps bodies s c0 <= total_steps ps)%nat.
  Proof.
    pose proof (mu_exec bodies NT s c0 (tids_init h0 tb0 n0 ps)) as H.
    rewrite (straight_ngrow bodies s c0 straight_init) in H. unfold c0, NT in H. rewrite mu_init in H.
    fold c0 in H. lia.
  Qed.

  (* an execution that cannot be continued has finished every thread *)
  Lemma term_complete c : reach bodies h0 tb0 n0 ps c -> (forall t, step bodies t c = None) ->
    forall t, code (thr c t) = [].
  Proof.
    intros Hr Hnone t. destruct (code (thr c t)) eqn:E; [reflexivity|exfalso].
    destruct (fin_deadlock_free mp bodies h0 tb0 n0 ps Hw c Hr) as [t' Ht'].
    - exists t. congruence.
    - apply Ht'. apply Hnone.
  Qed.

  (* a schedule made of k rounds, each round naming every thread at least once, finishes everything as soon as
     k reaches the measure *)
  Lemma term_fair chunks : forall s0, let c := exec bodies s0 c0 in
    Forall (fun ch => forall t, (t < NT)%nat -> In t ch) chunks ->
    (mu NT c <= length chunks)%nat -> forall t, code (thr (exec bodies (concat chunks) c) t) = [].
  Proof.
    induction chunks as [|ch chunks IH]; intros s0 c Hcov Hmu.
    - simpl. assert (Ht : tids_ok NT c) by (apply tids_exec, tids_init).
      destruct (done_or_not NT c Ht) as [Hd|(t & Hlt & Hc)]; [exact Hd|exfalso].
      pose proof (mu_ge NT c t Hlt) as Hge. unfold tw in Hge. destruct (code (thr c t)); [congruence|].
      simpl in Hge, Hmu. lia.
    - inversion Hcov as [|? ? Hch Hcov']; subst. simpl concat. rewrite exec_app.
      assert (Ht : tids_ok NT c) by (apply tids_exec, tids_init).
      destruct (done_or_not NT c Ht) as [Hd|(t & Hlt & Hc)].
      + rewrite (exec_done bodies ch c Hd). rewrite (exec_done bodies _ c Hd). exact Hd.
      + assert (Hr : reach bodies h0 tb0 n0 ps c) by (exists s0; reflexivity).
        destruct (fin_deadlock_free mp bodies h0 tb0 n0 ps Hw c Hr) as [t' Ht']; [exists t; exact Hc|].
        assert (Hlt' : (t' < NT)%nat).
        { destruct (Nat.lt_ge_cases t' NT) as [H|H]; [exact H|exfalso]. apply Ht'. unfold step.
          rewrite (proj1 Ht t' H). reflexivity. }
        pose proof (nsteps_enabled bodies t' ch c (Hch t' Hlt') Ht') as Hn.
        pose proof (mu_exec bodies NT ch c Ht) as Hm.
        rewrite (straight_ngrow bodies ch c) in Hm by (apply straight_exec, straight_init).
        unfold c. rewrite <- (exec_app bodies s0 ch c0). apply (IH (s0 ++ ch) Hcov').
        rewrite exec_app. fold c. simpl in Hmu. lia.
  Qed.

  Lemma term_fair0 chunks :
    Forall (fun ch => forall t, (t < length ps)%nat -> In t ch) chunks ->
    (total_steps ps <= length chunks)%nat -> forall t, code (thr (exec bodies (concat chunks) c0) t) = [].
  Proof.
    intros Hcov Hlen. apply (term_fair chunks [] Hcov). simpl. fold c0. unfold c0, NT. rewrite mu_init. exact Hlen.
  Qed.
End Terminates.

(* all worlds (loops and collector calls included): the steps taken are bounded by the measure plus a fixed cost per
   loop / callout instruction executed; waiting for a lock never adds steps *)
Lemma bounded_between_calls bodies L h0 tb0 n0 ps s : (forall b, (length (bodies b) <= L)%nat) ->
  let c0 := init_config h0 tb0 n0 ps in
  (nsteps bodies s c0 <= total_steps ps + (2 * L + 1) * ncalls bodies s c0)%nat.
Proof.
  intros HL c0. pose proof (mu_exec bodies (length ps) s c0 (tids_init h0 tb0 n0 ps)) as H.
  pose proof (ngrow_calls bodies L s HL c0) as H2. unfold c0 in H at 3. rewrite mu_init in H. lia.
Qed.

Definition callfree (o : op) : Prop :=
  match o with OMulti _ _ | OLookup _ | OCollect _ | OCallReg => False | _ => True end.
Lemma straight_lockonly l : lockonly l -> straight l.
Proof. induction 1 as [|i l Hi _ IH]; constructor; auto. destruct i; try contradiction; exact I. Qed.
Lemma regshape_straight l : Forall regshape l -> straight l.
Proof. intro H. eapply Forall_impl; [|exact H]. intros i; destruct i; simpl; auto. Qed.
Lemma op_straight mp rb o : callfree o -> straight (compile_op mp rb o).
Proof.
  intro H. destruct o; try contradiction; try (repeat constructor; fail).
  - destruct locked, exsec; repeat constructor.
  - unfold compile_op. rewrite <- (app_nil_r (labels_prog _ _ _ _ _)), labels_unfold.
    repeat (constructor; [exact I|]). apply Forall_app; split; [apply straight_lockonly, ctor_lockonly|].
    repeat constructor.
  - unfold compile_op. rewrite labels_unfold.
    repeat (constructor; [exact I|]). apply Forall_app; split; [apply straight_lockonly, ctor_lockonly|].
    repeat constructor.
  - apply regshape_straight, regshape_construct.
  - apply regshape_straight, regshape_unregister.
  - destruct inlock; repeat constructor.
Qed.
Lemma from_straight mp ops : forall rb, Forall callfree ops -> straight (compile_from mp rb ops).
Proof.
  induction ops as [|o ops IH]; intros rb H; simpl; [constructor|]. inversion H; subst.
  apply Forall_app; split; [apply op_straight; assumption|apply IH; assumption].
Qed.

(* ---------- per-thread form of the final sum: also says what happens when SOME threads raise ---------- *)
Lemma static_per_thread mp bodies h0 tb0 n0 ps n :
  wf_world mp bodies ps -> (forall b, nostore n (bodies b)) -> (forall b, jumps_in (bodies b)) ->
  Forall (acc_ok n) ps ->
  forall c, reach bodies h0 tb0 n0 ps c ->
  heap c (LStat n) = (h0 (LStat n) + zsum (map (fun t => sum_incs_t t (LStat n) (trace c)) (seq 0 (length ps))))%Z /\
  forall t, code (thr c t) = [] -> ~ In (EvExc t) (trace c) ->
            sum_incs_t t (LStat n) (trace c) = pend n (nth t ps []).
Proof.
  intros Hw Hbn Hbj Hps c Hr. pose proof Hr as [s Hs].
  assert (HG : GS ps n c) by (rewrite Hs; apply GS_exec; auto; apply GS_init; auto).
  destruct HG as (H1 & H2 & (_ & H3)). split.
  - rewrite (fin_sum mp bodies h0 tb0 n0 ps Hw c Hr _ H2). f_equal. apply sum_incs_split. exact H3.
  - intros t Hfin Hne. destruct (H1 t) as [_ [[Hex|(r0 & Hr0)]|Hacc]].
    + contradiction.
    + rewrite Hfin in Hr0; discriminate.
    + rewrite Hfin in Hacc. simpl in Hacc. lia.
Qed.

Theorem final_sum_static_per_thread mp bodies h0 tb0 n0 opss n :
  let ps := map (compile_thread mp) opss in
  wf_world mp bodies ps ->
  (forall b, nostore n (bodies b) /\ jumps_in (bodies b)) ->
  Forall (Forall (no_set n)) opss ->
  forall c, reach bodies h0 tb0 n0 ps c ->
  heap c (LStat n) = (h0 (LStat n) + zsum (map (fun t => sum_incs_t t (LStat n) (trace c)) (seq 0 (length opss))))%Z /\
  forall t, code (thr c t) = [] -> ~ In (EvExc t) (trace c) ->
            sum_incs_t t (LStat n) (trace c) = issued_stat_ops n (nth t opss []).
Proof.
  intros ps Hw Hb Hops c Hr.
  destruct (static_per_thread mp bodies h0 tb0 n0 ps n Hw (fun b => proj1 (Hb b)) (fun b => proj2 (Hb b))) with (c := c)
    as [H1 H2]; auto.
  - unfold ps. apply Forall_map. eapply Forall_impl; [|exact Hops]. intros ops H. apply from_acc_ok; exact H.
  - split.
    + rewrite H1. unfold ps. rewrite map_length. reflexivity.
    + intros t Hfin Hne. rewrite (H2 t Hfin Hne). unfold ps.
      change (@nil instr) with (compile_thread mp []). rewrite map_nth. apply from_pend.
Qed.

(* no operation other than register()/unregister() can raise, under any interleaving *)
Lemma no_exception mp bodies h0 tb0 n0 opss :
  (forall b, noraise (bodies b)) -> Forall (Forall nonraising) opss ->
  forall c, reach bodies h0 tb0 n0 (map (compile_thread mp) opss) c -> forall t, ~ In (EvExc t) (trace c).
Proof.
  intros Hb Hops c Hr. apply (noexc_reach bodies h0 tb0 n0 (map (compile_thread mp) opss) c); auto.
  apply Forall_map. eapply Forall_impl; [|exact Hops]. intros ops H. apply from_noraise. exact H.
Qed.

(* ---------- fair schedules in worlds WITH loops and collector calls ---------- *)
Lemma ncalls_app bodies s1 : forall s2 c,
  ncalls bodies (s1 ++ s2) c = (ncalls bodies s1 c + ncalls bodies s2 (exec bodies s1 c))%nat.
Proof.
  induction s1 as [|t s1 IH]; intros s2 c; simpl; [reflexivity|].
  destruct (step bodies t c); rewrite IH; lia.
Qed.

Section TerminatesCalls.
  Variable mp : bool.
  Variable bodies : N -> list instr.
  Variable h0 : loc -> Z.
  Variable tb0 : tbl -> list (key * N).
  Variable n0 : N.
  Variable ps : list (list instr).
  Variable L : nat.
  Hypothesis Hw : wf_world mp bodies ps.
  Hypothesis HL : forall b, (length (bodies b) <= L)%nat.
  Let c0 := init_config h0 tb0 n0 ps.
  Let NT := length ps.

  Lemma term_fair_calls chunks : forall s0, let c := exec bodies s0 c0 in
    Forall (fun ch => forall t, (t < NT)%nat -> In t ch) chunks ->
    (mu NT c + (2 * L + 1) * ncalls bodies (concat chunks) c <= length chunks)%nat ->
    forall t, code (thr (exec bodies (concat chunks) c) t) = [].
  Proof.
    induction chunks as [|ch chunks IH]; intros s0 c Hcov Hmu.
    - simpl. assert (Ht : tids_ok NT c) by (apply tids_exec, tids_init).
      destruct (done_or_not NT c Ht) as [Hd|(t & Hlt & Hc)]; [exact Hd|exfalso].
      pose proof (mu_ge NT c t Hlt) as Hge. unfold tw in Hge. destruct (code (thr c t)); [congruence|].
      simpl in Hge, Hmu. lia.
    - inversion Hcov as [|? ? Hch Hcov']; subst. simpl concat. rewrite exec_app.
      assert (Ht : tids_ok NT c) by (apply tids_exec, tids_init).
      destruct (done_or_not NT c Ht) as [Hd|(t & Hlt & Hc)].
      + rewrite (exec_done bodies ch c Hd). rewrite (exec_done bodies _ c Hd). exact Hd.
      + assert (Hr : reach bodies h0 tb0 n0 ps c) by (exists s0; reflexivity).
        destruct (fin_deadlock_free mp bodies h0 tb0 n0 ps Hw c Hr) as [t' Ht']; [exists t; exact Hc|].
        assert (Hlt' : (t' < NT)%nat).
        { destruct (Nat.lt_ge_cases t' NT) as [H|H]; [exact H|exfalso]. apply Ht'. unfold step.
          rewrite (proj1 Ht t' H). reflexivity. }
        pose proof (nsteps_enabled bodies t' ch c (Hch t' Hlt') Ht') as Hn.
        pose proof (mu_exec bodies NT ch c Ht) as Hm.
        pose proof (ngrow_calls bodies L ch HL c) as Hg.
        simpl concat in Hmu. rewrite ncalls_app in Hmu.
        unfold c. rewrite <- (exec_app bodies s0 ch c0). apply (IH (s0 ++ ch) Hcov').
        rewrite exec_app. fold c. simpl in Hmu. lia.
  Qed.

  Lemma term_fair_calls0 chunks :
    Forall (fun ch => forall t, (t < length ps)%nat -> In t ch) chunks ->
    (total_steps ps + (2 * L + 1) * ncalls bodies (concat chunks) c0 <= length chunks)%nat ->
    forall t, code (thr (exec bodies (concat chunks) c0) t) = [].
  Proof.
    intros Hcov Hlen. apply (term_fair_calls chunks [] Hcov). simpl. fold c0. unfold c0, NT. rewrite mu_init. exact Hlen.
  Qed.
End TerminatesCalls.
