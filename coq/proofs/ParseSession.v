(* C14, "the same outcome on every run": a run of a process is a sequence of parses.  Neither parser module keeps
   state between calls (the suffix tables, name sets and group sets are locals of one call), so the model of a run is
   the parser model mapped over the documents; the outcome of a document is then independent of the documents parsed
   before and after it, and of their order.  harness/c14hist.py observes exactly this on the implementation. *)
From Coq Require Import List.
Import ListNotations.

Section Session.
  Variables (Doc Out : Type) (parse : Doc -> Out).

  Definition session (docs : list Doc) : list Out := map parse docs.

  Lemma session_history_independent : forall before d after,
    nth_error (session (before ++ d :: after)) (length before) = Some (parse d).
  Proof.
    intros before d after. unfold session. rewrite map_app. cbn [map].
    rewrite nth_error_app2; rewrite map_length; [|apply le_n].
    rewrite PeanoNat.Nat.sub_diag. reflexivity.
  Qed.

  (* the same document parsed at two points of a run (parsed again later; d1 d2 against d2 d1): one outcome *)
  Lemma session_same_outcome : forall run1 run2 i j d,
    nth_error run1 i = Some d -> nth_error run2 j = Some d ->
    nth_error (session run1) i = nth_error (session run2) j.
  Proof.
    intros run1 run2 i j d H1 H2. unfold session.
    rewrite (map_nth_error parse i run1 H1), (map_nth_error parse j run2 H2). reflexivity.
  Qed.
End Session.
