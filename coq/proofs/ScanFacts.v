(* Facts about the quote-skipping scanner _next_unquoted_char (model: nuq), shared by C03, C04, C14. *)
From V Require Import lib.PyBase lib.Tac lib.PyStr model.TextParser.
Ltac Zify.zify_post_hook ::= Z.to_euclidean_division_equations.
Open Scope N_scope.

(* relative-index version with start = 0 *)
Fixpoint nuq0 (chs : list char) (l : str) (par inq : bool) : option nat :=
  match l with
  | [] => None
  | c :: r =>
      let par' := if c =? BS then negb par else false in
      let inq' := if (c =? DQ) && negb par then negb inq else inq in
      if negb inq' && mem_char c chs then Some O
      else option_map S (nuq0 chs r par' inq')
  end.

(* scanner state (parity of the trailing backslash run, inside quotes) after consuming l *)
Fixpoint st_after (l : str) (par inq : bool) : bool * bool :=
  match l with
  | [] => (par, inq)
  | c :: r => st_after r (if c =? BS then negb par else false)
                         (if (c =? DQ) && negb par then negb inq else inq)
  end.

Lemma nuq_rel chs l : forall i start par inq, (start <= i)%Z ->
  nuq chs l i start par inq =
  match nuq0 chs l par inq with None => (-1)%Z | Some k => (i + Z.of_nat k)%Z end.
Proof.
  induction l as [|c r IH]; intros i start par inq Hs; cbn [nuq nuq0]; [reflexivity|].
  destruct (Z.ltb_spec i start); [lia|].
  destruct (negb _ && mem_char c chs); [lia|].
  rewrite IH by lia. destruct (nuq0 chs r _ _); cbn [option_map]; lia.
Qed.

Lemma next_unquoted_char_rel text chs :
  next_unquoted_char text chs 0 =
  match nuq0 chs text false false with None => (-1)%Z | Some k => Z.of_nat k end.
Proof.
  unfold next_unquoted_char. rewrite nuq_rel by lia. destruct (nuq0 _ _ _ _); lia.
Qed.

(* the general range fact, for any start *)
Lemma nuq_range chs l : forall i start par inq,
  nuq chs l i start par inq = (-1)%Z \/
  (start <= nuq chs l i start par inq /\ i <= nuq chs l i start par inq < i + zlen l)%Z.
Proof.
  induction l as [|c r IH]; intros i start par inq; cbn [nuq]; [left; reflexivity|].
  unfold zlen in *. cbn [length]. rewrite Nat2Z.inj_succ.
  destruct (Z.ltb_spec i start).
  - destruct (IH (i + 1)%Z start (if c =? BS then negb par else false) inq) as [H0|H0]; [left; exact H0|right; lia].
  - destruct (negb _ && mem_char c chs); [right; lia|].
    match goal with |- context [nuq chs r ?a ?b ?p ?q] => destruct (IH a b p q) as [H0|H0] end;
      [left; exact H0|right; lia].
Qed.

Lemma nuq0_lt chs l : forall par inq k, nuq0 chs l par inq = Some k -> (k < length l)%nat.
Proof.
  induction l as [|c r IH]; intros par inq k H; cbn [nuq0] in H; [discriminate|].
  destruct (negb _ && mem_char c chs); [inversion H; cbn; lia|].
  destruct (nuq0 chs r _ _) eqn:E; [|discriminate]. inversion H. apply IH in E. cbn. lia.
Qed.

Lemma nuq0_app chs a : forall b par inq,
  nuq0 chs (a ++ b) par inq =
  match nuq0 chs a par inq with
  | Some k => Some k
  | None => option_map (fun k => (length a + k)%nat)
                       (nuq0 chs b (fst (st_after a par inq)) (snd (st_after a par inq)))
  end.
Proof.
  induction a as [|c r IH]; intros b par inq; cbn [app nuq0 st_after].
  - cbn [fst snd length]. destruct (nuq0 chs b par inq); reflexivity.
  - destruct (negb _ && mem_char c chs); [reflexivity|].
    rewrite IH. destruct (nuq0 chs r _ _); cbn [option_map]; [reflexivity|].
    destruct (nuq0 chs b _ _); reflexivity.
Qed.

Lemma st_after_app a : forall b par inq,
  st_after (a ++ b) par inq = st_after b (fst (st_after a par inq)) (snd (st_after a par inq)).
Proof. induction a as [|c r IH]; intros; cbn [app st_after]; [reflexivity|apply IH]. Qed.

(* decomposition at the found position *)
Lemma nuq0_Some chs l : forall par inq k, nuq0 chs l par inq = Some k ->
  exists a c rest, l = a ++ c :: rest /\ length a = k /\ nuq0 chs a par inq = None /\
    mem_char c chs = true /\
    (let pa := fst (st_after a par inq) in let ia := snd (st_after a par inq) in
     (if (c =? DQ) && negb pa then negb ia else ia) = false).
Proof.
  induction l as [|c r IH]; intros par inq k H; cbn [nuq0] in H; [discriminate|].
  destruct (negb (if (c =? DQ) && negb par then negb inq else inq) && mem_char c chs) eqn:E.
  - inversion H; subst k. exists [], c, r. apply andb_true_iff in E as [E1 E2].
    cbn [app length nuq0 st_after fst snd]. repeat split; auto.
    destruct (if (c =? DQ) && negb par then negb inq else inq); [discriminate|reflexivity].
  - destruct (nuq0 chs r _ _) eqn:E2; [|discriminate]. inversion H; subst k.
    destruct (IH _ _ _ E2) as (a & c' & rest & -> & Hl & Hn & Hm & Hs).
    exists (c :: a), c', rest. cbn [app length nuq0 st_after]. rewrite E, Hn.
    repeat split; auto.
Qed.

(* no unquoted character of chs, scanning afresh *)
Definition clean (chs : list char) (s : str) : Prop := nuq0 chs s false false = None.

Lemma clean_app_l chs a b : clean chs (a ++ b) -> clean chs a.
Proof. unfold clean. rewrite nuq0_app. destruct (nuq0 chs a false false); [discriminate|reflexivity]. Qed.

Lemma clean_nil chs : clean chs [].
Proof. reflexivity. Qed.

(* dropping a leading character that is neither backslash nor quote keeps the state fresh *)
Lemma clean_tail chs c r : c <> BS -> c <> DQ -> clean chs (c :: r) -> clean chs r.
Proof.
  unfold clean. intros Hb Hq. cbn [nuq0].
  destruct (N.eqb_spec c BS); [contradiction|]. destruct (N.eqb_spec c DQ); [contradiction|].
  cbn [andb negb]. destruct (mem_char c chs); [discriminate|].
  destruct (nuq0 chs r false false); [discriminate|reflexivity].
Qed.

Lemma clean_lstrip chs (p : char -> bool) s :
  (forall c, p c = true -> c <> BS /\ c <> DQ) -> clean chs s -> clean chs (lstrip_p p s).
Proof.
  intros Hp. induction s as [|c r IH]; intro H; cbn [lstrip_p]; [exact H|].
  destruct (p c) eqn:E; [|exact H]. destruct (Hp c E). apply IH. eapply clean_tail; eauto.
Qed.

Lemma rstrip_p_prefix (p : char -> bool) s : exists w, s = rstrip_p p s ++ w.
Proof.
  unfold rstrip_p.
  assert (G : forall t, exists w, t = w ++ lstrip_p p t).
  { induction t as [|c r IH]; [exists []; reflexivity|]. cbn [lstrip_p].
    destruct (p c); [|exists []; reflexivity]. destruct IH as [w Hw]. exists (c :: w). cbn. congruence. }
  destruct (G (rev s)) as [w Hw]. exists (rev w).
  rewrite <- rev_app_distr, <- Hw, rev_involutive. reflexivity.
Qed.

Lemma clean_rstrip chs p s : clean chs s -> clean chs (rstrip_p p s).
Proof. intro H. destruct (rstrip_p_prefix p s) as [w Hw]. rewrite Hw in H. eapply clean_app_l; eauto. Qed.

Lemma space_not_special c : is_space_uni c = true -> c <> BS /\ c <> DQ.
Proof.
  unfold is_space_uni, BS, DQ. intro H. split; intro E; subst c; vm_compute in H; discriminate.
Qed.

Lemma clean_strip chs s : clean chs s -> clean chs (strip s).
Proof.
  intro H. unfold strip, strip_p. apply clean_rstrip. apply clean_lstrip; auto. apply space_not_special.
Qed.

Lemma length_lstrip p s : (length (lstrip_p p s) <= length s)%nat.
Proof. induction s as [|c r IH]; cbn [lstrip_p]; [lia|]. destruct (p c); cbn [length]; lia. Qed.

Lemma length_rstrip p s : (length (rstrip_p p s) <= length s)%nat.
Proof. unfold rstrip_p. rewrite rev_length. etransitivity; [apply length_lstrip|]. rewrite rev_length. lia. Qed.

Lemma length_strip s : (length (strip s) <= length s)%nat.
Proof. unfold strip, strip_p. etransitivity; [apply length_rstrip|apply length_lstrip]. Qed.

(* slices as firstn/skipn for in-range non-negative bounds *)
Lemma norm_idx_id len i : (0 <= i <= len)%Z -> norm_idx len i = i.
Proof.
  intro H. unfold norm_idx.
  destruct (Z.ltb_spec i 0); [lia|]. destruct (Z.ltb_spec i 0); [lia|].
  destruct (Z.ltb_spec len i); [lia|]. reflexivity.
Qed.

Lemma slice_nat s a b : (a <= b <= length s)%nat ->
  slice s (Z.of_nat a) (Z.of_nat b) = firstn (b - a) (skipn a s).
Proof.
  intro H. unfold slice, zlen. rewrite !norm_idx_id by lia.
  destruct (Z.leb_spec (Z.of_nat b) (Z.of_nat a)).
  - replace (b - a)%nat with 0%nat by lia. reflexivity.
  - rewrite Nat2Z.id. f_equal. lia.
Qed.

Lemma slice_from_skipn s k : (k <= length s)%nat -> slice_from s (Z.of_nat k) = skipn k s.
Proof.
  intro H. unfold slice_from, zlen. rewrite slice_nat by lia.
  apply firstn_all2. rewrite skipn_length. lia.
Qed.

Lemma slice_to_firstn s k : (k <= length s)%nat -> slice_to s (Z.of_nat k) = firstn k s.
Proof.
  intro H. unfold slice_to. change 0%Z with (Z.of_nat 0). rewrite slice_nat by lia.
  rewrite Nat.sub_0_r. reflexivity.
Qed.

Lemma length_slice s lo hi : (length (slice s lo hi) <= length s)%nat.
Proof.
  unfold slice. destruct (_ <=? _)%Z; [cbn; lia|].
  rewrite firstn_length, skipn_length. lia.
Qed.

Lemma clean_firstn chs n s : clean chs s -> clean chs (firstn n s).
Proof. intro H. rewrite <- (firstn_skipn n s) in H. eapply clean_app_l; exact H. Qed.

Lemma slice_lo_nat s k hi : (k <= length s)%nat ->
  exists n, slice s (Z.of_nat k) hi = firstn n (skipn k s).
Proof.
  intro H. unfold slice. rewrite (norm_idx_id (zlen s) (Z.of_nat k)) by (unfold zlen; lia).
  destruct (_ <=? _)%Z; [exists 0%nat; reflexivity|]. rewrite Nat2Z.id. eexists; reflexivity.
Qed.
