(* Concrete witnesses for the escapes of the pinned OpenMetrics parser (C14) and the round-trip defects (C04, second
   direction), evaluated in the model with a small ASCII instance of the CPython oracles: int()/float() read plain
   decimal digit strings (and the one literal 1.5e0), numbers are Z, \w \s \d are the ASCII classes.  On the witness
   documents these agree with CPython (the correspondence run replays the same documents against the real code). *)
From V Require Import lib.PyBase lib.PyStr model.Validation model.Expo model.TextParser model.OMParser.
Open Scope N_scope.

Definition toy_int (s : str) : option Z :=
  match s with
  | [] => None
  | _ => if forallb is_digit s then Some (Z.of_N (digits_val 0 s)) else None
  end.
Definition toy_float (s : str) : option Z :=
  match toy_int s with
  | Some z => Some z
  | None => if str_eqb s (s2l "1.5e0") then Some 2%Z                (* stands for the float 1.5 *)
            else if str_eqb s (s2l "+Inf") then Some (10 ^ 400)%Z   (* stands for float('+Inf') *)
            else None
  end.
Definition toy_word (c : char) : bool := is_alnum c || (c =? USCORE).

(* flags: guard_fix, fix_unit, fix_quote are the integrator's repairs and stay on *)
Definition toy_parse (nhkeys nhsfx tsmix isnan tsexp sname : bool) (doc : string) : res (list (om_family Z)) :=
  om_parse false true nhkeys nhsfx tsmix isnan true true tsexp sname Z toy_int toy_float toy_int
    Z.ltb Z.eqb (fun _ => false) (fun _ => true) (fun z => (2 ^ 1024 <=? Z.abs z)%Z) 0%Z 1%Z (10 ^ 400)%Z
    (fun _ _ => None) toy_word is_space_ascii is_digit (s2l doc).

Definition is_ok {A} (r : res A) : bool := match r with Ok _ => true | Err _ => false end.

Definition doc_F12 := "# TYPE a histogram
a {x:1}
# EOF
"%string.
Definition doc_F13 := "# TYPE a histogram
a_total {count:1,sum:1,schema:0,zero_threshold:0,zero_count:0}
# EOF
"%string.
Definition doc_gcount := "# TYPE a histogram
a_gcount {count:1,sum:1,schema:0,zero_threshold:0,zero_count:0}
# EOF
"%string.
Definition doc_qname := "# TYPE ""a.b"" histogram
{""a.b_count""} {count:1,sum:1,schema:0,zero_threshold:0,zero_count:0}
# EOF
"%string.
Definition doc_F14 := "# TYPE a gauge
a 1 1
a 2 1.5e0
# EOF
"%string.
Definition doc_huge := ("# TYPE a counter
a_total 1" ++ "0000000000000000000000000000000000000000000000000000000000000000000000000000000000000000000000000000"
  ++ "0000000000000000000000000000000000000000000000000000000000000000000000000000000000000000000000000000"
  ++ "0000000000000000000000000000000000000000000000000000000000000000000000000000000000000000000000000000"
  ++ "0000000000000000000000000000000000000000000000000000000000000000000000000000000000000000000000000000" ++ "
# EOF
")%string.
Definition doc_sname := " a{} 1
# EOF
"%string.

Lemma F12_orig : toy_parse false true true true true true doc_F12 = Err KeyError.
Proof. vm_compute. reflexivity. Qed.
Lemma F12_fixed : toy_parse true true true true true true doc_F12 = Err ValueError.
Proof. vm_compute. reflexivity. Qed.
Lemma F13_orig : toy_parse true false true true true true doc_F13 = Err TypeError.
Proof. vm_compute. reflexivity. Qed.
Lemma F13_fixed : toy_parse true true true true true true doc_F13 = Err ValueError.
Proof. vm_compute. reflexivity. Qed.
Lemma gcount_orig : toy_parse true false true true true true doc_gcount = Err AttributeError.
Proof. vm_compute. reflexivity. Qed.
Lemma gcount_fixed : toy_parse true true true true true true doc_gcount = Err ValueError.
Proof. vm_compute. reflexivity. Qed.
Lemma qname_orig : toy_parse true false true true true true doc_qname = Err AttributeError.
Proof. vm_compute. reflexivity. Qed.
Lemma qname_fixed : toy_parse true true true true true true doc_qname = Err ValueError.
Proof. vm_compute. reflexivity. Qed.
Lemma F14_orig : toy_parse true true false true true true doc_F14 = Err AttributeError.
Proof. vm_compute. reflexivity. Qed.
(* repaired: Timestamp and float are compared as floats; float(Timestamp) is the oracle ts_float, which this toy
   instance answers with None (standing for OverflowError), so the repaired model says ValueError here; with
   CPython's answer the document is accepted (correspondence run) *)
Lemma F14_fixed : toy_parse true true true true true true doc_F14 = Err ValueError.
Proof. vm_compute. reflexivity. Qed.
Lemma huge_orig : toy_parse true true true false true true doc_huge = Err OverflowError.
Proof. vm_compute. reflexivity. Qed.
Lemma huge_fixed : is_ok (toy_parse true true true true true true doc_huge) = true.
Proof. vm_compute. reflexivity. Qed.
Lemma sname_orig : is_ok (toy_parse true true true true true false doc_sname) = true.
Proof. vm_compute. reflexivity. Qed.
Lemma sname_fixed : toy_parse true true true true true true doc_sname = Err ValueError.
Proof. vm_compute. reflexivity. Qed.

(* _parse_timestamp on 1.123456789e5, for ANY oracles that answer as CPython does on the three tokens involved *)
Section TsExp.
  Variable NUM : Type.
  Variable parse_float : str -> option NUM.
  Variable parse_int : str -> option Z.
  Variable num_eqb : NUM -> NUM -> bool.
  Variable num_isinf : NUM -> bool.
  Variable x : NUM.
  Hypothesis int_whole : parse_int (s2l "1.123456789e5") = None.
  Hypothesis int_frac : parse_int (s2l "123456789e5") = None.
  Hypothesis int_sec : parse_int (s2l "1") = Some 1%Z.
  Hypothesis int_nine : parse_int (s2l "123456789") = Some 123456789%Z.
  Hypothesis flt : parse_float (s2l "1.123456789e5") = Some x.
  Hypothesis x_finite : num_eqb x x = true /\ num_isinf x = false.

  Lemma tsexp_orig :
    om_parse_timestamp false NUM parse_float parse_int num_eqb num_isinf (s2l "1.123456789e5")
    = Ok (Some (OTs 1 123456789)).
  Proof.
    unfold om_parse_timestamp. cbv in *.
    rewrite int_whole, int_sec, int_nine. reflexivity.
  Qed.

  Lemma tsexp_fixed :
    om_parse_timestamp true NUM parse_float parse_int num_eqb num_isinf (s2l "1.123456789e5")
    = Ok (Some (OTf x)).
  Proof.
    destruct x_finite as [A B].
    unfold om_parse_timestamp. cbv in *.
    rewrite int_whole, int_sec, int_frac, flt, A, B. reflexivity.
  Qed.
End TsExp.
