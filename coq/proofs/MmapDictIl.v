(* C11, refined reader: read_all_values_from_file as a sequence of reads over a CHANGING file
   (model/MmapDict.v: read_all_from_file_il, read_il_at).  The writer may perform any number of file effects between
   the reader's first read (one block, with the header) and its second (the rest of the used bytes).
   Result (il_cuts): with the first read served from cut n1 and the second from cut n2 >= n1 of the writer's trace,
   the reader returns Ok (mix (pg - 8) s1 s2') where s1 is the prefix state (+ in-flight key) of cut n1, s2' the
   entries of the prefix state of cut n2 that have the keys of s1 (the key list only grows), and mix takes the bytes
   below the block boundary from s1 and the bytes beyond it from s2'. *)
From V Require Import lib.PyBase lib.Tac model.MmapDict proofs.MmapDictProofs.
Ltac Zify.zify_post_hook ::= Z.to_euclidean_division_equations.
Open Scope N_scope.

(* ---------- list facts ---------- *)
Lemma take_app_le {A} (a b : list A) n : n <= len a -> take n (a ++ b) = take n a.
Proof.
  intros H. unfold take, len in *. rewrite firstn_app.
  replace (N.to_nat n - length a)%nat with O by lia. cbn [firstn]. apply app_nil_r.
Qed.
Lemma drop_app_le {A} (a b : list A) n : n <= len a -> drop n (a ++ b) = drop n a ++ b.
Proof.
  intros H. unfold drop, len in *. rewrite skipn_app.
  replace (N.to_nat n - length a)%nat with O by lia. reflexivity.
Qed.
Lemma take_nil {A} n : take n (@nil A) = [].
Proof. unfold take. apply firstn_nil. Qed.
Lemma drop_nil {A} n : drop n (@nil A) = [].
Proof. unfold drop. apply skipn_nil. Qed.

(* ---------- the key list of the store only grows ---------- *)
Definition ext (x y : list entry) : Prop := exists ks, map fst y = map fst x ++ ks.

Lemma ext_refl x : ext x x.
Proof. exists []. symmetry. apply app_nil_r. Qed.
Lemma ext_trans x y z : ext x y -> ext y z -> ext x z.
Proof. intros [a Ha] [c Hc]. exists (a ++ c). rewrite Hc, Ha, app_assoc. reflexivity. Qed.
Lemma ext_app x l : ext x (x ++ l).
Proof. exists (map fst l). apply map_app. Qed.
Lemma ext_ens es k : ext es (ens es k).
Proof. unfold ens. destruct (d_mem keq es k); [apply ext_refl|apply ext_app]. Qed.
Lemma ext_dset es k v : ext es (d_set keq es k v).
Proof.
  destruct (d_mem keq es k) eqn:E.
  - exists []. rewrite d_set_keys by exact E. symmetry. apply app_nil_r.
  - rewrite d_set_notin by exact E. apply ext_app.
Qed.
Lemma ext_step es o : ext es (spec_step es o).
Proof.
  destruct o as [k v ts|k|]; cbn [spec_step].
  - apply ext_dset.
  - destruct (d_mem keq es k); [apply ext_refl|apply ext_dset].
  - apply ext_refl.
Qed.
Lemma ext_ens_step es o k : keyof o = Some k -> ext (ens es k) (spec_step es o).
Proof.
  destruct o as [k' v ts|k'|]; cbn [keyof]; intros H; try discriminate; injection H as ->.
  - cbn [spec_step]. unfold ens. destruct (d_mem keq es k) eqn:E; [apply ext_dset|].
    rewrite d_set_notin by exact E. exists []. rewrite !map_app. cbn [map fst e0]. rewrite app_nil_r. reflexivity.
  - rewrite spec_step_ReadV. apply ext_refl.
Qed.
Lemma ext_spec_from ops : forall es, ext es (spec_from es ops).
Proof.
  induction ops as [|o r IH]; intros es; [apply ext_refl|].
  change (spec_from es (o :: r)) with (spec_from (spec_step es o) r).
  eapply ext_trans; [apply ext_step|apply IH].
Qed.

(* ---------- the cut states of one operation, as a monotone function of the cut point ---------- *)
Definition mid_state (es : list entry) (o : op) : list entry :=
  match keyof o with Some k => ens es k | None => es end.
Definition st_of (es : list entry) (o : op) (t1 t2 n : nat) : list entry :=
  if (n <? t1)%nat then es else if (n <? t2)%nat then mid_state es o else spec_step es o.
Definition m_of (t2 n : nat) : nat := if (n <? t2)%nat then O else 1%nat.
Definition infl_of (es : list entry) (o : op) (t1 t2 n : nat) : list entry :=
  if (n <? t1)%nat then []
  else if (n <? t2)%nat then
         match keyof o with Some k => if d_mem keq es k then [] else [e0 k] | None => [] end
       else [].

Lemma st_of_prefix es o r t1 t2 n : (t1 <= t2)%nat ->
  st_of es o t1 t2 n = spec_from es (firstn (m_of t2 n) (o :: r)) ++ infl_of es o t1 t2 n.
Proof.
  intros Ht. unfold st_of, m_of, infl_of.
  destruct (n <? t1)%nat eqn:E1; destruct (n <? t2)%nat eqn:E2;
    try (apply Nat.ltb_lt in E1); try (apply Nat.ltb_ge in E1);
    try (apply Nat.ltb_lt in E2); try (apply Nat.ltb_ge in E2); try lia.
  - cbn [firstn spec_from fold_left]. symmetry. apply app_nil_r.
  - cbn [firstn spec_from fold_left]. unfold mid_state, ens.
    destruct (keyof o) as [k|]; [|symmetry; apply app_nil_r].
    destruct (d_mem keq es k); [symmetry; apply app_nil_r|reflexivity].
  - cbn [firstn spec_from fold_left]. symmetry. apply app_nil_r.
Qed.

Lemma st_of_infl es o r t1 t2 n :
  inflight_ok es (firstn (m_of t2 n) (o :: r)) (nth_error (o :: r) (m_of t2 n)) (infl_of es o t1 t2 n).
Proof.
  unfold m_of, infl_of.
  destruct (n <? t1)%nat; [left; reflexivity|].
  destruct (n <? t2)%nat; [|left; reflexivity].
  destruct (keyof o) as [k|] eqn:Hk; [|left; reflexivity].
  destruct (d_mem keq es k) eqn:E; [left; reflexivity|].
  right. exists o, k. cbn [firstn nth_error spec_from fold_left]. auto.
Qed.

Lemma st_of_final es o t1 t2 n : ext (st_of es o t1 t2 n) (spec_step es o).
Proof.
  unfold st_of. destruct (n <? t1)%nat; [apply ext_step|].
  destruct (n <? t2)%nat; [|apply ext_refl].
  unfold mid_state. destruct (keyof o) as [k|] eqn:Hk; [apply ext_ens_step; exact Hk|apply ext_step].
Qed.

Lemma st_of_mono es o t1 t2 n1 n2 : (n1 <= n2)%nat ->
  ext (st_of es o t1 t2 n1) (st_of es o t1 t2 n2) /\ (m_of t2 n1 <= m_of t2 n2)%nat.
Proof.
  intros Hn. unfold st_of, m_of.
  destruct (n1 <? t1)%nat eqn:A1; destruct (n1 <? t2)%nat eqn:A2;
  destruct (n2 <? t1)%nat eqn:B1; destruct (n2 <? t2)%nat eqn:B2;
    try (apply Nat.ltb_lt in A1); try (apply Nat.ltb_ge in A1);
    try (apply Nat.ltb_lt in A2); try (apply Nat.ltb_ge in A2);
    try (apply Nat.ltb_lt in B1); try (apply Nat.ltb_ge in B1);
    try (apply Nat.ltb_lt in B2); try (apply Nat.ltb_ge in B2); try lia;
    (split; [|lia]); try apply ext_refl; try apply ext_step.
  all: unfold mid_state; destruct (keyof o) as [k|] eqn:Hk;
    try apply ext_ens; try apply ext_refl; try apply ext_step; try (apply ext_ens_step; exact Hk).
Qed.

(* ---------- mixing two layouts with the same keys at a byte offset ---------- *)
(* the 16 value bytes of an entry: the first j from a, the others from c *)
Definition mixv (j : N) (a c : value) : value :=
  let s := take j (fst a ++ snd a) ++ drop j (fst c ++ snd c) in (take 8 s, drop 8 s).

(* xs and ys are lists of entries with the same keys (hence the same layout).  mix k xs ys is the list whose layout
   has its first k bytes from the layout of xs and the others from the layout of ys: the entries that end at or before
   offset k are those of xs, the entries that begin at or after k are those of ys, and the one entry that offset k
   cuts has the key (the same in both) and the value bytes below k from xs, the others from ys. *)
Fixpoint mix (k : N) (xs ys : list entry) : list entry :=
  match xs, ys with
  | x :: xr, y :: yr =>
      if esize (fst x) <=? k then x :: mix (k - esize (fst x)) xr yr
      else (fst x, mixv (k - hsize (fst x)) (snd x) (snd y)) :: yr
  | _, _ => []
  end.

Lemma mixv_wf j a c : wf_value a -> wf_value c -> wf_value (mixv j a c).
Proof.
  intros [A1 A2] [C1 C2]. unfold mixv, wf_value. cbn [fst snd].
  rewrite len_take, len_drop, !len_app, len_take, len_drop, !len_app, A1, A2, C1, C2. lia.
Qed.

Lemma mixv_0 a c : wf_value c -> mixv 0 a c = c.
Proof.
  intros [C1 C2]. unfold mixv. rewrite take_0, drop_0. cbn [app].
  rewrite (take_app_exact (fst c) (snd c) 8) by lia. rewrite (drop_app_exact (fst c) (snd c) 8) by lia.
  destruct c; reflexivity.
Qed.

Lemma mixv_8 a c : wf_value a -> wf_value c -> mixv 8 a c = (fst a, snd c).
Proof.
  intros [A1 A2] [C1 C2]. unfold mixv.
  rewrite (take_app_exact (fst a) (snd a) 8) by lia. rewrite (drop_app_exact (fst c) (snd c) 8) by lia.
  rewrite (take_app_exact (fst a) (snd c) 8) by lia. rewrite (drop_app_exact (fst a) (snd c) 8) by lia.
  reflexivity.
Qed.

Lemma splice_enc k kx a c : wf_value a -> wf_value c -> k < esize kx ->
  take k (enc (kx, a)) ++ drop k (enc (kx, c)) = enc (kx, mixv (k - hsize kx) a c).
Proof.
  intros [A1 A2] [C1 C2] Hk. unfold enc, mixv. cbn [fst snd].
  set (H := ehead kx). set (A := fst a ++ snd a). set (C := fst c ++ snd c).
  assert (HA : len A = 16) by (unfold A; rewrite len_app; lia).
  assert (HC : len C = 16) by (unfold C; rewrite len_app; lia).
  assert (HH : len H = hsize kx) by apply len_ehead.
  rewrite take_drop.
  destruct (N.le_gt_cases k (hsize kx)) as [Hle|Hgt].
  - replace (k - hsize kx) with 0 by lia. rewrite take_0, drop_0. cbn [app].
    rewrite take_app_le by lia. rewrite drop_app_le by lia.
    rewrite app_assoc, take_drop. reflexivity.
  - rewrite (take_app_plus H A k (k - hsize kx)) by lia.
    rewrite (drop_app_plus H C k (k - hsize kx)) by lia.
    rewrite <- app_assoc. reflexivity.
Qed.

Lemma flat_cons e r : flat (e :: r) = enc e ++ flat r.
Proof. reflexivity. Qed.

Lemma splice_flat : forall xs ys k, map fst xs = map fst ys -> Forall wf_entry xs -> Forall wf_entry ys ->
  take k (flat xs) ++ drop k (flat ys) = flat (mix k xs ys).
Proof.
  induction xs as [|x xr IH]; intros ys k Hk Hx Hy; destruct ys as [|y yr]; try discriminate.
  - cbn [mix flat flat_map]. rewrite take_nil, drop_nil. reflexivity.
  - cbn [map] in Hk. injection Hk as Hk0 Hkr.
    inversion Hx as [|? ? Hx0 Hxr]; subst. inversion Hy as [|? ? Hy0 Hyr]; subst.
    cbn [mix]. rewrite !flat_cons.
    pose proof (len_enc x Hx0) as Lx. pose proof (len_enc y Hy0) as Ly. rewrite <- Hk0 in Ly.
    destruct (esize (fst x) <=? k) eqn:E.
    + apply N.leb_le in E.
      rewrite (take_app_plus (enc x) (flat xr) k (k - esize (fst x))) by lia.
      rewrite (drop_app_plus (enc y) (flat yr) k (k - esize (fst x))) by lia.
      rewrite flat_cons, <- app_assoc. f_equal. apply IH; assumption.
    + apply N.leb_gt in E.
      rewrite take_app_le by lia. rewrite drop_app_le by lia.
      rewrite flat_cons, app_assoc. f_equal.
      destruct x as [kx a], y as [ky c]. cbn [fst snd] in *. subst ky.
      apply splice_enc; assumption.
Qed.

Lemma total_keys : forall xs ys, map fst xs = map fst ys -> total xs = total ys.
Proof.
  induction xs as [|x xr IH]; intros ys H; destruct ys as [|y yr]; try discriminate; [reflexivity|].
  cbn [map] in H. injection H as H0 Hr. cbn [total]. rewrite H0, (IH yr Hr). reflexivity.
Qed.

Lemma mix_keys : forall xs ys k, map fst xs = map fst ys -> map fst (mix k xs ys) = map fst xs.
Proof.
  induction xs as [|x xr IH]; intros ys k H; destruct ys as [|y yr]; try discriminate; [reflexivity|].
  cbn [map] in H. injection H as H0 Hr. cbn [mix].
  destruct (esize (fst x) <=? k); cbn [map fst]; f_equal; [apply IH; exact Hr|symmetry; exact Hr].
Qed.

Lemma mix_wf : forall xs ys k, Forall wf_entry xs -> Forall wf_entry ys -> Forall wf_entry (mix k xs ys).
Proof.
  induction xs as [|x xr IH]; intros ys k Hx Hy; destruct ys as [|y yr]; cbn [mix]; try constructor.
  inversion Hx as [|? ? Hx0 Hxr]; subst. inversion Hy as [|? ? Hy0 Hyr]; subst.
  destruct (esize (fst x) <=? k); constructor; try assumption.
  - apply IH; assumption.
  - apply mixv_wf; assumption.
Qed.

(* everything below the offset: the first list *)
Lemma mix_small : forall xs ys k, map fst xs = map fst ys -> total xs <= k -> mix k xs ys = xs.
Proof.
  induction xs as [|x xr IH]; intros ys k H Hk; destruct ys as [|y yr]; try discriminate; [reflexivity|].
  cbn [map] in H. injection H as H0 Hr. cbn [mix total] in *.
  destruct (esize (fst x) <=? k) eqn:E; [|apply N.leb_gt in E; lia].
  f_equal. apply IH; [exact Hr|]. apply N.leb_le in E. lia.
Qed.

(* nothing changed between the two reads: the reader is exact *)
Lemma mixv_same j a : wf_value a -> mixv j a a = a.
Proof.
  intros [A1 A2]. unfold mixv. rewrite take_drop.
  rewrite (take_app_exact (fst a) (snd a) 8) by lia. rewrite (drop_app_exact (fst a) (snd a) 8) by lia.
  destruct a; reflexivity.
Qed.
Lemma mix_same : forall xs k, Forall wf_entry xs -> mix k xs xs = xs.
Proof.
  induction xs as [|x xr IH]; intros k Hx; [reflexivity|].
  inversion Hx as [|? ? Hx0 Hxr]; subst. cbn [mix].
  destruct (esize (fst x) <=? k); [f_equal; apply IH; exact Hxr|].
  rewrite mixv_same by exact Hx0. destruct x; reflexivity.
Qed.

Lemma nth_error_keys : forall (xs ys : list entry) i y, map fst xs = map fst ys -> nth_error ys i = Some y ->
  exists x, nth_error xs i = Some x /\ fst x = fst y.
Proof.
  induction xs as [|x xr IH]; intros ys i y H Hy; destruct ys as [|y0 yr]; try discriminate.
  - destruct i; discriminate.
  - cbn [map] in H. injection H as H0 Hr. destruct i as [|i]; cbn [nth_error] in *.
    + injection Hy as <-. exists x. auto.
    + apply (IH yr i y Hr Hy).
Qed.

(* entry by entry, when the offset is 8-aligned (the block size is): every entry of the mix has the key of both lists
   at that position and is the entry of the first list, or the entry of the second, or - the one entry whose 16 value
   bytes the offset cuts in the middle - the value of the first with the timestamp of the second *)
Lemma mix_entrywise : forall xs ys k i e, map fst xs = map fst ys -> Forall wf_entry xs -> Forall wf_entry ys ->
  k mod 8 = 0 -> nth_error (mix k xs ys) i = Some e ->
  exists x y, nth_error xs i = Some x /\ nth_error ys i = Some y /\ fst x = fst y /\
    (e = x \/ e = y \/ e = (fst x, (fst (snd x), snd (snd y)))).
Proof.
  induction xs as [|x xr IH]; intros ys k i e H Hx Hy Hk He; destruct ys as [|y yr]; try discriminate.
  - destruct i; discriminate.
  - cbn [map] in H. injection H as H0 Hr.
    inversion Hx as [|? ? Hx0 Hxr]; subst. inversion Hy as [|? ? Hy0 Hyr]; subst.
    cbn [mix] in He. pose proof (esize_aligned (fst x)) as Ha. pose proof (hsize_aligned (fst x)) as Hb.
    destruct (esize (fst x) <=? k) eqn:E.
    + apply N.leb_le in E. destruct i as [|i]; cbn [nth_error] in *.
      * injection He as <-. exists x, y. split; [reflexivity|]. split; [reflexivity|]. split; [exact H0|]. left. reflexivity.
      * apply (IH yr (k - esize (fst x)) i e Hr Hxr Hyr); [lia|exact He].
    + apply N.leb_gt in E. destruct i as [|i]; cbn [nth_error] in *.
      * injection He as <-. exists x, y. split; [reflexivity|]. split; [reflexivity|]. split; [exact H0|].
        unfold esize in E.
        destruct (N.le_gt_cases k (hsize (fst x))) as [Hle|Hgt].
        -- right. left. replace (k - hsize (fst x)) with 0 by lia. rewrite mixv_0 by exact Hy0.
           rewrite H0. destruct y; reflexivity.
        -- right. right. replace (k - hsize (fst x)) with 8 by lia. rewrite mixv_8 by assumption. reflexivity.
      * destruct (nth_error_keys xr yr i e Hr He) as [x' [Hx' Hf]].
        exists x', e. split; [exact Hx'|]. split; [exact He|]. split; [exact Hf|]. right. left. reflexivity.
Qed.

(* ---------- the two-read reader on two represented files ---------- *)
Lemma firstn_keys (x y : list entry) : ext x y ->
  map fst (firstn (length x) y) = map fst x /\ (length x <= length y)%nat.
Proof.
  intros [ks H]. unfold entry in *. split.
  - rewrite <- firstn_map, H. rewrite <- (map_length fst x).
    rewrite firstn_app, Nat.sub_diag, firstn_all. cbn [firstn]. apply app_nil_r.
  - rewrite <- (map_length fst y), H, app_length, map_length. lia.
Qed.

Lemma Forall_firstn {A} (P : A -> Prop) n (l : list A) : Forall P l -> Forall P (firstn n l).
Proof.
  intros H. rewrite <- (firstn_skipn n l) in H. apply Forall_app in H. apply H.
Qed.

Lemma il_atomic pg b : read_all_from_file_il pg b b = read_all_from_file pg b.
Proof. reflexivity. Qed.

(* b1 represents x, b2 represents y, the keys of y extend those of x: the reader whose first read sees b1 and whose
   second read sees b2 returns the mix of x and the entries of y with x's keys, at the block boundary *)
Lemma il_on_FR pg b1 b2 x y : 8 <= pg -> FR b1 x -> good x -> FR b2 y -> good y -> ext x y ->
  read_all_from_file_il pg b1 b2 = Ok (mix (pg - 8) x (firstn (length x) y)).
Proof.
  intros Hpg F1 [Wx Bx] F2 [Wy By] He.
  destruct (firstn_keys x y He) as [Hkeys Hlen].
  set (y1 := firstn (length x) y) in *.
  assert (Wy1 : Forall wf_entry y1) by (apply Forall_firstn; exact Wy).
  assert (Hy : y = y1 ++ skipn (length x) y) by (symmetry; apply firstn_skipn).
  pose proof (total_keys _ _ Hkeys) as Ht.
  pose proof (len_FR b1 x F1 Wx) as Hl1.
  unfold read_all_from_file_il. rewrite len_take.
  destruct (N.min pg (len b1) =? 0) eqn:E0; [lia|]. clear E0.
  assert (Hh : unpack_i (take pg b1) 0 = Ok (Z.of_N (8 + total x))).
  { destruct F1 as [junk ->]. unfold header. rewrite <- !app_assoc.
    rewrite (take_app_plus (le32 (8 + total x)) _ pg (pg - 4)) by (rewrite le32_len; lia).
    apply unpack_le32. assumption. }
  rewrite Hh. cbn [bind].
  destruct (Z.of_N (N.min pg (len b1)) <? Z.of_N (8 + total x))%Z eqn:E.
  - (* more than one block in use: the second read *)
    assert (Hmin : N.min pg (len b1) = pg) by lia. rewrite Hmin.
    replace (Z.to_N (Z.of_N (8 + total x) - Z.of_N pg)) with (8 + total x - pg) by lia.
    assert (HD : take pg b1 ++ slice b2 pg (8 + total x - pg)
                 = header (8 + total x) ++ flat (mix (pg - 8) x y1) ++ []).
    { destruct F1 as [j1 ->]. destruct F2 as [j2 ->].
      rewrite (take_app_plus (header (8 + total x)) _ pg (pg - 8)) by (rewrite len_header; lia).
      rewrite take_app_le by (rewrite len_flat by exact Wx; lia).
      unfold slice.
      rewrite (drop_app_plus (header (8 + total y)) _ pg (pg - 8)) by (rewrite len_header; lia).
      replace (flat y) with (flat y1 ++ flat (skipn (length x) y)) by (rewrite <- flat_app, <- Hy; reflexivity).
      rewrite <- (app_assoc (flat y1)).
      rewrite drop_app_le by (rewrite len_flat by exact Wy1; lia).
      rewrite take_app_exact by (rewrite len_drop, len_flat by exact Wy1; lia).
      rewrite app_nil_r, <- app_assoc. f_equal.
      apply splice_flat; [symmetry; exact Hkeys|exact Wx|exact Wy1]. }
    rewrite HD.
    assert (Hmt : total (mix (pg - 8) x y1) = total x).
    { apply total_keys. apply mix_keys. symmetry. exact Hkeys. }
    rewrite (raw_on_FR _ (mix (pg - 8) x y1)).
    + cbn [bind]. rewrite drop_pos_with_pos. reflexivity.
    + exists []. rewrite Hmt. reflexivity.
    + split; [apply mix_wf; assumption|]. rewrite Hmt. exact Bx.
    + left. rewrite Hmt. reflexivity.
  - (* one block holds everything that is in use: no second read *)
    rewrite (raw_on_FR _ x).
    + cbn [bind]. rewrite drop_pos_with_pos.
      rewrite mix_small; [reflexivity|symmetry; exact Hkeys|lia].
    + apply take_FR; [exact F1|exact Wx|lia].
    + split; assumption.
    + left. reflexivity.
Qed.

(* ---------- whole histories: two cuts of the trace ---------- *)
Section Il.
Variable isz pg : N.
Hypothesis Hisz : 8 <= isz.
Hypothesis Hpg : 8 <= pg.

Lemma Hpg4 : 4 <= pg.
Proof. lia. Qed.

Lemma run_from_cuts2 : forall ops b h es,
  Rep isz b h es -> Forall wf_op ops -> 8 + total (spec_from es ops) < 2147483648 ->
  exists h' tr b',
    run_from isz (Some b, h) ops = Ok (Some b', h', tr) /\
    (forall n1 n2, (n1 <= n2)%nat -> exists bn1 m1 infl1 bn2 m2 infl2,
        apply_effects (Some b) (firstn n1 tr) = Ok (Some bn1) /\
        apply_effects (Some b) (firstn n2 tr) = Ok (Some bn2) /\
        (m1 <= m2)%nat /\ (m2 <= length ops)%nat /\
        Cut isz bn1 (spec_from es (firstn m1 ops) ++ infl1) /\
        Cut isz bn2 (spec_from es (firstn m2 ops) ++ infl2) /\
        inflight_ok es (firstn m1 ops) (nth_error ops m1) infl1 /\
        inflight_ok es (firstn m2 ops) (nth_error ops m2) infl2 /\
        ext (spec_from es (firstn m1 ops) ++ infl1) (spec_from es (firstn m2 ops) ++ infl2)).
Proof.
  induction ops as [|o r IH]; intros b h es R Hwf Hb.
  - exists h, [], b. cbn [run_from fst snd]. split; [reflexivity|].
    intros n1 n2 _. exists b, O, [], b, O, []. rewrite !firstn_nil.
    cbn [firstn spec_from fold_left apply_effects length]. rewrite app_nil_r.
    repeat split; try lia; try (exists h; exact R); try (left; reflexivity). apply ext_refl.
  - inversion Hwf as [|? ? Ho Hr]; subst.
    change (spec_from es (o :: r)) with (spec_from (spec_step es o) r) in Hb.
    pose proof (spec_from_mono isz pg Hisz Hpg4 r (spec_step es o)) as Hm.
    destruct (step_stages isz pg Hisz Hpg4 b h es o R Ho ltac:(lia))
      as [h1 [tr1 [b1 [t1 [t2 [S1 [A1 [R1 [Ht C1]]]]]]]]].
    destruct (IH b1 h1 (spec_step es o) R1 Hr Hb) as [h2 [tr2 [b2 [S2 C2]]]].
    exists h2, (tr1 ++ tr2), b2.
    split; [cbn [run_from]; rewrite S1; cbn [bind fst snd];
            exact (f_equal (fun x => bind x (fun t => Ok (fst (fst t), snd (fst t), tr1 ++ snd t))) S2)|].
    (* a cut inside the first operation *)
    assert (P1 : forall n, (n <= length tr1)%nat -> exists bn,
               apply_effects (Some b) (firstn n (tr1 ++ tr2)) = Ok (Some bn) /\ Cut isz bn (st_of es o t1 t2 n)).
    { intros n Hn. rewrite firstn_app. replace (n - length tr1)%nat with O by lia. cbn [firstn]. rewrite app_nil_r.
      destruct (C1 n) as [bn [x [Ha [Hc Hx]]]]. exists bn. split; [exact Ha|].
      unfold st_of. destruct Hx as [[Hlt ->]|[[Hlt [k [Hk ->]]]|[Hlt ->]]].
      - replace (n <? t1)%nat with true by (symmetry; apply Nat.ltb_lt; lia). exact Hc.
      - replace (n <? t1)%nat with false by (symmetry; apply Nat.ltb_ge; lia).
        replace (n <? t2)%nat with true by (symmetry; apply Nat.ltb_lt; lia).
        unfold mid_state. rewrite Hk. exact Hc.
      - replace (n <? t1)%nat with false by (symmetry; apply Nat.ltb_ge; lia).
        replace (n <? t2)%nat with false by (symmetry; apply Nat.ltb_ge; lia). exact Hc. }
    (* a cut after it *)
    assert (P2 : forall n bn, (length tr1 < n)%nat ->
               apply_effects (Some b1) (firstn (n - length tr1) tr2) = Ok (Some bn) ->
               apply_effects (Some b) (firstn n (tr1 ++ tr2)) = Ok (Some bn)).
    { intros n bn Hn Ha. rewrite firstn_app, firstn_all2 by lia. rewrite apply_effects_app, A1. cbn [bind]. exact Ha. }
    intros n1 n2 Hn.
    destruct (Nat.le_gt_cases n2 (length tr1)) as [H2|H2].
    + (* both inside the first operation *)
      destruct (P1 n1 ltac:(lia)) as [bn1 [Ha1 Hc1]]. destruct (P1 n2 H2) as [bn2 [Ha2 Hc2]].
      destruct (st_of_mono es o t1 t2 n1 n2 Hn) as [He Hmm].
      rewrite (st_of_prefix es o r t1 t2 n1 Ht) in Hc1, He. rewrite (st_of_prefix es o r t1 t2 n2 Ht) in Hc2, He.
      exists bn1, (m_of t2 n1), (infl_of es o t1 t2 n1), bn2, (m_of t2 n2), (infl_of es o t1 t2 n2).
      split; [exact Ha1|]. split; [exact Ha2|]. split; [exact Hmm|].
      split; [unfold m_of; cbn [length]; destruct (n2 <? t2)%nat; lia|].
      split; [exact Hc1|]. split; [exact Hc2|].
      split; [apply st_of_infl|]. split; [apply st_of_infl|exact He].
    + destruct (Nat.le_gt_cases n1 (length tr1)) as [H1|H1].
      * (* the first inside the first operation, the second later *)
        destruct (P1 n1 H1) as [bn1 [Ha1 Hc1]].
        destruct (C2 (n2 - length tr1)%nat (n2 - length tr1)%nat ltac:(lia))
          as [_ [_ [_ [bn2 [m2 [infl2 [_ [Ha2 [_ [Hm2 [_ [Hc2 [_ [Hi2 _]]]]]]]]]]]]]].
        pose proof (st_of_final es o t1 t2 n1) as He.
        rewrite (st_of_prefix es o r t1 t2 n1 Ht) in Hc1, He.
        exists bn1, (m_of t2 n1), (infl_of es o t1 t2 n1), bn2, (S m2), infl2.
        split; [exact Ha1|]. split; [apply P2; [lia|exact Ha2]|].
        split; [unfold m_of; destruct (n1 <? t2)%nat; lia|]. split; [cbn [length]; lia|].
        split; [exact Hc1|]. split; [exact Hc2|]. split; [apply st_of_infl|]. split; [exact Hi2|].
        eapply ext_trans; [exact He|]. cbn [firstn]. change (spec_from es (o :: firstn m2 r)) with (spec_from (spec_step es o) (firstn m2 r)).
        eapply ext_trans; [apply ext_spec_from|apply ext_app].
      * (* both later *)
        destruct (C2 (n1 - length tr1)%nat (n2 - length tr1)%nat ltac:(lia))
          as [bn1 [m1 [infl1 [bn2 [m2 [infl2 [Ha1 [Ha2 [Hmm [Hm2 [Hc1 [Hc2 [Hi1 [Hi2 He]]]]]]]]]]]]]].
        exists bn1, (S m1), infl1, bn2, (S m2), infl2.
        split; [apply P2; [lia|exact Ha1]|]. split; [apply P2; [lia|exact Ha2]|].
        split; [lia|]. split; [cbn [length]; lia|].
        split; [exact Hc1|]. split; [exact Hc2|]. split; [exact Hi1|]. split; [exact Hi2|exact He].
Qed.

(* the header of a file that needs no second read: the interleaved reader is the atomic reader of the first file *)
Lemma il_first_only b1 b2 u : unpack_i (take pg b1) 0 = Ok u -> (u <= Z.of_N (len (take pg b1)))%Z ->
  read_all_from_file_il pg b1 b2 = read_all_from_file pg b1.
Proof.
  intros Hu Hle. unfold read_all_from_file, read_all_from_file_orig, read_all_from_file_il.
  destruct (len (take pg b1) =? 0); [reflexivity|]. rewrite Hu. cbn [bind].
  destruct (Z.of_N (len (take pg b1)) <? u)%Z eqn:E; [lia|reflexivity].
Qed.

Lemma il_empty b2 : read_all_from_file_il pg [] b2 = Ok [].
Proof. unfold read_all_from_file_il, take. rewrite firstn_nil. reflexivity. Qed.

Lemma il_zeros b2 : read_all_from_file_il pg (fill 0 isz) b2 = Ok [].
Proof.
  rewrite (il_first_only _ b2 0%Z).
  - apply (reader_zeros isz pg Hisz Hpg4).
  - rewrite (fill0_head isz pg Hisz Hpg4 isz) by lia.
    rewrite (take_app_plus [0;0;0;0] _ pg (pg - 4)) by (change (len [0;0;0;0]) with 4; lia).
    apply (unpack_le32 0). lia.
  - lia.
Qed.

(* the writer's whole trace, the reader's first read at cut n1 >= 1 and its second at cut n2 >= n1 *)
Lemma il_cuts ops tr : Forall wf_op ops -> 8 + total (spec ops) < 2147483648 ->
  trace isz ops = Ok tr ->
  forall n1 n2, (1 <= n1)%nat -> (n1 <= n2)%nat ->
  exists b1 b2 m1 infl1 m2 infl2,
    cut n1 tr = Ok (Some b1) /\ cut n2 tr = Ok (Some b2) /\
    (m1 <= m2)%nat /\ (m2 <= length ops)%nat /\
    inflight_ok [] (firstn m1 ops) (nth_error ops m1) infl1 /\
    inflight_ok [] (firstn m2 ops) (nth_error ops m2) infl2 /\
    read_all_from_file pg b1 = Ok (spec (firstn m1 ops) ++ infl1) /\
    read_all_from_file pg b2 = Ok (spec (firstn m2 ops) ++ infl2) /\
    (exists ks, map fst (spec (firstn m2 ops) ++ infl2) = map fst (spec (firstn m1 ops) ++ infl1) ++ ks) /\
    read_all_from_file_il pg b1 b2
    = Ok (mix (pg - 8) (spec (firstn m1 ops) ++ infl1)
              (firstn (length (spec (firstn m1 ops) ++ infl1)) (spec (firstn m2 ops) ++ infl2))).
Proof.
  intros Hwf Hb Htr n1 n2 H1 H12.
  destruct (cuts_spec isz pg Hisz Hpg4 ops tr Hwf Hb Htr n2 ltac:(lia))
    as [c2 [k2 [i2 [Hc2 [Hk2 [Hr2 [Hi2 _]]]]]]].
  destruct (run_from_cuts2 ops (b0 isz) (h0 isz) [] (Rep0 isz pg Hisz Hpg4) Hwf Hb) as [h' [tr2 [b' [Hrun C]]]].
  assert (Htr' : tr = start_trace isz ++ tr2).
  { assert (Hx : trace isz ops = Ok (start_trace isz ++ tr2)).
    { unfold trace, run. rewrite (start_spec isz pg Hisz Hpg4). cbn [bind fst snd].
      exact (f_equal (fun x => bind (bind x (fun t => Ok (fst (fst t), snd (fst t), start_trace isz ++ snd t)))
                                    (fun t => Ok (snd t))) Hrun). }
    rewrite Hx in Htr. injection Htr as <-. reflexivity. }
  assert (E1 : apply_effects None [Create] = Ok (Some [])) by reflexivity.
  assert (E2 : apply_effects None [Create; Truncate isz] = Ok (Some (fill 0 isz))).
  { change (apply_effects None [Create; Truncate isz]) with (do f1 <- apply_effect (Some []) (Truncate isz); Ok f1).
    rewrite (truncate_empty isz). reflexivity. }
  assert (E3 : apply_effects None (start_trace isz) = Ok (Some (b0 isz))).
  { pose proof (start_spec isz pg Hisz Hpg4) as S. unfold start in S. rewrite (open_none isz pg Hisz Hpg4) in S.
    cbn [bind fst snd] in S. unfold start_trace.
    destruct (apply_effects None [Create; Truncate isz; WriteSlice 0 (le32 8)]) as [f|]; cbn [bind] in S; [|discriminate].
    injection S as ->. reflexivity. }
  destruct n1 as [|[|[|n1]]]; [lia| | |].
  - (* first read on the created, not yet sized file *)
    exists [], c2, O, [], k2, i2. subst tr. unfold cut at 1. cbn [firstn start_trace app]. rewrite E1.
    split; [reflexivity|]. split; [exact Hc2|]. split; [lia|]. split; [exact Hk2|].
    split; [left; reflexivity|]. split; [exact Hi2|]. split; [apply reader_empty|]. split; [exact Hr2|].
    cbn [spec spec_from fold_left firstn app length map mix].
    split; [eexists; reflexivity|apply il_empty].
  - (* first read on the sized file without a header *)
    exists (fill 0 isz), c2, O, [], k2, i2. subst tr. unfold cut at 1. cbn [firstn start_trace app]. rewrite E2.
    split; [reflexivity|]. split; [exact Hc2|]. split; [lia|]. split; [exact Hk2|].
    split; [left; reflexivity|]. split; [exact Hi2|]. split; [apply (reader_zeros isz pg Hisz Hpg4)|]. split; [exact Hr2|].
    cbn [spec spec_from fold_left firstn app length map mix].
    split; [eexists; reflexivity|apply il_zeros].
  - destruct n2 as [|[|[|n2]]]; try lia.
    destruct (C n1 n2 ltac:(lia)) as [bn1 [m1 [infl1 [bn2 [m2 [infl2 [Ha1 [Ha2 [Hmm [Hm2 [[g1 R1] [[g2 R2] [Hi1 [Hj2 He]]]]]]]]]]]]]].
    exists bn1, bn2, m1, infl1, m2, infl2. subst tr. unfold cut.
    replace (firstn (S (S (S n1))) (start_trace isz ++ tr2)) with (start_trace isz ++ firstn n1 tr2) by reflexivity.
    replace (firstn (S (S (S n2))) (start_trace isz ++ tr2)) with (start_trace isz ++ firstn n2 tr2) by reflexivity.
    rewrite !apply_effects_app, E3. cbn [bind].
    split; [exact Ha1|]. split; [exact Ha2|]. split; [exact Hmm|]. split; [exact Hm2|].
    split; [exact Hi1|]. split; [exact Hj2|].
    split; [apply (rep_reads isz pg Hpg4 _ _ _ R1)|]. split; [apply (rep_reads isz pg Hpg4 _ _ _ R2)|].
    split; [exact He|].
    apply il_on_FR; [exact Hpg|apply (rep_file _ _ _ _ R1)|apply (Rep_good _ _ _ _ R1)|
                     apply (rep_file _ _ _ _ R2)|apply (Rep_good _ _ _ _ R2)|exact He].
Qed.

Lemma nth_error_firstn_some {A} : forall n (l : list A) i y, nth_error (firstn n l) i = Some y -> nth_error l i = Some y.
Proof.
  induction n as [|n IH]; intros l i y H; [destruct i; discriminate|].
  destruct l as [|a l]; [destruct i; discriminate|]. destruct i as [|i]; cbn [firstn nth_error] in *; [exact H|].
  apply IH. exact H.
Qed.

(* the same, entry by entry (block size 8-aligned): what the interleaved reader returns has exactly the keys of the
   state at its first read, in order, and every entry is the entry of that key in the state at the first read or in
   the state at the second read - or, for the single entry whose 16 value bytes straddle the block boundary, the
   value of the first with the timestamp of the second *)
Lemma il_entries ops tr : pg mod 8 = 0 -> Forall wf_op ops -> 8 + total (spec ops) < 2147483648 ->
  trace isz ops = Ok tr ->
  forall n1 n2, (1 <= n1)%nat -> (n1 <= n2)%nat ->
  exists b1 b2 m1 infl1 m2 infl2 l,
    cut n1 tr = Ok (Some b1) /\ cut n2 tr = Ok (Some b2) /\
    (m1 <= m2)%nat /\ (m2 <= length ops)%nat /\
    inflight_ok [] (firstn m1 ops) (nth_error ops m1) infl1 /\
    inflight_ok [] (firstn m2 ops) (nth_error ops m2) infl2 /\
    read_all_from_file pg b1 = Ok (spec (firstn m1 ops) ++ infl1) /\
    read_all_from_file pg b2 = Ok (spec (firstn m2 ops) ++ infl2) /\
    read_all_from_file_il pg b1 b2 = Ok l /\
    map fst l = map fst (spec (firstn m1 ops) ++ infl1) /\
    (forall i e, nth_error l i = Some e ->
       exists x y, nth_error (spec (firstn m1 ops) ++ infl1) i = Some x /\
                   nth_error (spec (firstn m2 ops) ++ infl2) i = Some y /\ fst x = fst y /\
                   (e = x \/ e = y \/ e = (fst x, (fst (snd x), snd (snd y))))) /\
    (8 + total (spec (firstn m1 ops) ++ infl1) <= pg -> l = spec (firstn m1 ops) ++ infl1) /\
    (firstn (length (spec (firstn m1 ops) ++ infl1)) (spec (firstn m2 ops) ++ infl2) = spec (firstn m1 ops) ++ infl1 ->
     l = spec (firstn m1 ops) ++ infl1).
Proof.
  intros Hal Hwf Hb Htr n1 n2 H1 H12.
  destruct (il_cuts ops tr Hwf Hb Htr n1 n2 H1 H12)
    as [b1 [b2 [m1 [infl1 [m2 [infl2 [Hc1 [Hc2 [Hmm [Hm2 [Hi1 [Hi2 [Hr1 [Hr2 [He Hil]]]]]]]]]]]]]]].
  set (s1 := spec (firstn m1 ops) ++ infl1) in *. set (s2 := spec (firstn m2 ops) ++ infl2) in *.
  destruct (firstn_keys s1 s2 He) as [Hkeys Hlen].
  (* both states are well formed: they are what a new writer's handle represents (C11_prefix) *)
  destruct (cuts_spec isz pg Hisz Hpg4 ops tr Hwf Hb Htr n1 H1)
    as [c1 [k1 [j1 [Hd1 [_ [Hq1 [_ [[g1 [t1 [d1 [_ [_ G1]]]]] _]]]]]]]].
  destruct (cuts_spec isz pg Hisz Hpg4 ops tr Hwf Hb Htr n2 ltac:(lia))
    as [c2 [k2 [j2 [Hd2 [_ [Hq2 [_ [[g2 [t2 [d2 [_ [_ G2]]]]] _]]]]]]]].
  rewrite Hc1 in Hd1. injection Hd1 as <-. rewrite Hc2 in Hd2. injection Hd2 as <-.
  rewrite Hr1 in Hq1. injection Hq1 as Hs1. rewrite Hr2 in Hq2. injection Hq2 as Hs2.
  fold s1 in Hs1. fold s2 in Hs2.
  assert (W1 : Forall wf_entry s1) by (rewrite Hs1; apply (rep_wf _ _ _ _ G1)).
  assert (W2 : Forall wf_entry s2) by (rewrite Hs2; apply (rep_wf _ _ _ _ G2)).
  assert (W2' : Forall wf_entry (firstn (length s1) s2)) by (apply Forall_firstn; exact W2).
  exists b1, b2, m1, infl1, m2, infl2, (mix (pg - 8) s1 (firstn (length s1) s2)).
  split; [exact Hc1|]. split; [exact Hc2|]. split; [exact Hmm|]. split; [exact Hm2|].
  split; [exact Hi1|]. split; [exact Hi2|]. split; [exact Hr1|]. split; [exact Hr2|]. split; [exact Hil|].
  split; [apply mix_keys; symmetry; exact Hkeys|]. split; [|split].
  - intros i e Hn.
    destruct (mix_entrywise s1 (firstn (length s1) s2) (pg - 8) i e (eq_sym Hkeys) W1 W2' ltac:(lia) Hn)
      as [x [y [Hx [Hy [Hf Hcase]]]]].
    exists x, y. split; [exact Hx|]. split; [apply (nth_error_firstn_some _ _ _ _ Hy)|]. split; [exact Hf|exact Hcase].
  - intros Hsmall. apply mix_small; [symmetry; exact Hkeys|lia].
  - intros Hsame. transitivity (mix (pg - 8) s1 s1); [f_equal; exact Hsame|apply mix_same; exact W1].
Qed.

End Il.
