(* Proofs about model/Registry.v (C06, C07). *)
From V Require Import lib.PyBase lib.Tac model.Registry model.RegistrySpec.
From Coq Require Import Permutation.
Ltac Zify.zify_post_hook ::= Z.to_euclidean_division_equations.
Open Scope N_scope.

(* the code-point constants of the model are the intended literals *)
Lemma str_constants_ok :
  TI_NAME = s2l "target_info" /\ S_total = s2l "_total" /\ S_created = s2l "_created" /\ S_sum = s2l "_sum"
  /\ S_count = s2l "_count" /\ S_bucket = s2l "_bucket" /\ S_gsum = s2l "_gsum" /\ S_gcount = s2l "_gcount"
  /\ S_info = s2l "_info" /\ S_target = s2l "target" /\ S_target_help = s2l "Target metadata".
Proof. repeat split. Qed.

(* ------------------------------------------------------------------------------------------------ *)
(* association lists with a decidable key equality                                                   *)
(* ------------------------------------------------------------------------------------------------ *)
Section AssocFacts.
  Context {K V : Type} (keq : K -> K -> bool).
  Hypothesis keq_eq : forall a b, keq a b = true <-> a = b.

  Lemma keq_refl a : keq a a = true.
  Proof. apply keq_eq; reflexivity. Qed.

  Lemma keq_neq a b : keq a b = false <-> a <> b.
  Proof.
    split; intro H.
    - intro E. apply keq_eq in E. congruence.
    - destruct (keq a b) eqn:E; [apply keq_eq in E; contradiction | reflexivity].
  Qed.

  Lemma d_find_some_in (d : assoc K V) k v : d_find keq d k = Some v -> In (k, v) d.
  Proof.
    induction d as [|[k' v'] d IH]; simpl; [discriminate|].
    destruct (keq k k') eqn:E.
    - intro H; inversion H; subst. apply keq_eq in E; subst. left; reflexivity.
    - intro H; right; auto.
  Qed.

  Lemma d_find_none_iff (d : assoc K V) k : d_find keq d k = None <-> ~ In k (map fst d).
  Proof.
    induction d as [|[k' v'] d IH]; simpl; [tauto|].
    destruct (keq k k') eqn:E.
    - apply keq_eq in E; subst. split; [discriminate|intro H; exfalso; apply H; left; reflexivity].
    - apply keq_neq in E. rewrite IH. split; intro H; [intros [H1|H1]; [congruence|tauto]|tauto].
  Qed.

  Lemma in_keys (d : assoc K V) k v : In (k, v) d -> In k (map fst d).
  Proof. intro H. apply (in_map fst) in H. exact H. Qed.

  Lemma in_find (d : assoc K V) k v : NoDup (map fst d) -> In (k, v) d -> d_find keq d k = Some v.
  Proof.
    induction d as [|[k' v'] d IH]; simpl; [tauto|].
    intros ND [H|H].
    - inversion H; subst. rewrite keq_refl. reflexivity.
    - inversion ND; subst. destruct (keq k k') eqn:E.
      + apply keq_eq in E; subst. exfalso. apply H2. eapply in_keys; eauto.
      + auto.
  Qed.

  Lemma in_find_iff (d : assoc K V) k v : NoDup (map fst d) -> (d_find keq d k = Some v <-> In (k, v) d).
  Proof. intro ND; split; [apply d_find_some_in | apply in_find; auto]. Qed.

  Lemma nodup_keys_fun (d : assoc K V) k v1 v2 : NoDup (map fst d) -> In (k, v1) d -> In (k, v2) d -> v1 = v2.
  Proof.
    intros ND H1 H2. apply (in_find _ _ _ ND) in H1. apply (in_find _ _ _ ND) in H2. congruence.
  Qed.

  Lemma d_mem_iff (d : assoc K V) k : d_mem keq d k = true <-> In k (map fst d).
  Proof.
    unfold d_mem. destruct (d_find keq d k) eqn:E.
    - split; [intros _|reflexivity]. apply d_find_some_in in E. eapply in_keys; eauto.
    - split; [discriminate|]. intro H. apply d_find_none_iff in E. contradiction.
  Qed.

  Lemma d_mem_false_iff (d : assoc K V) k : d_mem keq d k = false <-> ~ In k (map fst d).
  Proof.
    rewrite <- d_mem_iff. destruct (d_mem keq d k); intuition congruence.
  Qed.

  (* d_set *)
  Lemma d_set_fresh (d : assoc K V) k v : ~ In k (map fst d) -> d_set keq d k v = d ++ [(k, v)].
  Proof.
    induction d as [|[k' v'] d IH]; simpl; [reflexivity|].
    intro H. destruct (keq k k') eqn:E.
    - apply keq_eq in E; subst. exfalso; apply H; left; reflexivity.
    - rewrite IH; [reflexivity|tauto].
  Qed.

  Lemma d_set_keys (d : assoc K V) k v :
    map fst (d_set keq d k v) = if d_mem keq d k then map fst d else map fst d ++ [k].
  Proof.
    induction d as [|[k' v'] d IH]; simpl; [reflexivity|].
    unfold d_mem in *. simpl. destruct (keq k k') eqn:E; simpl.
    - reflexivity.
    - rewrite IH. destruct (d_find keq d k); reflexivity.
  Qed.

  Lemma nodup_snoc (l : list K) k : NoDup l -> ~ In k l -> NoDup (l ++ [k]).
  Proof.
    induction l as [|x l IH]; simpl; intros ND H.
    - constructor; [tauto|constructor].
    - inversion ND; subst. constructor.
      + rewrite in_app_iff. simpl. intros [H1|[H1|[]]]; [tauto|subst; tauto].
      + apply IH; tauto.
  Qed.

  Lemma d_set_nodup (d : assoc K V) k v : NoDup (map fst d) -> NoDup (map fst (d_set keq d k v)).
  Proof.
    intro ND. rewrite d_set_keys. destruct (d_mem keq d k) eqn:E; [exact ND|].
    apply nodup_snoc; [exact ND|]. apply d_mem_false_iff; exact E.
  Qed.

  Lemma d_set_in (d : assoc K V) k v k' v' : NoDup (map fst d) ->
    (In (k', v') (d_set keq d k v) <-> (k' = k /\ v' = v) \/ (k' <> k /\ In (k', v') d)).
  Proof.
    induction d as [|[k0 v0] d IH]; simpl; intro ND.
    - split; [intros [H|[]]; inversion H; subst; tauto | intros [[-> ->]|[_ []]]; left; reflexivity].
    - inversion ND; subst. destruct (keq k k0) eqn:E.
      + apply keq_eq in E; subst k0. simpl. split.
        * intros [H|H]; [inversion H; subst; tauto|].
          right. split; [|tauto]. intro; subst. apply H1. eapply in_keys; eauto.
        * intros [[-> ->]|[H3 [H|H]]]; [left; reflexivity|inversion H; congruence|tauto].
      + apply keq_neq in E. simpl. rewrite (IH H2). split.
        * intros [H|[H|[H H']]]; [inversion H; subst; right; split; [congruence|tauto]|tauto|tauto].
        * intros [[-> ->]|[H3 [H|H]]]; tauto.
  Qed.

  (* d_remove *)
  Lemma d_remove_in (d : assoc K V) k k' v' : NoDup (map fst d) ->
    (In (k', v') (d_remove keq d k) <-> k' <> k /\ In (k', v') d).
  Proof.
    induction d as [|[k0 v0] d IH]; simpl; intro ND; [tauto|].
    inversion ND; subst. destruct (keq k k0) eqn:E.
    - apply keq_eq in E; subst k0. split.
      + intro H. split; [|tauto]. intro; subst. apply H1. eapply in_keys; eauto.
      + intros [H3 [H|H]]; [inversion H; congruence|exact H].
    - apply keq_neq in E. simpl. rewrite (IH H2). split.
      + intros [H|[H H']]; [inversion H; subst; split; [congruence|tauto]|tauto].
      + intros [H3 [H|H]]; tauto.
  Qed.

  Lemma d_remove_keys (d : assoc K V) k : NoDup (map fst d) ->
    map fst (d_remove keq d k) = filter (fun x => negb (keq x k)) (map fst d).
  Proof.
    induction d as [|[k0 v0] d IH]; simpl; intro ND; [reflexivity|].
    inversion ND; subst. destruct (keq k k0) eqn:E.
    - apply keq_eq in E; subst k0. rewrite keq_refl. simpl.
      symmetry. clear IH ND H2. induction d as [|[k1 v1] d IH]; simpl; [reflexivity|].
      simpl in H1. destruct (keq k1 k) eqn:E1.
      + apply keq_eq in E1; subst; tauto.
      + simpl. f_equal. apply IH. tauto.
    - assert (E' : keq k0 k = false) by (apply keq_neq; apply keq_neq in E; congruence).
      rewrite E'. simpl. f_equal. apply IH; exact H2.
  Qed.

  Lemma d_remove_nodup (d : assoc K V) k : NoDup (map fst d) -> NoDup (map fst (d_remove keq d k)).
  Proof. intro ND. rewrite d_remove_keys by exact ND. apply NoDup_filter; exact ND. Qed.

  Lemma d_remove_absent (d : assoc K V) k : ~ In k (map fst d) -> d_remove keq d k = d.
  Proof.
    induction d as [|[k0 v0] d IH]; simpl; intro H; [reflexivity|].
    destruct (keq k k0) eqn:E.
    - apply keq_eq in E; subst; tauto.
    - f_equal. apply IH; tauto.
  Qed.
End AssocFacts.

Lemma N_eqb_iff a b : N.eqb a b = true <-> a = b.
Proof. apply N.eqb_eq. Qed.

Lemma nodup_app {A} (l1 l2 : list A) :
  NoDup l1 -> NoDup l2 -> (forall x, In x l1 -> ~ In x l2) -> NoDup (l1 ++ l2).
Proof.
  induction l1 as [|x l1 IH]; simpl; intros N1 N2 D; [exact N2|].
  inversion N1; subst. constructor.
  - rewrite in_app_iff. intros [H|H]; [tauto|]. apply (D x); auto.
  - apply IH; auto.
Qed.

(* ------------------------------------------------------------------------------------------------ *)
(* names                                                                                              *)
(* ------------------------------------------------------------------------------------------------ *)
Lemma dedup_in l y : In y (dedup l) <-> In y l.
Proof.
  induction l as [|x l IH]; simpl; [tauto|].
  rewrite filter_In, IH. split.
  - intros [H|[H _]]; auto.
  - intros [H|H]; [auto|].
    destruct (str_eqb y x) eqn:E; [apply str_eqb_eq in E; auto|right; auto].
Qed.

Lemma dedup_nodup l : NoDup (dedup l).
Proof.
  induction l as [|x l IH]; simpl; constructor.
  - rewrite filter_In. intros [_ H]. rewrite str_eqb_refl in H. discriminate.
  - apply NoDup_filter; exact IH.
Qed.

Lemma dedup_id l : NoDup l -> dedup l = l.
Proof.
  induction l as [|x l IH]; simpl; intro ND; [reflexivity|].
  inversion ND; subst. rewrite IH by assumption. f_equal.
  clear IH ND H2. induction l as [|y l IH]; simpl; [reflexivity|].
  simpl in H1. destruct (str_eqb y x) eqn:E.
  - apply str_eqb_eq in E; subst; tauto.
  - simpl. f_equal. apply IH; tauto.
Qed.

Lemma get_names_nodup a c : NoDup (get_names a c).
Proof. apply dedup_nodup. Qed.

Lemma get_names_in a c n : In n (get_names a c) <-> In n (get_names_orig a c).
Proof. apply dedup_in. Qed.

Lemma existsb_false_iff {A} (f : A -> bool) l : existsb f l = false <-> forall x, In x l -> f x = false.
Proof.
  induction l as [|y l IH]; simpl; [split; [intros _ x []|reflexivity]|].
  rewrite orb_false_iff, IH. split.
  - intros [H1 H2] x [->|H]; auto.
  - intro H. split; [apply H; auto|intros x Hx; apply H; auto].
Qed.

Lemma fold_set_fresh (v : owner) names : forall d, NoDup names ->
  (forall n, In n names -> ~ In n (map fst d)) ->
  fold_left (fun d n => d_set str_eqb d n v) names d = d ++ map (fun n => (n, v)) names.
Proof.
  induction names as [|a names IH]; simpl; intros d ND F; [rewrite app_nil_r; reflexivity|].
  inversion ND; subst.
  rewrite (d_set_fresh str_eqb str_eqb_eq) by (apply F; auto).
  rewrite IH; [rewrite <- app_assoc; reflexivity|assumption|].
  intros n Hn. rewrite map_app, in_app_iff. simpl. intros [H|[H|[]]].
  - apply (F n); auto.
  - subst; tauto.
Qed.

(* ------------------------------------------------------------------------------------------------ *)
(* the invariant                                                                                      *)
(* ------------------------------------------------------------------------------------------------ *)
Section RegFacts.
  Variable env : cid -> cbeh.
  Notation register := (register env).
  Notation step := (step env).
  Notation run := (run env).

  Local Ltac inv_destruct H :=
    destruct H as (Hnn & Hnc & Hc2n & Hn2c & Hti & Htio).

  Lemma Inv_empty a : Inv (empty_reg a).
  Proof.
    unfold RegistrySpec.Inv; simpl.
    split; [constructor|]. split; [constructor|]. split; [intros c ns []|]. split; [intros n c []|].
    split; [split; [intros []|intro H; exfalso; apply H; reflexivity]|intros n []].
  Qed.

  Lemma inv_find_c2n r c ns : Inv r -> (d_find N.eqb (c2n r) c = Some ns <-> In (c, ns) (c2n r)).
  Proof. intro H; inv_destruct H. apply (in_find_iff N.eqb N_eqb_iff); assumption. Qed.

  Lemma inv_find_n2c r n o : Inv r -> (d_find str_eqb (n2c r) n = Some o <-> In (n, o) (n2c r)).
  Proof. intro H; inv_destruct H. apply (in_find_iff str_eqb str_eqb_eq); assumption. Qed.

  Lemma inv_claims_iff r c n : Inv r -> (claims r c n <-> In (n, Coll c) (n2c r)).
  Proof.
    intro H; inv_destruct H. split.
    - intros (ns & H1 & H2). apply (Hc2n c ns H1); exact H2.
    - apply Hn2c.
  Qed.

  Lemma inv_occupied_iff r n : Inv r -> (occupied r n <-> In n (map fst (n2c r))).
  Proof.
    intro H. pose proof H as H'. inv_destruct H. split.
    - intros [[c Hc]|[-> Ht]].
      + apply (inv_claims_iff r c n H') in Hc. eapply in_keys; eauto.
      + apply Hti in Ht. eapply in_keys; eauto.
    - intro Hin. apply in_map_iff in Hin. destruct Hin as ([n' o] & E & Hin). simpl in E; subst n'.
      destruct o as [c|].
      + left. exists c. apply (inv_claims_iff r c n H'); exact Hin.
      + right. pose proof (Htio n Hin); subst. split; [reflexivity|]. apply Hti; exact Hin.
  Qed.

  (* the names recorded for c *)
  Lemma recorded_in r c n : Inv r -> (In n (recorded r c) <-> claims r c n).
  Proof.
    intro H. unfold recorded, claims. destruct (d_find N.eqb (c2n r) c) as [ns|] eqn:E.
    - apply (inv_find_c2n r c ns H) in E. split.
      + intro Hn. exists ns; auto.
      + intros (ns' & H1 & H2). inv_destruct H.
        pose proof (nodup_keys_fun N.eqb N_eqb_iff _ _ _ _ Hnc H1 E). subst; exact H2.
    - split; [intros []|]. intros (ns' & H1 & _).
      apply (d_find_none_iff N.eqb N_eqb_iff) in E. exfalso; apply E. eapply in_keys; eauto.
  Qed.

  Lemma recorded_nodup r c : Inv r -> NoDup (recorded r c).
  Proof.
    intro H. unfold recorded. destruct (d_find N.eqb (c2n r) c) as [ns|] eqn:E; [|constructor].
    apply (inv_find_c2n r c ns H) in E. inv_destruct H. apply (Hc2n c ns E).
  Qed.

  (* ---- register ---- *)
  Lemma register_fail_unchanged gn mg r c r' e :
    register_gen env gn mg r c = (r', Some e) -> r' = r /\ e = ValueError.
  Proof.
    unfold register_gen. destruct (existsb _ _); intro H; inversion H; auto.
  Qed.

  Lemma register_outcome r c :
    snd (register r c) = None <-> forall n, In n (get_names (auto r) (env c)) -> ~ In n (map fst (n2c r)).
  Proof.
    unfold Registry.register, register_gen.
    destruct (existsb _ _) eqn:E; simpl.
    - split; [discriminate|]. intro H. exfalso.
      apply existsb_exists in E. destruct E as (n & Hn & Hm).
      apply (d_mem_iff str_eqb str_eqb_eq) in Hm. apply (H n Hn Hm).
    - split; [intros _|reflexivity]. intros n Hn.
      rewrite existsb_false_iff in E. apply (d_mem_false_iff str_eqb str_eqb_eq). apply E; exact Hn.
  Qed.

  Lemma register_ok_shape r c :
    snd (register r c) = None ->
    fst (register r c) =
      mk_reg (d_set N.eqb (c2n r) c (recorded r c ++ get_names (auto r) (env c)))
             (n2c r ++ map (fun n => (n, Coll c)) (get_names (auto r) (env c))) (ti r) (auto r).
  Proof.
    intro H. pose proof (proj1 (register_outcome r c) H) as F.
    unfold Registry.register, register_gen in *.
    destruct (existsb _ _) eqn:E; simpl in *; [discriminate|].
    rewrite fold_set_fresh; [reflexivity|apply get_names_nodup|exact F].
  Qed.

  Lemma register_fail_fst r c : snd (register r c) <> None -> fst (register r c) = r.
  Proof.
    unfold Registry.register, register_gen. destruct (existsb _ _); simpl; [reflexivity|congruence].
  Qed.

  Lemma Inv_register r c : Inv r -> Inv (fst (register r c)).
  Proof.
    intro H. destruct (snd (register r c)) eqn:Eo.
    - rewrite register_fail_fst by congruence. exact H.
    - rewrite (register_ok_shape r c Eo).
      pose proof (proj1 (register_outcome r c) Eo) as F.
      pose proof (recorded_in r c) as Hrec. pose proof (recorded_nodup r c H) as NDold.
      pose proof H as H'. inv_destruct H.
      set (names := get_names (auto r) (env c)) in *.
      set (old := recorded r c) in *.
      assert (ND : NoDup names) by apply get_names_nodup.
      (* the names recorded earlier are in the map, the new ones are not *)
      assert (Hold : forall n, In n old -> In (n, Coll c) (n2c r)).
      { intros n Hn. apply (inv_claims_iff r c n H'). apply (Hrec n H'). exact Hn. }
      assert (NDall : NoDup (old ++ names)).
      { apply nodup_app; auto. intros x Hx Hx'. apply (F x Hx'). eapply in_keys. apply Hold; exact Hx. }
      unfold RegistrySpec.Inv; simpl. repeat split.
      + rewrite map_app, map_map. simpl. rewrite map_id. apply nodup_app; auto.
        intros x Hx Hx'. apply (F x Hx' Hx).
      + apply (d_set_nodup N.eqb N_eqb_iff); assumption.
      + apply (d_set_in N.eqb N_eqb_iff) in H; [|assumption].
        destruct H as [[-> ->]|[Hne Hin]]; [exact NDall|apply (Hc2n c0 ns Hin)].
      + intros n Hn. apply (d_set_in N.eqb N_eqb_iff) in H; [|assumption].
        rewrite in_app_iff.
        destruct H as [[-> ->]|[Hne Hin]].
        * apply in_app_iff in Hn. destruct Hn as [Hn|Hn]; [left; apply Hold; exact Hn|].
          right. apply in_map_iff. exists n; auto.
        * left. apply (Hc2n c0 ns Hin); exact Hn.
      + intros n c0 Hin. rewrite in_app_iff in Hin. destruct Hin as [Hin|Hin].
        * destruct (N.eq_dec c0 c) as [->|Hne].
          -- exists (old ++ names). split.
             ++ apply (d_set_in N.eqb N_eqb_iff); [assumption|]. left; auto.
             ++ apply in_app_iff. left. apply (Hrec n H'). apply (inv_claims_iff r c n H'). exact Hin.
          -- destruct (Hn2c n c0 Hin) as (ns & H1 & H2).
             exists ns. split; [|exact H2].
             apply (d_set_in N.eqb N_eqb_iff); [assumption|]. right. auto.
        * apply in_map_iff in Hin. destruct Hin as (n' & E & Hn'). inversion E; subst.
          exists (old ++ names). split; [|apply in_app_iff; right; exact Hn'].
          apply (d_set_in N.eqb N_eqb_iff); [assumption|]. left; auto.
      + intro Hin. apply Hti. rewrite in_app_iff in Hin. destruct Hin as [Hin|Hin]; [exact Hin|].
        apply in_map_iff in Hin. destruct Hin as (n' & E & _). discriminate.
      + intro Ht. rewrite in_app_iff. left. apply Hti; exact Ht.
      + intros n Hin. rewrite in_app_iff in Hin. destruct Hin as [Hin|Hin]; [apply Htio; exact Hin|].
        apply in_map_iff in Hin. destruct Hin as (n' & E & _). discriminate.
  Qed.

  (* ---- unregister ---- *)
  Lemma del_names_ok ns : forall d, NoDup (map fst d) -> NoDup ns -> (forall n, In n ns -> In n (map fst d)) ->
    exists d', del_names d ns = (d', true) /\ NoDup (map fst d') /\
               forall n o, In (n, o) d' <-> In (n, o) d /\ ~ In n ns.
  Proof.
    induction ns as [|a ns IH]; simpl; intros d NDd NDn Hall.
    - exists d. repeat split; tauto.
    - inversion NDn; subst.
      assert (Ha : d_mem str_eqb d a = true) by (apply (d_mem_iff str_eqb str_eqb_eq); apply Hall; auto).
      rewrite Ha.
      destruct (IH (d_remove str_eqb d a)) as (d' & E & ND' & Hd').
      + apply (d_remove_nodup str_eqb str_eqb_eq); assumption.
      + assumption.
      + intros n Hn. rewrite (d_remove_keys str_eqb str_eqb_eq) by assumption.
        apply filter_In. split; [apply Hall; auto|].
        apply negb_true_iff. apply str_eqb_neq. intro; subst; tauto.
      + exists d'. split; [exact E|]. split; [exact ND'|].
        intros n o. rewrite Hd'. rewrite (d_remove_in str_eqb str_eqb_eq) by assumption.
        split; [intros [[H3 H4] H5]; split; [exact H4|intros [H6|H6]; [congruence|tauto]]|].
        intros [H3 H4]. split; [split; [intro; subst; tauto|exact H3]|tauto].
  Qed.

  Lemma unregister_unregistered r c : ~ registered r c -> unregister r c = (r, Some KeyError).
  Proof.
    unfold registered, unregister. intro H.
    apply (d_find_none_iff N.eqb N_eqb_iff) in H. rewrite H. reflexivity.
  Qed.

  (* under the invariant unregister of a registered collector never stops half-way *)
  Lemma unregister_registered r c ns : Inv r -> In (c, ns) (c2n r) ->
    exists d', unregister r c = (mk_reg (d_remove N.eqb (c2n r) c) d' (ti r) (auto r), None)
      /\ NoDup (map fst d') /\ forall n o, In (n, o) d' <-> In (n, o) (n2c r) /\ ~ In n ns.
  Proof.
    intros H Hin. pose proof H as H'. inv_destruct H.
    unfold unregister. rewrite (proj2 (inv_find_c2n r c ns H') Hin).
    destruct (Hc2n c ns Hin) as (NDns & Hall).
    destruct (del_names_ok ns (n2c r) Hnn NDns) as (d' & E & ND' & Hd').
    - intros n Hn. eapply in_keys. apply Hall; exact Hn.
    - rewrite E. exists d'. auto.
  Qed.

  Lemma Inv_unregister r c : Inv r -> Inv (fst (unregister r c)).
  Proof.
    intro H.
    destruct (d_find N.eqb (c2n r) c) as [ns|] eqn:Ef.
    - apply (inv_find_c2n r c ns H) in Ef.
      destruct (unregister_registered r c ns H Ef) as (d' & E & ND' & Hd').
      rewrite E; simpl. pose proof H as H'. inv_destruct H.
      assert (Hrm : forall c' ns', In (c', ns') (d_remove N.eqb (c2n r) c) <-> c' <> c /\ In (c', ns') (c2n r))
        by (intros; apply (d_remove_in N.eqb N_eqb_iff); assumption).
      unfold RegistrySpec.Inv; simpl. repeat split.
      + exact ND'.
      + apply (d_remove_nodup N.eqb N_eqb_iff); assumption.
      + apply Hrm in H. apply (Hc2n c0 ns0); tauto.
      + intros n Hn. apply Hrm in H. destruct H as [Hne Hin].
        apply Hd'. split; [apply (Hc2n c0 ns0 Hin); exact Hn|].
        intro Hn'. apply Hne.
        pose proof (proj2 (Hc2n c0 ns0 Hin) n Hn) as O1.
        pose proof (proj2 (Hc2n c ns Ef) n Hn') as O2.
        pose proof (nodup_keys_fun str_eqb str_eqb_eq _ _ _ _ Hnn O1 O2) as E2. congruence.
      + intros n c0 Hin. apply Hd' in Hin. destruct Hin as [Hin Hnot].
        destruct (Hn2c n c0 Hin) as (ns0 & H1 & H2). exists ns0. split; [|exact H2].
        apply Hrm. split; [|exact H1]. intro; subst c0.
        pose proof (nodup_keys_fun N.eqb N_eqb_iff _ _ _ _ Hnc H1 Ef); subst. tauto.
      + intro Hin. apply Hd' in Hin. apply Hti; tauto.
      + intro Ht. apply Hd'. split; [apply Hti; exact Ht|].
        intro Hn. pose proof (proj2 (Hc2n c ns Ef) _ Hn) as O2.
        apply Hti in Ht. pose proof (nodup_keys_fun str_eqb str_eqb_eq _ _ _ _ Hnn O2 Ht). discriminate.
      + intros n Hin. apply Hd' in Hin. apply Htio; tauto.
    - unfold unregister. rewrite Ef. exact H.
  Qed.

  (* ---- set_target_info ---- *)
  Lemma nonempty_false {A} (l : list A) : nonempty l = false <-> l = [].
  Proof. destruct l; simpl; split; congruence. Qed.

  Lemma nonempty_true {A} (l : list A) : nonempty l = true <-> l <> [].
  Proof. destruct l; simpl; split; congruence. Qed.

  Lemma set_target_info_fail_unchanged r l r' e :
    set_target_info r l = (r', Some e) -> r' = r /\ e = ValueError.
  Proof.
    unfold set_target_info. destruct (nonempty l); [|intro H; inversion H].
    destruct (_ && _); intro H; inversion H; auto.
  Qed.

  Lemma Inv_set_target_info r l : Inv r -> Inv (fst (set_target_info r l)).
  Proof.
    intro H. pose proof H as H'. inv_destruct H.
    unfold set_target_info. destruct (nonempty l) eqn:El.
    - destruct (negb (nonempty (ti r)) && d_mem str_eqb (n2c r) TI_NAME) eqn:Eg; simpl; [exact H'|].
      apply nonempty_true in El.
      assert (Hset : forall n o, In (n, o) (d_set str_eqb (n2c r) TI_NAME TargetInfo)
                <-> (n = TI_NAME /\ o = TargetInfo) \/ (n <> TI_NAME /\ In (n, o) (n2c r)))
        by (intros; apply (d_set_in str_eqb str_eqb_eq); assumption).
      (* no collector owns target_info *)
      assert (Hfree : forall c, ~ In (TI_NAME, Coll c) (n2c r)).
      { intros c Hin. apply andb_false_iff in Eg. destruct Eg as [Eg|Eg].
        - apply negb_false_iff, nonempty_true, Hti in Eg.
          pose proof (nodup_keys_fun str_eqb str_eqb_eq _ _ _ _ Hnn Hin Eg). discriminate.
        - apply (d_mem_false_iff str_eqb str_eqb_eq) in Eg. apply Eg. eapply in_keys; eauto. }
      unfold RegistrySpec.Inv; simpl. repeat split.
      + apply (d_set_nodup str_eqb str_eqb_eq); assumption.
      + assumption.
      + apply (Hc2n c ns H).
      + intros n Hn. apply Hset. right.
        pose proof (proj2 (Hc2n c ns H) n Hn) as O. split; [|exact O].
        intro; subst. exact (Hfree c O).
      + intros n c Hin. apply Hset in Hin. destruct Hin as [[_ E]|[_ Hin]]; [discriminate|]. apply Hn2c; exact Hin.
      + intros _. exact El.
      + intros _. apply Hset. left; auto.
      + intros n Hin. apply Hset in Hin. destruct Hin as [[E _]|[_ Hin]]; [exact E|apply Htio; exact Hin].
    - apply nonempty_false in El; subst l. simpl.
      destruct (nonempty (ti r)) eqn:Et.
      + apply nonempty_true in Et. pose proof (proj2 Hti Et) as Hown.
        assert (Hrm : forall n o, In (n, o) (d_remove str_eqb (n2c r) TI_NAME) <-> n <> TI_NAME /\ In (n, o) (n2c r))
          by (intros; apply (d_remove_in str_eqb str_eqb_eq); assumption).
        unfold RegistrySpec.Inv; simpl. repeat split.
        * apply (d_remove_nodup str_eqb str_eqb_eq); assumption.
        * assumption.
        * apply (Hc2n c ns H).
        * intros n Hn. apply Hrm. pose proof (proj2 (Hc2n c ns H) n Hn) as O. split; [|exact O].
          intro; subst. pose proof (nodup_keys_fun str_eqb str_eqb_eq _ _ _ _ Hnn O Hown). discriminate.
        * intros n c Hin. apply Hrm in Hin. apply Hn2c; tauto.
        * intro Hin. apply Hrm in Hin. tauto.
        * intro Hne; congruence.
        * intros n Hin. apply Hrm in Hin. apply Htio; tauto.
      + apply nonempty_false in Et.
        unfold RegistrySpec.Inv; simpl. repeat split; try assumption.
        * apply (Hc2n c ns H).
        * apply (Hc2n c ns H).
        * intro Hin. apply Hti in Hin. congruence.
        * intro Hne; congruence.
  Qed.

  Lemma Inv_step r o : Inv r -> Inv (fst (step r o)).
  Proof.
    destruct o; simpl; [apply Inv_register|apply Inv_unregister|apply Inv_set_target_info|auto].
  Qed.

  Lemma Inv_run ops : forall r, Inv r -> Inv (run r ops).
  Proof.
    induction ops as [|o ops IH]; simpl; intros r H; [exact H|].
    apply IH. apply Inv_step; exact H.
  Qed.

  Lemma Inv_reachable a ops : Inv (run (empty_reg a) ops).
  Proof. apply Inv_run, Inv_empty. Qed.

  (* ------------------------------------------------------------------------------------------------ *)
  (* C06                                                                                               *)
  (* ------------------------------------------------------------------------------------------------ *)
  Lemma no_clash r c1 c2 n : Inv r -> claims r c1 n -> claims r c2 n -> c1 = c2.
  Proof.
    intros H H1 H2. apply (inv_claims_iff r c1 n H) in H1. apply (inv_claims_iff r c2 n H) in H2.
    inv_destruct H. pose proof (nodup_keys_fun str_eqb str_eqb_eq _ _ _ _ Hnn H1 H2). congruence.
  Qed.

  Lemma no_clash_target_info r c : Inv r -> ti r <> [] -> ~ claims r c TI_NAME.
  Proof.
    intros H Ht Hc. apply (inv_claims_iff r c _ H) in Hc. inv_destruct H. apply Hti in Ht.
    pose proof (nodup_keys_fun str_eqb str_eqb_eq _ _ _ _ Hnn Hc Ht). discriminate.
  Qed.

  Lemma claims_are_described r c n : InvS env r -> registered r c ->
    (claims r c n <-> In n (names_of_desc (described (auto r) (env c)))).
  Proof.
    intros [H Hs] Hr. pose proof H as H'. inv_destruct H.
    unfold registered in Hr. apply in_map_iff in Hr. destruct Hr as ([c' ns] & E & Hin). simpl in E; subst c'.
    pose proof (Hs c ns Hin) as Ens.
    rewrite <- (get_names_in (auto r) (env c) n). fold (get_names (auto r) (env c)). rewrite <- Ens.
    split.
    - intros (ns' & H1 & H2). pose proof (nodup_keys_fun N.eqb N_eqb_iff _ _ _ _ Hnc H1 Hin). subst; exact H2.
    - intro Hn. exists ns; auto.
  Qed.

  Lemma register_succeeds_iff r c : Inv r ->
    (snd (register r c) = None <->
     forall n, In n (names_of_desc (described (auto r) (env c))) -> ~ occupied r n).
  Proof.
    intro H. rewrite register_outcome. split; intros F n Hn.
    - rewrite (inv_occupied_iff r n H). apply F. apply get_names_in. exact Hn.
    - rewrite <- (inv_occupied_iff r n H). apply F. apply get_names_in. exact Hn.
  Qed.

  Lemma register_effect r c : Inv r -> snd (register r c) = None ->
    (forall c' n, claims (fst (register r c)) c' n <->
                  claims r c' n \/ (c' = c /\ In n (names_of_desc (described (auto r) (env c)))))
    /\ registered (fst (register r c)) c
    /\ ti (fst (register r c)) = ti r /\ auto (fst (register r c)) = auto r.
  Proof.
    intros H Eo. pose proof (recorded_in r c) as Hrec.
    rewrite (register_ok_shape r c Eo). pose proof H as H'. inv_destruct H.
    set (names := get_names (auto r) (env c)) in *.
    set (old := recorded r c) in *.
    simpl. split; [|split; [|split; reflexivity]].
    - intros c' n. unfold claims at 1; simpl. split.
      + intros (ns & H1 & H2). apply (d_set_in N.eqb N_eqb_iff) in H1; [|assumption].
        destruct H1 as [[-> ->]|[Hne Hin]].
        * apply in_app_iff in H2. destruct H2 as [H2|H2].
          -- left. apply (Hrec n H'). exact H2.
          -- right. split; [reflexivity|]. apply get_names_in; exact H2.
        * left. exists ns; auto.
      + intros [Hc|[-> Hn]].
        * destruct (N.eq_dec c' c) as [->|Hne].
          -- exists (old ++ names). split; [|apply in_app_iff; left; apply (Hrec n H'); exact Hc].
             apply (d_set_in N.eqb N_eqb_iff); [assumption|]. left; auto.
          -- destruct Hc as (ns & H1 & H2). exists ns. split; [|exact H2].
             apply (d_set_in N.eqb N_eqb_iff); [assumption|]. right; auto.
        * exists (old ++ names). split; [|apply in_app_iff; right; apply get_names_in; exact Hn].
          apply (d_set_in N.eqb N_eqb_iff); [assumption|]. left; auto.
    - unfold registered; simpl. rewrite (d_set_keys N.eqb).
      destruct (d_mem N.eqb (c2n r) c) eqn:E.
      + apply (d_mem_iff N.eqb N_eqb_iff); exact E.
      + rewrite in_app_iff; right; left; reflexivity.
  Qed.

  Lemma set_target_info_succeeds_iff r l : Inv r -> l <> [] ->
    (snd (set_target_info r l) = None <-> ti r <> [] \/ ~ exists c, claims r c TI_NAME).
  Proof.
    intros H Hl. unfold set_target_info. rewrite (proj2 (nonempty_true l) Hl).
    destruct (nonempty (ti r)) eqn:Et; simpl.
    - apply nonempty_true in Et. split; [intros _; left; exact Et|reflexivity].
    - apply nonempty_false in Et.
      destruct (d_mem str_eqb (n2c r) TI_NAME) eqn:Em; simpl.
      + split; [discriminate|]. intros [Hne|Hno]; [congruence|]. exfalso. apply Hno.
        apply (d_mem_iff str_eqb str_eqb_eq) in Em. apply (inv_occupied_iff r _ H) in Em.
        destruct Em as [Hc|[_ Hne]]; [exact Hc|congruence].
      + split; [intros _|reflexivity]. right. intros (c & Hc).
        apply (d_mem_false_iff str_eqb str_eqb_eq) in Em. apply Em.
        apply (inv_occupied_iff r _ H). left; exists c; exact Hc.
  Qed.

  Lemma set_target_info_effect r l : snd (set_target_info r l) = None ->
    ti (fst (set_target_info r l)) = l /\ c2n (fst (set_target_info r l)) = c2n r
    /\ auto (fst (set_target_info r l)) = auto r.
  Proof.
    unfold set_target_info. destruct (nonempty l); [|simpl; auto].
    destruct (_ && _); simpl; [discriminate|auto].
  Qed.

  Lemma set_target_info_clear r : snd (set_target_info r []) = None.
  Proof. reflexivity. Qed.

  Lemma unregister_releases_exactly r c ns : Inv r -> In (c, ns) (c2n r) ->
    snd (unregister r c) = None
    /\ ~ registered (fst (unregister r c)) c
    /\ (forall c' n, claims (fst (unregister r c)) c' n <-> c' <> c /\ claims r c' n)
    /\ (forall n, occupied (fst (unregister r c)) n <-> occupied r n /\ ~ In n ns)
    /\ ti (fst (unregister r c)) = ti r /\ auto (fst (unregister r c)) = auto r.
  Proof.
    intros H Hin. pose proof (Inv_unregister r c H) as Hinv'.
    destruct (unregister_registered r c ns H Hin) as (d' & E & ND' & Hd').
    rewrite E in *. simpl in *. pose proof H as H'. inv_destruct H.
    assert (Hrm : forall c' ns', In (c', ns') (d_remove N.eqb (c2n r) c) <-> c' <> c /\ In (c', ns') (c2n r))
      by (intros; apply (d_remove_in N.eqb N_eqb_iff); assumption).
    split; [reflexivity|]. split; [|split; [|split; [|split; reflexivity]]].
    - unfold registered; simpl. intro Hr. apply in_map_iff in Hr. destruct Hr as ([c' ns'] & Ec & Hr).
      simpl in Ec; subst c'. apply Hrm in Hr. tauto.
    - intros c' n. unfold claims; simpl. split.
      + intros (ns' & H1 & H2). apply Hrm in H1. split; [tauto|exists ns'; tauto].
      + intros (Hne & ns' & H1 & H2). exists ns'. split; [apply Hrm; tauto|exact H2].
    - intro n. rewrite (inv_occupied_iff _ n Hinv'), (inv_occupied_iff r n H'). simpl. split.
      + intro Hk. apply in_map_iff in Hk. destruct Hk as ([n' o] & En & Hk). simpl in En; subst n'.
        apply Hd' in Hk. split; [eapply in_keys; apply Hk|tauto].
      + intros [Hk Hnot]. apply in_map_iff in Hk. destruct Hk as ([n' o] & En & Hk). simpl in En; subst n'.
        eapply in_keys. apply Hd'. split; eauto.
  Qed.

  Lemma blocked_registers_after_unregister r c d : Inv r -> registered r c ->
    (forall n, In n (names_of_desc (described (auto r) (env d))) -> occupied r n -> claims r c n) ->
    snd (register (fst (unregister r c)) d) = None.
  Proof.
    intros H Hr Hb. pose proof (Inv_unregister r c H) as Hinv'.
    unfold registered in Hr. apply in_map_iff in Hr. destruct Hr as ([c' ns] & E & Hin). simpl in E; subst c'.
    destruct (unregister_releases_exactly r c ns H Hin) as (_ & _ & _ & Hocc & _ & Ha).
    apply (register_succeeds_iff _ d Hinv'). rewrite Ha. intros n Hn Ho.
    apply Hocc in Ho. destruct Ho as [Ho Hnot]. apply Hnot.
    destruct (Hb n Hn Ho) as (ns' & H1 & H2).
    inv_destruct H. pose proof (nodup_keys_fun N.eqb N_eqb_iff _ _ _ _ Hnc H1 Hin). subst; exact H2.
  Qed.

  Lemma reregister_after_unregister r c : InvS env r -> registered r c ->
    snd (register (fst (unregister r c)) c) = None.
  Proof.
    intros Hs Hr. pose proof (proj1 Hs) as H. apply blocked_registers_after_unregister; auto.
    intros n Hn _. apply (claims_are_described r c n Hs Hr). exact Hn.
  Qed.

  (* ---- while no collector changes, the recorded names stay the described ones ---- *)
  Lemma InvS_step r o : InvS env r -> InvS env (fst (step r o)).
  Proof.
    intros [H Hs]. split; [apply Inv_step; exact H|].
    destruct o as [c|c|l|]; simpl; [| | |exact Hs].
    - fold (register r c). destruct (snd (register r c)) eqn:Eo.
      + rewrite register_fail_fst by congruence. exact Hs.
      + pose proof (proj1 (register_outcome r c) Eo) as F.
        pose proof (recorded_in r c) as Hrec.
        rewrite (register_ok_shape r c Eo). simpl. pose proof H as H'. inv_destruct H.
        intros c' ns' Hin. apply (d_set_in N.eqb N_eqb_iff) in Hin; [|assumption].
        destruct Hin as [[-> ->]|[Hne Hin]]; [|apply Hs; exact Hin].
        (* names recorded earlier would be both described now and in the map: there are none *)
        assert (E : recorded r c = []).
        { destruct (recorded r c) as [|n l] eqn:El; [reflexivity|exfalso].
          pose proof (proj1 (Hrec n H') (or_introl eq_refl)) as Hc. destruct Hc as (ns & H1 & H2).
          pose proof (Hs c ns H1) as Ens. subst ns.
          apply (F n H2). eapply in_keys. apply (Hc2n c _ H1). exact H2. }
        rewrite E. reflexivity.
    - destruct (d_find N.eqb (c2n r) c) as [ns|] eqn:Ef.
      + apply (inv_find_c2n r c ns H) in Ef.
        destruct (unregister_registered r c ns H Ef) as (d' & E & _). rewrite E; simpl.
        intros c' ns' Hin. inv_destruct H. apply (d_remove_in N.eqb N_eqb_iff) in Hin; [|assumption].
        apply Hs; tauto.
      + unfold unregister. rewrite Ef. exact Hs.
    - unfold set_target_info. destruct (nonempty l); [destruct (_ && _)|]; simpl; exact Hs.
  Qed.

  Lemma InvS_run ops : forall r, InvS env r -> InvS env (run r ops).
  Proof.
    induction ops as [|o ops IH]; simpl; intros r H; [exact H|].
    apply IH. apply InvS_step; exact H.
  Qed.

  Lemma InvS_reachable a ops : InvS env (run (empty_reg a) ops).
  Proof. apply InvS_run. split; [apply Inv_empty|intros c ns []]. Qed.

  (* ------------------------------------------------------------------------------------------------ *)
  (* C07: collect                                                                                      *)
  (* ------------------------------------------------------------------------------------------------ *)
  Lemma flat_map_fst {A B C} (f : A -> list C) (l : list (A * B)) :
    flat_map (fun p => f (fst p)) l = flat_map f (map fst l).
  Proof. induction l as [|x l IH]; simpl; [reflexivity|rewrite IH; reflexivity]. Qed.

  Lemma ti_family_target r : ti_family r = target_family (ti r).
  Proof. unfold ti_family, target_family. destruct (ti r); reflexivity. Qed.

  Lemma collect_keys r :
    collect env r = target_family (ti r) ++ flat_map (fun c => c_fams (env c)) (map fst (c2n r)).
  Proof. unfold collect. rewrite ti_family_target, <- (flat_map_fst (fun c => c_fams (env c))). reflexivity. Qed.

  Lemma existsb_keys {V} (d : assoc cid V) c : existsb (N.eqb c) (map fst d) = d_mem N.eqb d c.
  Proof.
    unfold d_mem. induction d as [|[k v] d IH]; simpl; [reflexivity|].
    destruct (N.eqb c k); simpl; [reflexivity|exact IH].
  Qed.

  Lemma keys_step r o : Inv r ->
    map fst (c2n (fst (step r o))) = spec_step (map fst (c2n r)) o (snd (step r o)).
  Proof.
    intro H. destruct o as [c|c|l|]; simpl; [| | |reflexivity].
    - fold (register r c). destruct (snd (register r c)) eqn:Eo.
      + rewrite register_fail_fst by congruence. reflexivity.
      + rewrite (register_ok_shape r c Eo). simpl. rewrite (d_set_keys N.eqb), existsb_keys. reflexivity.
    - destruct (d_find N.eqb (c2n r) c) as [ns|] eqn:Ef.
      + apply (inv_find_c2n r c ns H) in Ef.
        destruct (unregister_registered r c ns H Ef) as (d' & E & _). rewrite E; simpl.
        inv_destruct H. apply (d_remove_keys N.eqb N_eqb_iff); assumption.
      + unfold unregister. rewrite Ef. reflexivity.
    - unfold set_target_info. destruct (nonempty l); [destruct (_ && _)|]; reflexivity.
  Qed.

  Lemma ti_step r o : ti (fst (step r o)) = spec_ti (ti r) o (snd (step r o)).
  Proof.
    destruct o as [c|c|l|]; simpl; [| | |reflexivity].
    - unfold register_gen. destruct (existsb _ _); reflexivity.
    - unfold unregister. destruct (d_find _ _ _); [|reflexivity].
      destruct (del_names _ _) as [d' ok]. destruct ok; reflexivity.
    - unfold set_target_info. destruct (nonempty l) eqn:El; [destruct (_ && _)|]; reflexivity.
  Qed.

  (* ------------------------------------------------------------------------------------------------ *)
  (* C07: restricted registry                                                                          *)
  (* ------------------------------------------------------------------------------------------------ *)
  Lemma add_cid_in c c' l : In c' (add_cid c l) <-> c' = c \/ In c' l.
  Proof.
    unfold add_cid. destruct (existsb (N.eqb c) l) eqn:E.
    - split; [auto|]. intros [->|H]; [|exact H].
      apply existsb_exists in E. destruct E as (x & Hx & Ex). apply N.eqb_eq in Ex; subst; exact Hx.
    - rewrite in_app_iff. simpl. split; [intros [H|[H|[]]]; auto|intros [H|H]; auto].
  Qed.

  Lemma add_cid_nodup c l : NoDup l -> NoDup (add_cid c l).
  Proof.
    unfold add_cid. intro ND. destruct (existsb (N.eqb c) l) eqn:E; [exact ND|].
    apply nodup_snoc; [exact ND|]. intro Hin. rewrite existsb_false_iff in E.
    specialize (E c Hin). rewrite N.eqb_refl in E. discriminate.
  Qed.

  Lemma select_gen_spec skip r ns : forall acc, NoDup acc ->
    NoDup (fold_left (fun acc n =>
             if skip && str_eqb n TI_NAME then acc
             else match d_find str_eqb (n2c r) n with Some (Coll c) => add_cid c acc | _ => acc end) ns acc)
    /\ forall c, In c (fold_left (fun acc n =>
             if skip && str_eqb n TI_NAME then acc
             else match d_find str_eqb (n2c r) n with Some (Coll c) => add_cid c acc | _ => acc end) ns acc)
         <-> In c acc \/ exists n, In n ns /\ skip && str_eqb n TI_NAME = false
                                   /\ d_find str_eqb (n2c r) n = Some (Coll c).
  Proof.
    induction ns as [|a ns IH]; simpl; intros acc ND.
    - split; [exact ND|]. intro c. split; [auto|intros [H|(n & [] & _)]; exact H].
    - destruct (skip && str_eqb a TI_NAME) eqn:Es.
      + destruct (IH acc ND) as [I1 I2]. split; [exact I1|]. intro c. rewrite I2. split.
        * intros [H|(n & H1 & H2)]; [auto|right; exists n; tauto].
        * intros [H|(n & [->|H1] & H2 & H3)]; [auto|congruence|right; exists n; tauto].
      + destruct (d_find str_eqb (n2c r) a) as [[c0|]|] eqn:Ef.
        * destruct (IH (add_cid c0 acc) (add_cid_nodup c0 acc ND)) as [I1 I2]. split; [exact I1|].
          intro c. rewrite I2, add_cid_in. split.
          -- intros [[->|H]|(n & H1 & H2)]; [right; exists a; auto|auto|right; exists n; tauto].
          -- intros [H|(n & [->|H1] & H2 & H3)]; [auto| |right; exists n; tauto].
             left; left. congruence.
        * destruct (IH acc ND) as [I1 I2]. split; [exact I1|]. intro c. rewrite I2. split.
          -- intros [H|(n & H1 & H2)]; [auto|right; exists n; tauto].
          -- intros [H|(n & [->|H1] & H2 & H3)]; [auto|congruence|right; exists n; tauto].
        * destruct (IH acc ND) as [I1 I2]. split; [exact I1|]. intro c. rewrite I2. split.
          -- intros [H|(n & H1 & H2)]; [auto|right; exists n; tauto].
          -- intros [H|(n & [->|H1] & H2 & H3)]; [auto|congruence|right; exists n; tauto].
  Qed.

  Lemma select_spec r ns : Inv r ->
    NoDup (select r ns) /\ forall c, In c (select r ns) <-> exists n, In n ns /\ claims r c n.
  Proof.
    intro H. unfold select, select_gen.
    destruct (select_gen_spec false r ns [] (NoDup_nil _)) as [I1 I2]. split; [exact I1|].
    intro c. rewrite I2. simpl. split.
    - intros [[]|(n & H1 & _ & H3)]. exists n. split; [exact H1|].
      apply (inv_claims_iff r c n H). apply (inv_find_n2c r n _ H). exact H3.
    - intros (n & H1 & H2). right. exists n. split; [exact H1|]. split; [reflexivity|].
      apply (inv_find_n2c r n _ H). apply (inv_claims_iff r c n H). exact H2.
  Qed.

  Lemma restricted_metric_filtered ns f : opt_list (restricted_metric ns f) = filtered ns f.
  Proof.
    unfold restricted_metric, restricted_metric_gen, filtered, keep.
    destruct (filter _ (f_samples f)); reflexivity.
  Qed.

  Lemma restricted_metric_spec ns f f' : restricted_metric ns f = Some f' ->
    f_name f' = f_name f /\ f_typ f' = f_typ f /\ f_help f' = f_help f /\ f_unit f' = f_unit f
    /\ f_samples f' = filter (keep ns) (f_samples f) /\ f_samples f' <> [].
  Proof.
    unfold restricted_metric, restricted_metric_gen, keep.
    destruct (filter _ (f_samples f)) eqn:E; [discriminate|].
    intro H; inversion H; subst; simpl. repeat split; congruence.
  Qed.

  Lemma restricted_metric_none ns f : restricted_metric ns f = None <-> filter (keep ns) (f_samples f) = [].
  Proof.
    unfold restricted_metric, restricted_metric_gen, keep.
    destruct (filter _ (f_samples f)); split; congruence.
  Qed.

  Lemma flat_map_flat_map {A B C} (f : A -> list B) (g : B -> list C) l :
    flat_map g (flat_map f l) = flat_map (fun x => flat_map g (f x)) l.
  Proof. induction l as [|x l IH]; simpl; [reflexivity|rewrite flat_map_app, IH; reflexivity]. Qed.

  Lemma flat_map_filter_nil {A B} (G : A -> list B) (p : A -> bool) l :
    (forall x, In x l -> p x = false -> G x = []) -> flat_map G l = flat_map G (filter p l).
  Proof.
    induction l as [|x l IH]; simpl; intro H; [reflexivity|].
    destruct (p x) eqn:E; simpl.
    - rewrite IH; [reflexivity|intros; apply H; auto].
    - rewrite (H x (or_introl eq_refl) E). simpl. apply IH. intros; apply H; auto.
  Qed.

  Lemma flat_map_nil {A B} (G : A -> list B) l : (forall x, In x l -> G x = []) -> flat_map G l = [].
  Proof.
    induction l as [|x l IH]; simpl; intro H; [reflexivity|].
    rewrite (H x (or_introl eq_refl)), IH; [reflexivity|intros; apply H; auto].
  Qed.

  Lemma restricted_target_part r ns :
    (if mem_str TI_NAME ns then ti_family r else []) = filter_collection ns (target_family (ti r)).
  Proof.
    rewrite ti_family_target. unfold filter_collection, target_family.
    destruct (ti r) as [|p l]; simpl; [destruct (mem_str TI_NAME ns); reflexivity|].
    unfold filtered, keep; simpl. destruct (mem_str TI_NAME ns); reflexivity.
  Qed.

  Lemma restricted_called r ns : fst (restricted env r ns) = select r ns.
  Proof. reflexivity. Qed.

  Lemma restricted_is_filter r ns : Inv r -> (forall c, registered r c -> well_described env r c) ->
    Permutation (snd (restricted env r ns)) (filter_collection ns (collect env r)).
  Proof.
    intros H Hwd. unfold restricted, restricted_gen. simpl snd. fold (select r ns).
    rewrite collect_keys. unfold filter_collection at 1. rewrite flat_map_app.
    fold (filter_collection ns (target_family (ti r))). rewrite <- restricted_target_part.
    apply Permutation_app_head.
    rewrite flat_map_flat_map.
    set (G := fun c => flat_map (filtered ns) (c_fams (env c))).
    rewrite (flat_map_ext _ G)
      by (intro c; unfold G; apply flat_map_ext; intro f; apply restricted_metric_filtered).
    destruct (select_spec r ns H) as [NDs Hs].
    set (keys := map fst (c2n r)).
    rewrite (flat_map_filter_nil G (fun c => existsb (N.eqb c) (select r ns)) keys).
    - apply Permutation_flat_map.
      apply NoDup_Permutation; [exact NDs| |].
      + apply NoDup_filter. pose proof H as H'. inv_destruct H'. assumption.
      + intro c. rewrite filter_In. split.
        * intro Hc. split.
          -- apply Hs in Hc. destruct Hc as (n & _ & ns' & Hin & _). eapply in_keys; eauto.
          -- apply existsb_exists. exists c. split; [exact Hc|apply N.eqb_refl].
        * intros [_ Hc]. apply existsb_exists in Hc. destruct Hc as (x & Hx & Ex).
          apply N.eqb_eq in Ex; subst; exact Hx.
    - intros c Hc Hnot. unfold G. apply flat_map_nil. intros f Hf.
      unfold filtered. replace (filter (keep ns) (f_samples f)) with (@nil sample); [reflexivity|].
      symmetry. destruct (filter (keep ns) (f_samples f)) as [|s ss] eqn:Ef; [reflexivity|exfalso].
      assert (Hs' : In s (filter (keep ns) (f_samples f))) by (rewrite Ef; left; reflexivity).
      apply filter_In in Hs'. destruct Hs' as [Hin Hk]. unfold keep in Hk. apply mem_str_In in Hk.
      pose proof (Hwd c Hc f s Hf Hin) as Hcl.
      rewrite existsb_false_iff in Hnot.
      assert (Hsel : In c (select r ns)) by (apply Hs; exists (s_name s); auto).
      specialize (Hnot c Hsel). rewrite N.eqb_refl in Hnot. discriminate.
  Qed.

  Lemma restricted_calls_only_claimants r ns : Inv r ->
    NoDup (fst (restricted env r ns))
    /\ forall c, In c (fst (restricted env r ns)) <-> registered r c /\ exists n, In n ns /\ claims r c n.
  Proof.
    intro H. rewrite restricted_called. destruct (select_spec r ns H) as [ND Hs]. split; [exact ND|].
    intro c. rewrite Hs. split.
    - intros (n & H1 & H2). split; [|exists n; auto].
      destruct H2 as (ns' & Hin & _). eapply in_keys; eauto.
    - tauto.
  Qed.
End RegFacts.

Section RegFacts2.
  Variable env : cid -> cbeh.

  (* without any hypothesis on the collectors a restricted collection never yields anything that is not
     in the filter of the full collection *)
  Lemma restricted_subset r ns f : Inv r ->
    In f (snd (restricted env r ns)) -> In f (filter_collection ns (collect env r)).
  Proof.
    intros H. unfold restricted, restricted_gen. simpl snd. fold (select r ns).
    rewrite collect_keys. unfold filter_collection at 1. rewrite flat_map_app.
    fold (filter_collection ns (target_family (ti r))). rewrite <- restricted_target_part.
    rewrite !in_app_iff. intros [Hf|Hf]; [left; exact Hf|right].
    apply in_flat_map in Hf. destruct Hf as (c & Hc & Hf).
    apply in_flat_map in Hf. destruct Hf as (g & Hg & Hf).
    rewrite restricted_metric_filtered in Hf.
    apply in_flat_map. exists g. split; [|exact Hf].
    apply in_flat_map. exists c. split; [|exact Hg].
    destruct (select_spec env r ns H) as [_ Hs]. apply Hs in Hc.
    destruct Hc as (n & _ & ns' & Hin & _). eapply in_keys; eauto.
  Qed.
End RegFacts2.

(* ------------------------------------------------------------------------------------------------ *)
(* witnesses against the pinned source                                                                *)
(* ------------------------------------------------------------------------------------------------ *)
Definition NAME_x : str := [120].
Definition NAME_x_total : str := NAME_x ++ S_total.

(* F6: collector 0 describes x (counter) and x_total (gauge); collector 1 describes x_total (gauge) *)
Definition f6_env (c : cid) : cbeh :=
  if N.eqb c 0 then mk_cbeh (Some [(NAME_x, TCounter); (NAME_x_total, TGauge)]) []
  else mk_cbeh (Some [(NAME_x_total, TGauge)]) [].

Lemma unregister_orig_refuted :
  exists env ops c,
    let r := run_orig env (empty_reg false) ops in
    (* unregister of a registered collector fails half-way ... *)
    registered r c /\ snd (unregister r c) = Some KeyError /\ fst (unregister r c) <> r
    (* ... after which a second claimant of one of its names can be registered *)
    /\ exists d n, let r' := run_orig env r [Unregister c; Register d] in
         c <> d /\ claims r' c n /\ claims r' d n.
Proof.
  exists f6_env, [Register 0], 0. cbv zeta.
  split; [vm_compute; left; reflexivity|]. split; [vm_compute; reflexivity|]. split; [vm_compute; discriminate|].
  exists 1, NAME_x_total. cbv zeta. split; [discriminate|]. split.
  - eexists. split; [vm_compute; left; reflexivity|]. vm_compute. right; left; reflexivity.
  - eexists. split; [vm_compute; right; left; reflexivity|]. vm_compute. left; reflexivity.
Qed.

(* F7: the unit of a family is lost by the pinned _restricted_metric *)
Lemma restricted_unit_orig_refuted :
  exists ns f f', restricted_metric_orig ns f = Some f' /\ f_unit f' <> f_unit f.
Proof.
  exists [[97]], (mk_family [97] TGauge [] [115] [mk_sample [97] [] 0]). eexists.
  split; [vm_compute; reflexivity|]. simpl. discriminate.
Qed.

(* F18: Info('target') registered, no target info configured, names = {target_info} *)
Definition f18_family : family := mk_family S_target TInfo [104] [] [mk_sample TI_NAME [] 1].
Definition f18_env (c : cid) : cbeh := mk_cbeh (Some [(S_target, TInfo)]) [f18_family].

Lemma restricted_target_info_orig_refuted :
  exists env ops ns,
    let r := run env (empty_reg false) ops in
    (forall c, registered r c -> well_described env r c)
    /\ ~ Permutation (snd (restricted_orig env r ns)) (filter_collection ns (collect env r)).
Proof.
  exists f18_env, [Register 0], [TI_NAME]. cbv zeta. split.
  - intros c Hr f s Hf Hs.
    assert (Hc : c = 0) by (vm_compute in Hr; destruct Hr as [Hr|[]]; congruence). subst c.
    destruct Hf as [<-|[]]. destruct Hs as [<-|[]].
    eexists. split; [vm_compute; left; reflexivity|]. vm_compute. right; left; reflexivity.
  - vm_compute. intro P. apply Permutation_nil in P. discriminate.
Qed.

Section RegFacts3.
  Variable env : cid -> cbeh.

  (* any call that raises leaves the registry exactly as it was; it raises ValueError, except that unregister of a
     collector that is not registered raises KeyError *)
  Lemma failed_step_unchanged r o e : Inv r -> snd (step env r o) = Some e ->
    fst (step env r o) = r
    /\ (e = ValueError \/ (e = KeyError /\ exists c, o = Unregister c /\ ~ registered r c)).
  Proof.
    intros H Hs. destruct o as [c|c|l|]; simpl in *; [| | |discriminate].
    - destruct (register_gen env get_names true r c) as [r' o'] eqn:E. simpl in *. subst o'.
      destruct (register_fail_unchanged env _ _ _ _ _ _ E) as [-> ->]. auto.
    - destruct (d_find N.eqb (c2n r) c) as [ns|] eqn:Ef.
      + apply (inv_find_c2n r c ns H) in Ef.
        destruct (unregister_registered r c ns H Ef) as (d' & E & _). rewrite E in Hs. discriminate.
      + apply (d_find_none_iff N.eqb N_eqb_iff) in Ef.
        rewrite (unregister_unregistered r c Ef) in *. simpl in *. inversion Hs; subst.
        split; [reflexivity|]. right. split; [reflexivity|]. exists c. auto.
    - destruct (set_target_info r l) as [r' o'] eqn:E. simpl in *. subst o'.
      destruct (set_target_info_fail_unchanged _ _ _ _ E) as [-> ->]. auto.
  Qed.

  Lemma filter_collection_ext ns ns' fams : (forall n, In n ns <-> In n ns') ->
    filter_collection ns fams = filter_collection ns' fams.
  Proof.
    intro Hn. unfold filter_collection. apply flat_map_ext. intro f. unfold filtered.
    replace (filter (keep ns') (f_samples f)) with (filter (keep ns) (f_samples f)); [reflexivity|].
    apply filter_ext. intro s. unfold keep.
    destruct (mem_str (s_name s) ns) eqn:E1, (mem_str (s_name s) ns') eqn:E2; try reflexivity.
    - apply mem_str_In, Hn, mem_str_In in E1. congruence.
    - apply mem_str_In, Hn, mem_str_In in E2. congruence.
  Qed.

  (* names are a set: order and repetition in the argument of restricted_registry do not matter *)
  Lemma restricted_depends_on_name_set r ns ns' : Inv r ->
    (forall c, registered r c -> well_described env r c) -> (forall n, In n ns <-> In n ns') ->
    Permutation (snd (restricted env r ns)) (snd (restricted env r ns'))
    /\ forall c, In c (fst (restricted env r ns)) <-> In c (fst (restricted env r ns')).
  Proof.
    intros H Hwd Hn. split.
    - rewrite (restricted_is_filter env r ns H Hwd), (restricted_is_filter env r ns' H Hwd).
      rewrite (filter_collection_ext ns ns' _ Hn). reflexivity.
    - intro c. destruct (restricted_calls_only_claimants env r ns H) as [_ H1].
      destruct (restricted_calls_only_claimants env r ns' H) as [_ H2]. rewrite H1, H2.
      split; intros (Hr & n & Hi & Hc); (split; [exact Hr|exists n; split; [apply Hn; exact Hi|exact Hc]]).
  Qed.
End RegFacts3.

(* ------------------------------------------------------------------------------------------------ *)
(* histories during which the collectors change: every step has its own environment                 *)
(* ------------------------------------------------------------------------------------------------ *)
Lemma run_as_dyn env ops : forall r, run env r ops = run_dyn r (map (pair env) ops).
Proof.
  induction ops as [|o ops IH]; intro r; simpl; [reflexivity|]. apply IH.
Qed.

Lemma Inv_run_dyn eops : forall r, Inv r -> Inv (run_dyn r eops).
Proof.
  induction eops as [|[e o] eops IH]; simpl; intros r H; [exact H|].
  apply IH. apply (Inv_step e r o H).
Qed.

Lemma Inv_reachable_dyn a eops : Inv (run_dyn (empty_reg a) eops).
Proof. apply Inv_run_dyn, Inv_empty. Qed.

Lemma run_dyn_spec eops : forall r, Inv r ->
  map fst (c2n (run_dyn r eops)) = spec_keys (map fst (c2n r)) (trace_dyn r eops)
  /\ ti (run_dyn r eops) = spec_labels (ti r) (trace_dyn r eops).
Proof.
  induction eops as [|[e o] eops IH]; intros r H; simpl; [split; reflexivity|].
  destruct (IH (fst (step e r o)) (Inv_step e r o H)) as [I1 I2].
  unfold spec_keys, spec_labels in *. simpl.
  rewrite <- (keys_step e r o H), <- (ti_step e r o). split; assumption.
Qed.

Lemma collect_exact_history e a eops :
  let tr := trace_dyn (empty_reg a) eops in
  collect e (run_dyn (empty_reg a) eops)
    = target_family (spec_labels [] tr) ++ flat_map (fun c => c_fams (e c)) (spec_keys [] tr)
  /\ NoDup (spec_keys [] tr).
Proof.
  intro tr. destruct (run_dyn_spec eops (empty_reg a) (Inv_empty a)) as [K T]. simpl in K, T.
  rewrite collect_keys. fold tr in K, T. rewrite K, T. split; [reflexivity|].
  rewrite <- K. pose proof (Inv_reachable_dyn a eops) as H.
  destruct H as (_ & Hnc & _). exact Hnc.
Qed.

(* F20: collector 0 describes x, is registered, then describes y and is registered again (no clash), then is
   unregistered: with the pinned register (names overwritten) x stays taken although nothing is registered *)
Definition f20_env1 (c : cid) : cbeh := mk_cbeh (Some [(NAME_x, TGauge)]) [].
Definition f20_env2 (c : cid) : cbeh := mk_cbeh (Some [([121], TGauge)]) [].

Lemma reregister_orig_refuted :
  exists eops n,
    let r := run_dyn_gen get_names false (empty_reg false) eops in
    c2n r = [] /\ ti r = [] /\ In n (map fst (n2c r)).
Proof.
  exists [(f20_env1, Register 0); (f20_env2, Register 0); (f20_env2, Unregister 0)], NAME_x.
  vm_compute. repeat split. left; reflexivity.
Qed.

(* to instantiate the unused section variable of env-free lemmas proved inside a section *)
Definition no_env : cid -> cbeh := fun _ => mk_cbeh None [].
