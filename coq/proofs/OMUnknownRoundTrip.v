(* C04 L5, unknown: a family of type unknown - samples named like the family, any labels, any value, optional timestamps,
   label sets pairwise different - meets family_acc of proofs/OMFamilyRoundTrip.v: an instance of the gauge argument. *)
From V Require Import lib.PyBase lib.Tac lib.PyStr model.Utils model.Validation model.Expo model.TextParser model.OMParser
  proofs.LabelRoundTrip proofs.OMSampleRoundTrip proofs.OMDocRoundTrip proofs.OMCounterRoundTrip proofs.OMFamilyRoundTrip
  proofs.OMGroupingFacts proofs.OMSummaryRoundTrip proofs.OMGaugeCounterInst.
From Coq Require Import Permutation.
Ltac Zify.zify_post_hook ::= Z.to_euclidean_division_equations.
Open Scope N_scope.

Section Unknown.
  Variable fix_nhkeys fix_nhsfx fix_tsmix fix_isnan fix_tsexp fix_sname : bool.
  Variable NUM : Type.
  Variable parse_num parse_float : str -> option NUM.
  Variable parse_int : str -> option Z.
  Variable num_lt num_eqb : NUM -> NUM -> bool.
  Variable num_isinf num_integral num_huge : NUM -> bool.
  Variable num_zero num_one num_inf : NUM.
  Variable ts_float : Z -> Z -> option NUM.
  Variable is_word is_space_re is_digit_re : char -> bool.
  Variable val_of : sample -> NUM.
  Variable ts_of : sample -> option (om_tsv NUM).
  Variable ex_of : sample -> option (om_exemplar NUM).
  Variable n : str.

  Notation ps := (g_ps_of NUM val_of ts_of ex_of).
  Notation rd_ok := (read_ok fix_tsexp NUM parse_num parse_float parse_int num_eqb num_isinf val_of ts_of ex_of).
  Notation s_acc := (sample_acc fix_nhkeys fix_nhsfx fix_isnan fix_tsexp NUM parse_num parse_float parse_int num_lt num_eqb
                       num_isinf num_integral num_huge num_zero num_one num_inf is_word is_space_re is_digit_re val_of ts_of ex_of).
  Notation f_acc := (family_acc fix_nhkeys fix_nhsfx fix_tsmix fix_isnan fix_tsexp NUM parse_num parse_float parse_int num_lt
                       num_eqb num_isinf num_integral num_huge num_zero num_one num_inf ts_float is_word is_space_re is_digit_re
                       val_of ts_of ex_of).

  Definition unknown_sample_ok (s : sample) : Prop := rd_ok s /\ s_ex s = None /\ s_name s = n.

  Definition unknown_family_wf (f : family) : Prop :=
    f_name f = n /\ n <> [] /\ f_type f = Expo.S_unknown /\
    (f_unit f = [] \/ ends_with (USCORE :: f_unit f) n = true) /\
    Forall unknown_sample_ok (f_samples f) /\
    ForallOrdPairs (fun s1 s2 => ~ Permutation (s_labels s1) (s_labels s2)) (f_samples f).

  Lemma unknown_sample_acc s : unknown_sample_ok s -> s_acc OM_unknown n s.
  Proof.
    intros (Hr & He & Hn). assert (Hex : ex_of s = None).
    { destruct Hr as (_ & _ & _ & _ & _ & Hx). rewrite He in Hx. exact Hx. }
    split; [exact Hr|]. split; [left; exact He|]. split; [|split; [|split; [|discriminate]]].
    - rewrite Hn. unfold allowed_names. change (om_type_suffixes OM_unknown [[]]) with [@nil char]. cbn [map mem_str].
      rewrite app_nil_r, str_eqb_refl. reflexivity.
    - unfold om_pre_checks. cbn [os_name g_ps_of]. rewrite Hn.
      change (om_typ_is (Some OM_unknown) OM_stateset) with false. cbv iota. cbn [bind].
      rewrite !app_neq_self by discriminate. cbn [orb bind].
      change (om_typ_is (Some OM_unknown) OM_summary) with false. reflexivity.
    - unfold om_post_checks. cbn [os_name os_ex g_ps_of]. rewrite Hn, Hex.
      change (om_typ_is (Some OM_unknown) OM_stateset) with false. change (om_typ_is (Some OM_unknown) OM_info) with false.
      change (om_typ_is (Some OM_unknown) OM_summary) with false. cbn [andb]. cbv zeta. cbn [bind].
      rewrite skipn_all. reflexivity.
  Qed.

  Lemma unknown_key s : key_of NUM val_of ts_of ex_of OM_unknown n lkey s.
  Proof. unfold key_of, om_group_for_sample. eexists. split; reflexivity. Qed.

  Theorem unknown_family_acc f : unknown_family_wf f -> f_acc f.
  Proof.
    intros (Hfn & Hne & Hty & Hun & Hok & Hpw). unfold family_acc. rewrite Hfn, Hty.
    split; [exact Hne|]. split; [reflexivity|]. split.
    { unfold unit_ok. rewrite Hfn, Hty. destruct Hun as [Hun|Hun]; [left; exact Hun|right]. repeat split; auto. }
    split; [eapply Forall_impl; [|exact Hok]; apply unknown_sample_acc|].
    split; [|discriminate].
    apply (grun_fresh fix_tsmix NUM num_lt num_eqb ts_float val_of ts_of ex_of Expo.S_unknown n lkey).
    - rewrite Forall_forall. intros s _. apply unknown_key.
    - apply pairs_nodup_keys. exact Hpw.
    - intros s _ [].
    - exact I.
  Qed.
End Unknown.
