(* C03/C04 L2-L3: the label block written by the expositions is read back exactly by parse_labels,
   whatever characters the label names and values contain. *)
From V Require Import lib.PyBase lib.Tac lib.PyStr model.Validation model.Expo model.TextParser
  proofs.EscapeProofs proofs.ScanFacts.
Ltac Zify.zify_post_hook ::= Z.to_euclidean_division_equations.
Open Scope N_scope.

(* ---------- L2: scanning over an escaped string inside quotes ---------- *)
(* inside quotes (inq = true, even backslash parity) an escaped string is skipped without a match and
   leaves the scanner in the same state *)
Lemma escape1_scan chs c :
  nuq0 chs (escape1 c) false true = None /\ st_after (escape1 c) false true = (false, true).
Proof.
  unfold escape1, BS, LF, DQ, CH_n.
  destruct (N.eqb_spec c 92) as [->|H1]; [split; reflexivity|].
  destruct (N.eqb_spec c 10) as [->|H2]; [split; reflexivity|].
  destruct (N.eqb_spec c 34) as [->|H3]; [split; reflexivity|].
  cbn [nuq0 st_after]. unfold BS, DQ.
  destruct (N.eqb_spec c 92); [contradiction|]. destruct (N.eqb_spec c 34); [contradiction|].
  split; reflexivity.
Qed.

Lemma escape_scan chs v :
  nuq0 chs (escape v) false true = None /\ st_after (escape v) false true = (false, true).
Proof.
  induction v as [|c v [IH1 IH2]]; [split; reflexivity|].
  unfold escape in *. cbn [flat_map]. rewrite nuq0_app, st_after_app.
  destruct (escape1_scan chs c) as [C1 C2]. rewrite C1, C2. cbn [fst snd]. rewrite IH1, IH2.
  split; reflexivity.
Qed.

(* a quoted escaped string is skipped as a whole when scanning from outside quotes *)
Lemma quoted_scan chs v rest :
  mem_char DQ chs = false ->
  nuq0 chs (quote (escape v) ++ rest) false false
  = option_map (fun k => (length (quote (escape v)) + k)%nat) (nuq0 chs rest false false)
  /\ st_after (quote (escape v)) false false = (false, false).
Proof.
  intro Hq. destruct (escape_scan chs v) as [E1 E2].
  unfold quote. cbn [app nuq0 st_after]. change (DQ =? BS) with false. change (DQ =? DQ) with true.
  cbn [andb negb]. rewrite <- app_assoc. rewrite nuq0_app, st_after_app, E1, E2. cbn [fst snd app nuq0 st_after].
  change (DQ =? BS) with false. change (DQ =? DQ) with true. cbn [andb negb]. rewrite Hq. cbn [andb].
  split; [|reflexivity].
  destruct (nuq0 chs rest false false); cbn [option_map]; [|reflexivity].
  f_equal. cbn [length]. rewrite app_length. cbn [length]. lia.
Qed.

(* a run of characters that are neither special nor searched for is skipped *)
Lemma plain_scan chs s rest :
  (forall c, In c s -> c <> BS /\ c <> DQ /\ mem_char c chs = false) ->
  nuq0 chs (s ++ rest) false false = option_map (fun k => (length s + k)%nat) (nuq0 chs rest false false)
  /\ st_after s false false = (false, false).
Proof.
  induction s as [|c s IH]; intro H.
  - cbn. split; [destruct (nuq0 chs rest false false); reflexivity|reflexivity].
  - destruct (H c (or_introl eq_refl)) as (Hb & Hq & Hm).
    destruct (IH (fun x Hx => H x (or_intror Hx))) as [I1 I2].
    cbn [app nuq0 st_after]. destruct (N.eqb_spec c BS); [contradiction|]. destruct (N.eqb_spec c DQ); [contradiction|].
    cbn [andb negb]. rewrite Hm. cbn [andb]. rewrite I1, I2. split; [|reflexivity].
    destruct (nuq0 chs rest false false); cbn [option_map length]; [f_equal; lia|reflexivity].
Qed.

(* closing-quote search of parse_labels: inside an escaped string every quote is escaped *)
Lemma find_close_escape1 c rest i :
  find_close (escape1 c ++ rest) i false = find_close rest (i + Z.of_nat (length (escape1 c)))%Z false.
Proof.
  unfold escape1, BS, LF, DQ, CH_n.
  destruct (N.eqb_spec c 92) as [->|H1]; [cbn; f_equal; try lia|].
  destruct (N.eqb_spec c 10) as [->|H2]; [cbn; f_equal; try lia|].
  destruct (N.eqb_spec c 34) as [->|H3]; [cbn; f_equal; try lia|].
  cbn [app find_close length]. unfold DQ, BS.
  destruct (N.eqb_spec c 34); [contradiction|]. destruct (N.eqb_spec c 92); [contradiction|].
  cbn [andb]. f_equal; try lia.
Qed.

Lemma find_close_escape v : forall i,
  find_close (escape v ++ [DQ]) i false = Some (i + Z.of_nat (length (escape v)))%Z.
Proof.
  induction v as [|c v IH]; intro i.
  - cbn. f_equal. lia.
  - unfold escape in *. cbn [flat_map]. rewrite <- app_assoc, find_close_escape1, IH, app_length.
    f_equal. lia.
Qed.

(* ---------- strip is the identity on strings delimited by non-space characters ---------- *)
Lemma lstrip_p_head p c r : p c = false -> lstrip_p p (c :: r) = c :: r.
Proof. intro H. cbn [lstrip_p]. rewrite H. reflexivity. Qed.

Lemma strip_delimited c mid d :
  is_space_uni c = false -> is_space_uni d = false -> strip (c :: mid ++ [d]) = c :: mid ++ [d].
Proof.
  intros Hc Hd. unfold strip, strip_p. rewrite lstrip_p_head by exact Hc.
  unfold rstrip_p. change (c :: mid ++ [d]) with ((c :: mid) ++ [d]).
  rewrite rev_app_distr. cbn [rev app]. rewrite lstrip_p_head by exact Hd.
  change (d :: rev mid ++ [c]) with ([d] ++ rev (c :: mid)). rewrite rev_app_distr, rev_involutive. reflexivity.
Qed.

Lemma strip_single c : is_space_uni c = false -> strip [c] = [c].
Proof. intro H. unfold strip, strip_p, rstrip_p. cbn [lstrip_p rev app]. rewrite H. cbn. rewrite H. reflexivity. Qed.

Lemma strip_nil : strip [] = [].
Proof. reflexivity. Qed.

(* a non-empty string whose first and last characters are not spaces is left alone by strip *)
Lemma strip_ends s : s <> [] ->
  (forall c r, s = c :: r -> is_space_uni c = false) ->
  (forall p d, s = p ++ [d] -> is_space_uni d = false) -> strip s = s.
Proof.
  intros Hne Hh Hl. destruct s as [|c r]; [congruence|].
  destruct (@exists_last _ (c :: r) Hne) as (p & d & E).
  destruct p as [|c' mid].
  - cbn in E. inversion E; subst. apply strip_single. apply (Hh d []). reflexivity.
  - cbn [app] in E. inversion E; subst. apply strip_delimited.
    + apply (Hh c' (mid ++ [d])). reflexivity.
    + apply (Hl (c' :: mid) d). reflexivity.
Qed.

(* ---------- facts about legacy label names ---------- *)
Lemma match_rest_forall p s : match_rest false p s = true -> Forall (fun c => p c = true) s.
Proof.
  induction s as [|c r IH]; intro H; [constructor|]. cbn [match_rest] in H.
  destruct (p c) eqn:E; [|discriminate]. constructor; auto.
Qed.

Lemma legacy_label_chars k : is_valid_legacy_labelname k = true ->
  exists c r, k = c :: r /\ label_start c = true /\ Forall (fun x => label_rest x = true) (c :: r).
Proof.
  unfold is_valid_legacy_labelname, label_name_re, re_name. intro H.
  apply andb_true_iff in H as [H _]. destruct k as [|c r]; [discriminate|].
  apply andb_true_iff in H as [H1 H2]. exists c, r. repeat split; auto.
  constructor; [unfold label_rest; rewrite H1; reflexivity|apply match_rest_forall; exact H2].
Qed.

Lemma label_rest_plain c : label_rest c = true ->
  c <> BS /\ c <> DQ /\ c <> EQS /\ c <> COMMA /\ c <> RBRACE /\ is_space_uni c = false /\ name_rest c = true.
Proof.
  intro H. unfold label_rest, label_start, name_rest, name_start, is_alpha, is_digit, is_space_uni,
    BS, DQ, EQS, COMMA, RBRACE, USCORE, COLON in *.
  repeat split; try (intro E; subst c; vm_compute in H; discriminate); lia.
Qed.

Lemma replace_escaping_plain s : ~ In BS s -> replace_escaping s = s.
Proof.
  induction s as [|c r IH]; intro H; [reflexivity|]. cbn [replace_escaping].
  destruct (N.eqb_spec c BS) as [->|_]; [exfalso; apply H; left; reflexivity|].
  rewrite IH; [reflexivity|]. intro Hin. apply H. right. exact Hin.
Qed.

Lemma legacy_label_is_metric_name k : is_valid_legacy_labelname k = true -> is_valid_legacy_metric_name k = true.
Proof.
  intro H. destruct (legacy_label_chars k H) as (c & r & -> & Hs & Hall).
  unfold is_valid_legacy_metric_name, re_name. inversion Hall as [|? ? Hc Hr]; subst.
  apply andb_true_iff. split.
  - unfold name_start. unfold label_start in Hs. apply orb_true_iff in Hs as [Hs|Hs]; rewrite Hs; cbn; [reflexivity|].
    rewrite orb_true_r. reflexivity.
  - clear Hc Hall Hs H. induction r as [|x r IH]; [reflexivity|]. inversion Hr; subst. cbn [match_rest].
    destruct (label_rest_plain x H1) as (_ & _ & _ & _ & _ & _ & Hn). rewrite Hn. apply IH. assumption.
Qed.

Lemma slice_app_prefix a b : slice_to (a ++ b) (Z.of_nat (length a)) = a.
Proof.
  rewrite slice_to_firstn by (rewrite app_length; lia). rewrite firstn_app, firstn_all, Nat.sub_diag.
  cbn [firstn]. apply app_nil_r.
Qed.

Lemma slice_app_suffix a b k : k = length a -> slice_from (a ++ b) (Z.of_nat k) = b.
Proof.
  intros ->. rewrite slice_from_skipn by (rewrite app_length; lia).
  rewrite skipn_app, skipn_all, Nat.sub_diag. reflexivity.
Qed.

Lemma slice_inner c mid d : slice (c :: mid ++ [d]) 1 (-1) = mid.
Proof.
  unfold slice.
  assert (Hlen : zlen (c :: mid ++ [d]) = (Z.of_nat (length mid) + 2)%Z)
    by (unfold zlen; cbn [length]; rewrite app_length; cbn [length]; lia).
  rewrite Hlen.
  assert (H1 : norm_idx (Z.of_nat (length mid) + 2) 1 = 1%Z) by (apply norm_idx_id; lia).
  assert (H2 : norm_idx (Z.of_nat (length mid) + 2) (-1) = (Z.of_nat (length mid) + 1)%Z).
  { unfold norm_idx. cbn [Z.ltb Z.compare]. cbv iota.
    destruct (Z.ltb_spec (-1 + (Z.of_nat (length mid) + 2)) 0); [lia|].
    destruct (Z.ltb_spec (Z.of_nat (length mid) + 2) (-1 + (Z.of_nat (length mid) + 2))); lia. }
  rewrite H1, H2.
  destruct (Z.leb_spec (Z.of_nat (length mid) + 1) 1).
  - destruct mid; [reflexivity|cbn [length] in *; lia].
  - change (Z.to_nat 1) with 1%nat. cbn [skipn].
    replace (Z.to_nat (Z.of_nat (length mid) + 1 - 1)) with (length mid) by lia.
    rewrite firstn_app, firstn_all, Nat.sub_diag. cbn [firstn]. apply app_nil_r.
Qed.

(* ---------- the name part written by escape_label_name ---------- *)
Definition name_part (k : str) : str := escape_label_name k.

(* what the name part looks like to the scanner and to _unquote_unescape *)
Lemma name_part_facts k :
  (forall chs rest, mem_char DQ chs = false -> mem_char BS chs = false ->
      (forall c, label_rest c = true -> mem_char c chs = false) ->
      nuq0 chs (name_part k ++ rest) false false
      = option_map (fun n => (length (name_part k) + n)%nat) (nuq0 chs rest false false))
  /\ unquote_unescape_with true (name_part k) = Ok (k, negb (is_valid_legacy_labelname k))
  /\ (exists c r, name_part k = c :: r /\ is_space_uni c = false)
  /\ name_part k <> [].
Proof.
  unfold name_part, escape_label_name. destruct (is_valid_legacy_labelname k) eqn:E.
  - destruct (legacy_label_chars k E) as (c & r & -> & Hs & Hall).
    assert (Hplain : forall x, In x (c :: r) -> label_rest x = true) by (apply Forall_forall; exact Hall).
    repeat split.
    + intros chs rest Hq Hb Hch. apply plain_scan. intros x Hx. specialize (Hplain x Hx).
      destruct (label_rest_plain x Hplain) as (H1 & H2 & _). auto.
    + unfold unquote_unescape_with.
      assert (Hst : strip (c :: r) = c :: r).
      { apply strip_ends; [discriminate| |].
        - intros c0 r0 E0. inversion E0; subst. apply (label_rest_plain c0). apply Hplain. left; auto.
        - intros p d E0. apply (label_rest_plain d). apply Hplain. rewrite E0. apply in_or_app. right. left. auto. }
      rewrite Hst. destruct (N.eqb_spec c DQ) as [->|_].
      * exfalso. destruct (label_rest_plain DQ (Hplain DQ (or_introl eq_refl))) as (_ & H2 & _). congruence.
      * cbn [negb]. rewrite replace_escaping_plain; [reflexivity|].
        intro Hin. destruct (label_rest_plain BS (Hplain BS Hin)) as (H1 & _). congruence.
    + exists c, r. split; [reflexivity|]. apply (label_rest_plain c). apply Hplain. left; auto.
    + discriminate.
  - rewrite escape_chain_eq. repeat split.
    + intros chs rest Hq Hb Hch. apply quoted_scan. exact Hq.
    + unfold unquote_unescape_with, quote.
      rewrite strip_delimited by reflexivity. change (DQ =? DQ) with true. cbv iota.
      assert (Hlen : (zlen (DQ :: escape k ++ [DQ]) =? 1)%Z = false).
      { unfold zlen. cbn [length]. rewrite app_length. cbn [length]. lia. }
      rewrite Hlen.
      replace (last (DQ :: escape k ++ [DQ]) 0) with DQ
        by (change (DQ :: escape k ++ [DQ]) with ((DQ :: escape k) ++ [DQ]); rewrite last_last; reflexivity).
      change (DQ =? DQ) with true. cbn [negb orb].
      rewrite slice_inner, unescape_escape. reflexivity.
    + exists DQ, (escape k ++ [DQ]). split; reflexivity.
    + discriminate.
Qed.

Lemma unq_quoted v : unquote_unescape_with true (quote (escape v)) = Ok (v, true).
Proof.
  unfold unquote_unescape_with, quote.
  rewrite strip_delimited by reflexivity. change (DQ =? DQ) with true. cbv iota.
  assert (Hlen : (zlen (DQ :: escape v ++ [DQ]) =? 1)%Z = false).
  { unfold zlen. cbn [length]. rewrite app_length. cbn [length]. lia. }
  rewrite Hlen.
  replace (last (DQ :: escape v ++ [DQ]) 0) with DQ
    by (change (DQ :: escape v ++ [DQ]) with ((DQ :: escape v) ++ [DQ]); rewrite last_last; reflexivity).
  change (DQ =? DQ) with true. cbn [negb orb].
  rewrite slice_inner, unescape_escape. reflexivity.
Qed.

(* ---------- L3a: one label term ---------- *)
Lemma parse_one_label_pair k v labels :
  reserved_label_re true k = false -> str_eqb k S_name_key = false -> d_mem str_eqb labels k = false ->
  parse_one_label false true (label_pair (k, v)) labels = Ok (d_set str_eqb labels k v).
Proof.
  intros Hres Hname Hmem. unfold parse_one_label, label_pair. cbn [fst snd].
  fold (name_part k). rewrite escape_chain_eq.
  destruct (name_part_facts k) as (Hscan & Hunq & (c0 & r0 & Hhd & Hsp) & Hne).
  set (term := name_part k ++ [EQS] ++ quote (escape v)).
  assert (Hop : next_unquoted_char term [EQS] 0 = Z.of_nat (length (name_part k))).
  { rewrite next_unquoted_char_rel. subst term. rewrite Hscan.
    - cbn [app nuq0]. change (EQS =? BS) with false. change (EQS =? DQ) with false. cbn [andb negb mem_char].
      change (EQS =? EQS) with true. cbn [orb option_map]. f_equal. lia.
    - reflexivity.
    - reflexivity.
    - intros c Hc. destruct (label_rest_plain c Hc) as (_ & _ & He & _). cbn [mem_char].
      destruct (N.eqb_spec c EQS); [contradiction|reflexivity]. }
  rewrite Hop.
  replace (Z.of_nat (length (name_part k)) =? -1)%Z with false by lia.
  unfold unquote_unescape. subst term. rewrite slice_app_prefix, Hunq. cbn [bind].
  rewrite negb_involutive.
  assert (Hchk : is_valid_legacy_labelname k && negb (is_valid_legacy_metric_name k) = false).
  { destruct (is_valid_legacy_labelname k) eqn:E; [|reflexivity].
    rewrite (legacy_label_is_metric_name k E). reflexivity. }
  rewrite Hchk.
  replace (Z.of_nat (length (name_part k)) + 1)%Z with (Z.of_nat (length (name_part k ++ [EQS])))
    by (rewrite app_length; cbn [length]; lia).
  rewrite app_assoc, (slice_app_suffix (name_part k ++ [EQS]) (quote (escape v)) _ eq_refl).
  assert (Hstrip : strip (quote (escape v)) = quote (escape v)) by (unfold quote; apply strip_delimited; reflexivity).
  rewrite !Hstrip. unfold quote.
  change (DQ =? DQ) with true. cbn [negb].
  assert (Hfc : (match escape v ++ [DQ] with
                 | [] => Ok 1%Z
                 | _ => match find_close (escape v ++ [DQ]) 1%Z false with Some i => Ok i | None => Err ValueError end
                 end) = Ok (1 + Z.of_nat (length (escape v)))%Z).
  { rewrite find_close_escape. destruct (escape v ++ [DQ]) eqn:E; [destruct (escape v); discriminate|reflexivity]. }
  rewrite Hfc. cbn [bind].
  assert (Hz : zlen (DQ :: escape v ++ [DQ]) = (1 + Z.of_nat (length (escape v)) + 1)%Z)
    by (unfold zlen; cbn [length]; rewrite app_length; cbn [length]; lia).
  rewrite Hz, Z.eqb_refl. cbn [negb].
  replace (slice_to (DQ :: escape v ++ [DQ]) (1 + Z.of_nat (length (escape v)) + 1)) with (quote (escape v)).
  2:{ unfold quote. rewrite <- Hz. unfold zlen. rewrite slice_to_firstn by lia. rewrite firstn_all. reflexivity. }
  rewrite unq_quoted. cbn [bind]. rewrite Hname.
  unfold validate_labelname, validate_labelname_utf8. rewrite Hres. cbn [bind]. rewrite Hmem. reflexivity.
Qed.

(* ---------- L3b: the comma-separated block ---------- *)
From V Require Import proofs.TextParserTotal.
From Coq Require Import Permutation.

Definition key_ok (k : str) : Prop := reserved_label_re true k = false /\ str_eqb k S_name_key = false.

Lemma label_pair_shape kv :
  exists c mid, label_pair kv = c :: mid ++ [DQ] /\ is_space_uni c = false /\ c <> COMMA.
Proof.
  destruct kv as [k v]. unfold label_pair. cbn [fst snd]. fold (name_part k).
  destruct (name_part_facts k) as (_ & _ & (c0 & r0 & Hhd & Hsp) & _).
  rewrite Hhd. unfold quote. exists c0, (r0 ++ [EQS] ++ DQ :: escape_chain v).
  split; [cbn [app]; rewrite <- !app_assoc; reflexivity|]. split; [exact Hsp|].
  intro E; subst c0. unfold name_part, escape_label_name in Hhd.
  destruct (is_valid_legacy_labelname k) eqn:EL.
  - destruct (legacy_label_chars k EL) as (c & r & -> & _ & Hall). inversion Hhd; subst.
    inversion Hall as [|? ? Hc _]. destruct (label_rest_plain COMMA Hc) as (_ & _ & _ & Hcm & _). congruence.
  - unfold quote in Hhd. inversion Hhd.
Qed.

Lemma pair_scan kv tail :
  nuq0 [COMMA; RBRACE] (label_pair kv ++ tail) false false
  = option_map (fun n => (length (label_pair kv) + n)%nat) (nuq0 [COMMA; RBRACE] tail false false).
Proof.
  destruct kv as [k v]. unfold label_pair. cbn [fst snd]. fold (name_part k). rewrite escape_chain_eq.
  destruct (name_part_facts k) as (Hscan & _).
  rewrite <- !app_assoc. rewrite Hscan; [|reflexivity|reflexivity|].
  2:{ intros c Hc. destruct (label_rest_plain c Hc) as (_ & _ & _ & Hcm & Hrb & _). cbn [mem_char].
      destruct (N.eqb_spec c COMMA); [contradiction|]. destruct (N.eqb_spec c RBRACE); [contradiction|]. reflexivity. }
  cbn [app nuq0]. change (EQS =? BS) with false. change (EQS =? DQ) with false. cbn [andb negb mem_char].
  change (EQS =? COMMA) with false. change (EQS =? RBRACE) with false. cbn [orb andb].
  destruct (quoted_scan [COMMA; RBRACE] v tail eq_refl) as [Hq _]. rewrite Hq.
  destruct (nuq0 [COMMA; RBRACE] tail false false); cbn [option_map]; [|reflexivity].
  f_equal. rewrite !app_length. cbn [length]. lia.
Qed.

(* the joined block *)
Fixpoint ltext (kvs : list (str * str)) : str :=
  match kvs with
  | [] => []
  | [kv] => label_pair kv
  | kv :: r => label_pair kv ++ [COMMA] ++ ltext r
  end.

Lemma ltext_join kvs : ltext kvs = join [COMMA] (map label_pair kvs).
Proof.
  induction kvs as [|kv r IH]; [reflexivity|]. destruct r as [|kv2 r2]; [reflexivity|].
  cbn [ltext map join] in *. rewrite IH. reflexivity.
Qed.

Lemma ltext_shape kv r : exists c mid, ltext (kv :: r) = c :: mid ++ [DQ] /\ is_space_uni c = false /\ c <> COMMA.
Proof.
  revert kv. induction r as [|kv2 r2 IH]; intro kv.
  - apply label_pair_shape.
  - destruct (label_pair_shape kv) as (c & mid & E & Hs & Hc).
    destruct (IH kv2) as (c2 & mid2 & E2 & _).
    change (ltext (kv :: kv2 :: r2)) with (label_pair kv ++ [COMMA] ++ ltext (kv2 :: r2)).
    rewrite E, E2. exists c, (mid ++ [DQ] ++ [COMMA] ++ c2 :: mid2).
    split; [cbn [app]; rewrite <- !app_assoc; reflexivity|auto].
Qed.

Lemma strip_ltext kv r : strip (ltext (kv :: r)) = ltext (kv :: r).
Proof. destruct (ltext_shape kv r) as (c & mid & -> & Hs & _). apply strip_delimited; [exact Hs|reflexivity]. Qed.

Lemma strip_comma_ltext kv r : strip (COMMA :: ltext (kv :: r)) = COMMA :: ltext (kv :: r).
Proof.
  destruct (ltext_shape kv r) as (c & mid & -> & _).
  change (COMMA :: c :: mid ++ [DQ]) with (COMMA :: (c :: mid) ++ [DQ]). apply strip_delimited; reflexivity.
Qed.

Lemma strip_pair kv : strip (label_pair kv) = label_pair kv.
Proof. apply (strip_ltext kv []). Qed.

Definition rest_text (r : list (str * str)) : str :=
  match r with [] => [] | _ => COMMA :: ltext r end.

Lemma nt_tail_ltext kv r : nt_tail false (ltext (kv :: r)) = Ok (label_pair kv, rest_text r).
Proof.
  unfold nt_tail. rewrite next_unquoted_char_rel.
  destruct r as [|kv2 r2].
  - cbn [ltext rest_text]. pose proof (pair_scan kv []) as P. rewrite app_nil_r in P. cbn [nuq0 option_map] in P.
    rewrite P. rewrite Z.eqb_refl. unfold zlen. rewrite slice_to_firstn, firstn_all by lia.
    rewrite slice_from_skipn, skipn_all by lia. rewrite strip_pair.
    destruct (label_pair_shape kv) as (c & mid & -> & _). reflexivity.
  - change (ltext (kv :: kv2 :: r2)) with (label_pair kv ++ COMMA :: ltext (kv2 :: r2)).
    rewrite pair_scan. cbn [nuq0]. change (COMMA =? BS) with false. change (COMMA =? DQ) with false.
    cbn [andb negb mem_char]. change (COMMA =? COMMA) with true. cbn [orb option_map].
    rewrite Nat.add_0_r.
    replace (Z.of_nat (length (label_pair kv)) =? -1)%Z with false by lia.
    rewrite slice_app_prefix, (slice_app_suffix _ _ _ eq_refl), strip_pair.
    cbn [rest_text]. rewrite strip_comma_ltext.
    destruct (label_pair_shape kv) as (c & mid & -> & _). reflexivity.
Qed.

Lemma next_term_ltext kv r : next_term (ltext (kv :: r)) false = Ok (label_pair kv, rest_text r).
Proof.
  destruct (ltext_shape kv r) as (c & mid & E & _ & Hc).
  unfold next_term. rewrite E at 1. rewrite index0_nonempty. cbn [bind].
  destruct (N.eqb_spec c COMMA); [contradiction|]. fold (nt_tail false). apply nt_tail_ltext.
Qed.

Lemma next_term_comma_ltext kv r : next_term (COMMA :: ltext (kv :: r)) false = Ok (label_pair kv, rest_text r).
Proof.
  destruct (ltext_shape kv r) as (c & mid & E & _ & Hc).
  unfold next_term. rewrite index0_nonempty. cbn [bind]. change (COMMA =? COMMA) with true. cbv iota.
  change 1%Z with (Z.of_nat 1). rewrite slice_from_skipn by (cbn; lia). cbn [skipn].
  rewrite E at 1. cbv iota beta. destruct (N.eqb_spec c COMMA); [contradiction|]. fold (nt_tail false).
  apply nt_tail_ltext.
Qed.

Fixpoint set_all (acc : assoc str str) (kvs : list (str * str)) : assoc str str :=
  match kvs with [] => acc | (k, v) :: r => set_all (d_set str_eqb acc k v) r end.

Lemma d_mem_set_other (acc : assoc str str) k v k' : str_eqb k' k = false ->
  d_mem str_eqb (d_set str_eqb acc k v) k' = d_mem str_eqb acc k'.
Proof.
  intro H. unfold d_mem. induction acc as [|[a b] acc IH]; cbn [d_set d_find].
  - rewrite H. reflexivity.
  - destruct (str_eqb k a) eqn:E1; cbn [d_find].
    + destruct (str_eqb k' a) eqn:E2; reflexivity.
    + destruct (str_eqb k' a); [reflexivity|exact IH].
Qed.

Lemma loop_ltext : forall kvs fuel acc first,
  (length kvs < fuel)%nat ->
  Forall key_ok (map fst kvs) -> NoDup (map fst kvs) ->
  (forall k, In k (map fst kvs) -> d_mem str_eqb acc k = false) ->
  parse_labels_fuel false true fuel
    (match kvs with [] => [] | _ => if first : bool then ltext kvs else COMMA :: ltext kvs end) false acc
  = Ok (set_all acc kvs).
Proof.
  induction kvs as [|[k v] r IH]; intros fuel acc first Hf Hok Hnd Hacc.
  - destruct fuel; [cbn in Hf; lia|]. reflexivity.
  - destruct fuel as [|fuel]; [cbn in Hf; lia|].
    cbn [parse_labels_fuel].
    assert (Hnt : next_term (if first then ltext ((k, v) :: r) else COMMA :: ltext ((k, v) :: r)) false
                  = Ok (label_pair (k, v), rest_text r))
      by (destruct first; [apply next_term_ltext|apply next_term_comma_ltext]).
    destruct (ltext_shape (k, v) r) as (c & mid & E & _).
    assert (Hsub : exists c' r', (if first then ltext ((k, v) :: r) else COMMA :: ltext ((k, v) :: r)) = c' :: r')
      by (destruct first; [rewrite E; eauto|eauto]).
    destruct Hsub as (c' & r' & Es). rewrite Es in *. rewrite Hnt. cbn [bind].
    destruct (label_pair_shape (k, v)) as (c2 & mid2 & E2 & _). rewrite E2. rewrite <- E2.
    inversion Hok as [|? ? [Hres Hnm] Hok']; subst. inversion Hnd as [|? ? Hnin Hnd']; subst.
    rewrite parse_one_label_pair; auto; [|apply Hacc; left; reflexivity].
    cbn [bind set_all].
    specialize (IH fuel (d_set str_eqb acc k v) false).
    cbn [rest_text]. destruct r as [|kv2 r2]; [apply IH; auto; cbn in *; try lia; intros ? []|].
    apply IH; auto; [cbn [length] in *; lia|].
    intros k' Hk'. rewrite d_mem_set_other; [apply Hacc; right; exact Hk'|].
    apply str_eqb_neq. intro E3; subst k'. apply Hnin. exact Hk'.
Qed.

Lemma ltext_length kvs : (length kvs <= length (ltext kvs))%nat.
Proof.
  induction kvs as [|kv r IH]; [cbn; lia|]. destruct r as [|kv2 r2].
  - destruct (label_pair_shape kv) as (c & mid & E & _). cbn [ltext]. rewrite E. cbn [length]. lia.
  - change (ltext (kv :: kv2 :: r2)) with (label_pair kv ++ [COMMA] ++ ltext (kv2 :: r2)).
    rewrite !app_length. cbn [length] in *. lia.
Qed.

Lemma set_all_fresh kvs : forall acc,
  NoDup (map fst kvs) -> (forall k, In k (map fst kvs) -> d_mem str_eqb acc k = false) ->
  set_all acc kvs = acc ++ kvs.
Proof.
  induction kvs as [|[k v] r IH]; intros acc Hnd Hacc; [cbn; rewrite app_nil_r; reflexivity|].
  cbn [set_all]. inversion Hnd as [|? ? Hnin Hnd']; subst.
  assert (Hset : d_set str_eqb acc k v = acc ++ [(k, v)]).
  { specialize (Hacc k (or_introl eq_refl)). unfold d_mem in Hacc.
    induction acc as [|[a b] acc IHa]; [reflexivity|]. cbn [d_set d_find app] in *.
    destruct (str_eqb k a); [discriminate|]. rewrite IHa; auto. }
  rewrite Hset, IH; auto.
  - rewrite <- app_assoc. reflexivity.
  - intros k' Hk'. rewrite <- Hset, d_mem_set_other; [apply Hacc; right; exact Hk'|].
    apply str_eqb_neq. intro E3; subst k'. apply Hnin. exact Hk'.
Qed.

(* L3: the whole label block, read back exactly and in order *)
Theorem parse_labels_roundtrip kvs :
  Forall key_ok (map fst kvs) -> NoDup (map fst kvs) ->
  parse_labels false true (join [COMMA] (map label_pair kvs)) false = Ok kvs.
Proof.
  intros Hok Hnd. rewrite <- ltext_join. unfold parse_labels.
  destruct kvs as [|kv r]; [reflexivity|].
  rewrite strip_ltext. destruct (ltext_shape kv r) as (c & mid & E & _). rewrite E at 1. cbv iota.
  cbn [andb].
  pose proof (loop_ltext (kv :: r) (S (S (length (ltext (kv :: r))))) [] true) as H.
  cbv iota in H. rewrite H; auto.
  - f_equal. apply (set_all_fresh (kv :: r) []); auto.
  - pose proof (ltext_length (kv :: r)). lia.
Qed.

(* sorted(labels.items()) is a permutation of the items *)
Lemma insert_kv_perm kv l : Permutation (kv :: l) (insert_kv kv l).
Proof.
  induction l as [|x r IH]; [reflexivity|]. cbn [insert_kv].
  destruct (str_ltb (fst x) (fst kv)); [|destruct (_ && _)]; try reflexivity;
    (etransitivity; [apply perm_swap|apply perm_skip; exact IH]).
Qed.
Lemma sort_kv_perm l : Permutation l (sort_kv l).
Proof.
  induction l as [|x r IH]; [reflexivity|]. cbn [sort_kv fold_right].
  etransitivity; [apply perm_skip; exact IH|apply insert_kv_perm].
Qed.

Theorem labelstr_roundtrip labels :
  Forall key_ok (map fst labels) -> NoDup (map fst labels) ->
  parse_labels false true (labelstr labels) false = Ok (sort_kv labels).
Proof.
  intros Hok Hnd. unfold labelstr. apply parse_labels_roundtrip.
  - eapply Permutation_Forall; [apply Permutation_map, sort_kv_perm|exact Hok].
  - eapply Permutation_NoDup; [apply Permutation_map, sort_kv_perm|exact Hnd].
Qed.
