(* _split_quoted(line, ' ', 3) and _unquote_unescape on the metadata lines of an OpenMetrics document, as written:
     # KW name text      with a legacy (unquoted) family name.
   Used by proofs/OMRulesProofs.v to show that the line-reading hypothesis of the C15 metadata theorems (reads_meta)
   holds of the concrete lines. *)
From V Require Import lib.PyBase lib.Tac lib.PyStr model.Validation model.Expo model.TextParser
  proofs.ScanFacts proofs.EscapeProofs proofs.LabelRoundTrip proofs.SampleRoundTrip proofs.DocRoundTrip.
Ltac Zify.zify_post_hook ::= Z.to_euclidean_division_equations.
Open Scope N_scope.

(* a token holding no unquoted space *)
Definition skipsp (tok : str) : Prop :=
  forall r, nuq0 [SP] (tok ++ r) false false
            = option_map (fun k => (length tok + k)%nat) (nuq0 [SP] r false false).

Lemma skipsp_plain tok : Forall (fun c => c <> BS /\ c <> DQ /\ c <> SP) tok -> skipsp tok.
Proof.
  intros H r. apply plain_scan. intros c Hc. rewrite Forall_forall in H. destruct (H c Hc) as (A & B & C).
  repeat split; auto. cbn [mem_char]. destruct (N.eqb_spec c SP); [contradiction|reflexivity].
Qed.

Lemma nuc_at_sp pre b : okpre pre ->
  next_unquoted_char (pre ++ b) [SP] (zlen pre) =
  match nuq0 [SP] b false false with None => (-1)%Z | Some k => (zlen pre + Z.of_nat k)%Z end.
Proof.
  intros [->|(a & c & -> & Hc)].
  - cbn [app]. rewrite next_unquoted_char_rel. unfold zlen. cbn [length]. destruct (nuq0 _ _ _ _); lia.
  - apply nuc_from. exact Hc.
Qed.

Lemma sq_round_sp fuel pre tok post done last :
  okpre pre -> skipsp tok -> (length done < 3)%nat ->
  split_quoted_fuel (S fuel) (pre ++ tok ++ SP :: post) [SP] 3 (zlen pre) done last
  = split_quoted_fuel fuel (pre ++ tok ++ SP :: post) [SP] 3 (zlen (pre ++ tok ++ [SP])) (tok :: done) [].
Proof.
  intros Hp Hs Hd. cbn [split_quoted_fuel].
  assert (Hlt : (zlen pre <? zlen (pre ++ tok ++ SP :: post))%Z = true).
  { unfold zlen. rewrite !app_length. cbn [length]. lia. }
  rewrite Hlt. rewrite (nuc_at_sp pre (tok ++ SP :: post) Hp), Hs.
  cbn [nuq0]. change (SP =? BS) with false. change (SP =? DQ) with false. cbn [andb negb].
  change (mem_char SP [SP]) with true. cbn [andb option_map]. rewrite Nat.add_0_r.
  replace (zlen pre + Z.of_nat (length tok) =? -1)%Z with false by (unfold zlen; lia).
  replace ((0 <? 3)%Z && (3 <? Z.of_nat (S (length done)))%Z) with false by lia.
  rewrite slice_mid. f_equal. unfold zlen. rewrite !app_length. cbn [length]. lia.
Qed.

(* the fourth part is the rest of the line, whatever it holds (also nothing) *)
Lemma sq_rest_sp fuel pre rest (done : list str) :
  okpre pre -> length done = 3%nat ->
  split_quoted_fuel (S fuel) (pre ++ rest) [SP] 3 (zlen pre) done [] = Ok (rev (rest :: done)).
Proof.
  intros Hp Hd. cbn [split_quoted_fuel]. destruct rest as [|r0 rr].
  - rewrite app_nil_r, Z.ltb_irrefl. reflexivity.
  - assert (Hlt : (zlen pre <? zlen (pre ++ r0 :: rr))%Z = true).
    { unfold zlen. rewrite app_length. cbn [length]. lia. }
    rewrite Hlt.
    assert (Hsl : slice_from (pre ++ r0 :: rr) (zlen pre) = r0 :: rr).
    { unfold zlen. rewrite slice_from_skipn by (rewrite app_length; lia). rewrite skipn_app, skipn_all, Nat.sub_diag. reflexivity. }
    rewrite Hsl. destruct (_ =? -1)%Z; [reflexivity|].
    replace ((0 <? 3)%Z && (3 <? Z.of_nat (S (length done)))%Z) with true by lia. reflexivity.
Qed.

Lemma skipsp_hash : skipsp [HASH].
Proof. apply skipsp_plain. repeat constructor; discriminate. Qed.

(*  # KW tok rest  *)
Lemma om_split_meta kw tok rest : skipsp kw -> skipsp tok ->
  split_quoted (HASH :: SP :: kw ++ SP :: tok ++ SP :: rest) [SP] 3 = Ok [[HASH]; kw; tok; rest].
Proof.
  intros Hk Ht. unfold split_quoted.
  set (text := HASH :: SP :: kw ++ SP :: tok ++ SP :: rest).
  destruct (length text) as [|[|[|n]]] eqn:El;
    try (subst text; cbn [length] in El; rewrite !app_length in El; cbn [length] in El;
         rewrite app_length in El; cbn [length] in El; lia).
  change (split_quoted_fuel (S (S (S (S (S n))))) text [SP] 3 0 [] [])
    with (split_quoted_fuel (S (S (S (S (S n))))) ([] ++ [HASH] ++ SP :: kw ++ SP :: tok ++ SP :: rest) [SP] 3 (zlen []) [] []).
  rewrite sq_round_sp; [|left; reflexivity|exact skipsp_hash|cbn; lia].
  change ([] ++ [HASH] ++ SP :: kw ++ SP :: tok ++ SP :: rest) with ([HASH; SP] ++ kw ++ SP :: tok ++ SP :: rest).
  change ([] ++ [HASH] ++ [SP]) with [HASH; SP].
  rewrite sq_round_sp; [|right; exists [HASH], SP; split; [reflexivity|discriminate]|exact Hk|cbn; lia].
  replace ([HASH; SP] ++ kw ++ SP :: tok ++ SP :: rest)
    with (([HASH; SP] ++ kw ++ [SP]) ++ tok ++ SP :: rest) by (rewrite <- !app_assoc; reflexivity).
  rewrite sq_round_sp; [|rewrite app_assoc; apply okpre_snoc; discriminate|exact Ht|cbn; lia].
  replace (([HASH; SP] ++ kw ++ [SP]) ++ tok ++ SP :: rest)
    with ((([HASH; SP] ++ kw ++ [SP]) ++ tok ++ [SP]) ++ rest) by (rewrite <- !app_assoc; reflexivity).
  rewrite sq_rest_sp; [reflexivity| |reflexivity].
  rewrite !app_assoc. apply okpre_snoc. discriminate.
Qed.

(* a legacy metric name, written bare *)
Lemma legacy_name_token n : is_valid_legacy_metric_name n = true ->
  skipsp n /\ forall g, unquote_unescape_with g n = Ok (n, false).
Proof.
  intro E. destruct (legacy_name_chars n E) as (c & r & -> & Hall).
  assert (Hplain : forall x, In x (c :: r) -> name_rest x = true) by (apply Forall_forall; exact Hall).
  split.
  - apply skipsp_plain. apply Forall_forall. intros x Hx. specialize (Hplain x Hx).
    destruct (name_rest_plain x Hplain) as (H1 & H2 & _ & _ & H5 & _). auto.
  - intro g. unfold unquote_unescape_with. rewrite (strip_legacy_name (c :: r) E).
    destruct (N.eqb_spec c DQ) as [->|_].
    + exfalso. destruct (name_rest_plain DQ (Hplain DQ (or_introl eq_refl))) as (_ & H2 & _). congruence.
    + rewrite replace_escaping_plain; [reflexivity|].
      intro Hin. destruct (name_rest_plain BS (Hplain BS Hin)) as (H1 & _). congruence.
Qed.

(* a quoted, escaped family name *)
Lemma quoted_name_token n :
  skipsp (quote (escape n)) /\ forall g, unquote_unescape_with g (quote (escape n)) = Ok (n, true).
Proof.
  split; [intro r; apply quoted_scan; reflexivity|]. intro g.
  unfold unquote_unescape_with, quote.
  rewrite strip_delimited by reflexivity. change (DQ =? DQ) with true. cbv iota.
  assert (Hlen : (zlen (DQ :: escape n ++ [DQ]) =? 1)%Z = false).
  { unfold zlen. cbn [length]. rewrite app_length. cbn [length]. lia. }
  rewrite Hlen.
  replace (last (DQ :: escape n ++ [DQ]) 0) with DQ
    by (change (DQ :: escape n ++ [DQ]) with ((DQ :: escape n) ++ [DQ]); rewrite last_last; reflexivity).
  change (DQ =? DQ) with true. cbn [negb orb].
  rewrite slice_inner, unescape_escape. reflexivity.
Qed.
