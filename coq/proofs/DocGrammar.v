(* C05, document level: the whole text exposition is a sequence of LF-terminated lines, each accepted by the
   independent line grammar (model/LineGrammar.v: text_doc_ok), in the order HELP, TYPE, one line per sample. *)
From V Require Import lib.PyBase lib.PyStr lib.Tac model.Utils model.Validation model.Expo model.LineGrammar
  proofs.EscapeProofs proofs.LineProofs proofs.GrammarProofs proofs.DocRoundTrip.
Open Scope N_scope.
Ltac Zify.zify_post_hook ::= Z.to_euclidean_division_equations.

Lemma nlf_cons_zero c l : nlf (c :: l) = 0%nat -> c <> LF /\ nlf l = 0%nat.
Proof.
  unfold nlf. cbn [cnt]. destruct (N.eqb_spec c LF) as [->|H]; [discriminate|]. intro H0. split; [exact H|exact H0].
Qed.

Lemma split_lines_acc_line l : forall rest cur, nlf l = 0%nat ->
  split_lines_acc (l ++ LF :: rest) cur
  = ((rev cur ++ l) :: fst (split_lines_acc rest []), snd (split_lines_acc rest [])).
Proof.
  induction l as [|c l IH]; intros rest cur H.
  - cbn [app split_lines_acc]. change (LF =? 10) with true. cbv iota.
    destruct (split_lines_acc rest []) as [ls r]. rewrite app_nil_r. reflexivity.
  - apply nlf_cons_zero in H. destruct H as [Hc Hl]. cbn [app split_lines_acc].
    destruct (N.eqb_spec c 10) as [E|_]; [exfalso; apply Hc; exact E|].
    rewrite (IH rest (c :: cur) Hl). cbn [rev]. rewrite <- app_assoc. reflexivity.
Qed.

Lemma split_lines_unlines ls : Forall (fun l => nlf l = 0%nat) ls -> split_lines (unlines ls) = (ls, []).
Proof.
  unfold split_lines. induction 1 as [|l ls Hl _ IH]; [reflexivity|].
  unfold unlines in *. cbn [flat_map]. rewrite <- app_assoc. cbn [app].
  rewrite split_lines_acc_line by exact Hl. rewrite IH. reflexivity.
Qed.

Theorem text_doc_ok_unlines ls :
  Forall (fun l => nlf l = 0%nat) ls -> forallb text_line_ok ls = true -> text_doc_ok (unlines ls) = true.
Proof. intros H1 H2. unfold text_doc_ok. rewrite split_lines_unlines by exact H1. exact H2. Qed.

Lemma unlines_app a b : unlines (a ++ b) = unlines a ++ unlines b.
Proof. unfold unlines. apply flat_map_app. Qed.

Lemma flat_map_unlines {A} (f : A -> list str) l : flat_map (fun x => unlines (f x)) l = unlines (flat_map f l).
Proof. induction l as [|x l IH]; [reflexivity|]. cbn [flat_map]. rewrite unlines_app, IH. reflexivity. Qed.

Theorem text_render_unlines fams : text_render fams = unlines (flat_map block_lines (flat_map blocks_of fams)).
Proof.
  rewrite text_render_blocks. rewrite <- flat_map_unlines. apply flat_map_ext. intro b. apply render_block_unlines.
Qed.

(* ---------- the three kinds of line ---------- *)
Lemma help_line_ok n doc : is_help_line false (help_line n doc) = true /\ nlf (help_line n doc) = 0%nat.
Proof.
  split.
  - unfold is_help_line, help_line, mname_tok.
    change (T_hash ++ SP :: KW_HELP ++ SP :: escape_metric_name n ++ SP :: help_escape_chain doc)
      with (L_HELP ++ escape_metric_name n ++ SP :: help_escape_chain doc).
    unfold g_seq at 1. rewrite g_lit_app. unfold g_seq at 1.
    rewrite g_metric_name_ok by reflexivity. unfold g_seq. cbn [app g_lit SPC]. change (SP =? 32) with true. cbv iota.
    rewrite help_escape_chain_eq, g_doc_help_escape. reflexivity.
  - unfold help_line, mname_tok.
    change (T_hash ++ SP :: KW_HELP ++ SP :: escape_metric_name n ++ SP :: help_escape_chain doc)
      with (L_HELP ++ escape_metric_name n ++ [SP] ++ help_escape_chain doc).
    unfold nlf. rewrite !cnt_app. fold (nlf (escape_metric_name n)). fold (nlf (help_escape_chain doc)).
    rewrite nlf_escape_metric_name, nlf_help_escape. reflexivity.
Qed.

Lemma type_word_no_lf typ : mem_str typ type_words_text = true -> nlf typ = 0%nat.
Proof.
  intro H. apply mem_str_In in H. unfold type_words_text in H. cbn [In] in H.
  repeat (destruct H as [<-|H]; [reflexivity|]). destruct H.
Qed.

Lemma type_line_ok n typ : mem_str typ type_words_text = true ->
  is_type_line type_words_text (type_line n typ) = true /\ nlf (type_line n typ) = 0%nat.
Proof.
  intro Ht. split.
  - unfold is_type_line, type_line, mname_tok.
    change (T_hash ++ SP :: KW_TYPE ++ SP :: escape_metric_name n ++ SP :: typ)
      with (L_TYPE ++ escape_metric_name n ++ SP :: typ).
    unfold g_seq at 1. rewrite g_lit_app. unfold g_seq at 1.
    rewrite g_metric_name_ok by reflexivity. unfold g_seq. cbn [app g_lit SPC]. change (SP =? 32) with true. cbv iota.
    unfold g_word. rewrite Ht. reflexivity.
  - unfold type_line, mname_tok.
    change (T_hash ++ SP :: KW_TYPE ++ SP :: escape_metric_name n ++ SP :: typ)
      with (L_TYPE ++ escape_metric_name n ++ [SP] ++ typ).
    unfold nlf. rewrite !cnt_app. fold (nlf (escape_metric_name n)). fold (nlf typ).
    rewrite nlf_escape_metric_name, (type_word_no_lf typ Ht). reflexivity.
Qed.

Definition sample_line_ok (s : sample) : Prop := sample_clean s /\ value_token (go_string (s_value s)).

Lemma body_line_ok s : sample_line_ok s -> is_sample_line_text (body_of s) = true /\ nlf (body_of s) = 0%nat.
Proof.
  intros [Hc Hv]. destruct (text_sample_line_in_grammar s Hv) as (body & Hb & Hg).
  assert (E : body = body_of s).
  { pose proof (body_of_spec s) as Hs. rewrite Hb in Hs. apply app_inj_tail in Hs. apply Hs. }
  subst body. split; [exact Hg|].
  pose proof (nlf_text_sample_line s Hc) as Hn. rewrite (body_of_spec s) in Hn.
  rewrite cnt_app in Hn. cbn [cnt] in Hn. change (LF =? LF) with true in Hn. cbv iota in Hn. lia.
Qed.

(* ---------- blocks and families ---------- *)
Definition block_grammar_ok (b : block) : Prop :=
  mem_str (b_typ b) type_words_text = true /\ Forall sample_line_ok (b_samples b).

Lemma block_lines_ok b : block_grammar_ok b ->
  Forall (fun l => nlf l = 0%nat /\ text_line_ok l = true) (block_lines b).
Proof.
  intros [Ht Hs]. unfold block_lines.
  destruct (help_line_ok (b_name b) (b_doc b)) as [H1 H2].
  destruct (type_line_ok (b_name b) (b_typ b) Ht) as [H3 H4].
  constructor; [split; [exact H2|unfold text_line_ok; rewrite H1; reflexivity]|].
  constructor; [split; [exact H4|unfold text_line_ok; rewrite H3; apply orb_true_r || (rewrite orb_true_r; reflexivity)]|].
  induction Hs as [|s ss Hs1 _ IH]; [constructor|]. cbn [map]. constructor; [|exact IH].
  destruct (body_line_ok s Hs1) as [H5 H6]. split; [exact H6|]. unfold text_line_ok. rewrite H5. apply orb_true_r.
Qed.

(* what the metric constructors guarantee about a family: its type is one of the eight OpenMetrics type words *)
Definition fam_grammar_ok (f : family) : Prop :=
  mem_str (f_type f) type_words_om = true /\ Forall sample_line_ok (f_samples f).

Lemma munged_type_word n typ : mem_str typ type_words_om = true ->
  mem_str (snd (text_munge n typ)) type_words_text = true.
Proof.
  intro H. apply mem_str_In in H. unfold type_words_om in H. cbn [In] in H.
  repeat (destruct H as [<-|H]; [vm_compute; reflexivity|]). destruct H.
Qed.

Lemma Forall_filter {A} (P : A -> Prop) p (l : list A) : Forall P l -> Forall P (filter p l).
Proof. induction 1 as [|x l Hx _ IH]; [constructor|]. cbn [filter]. destruct (p x); [constructor; assumption|exact IH]. Qed.

Lemma trailing_block_ok f k suffix : Forall sample_line_ok (f_samples f) ->
  Forall block_grammar_ok (trailing_block f k suffix).
Proof.
  intro Hs. unfold trailing_block. destruct (fam_bucket f k) as [|s0 ss] eqn:E; [constructor|].
  constructor; [|constructor]. split; cbn [b_typ b_samples]; [vm_compute; reflexivity|].
  rewrite <- E. apply Forall_filter; exact Hs.
Qed.

Lemma blocks_of_ok f : fam_grammar_ok f -> Forall block_grammar_ok (blocks_of f).
Proof.
  intros [Ht Hs]. unfold blocks_of. constructor.
  - split; cbn [b_typ b_samples]; [apply munged_type_word; exact Ht|apply Forall_filter; exact Hs].
  - apply Forall_app. split; [apply trailing_block_ok; exact Hs|].
    apply Forall_app. split; apply trailing_block_ok; exact Hs.
Qed.

Lemma Forall_flat_map {A B} (P : B -> Prop) (Q : A -> Prop) (f : A -> list B) l :
  (forall a, Q a -> Forall P (f a)) -> Forall Q l -> Forall P (flat_map f l).
Proof. intros H. induction 1 as [|a l Ha _ IH]; [constructor|]. cbn [flat_map]. apply Forall_app. split; [apply H; exact Ha|exact IH]. Qed.

Theorem text_render_lines_ok fams : Forall fam_grammar_ok fams ->
  Forall (fun l => nlf l = 0%nat /\ text_line_ok l = true) (flat_map block_lines (flat_map blocks_of fams)).
Proof.
  intro H. apply (Forall_flat_map _ block_grammar_ok); [exact block_lines_ok|].
  apply (Forall_flat_map _ fam_grammar_ok); [exact blocks_of_ok|exact H].
Qed.

Theorem text_render_doc_ok fams : Forall fam_grammar_ok fams -> text_doc_ok (text_render fams) = true.
Proof.
  intro H. rewrite text_render_unlines. pose proof (text_render_lines_ok fams H) as HL.
  apply text_doc_ok_unlines.
  - eapply Forall_impl; [|exact HL]. intros l [Hl _]. exact Hl.
  - apply forallb_forall. intros l Hin. rewrite Forall_forall in HL. apply (HL l Hin).
Qed.
