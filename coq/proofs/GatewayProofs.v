(* Lemmas for C19 (model/Gateway.v). *)
From V Require Import lib.PyBase lib.Tac model.Gateway.
From Coq Require Import Permutation Sorted RelationClasses.
Ltac Zify.zify_post_hook ::= Z.to_euclidean_division_equations.
Open Scope N_scope.

Definition byte (b : N) : Prop := b < 256.
Definition bytes (bs : list N) : Prop := Forall byte bs.

(* ---------- spellings of the literals in the model ---------- *)
Lemma spellings :
  HTTP_PREFIX = s2l "http://" /\ METRICS = s2l "/metrics/" /\ JOB = s2l "job" /\ B64SUF = s2l "@base64"
  /\ CT_NAME = s2l "Content-Type" /\ CT_TEXT = s2l "text/plain; version=0.0.4; charset=utf-8"
  /\ meth_name PUT = s2l "PUT" /\ meth_name POST = s2l "POST" /\ meth_name DELETE = s2l "DELETE".
Proof. repeat split. Qed.

(* ---------- generic list helpers ---------- *)
Lemma list_ind3 {A} (P : list A -> Prop) :
  P [] -> (forall a, P [a]) -> (forall a b, P [a; b]) ->
  (forall a b c r, P r -> P (a :: b :: c :: r)) -> forall l, P l.
Proof.
  intros H0 H1 H2 H3 l.
  assert (P l /\ (forall a, P (a :: l)) /\ (forall a b, P (a :: b :: l))) as [H _]; [|exact H].
  induction l as [|x l (IH0 & IH1 & IH2)]; [auto|].
  repeat split; auto.
Qed.

Lemma bind_ok {A B} (m : res A) (f : A -> res B) b :
  bind m f = Ok b -> exists a, m = Ok a /\ f a = Ok b.
Proof. destruct m; cbn; [eauto|discriminate]. Qed.

Lemma Ok_inj {A} (a b : A) : Ok a = Ok b -> a = b.
Proof. intro H. congruence. Qed.

(* ---------- rstrip ---------- *)
Lemma rstrip_cons_ne c x r : x <> c -> rstrip c (x :: r) = x :: rstrip c r.
Proof. intro H. cbn [rstrip]. apply N.eqb_neq in H. rewrite H. reflexivity. Qed.

Lemma rstrip_repeat c n : rstrip c (repeat c n) = [].
Proof. induction n; [reflexivity|]. cbn [repeat rstrip]. rewrite IHn, N.eqb_refl. reflexivity. Qed.

Lemma rstrip_app_repeat c s n : rstrip c (s ++ repeat c n) = rstrip c s.
Proof.
  induction s as [|x s IH]; cbn [app].
  - rewrite rstrip_repeat. reflexivity.
  - cbn [rstrip]. rewrite IH. reflexivity.
Qed.

Lemma rstrip_app_fixed c pre s : s <> [] -> rstrip c s = s -> rstrip c (pre ++ s) = pre ++ s.
Proof.
  intros Hn Hs. induction pre as [|x pre IH]; [exact Hs|].
  cbn [app rstrip]. rewrite IH.
  destruct (pre ++ s) eqn:E; [apply app_eq_nil in E as [_ E]; contradiction|].
  cbn [is_nil]. rewrite andb_false_r. reflexivity.
Qed.

Lemma rstrip_no_trailing c s p : rstrip c s <> p ++ [c].
Proof.
  revert p. induction s as [|x s IH]; intro p; cbn [rstrip].
  - destruct p; discriminate.
  - destruct ((x =? c) && is_nil (rstrip c s)) eqn:E.
    + destruct p; discriminate.
    + destruct p as [|y p]; cbn [app]; intro H; inversion H; subst.
      * rewrite N.eqb_refl in E. rewrite H2 in E. discriminate.
      * eapply IH; eauto.
Qed.

Lemma rstrip_no_c c s : ~ In c s -> rstrip c s = s.
Proof.
  induction s as [|x s IH]; intro H; [reflexivity|].
  rewrite rstrip_cons_ne by (intro; subst; apply H; left; reflexivity).
  rewrite IH; [reflexivity|]. intro; apply H; right; assumption.
Qed.

(* ---------- UTF-8 ---------- *)
Lemma utf8_char_bytes c bs : utf8_char c = Ok bs -> bytes bs.
Proof.
  unfold utf8_char, bytes, byte.
  destruct (c <? 128) eqn:E1; [intro H; apply Ok_inj in H; subst bs; repeat (apply Forall_cons; [lia|]); apply Forall_nil|].
  destruct (c <? 2048) eqn:E2; [intro H; apply Ok_inj in H; subst bs; repeat (apply Forall_cons; [lia|]); apply Forall_nil|].
  destruct (c <? 65536) eqn:E3.
  { destruct ((55296 <=? c) && (c <? 57344)) eqn:E4; [discriminate|].
    intro H; apply Ok_inj in H; subst bs; repeat (apply Forall_cons; [lia|]); apply Forall_nil. }
  destruct (c <? 1114112) eqn:E4; [|discriminate].
  intro H; apply Ok_inj in H; subst bs; repeat (apply Forall_cons; [lia|]); apply Forall_nil.
Qed.

Lemma utf8_bytes s bs : utf8 s = Ok bs -> bytes bs.
Proof.
  revert bs. induction s as [|c s IH]; intros bs H; cbn [utf8] in H.
  - apply Ok_inj in H. subst. constructor.
  - apply bind_ok in H as (b & Hb & H). apply bind_ok in H as (br & Hbr & H).
    apply Ok_inj in H. subst bs. apply Forall_app. split; [eapply utf8_char_bytes; eauto|eapply IH; eauto].
Qed.

Lemma dec1 b0 r : b0 < 128 -> utf8_decode (b0 :: r) = do s <- utf8_decode r; Ok (b0 :: s).
Proof. intro H. cbn [utf8_decode]. destruct (b0 <? 128) eqn:E; [reflexivity|lia]. Qed.

Lemma dec2 b0 b1 r : 192 <= b0 < 224 -> 128 <= b1 < 192 ->
  utf8_decode (b0 :: b1 :: r) = do s <- utf8_decode r; Ok ((b0 - 192) * 64 + (b1 - 128) :: s).
Proof.
  intros H0 H1. cbn [utf8_decode].
  destruct (b0 <? 128) eqn:E1; [lia|]. destruct (b0 <? 192) eqn:E2; [lia|].
  destruct (b0 <? 224) eqn:E3; [|lia].
  unfold is_cont. destruct ((128 <=? b1) && (b1 <? 192)) eqn:E4; [reflexivity|lia].
Qed.

Lemma dec3 b0 b1 b2 r : 224 <= b0 < 240 -> 128 <= b1 < 192 -> 128 <= b2 < 192 ->
  utf8_decode (b0 :: b1 :: b2 :: r)
  = do s <- utf8_decode r; Ok ((b0 - 224) * 4096 + (b1 - 128) * 64 + (b2 - 128) :: s).
Proof.
  intros H0 H1 H2. cbn [utf8_decode].
  destruct (b0 <? 128) eqn:E1; [lia|]. destruct (b0 <? 192) eqn:E2; [lia|].
  destruct (b0 <? 224) eqn:E3; [lia|]. destruct (b0 <? 240) eqn:E4; [|lia].
  unfold is_cont. destruct ((128 <=? b1) && (b1 <? 192)) eqn:E5; [|lia].
  destruct ((128 <=? b2) && (b2 <? 192)) eqn:E6; [reflexivity|lia].
Qed.

Lemma dec4 b0 b1 b2 b3 r : 240 <= b0 < 248 -> 128 <= b1 < 192 -> 128 <= b2 < 192 -> 128 <= b3 < 192 ->
  utf8_decode (b0 :: b1 :: b2 :: b3 :: r)
  = do s <- utf8_decode r; Ok ((b0 - 240) * 262144 + (b1 - 128) * 4096 + (b2 - 128) * 64 + (b3 - 128) :: s).
Proof.
  intros H0 H1 H2 H3. cbn [utf8_decode].
  destruct (b0 <? 128) eqn:E1; [lia|]. destruct (b0 <? 192) eqn:E2; [lia|].
  destruct (b0 <? 224) eqn:E3; [lia|]. destruct (b0 <? 240) eqn:E4; [lia|].
  destruct (b0 <? 248) eqn:E5; [|lia].
  unfold is_cont. destruct ((128 <=? b1) && (b1 <? 192)) eqn:E6; [|lia].
  destruct ((128 <=? b2) && (b2 <? 192)) eqn:E7; [|lia].
  destruct ((128 <=? b3) && (b3 <? 192)) eqn:E8; [reflexivity|lia].
Qed.

Lemma utf8_decode_char c b r :
  utf8_char c = Ok b -> utf8_decode (b ++ r) = do s <- utf8_decode r; Ok (c :: s).
Proof.
  unfold utf8_char.
  destruct (c <? 128) eqn:E1.
  { intro H. apply Ok_inj in H. subst b. cbn [app]. apply dec1. lia. }
  destruct (c <? 2048) eqn:E2.
  { intro H. apply Ok_inj in H. subst b. cbn [app]. rewrite dec2 by lia.
    replace ((192 + c / 64 - 192) * 64 + (128 + c mod 64 - 128)) with c by lia. reflexivity. }
  destruct (c <? 65536) eqn:E3.
  { destruct ((55296 <=? c) && (c <? 57344)) eqn:E4; [discriminate|].
    intro H. apply Ok_inj in H. subst b. cbn [app]. rewrite dec3 by lia.
    replace ((224 + c / 4096 - 224) * 4096 + (128 + (c / 64) mod 64 - 128) * 64 + (128 + c mod 64 - 128))
      with c by lia. reflexivity. }
  destruct (c <? 1114112) eqn:E4; [|discriminate].
  intro H. apply Ok_inj in H. subst b. cbn [app]. rewrite dec4 by lia.
  replace ((240 + c / 262144 - 240) * 262144 + (128 + (c / 4096) mod 64 - 128) * 4096
           + (128 + (c / 64) mod 64 - 128) * 64 + (128 + c mod 64 - 128)) with c by lia.
  reflexivity.
Qed.

Lemma utf8_roundtrip s bs : utf8 s = Ok bs -> utf8_decode bs = Ok s.
Proof.
  revert bs. induction s as [|c s IH]; intros bs H; cbn [utf8] in H.
  - apply Ok_inj in H. subst. reflexivity.
  - apply bind_ok in H as (b & Hb & H). apply bind_ok in H as (br & Hbr & H).
    apply Ok_inj in H. subst bs. rewrite (utf8_decode_char _ _ _ Hb), (IH _ Hbr). reflexivity.
Qed.

(* Unicode scalar values: what str.encode('utf-8') accepts *)
Definition scalar (c : N) : Prop := c < 55296 \/ (57344 <= c /\ c < 1114112).
Definition encodable (s : str) : Prop := Forall scalar s.

Lemma utf8_char_total c : scalar c <-> exists b, utf8_char c = Ok b.
Proof.
  unfold scalar, utf8_char.
  destruct (c <? 128) eqn:E1; [split; [eauto|lia]|].
  destruct (c <? 2048) eqn:E2; [split; [eauto|lia]|].
  destruct (c <? 65536) eqn:E3.
  { destruct ((55296 <=? c) && (c <? 57344)) eqn:E4; split; eauto; try lia. intros [b Hb]. discriminate. }
  destruct (c <? 1114112) eqn:E4; [split; [eauto|lia]|].
  split; [lia|]. intros [b Hb]. discriminate.
Qed.

Lemma utf8_total s : encodable s <-> exists bs, utf8 s = Ok bs.
Proof.
  induction s as [|c s IH]; cbn [utf8].
  - split; [eauto|constructor].
  - split.
    + intro H. inversion H as [|? ? Hc Hs]; subst. apply utf8_char_total in Hc as [b Hb].
      apply IH in Hs as [bs Hbs]. rewrite Hb, Hbs. cbn. eauto.
    + intros [bs H]. apply bind_ok in H as (b & Hb & H). apply bind_ok in H as (br & Hbr & _).
      constructor; [apply utf8_char_total; eauto|apply IH; eauto].
Qed.

Lemma utf8_only_VE s : only_VE (utf8 s).
Proof.
  induction s as [|c s IH]; cbn [utf8]; [exact I|].
  assert (only_VE (utf8_char c)) as Hc.
  { unfold utf8_char. repeat match goal with |- context [if ?b then _ else _] => destruct b end; cbn; auto. }
  destruct (utf8_char c); cbn in *; [|assumption].
  destruct (utf8 s); cbn in *; auto.
Qed.

(* an ASCII byte of the encoding is a character of the text *)
Lemma utf8_ascii_in s bs b : utf8 s = Ok bs -> b < 128 -> In b bs -> In b s.
Proof.
  revert bs. induction s as [|c s IH]; intros bs H Hb Hin; cbn [utf8] in H.
  - apply Ok_inj in H. subst. assumption.
  - apply bind_ok in H as (x & Hx & H). apply bind_ok in H as (br & Hbr & H).
    apply Ok_inj in H. subst bs. apply in_app_or in Hin as [Hin|Hin]; [|right; eauto].
    left. revert Hx. unfold utf8_char.
    destruct (c <? 128) eqn:E1.
    { intro H. apply Ok_inj in H. subst x. destruct Hin as [->|[]]. reflexivity. }
    destruct (c <? 2048) eqn:E2.
    { intro H. apply Ok_inj in H. subst x. cbn [In] in Hin. lia. }
    destruct (c <? 65536) eqn:E3.
    { destruct ((55296 <=? c) && (c <? 57344)) eqn:E4; [discriminate|].
      intro H. apply Ok_inj in H. subst x. cbn [In] in Hin. lia. }
    destruct (c <? 1114112) eqn:E4; [|discriminate].
    intro H. apply Ok_inj in H. subst x. cbn [In] in Hin. lia.
Qed.

(* ---------- percent encoding ---------- *)
Lemma unreserved_facts b : unreserved b = true ->
  b <> PERCENT /\ b <> PLUS /\ b <> SLASH /\ b <> SPACE /\ b < 128.
Proof. unfold unreserved, PERCENT, PLUS, SLASH, SPACE. lia. Qed.

Lemma hexdig_range n : n < 16 -> (48 <= hexdig n <= 57) \/ (65 <= hexdig n <= 70).
Proof. unfold hexdig. destruct (n <? 10) eqn:E; lia. Qed.

Lemma hexval_hexdig n : n < 16 -> hexval (hexdig n) = Some n.
Proof.
  intro H. unfold hexval, hexdig. destruct (n <? 10) eqn:E.
  - destruct ((48 <=? 48 + n) && (48 + n <=? 57)) eqn:E1; [f_equal; lia|lia].
  - destruct ((48 <=? 55 + n) && (55 + n <=? 57)) eqn:E1; [lia|].
    destruct ((65 <=? 55 + n) && (55 + n <=? 70)) eqn:E2; [f_equal; lia|lia].
Qed.

Lemma pct_decode_plain p c r : c <> PERCENT -> (p = false \/ c <> PLUS) ->
  pct_decode p (c :: r) = do t <- pct_decode p r; Ok (c :: t).
Proof.
  intros H1 H2. cbn [pct_decode]. apply N.eqb_neq in H1. rewrite H1.
  destruct H2 as [->|H2]; [reflexivity|]. apply N.eqb_neq in H2. rewrite H2, andb_false_r. reflexivity.
Qed.

Lemma pct_decode_escape p h l a b r : hexval h = Some a -> hexval l = Some b ->
  pct_decode p (PERCENT :: h :: l :: r) = do t <- pct_decode p r; Ok (16 * a + b :: t).
Proof. intros Ha Hb. cbn [pct_decode]. rewrite N.eqb_refl, Ha, Hb. reflexivity. Qed.

Lemma pct_decode_quote_byte p b r : byte b ->
  pct_decode p (quote_byte b ++ r) = do t <- pct_decode p r; Ok (b :: t).
Proof.
  unfold byte. intro Hb. unfold quote_byte. destruct (unreserved b) eqn:E.
  - apply unreserved_facts in E as (H1 & H2 & _). cbn [app]. apply pct_decode_plain; auto.
  - cbn [app]. rewrite (pct_decode_escape p _ _ (b / 16) (b mod 16)) by (apply hexval_hexdig; lia).
    replace (16 * (b / 16) + b mod 16) with b by lia. reflexivity.
Qed.

Lemma pct_decode_quote p bs : bytes bs -> pct_decode p (quote_bytes bs) = Ok bs.
Proof.
  unfold quote_bytes. induction 1 as [|b bs Hb _ IH]; [reflexivity|].
  cbn [flat_map]. rewrite pct_decode_quote_byte by assumption. rewrite IH. reflexivity.
Qed.

Lemma pct_decode_quote_plus_byte p b r : byte b -> (p = true \/ b <> SPACE) ->
  pct_decode p (quote_plus_byte b ++ r) = do t <- pct_decode p r; Ok (b :: t).
Proof.
  intros Hb Hp. unfold quote_plus_byte. destruct (b =? SPACE) eqn:E.
  - apply N.eqb_eq in E. subst b. destruct Hp as [->|Hp]; [|contradiction]. reflexivity.
  - apply pct_decode_quote_byte. assumption.
Qed.

Lemma pct_decode_quote_plus p bs : bytes bs -> (p = true \/ ~ In SPACE bs) ->
  pct_decode p (quote_plus_bytes bs) = Ok bs.
Proof.
  unfold quote_plus_bytes. induction 1 as [|b bs Hb _ IH]; intro Hp; [reflexivity|].
  cbn [flat_map]. rewrite pct_decode_quote_plus_byte; [rewrite IH; [reflexivity|]|assumption|].
  - destruct Hp as [Hp|Hp]; [auto|right; intro; apply Hp; right; assumption].
  - destruct Hp as [Hp|Hp]; [auto|right; intro; subst; apply Hp; left; reflexivity].
Qed.

Lemma quote_byte_noslash b : byte b -> ~ In SLASH (quote_byte b).
Proof.
  unfold byte, quote_byte. intro Hb. destruct (unreserved b) eqn:E.
  - apply unreserved_facts in E as (_ & _ & H & _). intros [H'|[]]. auto.
  - pose proof (hexdig_range (b / 16)). pose proof (hexdig_range (b mod 16)).
    unfold SLASH, PERCENT. cbn [In]. lia.
Qed.

Lemma quote_noslash bs : bytes bs -> ~ In SLASH (quote_bytes bs).
Proof.
  unfold quote_bytes. induction 1 as [|b bs Hb _ IH]; [auto|]. cbn [flat_map]. intro H.
  apply in_app_or in H as [H|H]; [eapply quote_byte_noslash; eauto|auto].
Qed.

Lemma quote_plus_noslash bs : bytes bs -> ~ In SLASH (quote_plus_bytes bs).
Proof.
  unfold quote_plus_bytes. induction 1 as [|b bs Hb _ IH]; [auto|]. cbn [flat_map]. intro H.
  apply in_app_or in H as [H|H]; [|auto]. unfold quote_plus_byte in H.
  destruct (b =? SPACE); [destruct H as [H|[]]; discriminate|eapply quote_byte_noslash; eauto].
Qed.

(* ---------- base64 ---------- *)
Lemma b64v_b64c n : n < 64 -> b64v (b64c n) = Some n.
Proof.
  intro H. unfold b64v, b64c.
  destruct (n <? 26) eqn:E1.
  { destruct ((65 <=? 65 + n) && (65 + n <=? 90)) eqn:F; [f_equal; lia|lia]. }
  destruct (n <? 52) eqn:E2.
  { destruct ((65 <=? 71 + n) && (71 + n <=? 90)) eqn:F1; [lia|].
    destruct ((97 <=? 71 + n) && (71 + n <=? 122)) eqn:F2; [f_equal; lia|lia]. }
  destruct (n <? 62) eqn:E3.
  { destruct ((65 <=? n - 4) && (n - 4 <=? 90)) eqn:F1; [lia|].
    destruct ((97 <=? n - 4) && (n - 4 <=? 122)) eqn:F2; [lia|].
    destruct ((48 <=? n - 4) && (n - 4 <=? 57)) eqn:F3; [f_equal; lia|lia]. }
  destruct (n =? 62) eqn:E4; [apply N.eqb_eq in E4; subst; reflexivity|].
  assert (n = 63) as -> by lia. reflexivity.
Qed.

Lemma b64c_not n : b64c n <> EQUALS /\ b64c n <> SLASH.
Proof.
  unfold b64c, EQUALS, SLASH.
  destruct (n <? 26) eqn:E1; [lia|]. destruct (n <? 52) eqn:E2; [lia|].
  destruct (n <? 62) eqn:E3; [lia|]. destruct (n =? 62); lia.
Qed.

Lemma b64_noslash bs : ~ In SLASH (b64_encode bs).
Proof.
  induction bs as [| a | a b | a b c r IH] using list_ind3; cbn [b64_encode In]; intro H;
    repeat match goal with
           | H : _ \/ _ |- _ => destruct H as [H|H]
           | H : b64c ?n = SLASH |- _ => exact (proj2 (b64c_not n) H)
           | H : EQUALS = SLASH |- _ => discriminate H
           end; auto.
Qed.

Lemma b64_decode_encode bs : bytes bs -> b64_decode (b64_encode bs) = Ok bs.
Proof.
  unfold b64_decode.
  induction bs as [| a | a b | a b c r IH] using list_ind3; intro Hb.
  - reflexivity.
  - inversion Hb as [|? ? Ha _]; subst. unfold byte in Ha. cbn [b64_encode].
    rewrite !rstrip_cons_ne by apply b64c_not. change [EQUALS; EQUALS] with (repeat EQUALS 2). rewrite rstrip_repeat.
    cbn [b64_decode_raw]. rewrite !b64v_b64c by lia. f_equal. f_equal. lia.
  - inversion Hb as [|? ? Ha Hb']; subst. inversion Hb' as [|? ? Hb2 _]; subst. unfold byte in *.
    cbn [b64_encode]. rewrite !rstrip_cons_ne by apply b64c_not. change [EQUALS] with (repeat EQUALS 1). rewrite rstrip_repeat.
    cbn [b64_decode_raw]. rewrite !b64v_b64c by lia. f_equal. f_equal; [lia|]. f_equal. lia.
  - inversion Hb as [|? ? Ha Hb1]; subst. inversion Hb1 as [|? ? Hb2 Hb3]; subst.
    inversion Hb3 as [|? ? Hc Hr]; subst. unfold byte in *.
    cbn [b64_encode]. rewrite !rstrip_cons_ne by apply b64c_not.
    cbn [b64_decode_raw]. rewrite !b64v_b64c by lia. rewrite (IH Hr). cbn [bind].
    f_equal. f_equal; [lia|]. f_equal; [lia|]. f_equal. lia.
Qed.

(* ---------- split ---------- *)
Lemma split_on_nonempty c s : split_on c s <> [].
Proof. destruct s as [|x r]; cbn [split_on]; [discriminate|]. destruct (x =? c); [discriminate|]. destruct (split_on c r); discriminate. Qed.

Lemma split_on_no c a : ~ In c a -> split_on c a = [a].
Proof.
  induction a as [|x a IH]; intro H; [reflexivity|]. cbn [split_on].
  destruct (x =? c) eqn:E; [apply N.eqb_eq in E; subst; exfalso; apply H; left; reflexivity|].
  rewrite IH; [reflexivity|intro; apply H; right; assumption].
Qed.

Lemma split_on_app c a r : ~ In c a -> split_on c (a ++ c :: r) = a :: split_on c r.
Proof.
  induction a as [|x a IH]; intro H; cbn [app split_on].
  - rewrite N.eqb_refl. reflexivity.
  - destruct (x =? c) eqn:E; [apply N.eqb_eq in E; subst; exfalso; apply H; left; reflexivity|].
    rewrite IH; [reflexivity|intro; apply H; right; assumption].
Qed.

(* ---------- label names and the @base64 suffix ---------- *)
Lemma name_char_facts c : name_char c = true -> c <> AT /\ c <> SLASH.
Proof. unfold name_char, name_start, AT, SLASH. lia. Qed.

Lemma legacy_name_chars k : legacy_name k = true -> ~ In AT k /\ ~ In SLASH k.
Proof.
  destruct k as [|c r]; [discriminate|]. cbn [legacy_name]. intro H.
  apply andb_true_iff in H as [H1 H2].
  assert (forall x, In x (c :: r) -> name_char x = true) as Hall.
  { intros x [<-|Hx]; [unfold name_char; rewrite H1; reflexivity|]. rewrite forallb_forall in H2. auto. }
  split; intro Hin; apply Hall in Hin; apply name_char_facts in Hin; tauto.
Qed.

Lemma strip_b64_suffix k : strip_b64 (k ++ B64SUF) = Some k.
Proof.
  induction k as [|c k IH]; [reflexivity|].
  cbn [app]. unfold strip_b64; fold strip_b64.
  destruct (str_eqb (c :: k ++ B64SUF) B64SUF) eqn:E.
  - apply str_eqb_eq in E. apply (f_equal (@length N)) in E. cbn [length] in E. rewrite app_length in E.
    cbn in E. lia.
  - rewrite IH. reflexivity.
Qed.

Lemma strip_b64_none k : ~ In AT k -> strip_b64 k = None.
Proof.
  induction k as [|c k IH]; intro H; [reflexivity|].
  unfold strip_b64; fold strip_b64.
  destruct (str_eqb (c :: k) B64SUF) eqn:E.
  - apply str_eqb_eq in E. exfalso. apply H. rewrite E. left. reflexivity.
  - rewrite IH; [reflexivity|intro; apply H; right; assumption].
Qed.

Lemma b64suf_noslash k : ~ In SLASH k -> ~ In SLASH (k ++ B64SUF).
Proof.
  intros H Hin. apply in_app_or in Hin as [Hin|Hin]; [auto|].
  unfold B64SUF, SLASH in Hin. cbn [In] in Hin. lia.
Qed.

(* ---------- one component: decode_pair inverts _escape_grouping_key ---------- *)
Section RoundTrip.
  Variable p : bool.                       (* which percent-decoder the gateway uses *)
  Variable q : list N -> str.              (* which quoter the library uses *)
  Variable good : list N -> Prop.          (* byte strings on which that decoder inverts that quoter *)
  Hypothesis q_ok : forall bs, bytes bs -> good bs -> pct_decode p (q bs) = Ok bs /\ ~ In SLASH (q bs).

  Definition okv (kv : str * str) : Prop :=
    legacy_name (fst kv) = true /\ forall bs, utf8 (snd kv) = Ok bs -> good bs.
  Definition noslash (kv : str * str) : Prop := ~ In SLASH (fst kv) /\ ~ In SLASH (snd kv).

  Lemma escape_decode k v k' v' :
    escape_gk_with q k v = Ok (k', v') -> okv (k, v) ->
    exists bs, utf8 v = Ok bs /\ decode_pair p k' v' = Ok (k, bs) /\ noslash (k', v').
  Proof.
    intros H [Hk Hg]. cbn [fst snd] in *. unfold escape_gk_with in H.
    pose proof (legacy_name_chars _ Hk) as [Hat Hsl].
    destruct (is_nil v) eqn:En.
    { destruct v; [|discriminate]. apply Ok_inj in H. injection H as <- <-.
      exists []. split; [reflexivity|]. split.
      - unfold decode_pair. rewrite strip_b64_suffix, Hk. reflexivity.
      - split; cbn [fst snd]; [apply b64suf_noslash; assumption|].
        unfold EQUALS, SLASH. cbn [In]. lia. }
    destruct (mem_char SLASH v) eqn:Em.
    { apply bind_ok in H as (bs & Hbs & H). apply Ok_inj in H. injection H as <- <-.
      exists bs. split; [assumption|]. split.
      - unfold decode_pair. rewrite strip_b64_suffix, Hk.
        rewrite b64_decode_encode by (eapply utf8_bytes; eauto). reflexivity.
      - split; cbn [fst snd]; [apply b64suf_noslash; assumption|apply b64_noslash]. }
    apply bind_ok in H as (bs & Hbs & H). apply Ok_inj in H. injection H as <- <-.
    exists bs. split; [assumption|].
    destruct (q_ok bs (utf8_bytes _ _ Hbs) (Hg _ Hbs)) as [Hd Hns]. split.
    - unfold decode_pair. rewrite (strip_b64_none _ Hat), Hk, Hd. reflexivity.
    - split; assumption.
  Qed.

  Definition comps (el : list (str * str)) : list str := flat_map (fun kv => [fst kv; snd kv]) el.

  Lemma escape_all_decode l el :
    escape_all (escape_gk_with q) l = Ok el -> Forall okv l ->
    exists bl, utf8_values l = Ok bl /\ decode_pairs p (comps el) = Ok bl /\ Forall noslash el.
  Proof.
    revert el. induction l as [|[k v] l IH]; intros el H Hok; cbn [escape_all] in H.
    - apply Ok_inj in H. subst el. exists []. repeat split. constructor.
    - apply bind_ok in H as ([k' v'] & Hkv & H). apply bind_ok in H as (rr & Hrr & H).
      apply Ok_inj in H. subst el. inversion Hok as [|? ? Hkvok Hlok]; subst.
      destruct (escape_decode _ _ _ _ Hkv Hkvok) as (bs & Hbs & Hd & Hns).
      destruct (IH _ Hrr Hlok) as (bl & Hbl & Hdl & Hnsl).
      exists ((k, bs) :: bl). split; [cbn [utf8_values]; rewrite Hbs, Hbl; reflexivity|]. split.
      + cbn [comps flat_map fst snd app]. cbn [decode_pairs]. rewrite Hd. fold (comps rr). rewrite Hdl. reflexivity.
      + constructor; assumption.
  Qed.

  Lemma split_pairs el : forall jk jv, ~ In SLASH jk -> ~ In SLASH jv -> Forall noslash el ->
    split_on SLASH (jk ++ SLASH :: jv ++ segments el) = jk :: jv :: comps el.
  Proof.
    induction el as [|[k v] el IH]; intros jk jv Hk Hv Hel.
    - cbn [segments comps flat_map]. rewrite app_nil_r, split_on_app by assumption.
      rewrite split_on_no by assumption. reflexivity.
    - inversion Hel as [|? ? [Hk' Hv'] Hel']; subst. cbn [fst snd] in *.
      cbn [segments]. rewrite split_on_app by assumption. rewrite split_on_app by assumption.
      rewrite IH by assumption. reflexivity.
  Qed.

  Lemma strip_prefix_app a b : strip_prefix a (a ++ b) = Some b.
  Proof. induction a as [|x a IH]; [reflexivity|]. cbn [app strip_prefix]. rewrite N.eqb_refl. exact IH. Qed.

  Lemma legacy_job : legacy_name JOB = true.
  Proof. reflexivity. Qed.

  (* byte level: the gateway recovers the UTF-8 bytes of the job and of every value, in sorted key order *)
  Lemma roundtrip_bytes base job gk u :
    url_with (escape_gk_with q) base job gk = Ok u ->
    (forall bs, utf8 job = Ok bs -> good bs) -> Forall okv (sort_items gk) ->
    exists jb bl, utf8 job = Ok jb /\ utf8_values (sort_items gk) = Ok bl
                  /\ pg_decode p base u = Ok ((JOB, jb) :: bl).
  Proof.
    intros H Hj Hgk. unfold url_with in H.
    apply bind_ok in H as ([jk jv] & Hjob & H). apply bind_ok in H as (el & Hel & H).
    apply Ok_inj in H. subst u. cbn [fst snd].
    destruct (escape_decode _ _ _ _ Hjob (conj legacy_job Hj)) as (jb & Hjb & Hdj & [Hns1 Hns2]).
    destruct (escape_all_decode _ _ Hel Hgk) as (bl & Hbl & Hdl & Hnsl).
    exists jb, bl. split; [assumption|]. split; [assumption|].
    unfold pg_decode. rewrite app_assoc, strip_prefix_app.
    cbn [fst snd] in *. rewrite split_pairs by assumption.
    cbn [decode_pairs]. rewrite Hdj, Hdl. cbn [bind]. rewrite str_eqb_refl. reflexivity.
  Qed.

  Lemma decode_values_utf8 l bl : utf8_values l = Ok bl -> decode_values bl = Ok l.
  Proof.
    revert bl. induction l as [|[k v] l IH]; intros bl H; cbn [utf8_values] in H.
    - apply Ok_inj in H. subst. reflexivity.
    - apply bind_ok in H as (b & Hb & H). apply bind_ok in H as (rr & Hrr & H). apply Ok_inj in H. subst bl.
      cbn [decode_values]. rewrite (utf8_roundtrip _ _ Hb), (IH _ Hrr). reflexivity.
  Qed.

  (* text level *)
  Lemma roundtrip_text base job gk u :
    url_with (escape_gk_with q) base job gk = Ok u ->
    (forall bs, utf8 job = Ok bs -> good bs) -> Forall okv (sort_items gk) ->
    pg_decode_text p base u = Ok ((JOB, job) :: sort_items gk).
  Proof.
    intros H Hj Hgk. destruct (roundtrip_bytes _ _ _ _ H Hj Hgk) as (jb & bl & Hjb & Hbl & Hd).
    unfold pg_decode_text. rewrite Hd. cbn [bind decode_values].
    rewrite (utf8_roundtrip _ _ Hjb), (decode_values_utf8 _ _ Hbl). reflexivity.
  Qed.
End RoundTrip.

(* ---------- sorted(grouping_key.items()) ---------- *)
Lemma insert_item_perm x l : Permutation (x :: l) (insert_item x l).
Proof.
  induction l as [|y l IH]; cbn [insert_item]; [reflexivity|].
  destruct (str_ltb (fst x) (fst y)); [reflexivity|].
  etransitivity; [apply perm_swap|]. apply perm_skip. exact IH.
Qed.

Lemma sort_items_aux_perm l acc : Permutation (l ++ acc) (sort_items_aux l acc).
Proof.
  revert acc. induction l as [|x l IH]; intro acc; cbn [sort_items_aux app]; [reflexivity|].
  rewrite <- IH. etransitivity; [apply Permutation_middle|]. apply Permutation_app_head. apply insert_item_perm.
Qed.

Lemma sort_items_perm l : Permutation l (sort_items l).
Proof. unfold sort_items. rewrite <- sort_items_aux_perm, app_nil_r. reflexivity. Qed.

Lemma str_ltb_asym a : forall b, str_ltb a b = true -> str_ltb b a = false.
Proof.
  induction a as [|x a IH]; intros [|y b]; cbn [str_ltb]; try discriminate; try reflexivity.
  destruct (x <? y) eqn:E1.
  - intros _. destruct (y <? x) eqn:E2; [lia|]. destruct (y =? x) eqn:E3; [lia|reflexivity].
  - destruct (x =? y) eqn:E2; [|discriminate]. intro H.
    destruct (y <? x) eqn:E3; [lia|]. destruct (y =? x) eqn:E4; [|reflexivity]. apply IH. exact H.
Qed.

Definition key_le_p (a b : str * str) : Prop := key_le a b = true.

Lemma insert_item_sorted x l : Sorted key_le_p l -> Sorted key_le_p (insert_item x l).
Proof.
  induction 1 as [|y l Hs IH Hhd]; cbn [insert_item]; [repeat constructor|].
  destruct (str_ltb (fst x) (fst y)) eqn:E.
  - constructor; [constructor; assumption|]. constructor. unfold key_le_p, key_le.
    rewrite (str_ltb_asym _ _ E). reflexivity.
  - constructor; [exact IH|].
    destruct l as [|z l]; cbn [insert_item].
    + constructor. unfold key_le_p, key_le. rewrite E. reflexivity.
    + destruct (str_ltb (fst x) (fst z)).
      * constructor. unfold key_le_p, key_le. rewrite E. reflexivity.
      * inversion Hhd; subst. constructor. assumption.
Qed.

Lemma sort_items_aux_sorted l acc : Sorted key_le_p acc -> Sorted key_le_p (sort_items_aux l acc).
Proof. revert acc. induction l as [|x l IH]; intros acc H; cbn [sort_items_aux]; [assumption|]. apply IH. apply insert_item_sorted. assumption. Qed.

Lemma sort_items_sorted l : Sorted key_le_p (sort_items l).
Proof. apply sort_items_aux_sorted. constructor. Qed.

Lemma Forall_sort_items (P : str * str -> Prop) l : Forall P l -> Forall P (sort_items l).
Proof. intro H. eapply Permutation_Forall; [apply sort_items_perm|exact H]. Qed.

(* ---------- instances ---------- *)
Definition always (_ : list N) : Prop := True.
Definition nospace (bs : list N) : Prop := ~ In SPACE bs.

Lemma quote_ok p bs : bytes bs -> always bs -> pct_decode p (quote_bytes bs) = Ok bs /\ ~ In SLASH (quote_bytes bs).
Proof. intros H _. split; [apply pct_decode_quote; assumption|apply quote_noslash; assumption]. Qed.

Lemma quote_plus_form_ok bs : bytes bs -> always bs ->
  pct_decode true (quote_plus_bytes bs) = Ok bs /\ ~ In SLASH (quote_plus_bytes bs).
Proof. intros H _. split; [apply pct_decode_quote_plus; auto|apply quote_plus_noslash; assumption]. Qed.

Lemma quote_plus_path_ok bs : bytes bs -> nospace bs ->
  pct_decode false (quote_plus_bytes bs) = Ok bs /\ ~ In SLASH (quote_plus_bytes bs).
Proof. intros H Hn. split; [apply pct_decode_quote_plus; auto|apply quote_plus_noslash; assumption]. Qed.

Definition legacy_keys (gk : list (str * str)) : Prop := Forall (fun kv => legacy_name (fst kv) = true) gk.

Lemma okv_always gk : legacy_keys gk -> Forall (okv always) (sort_items gk).
Proof.
  intro H. apply Forall_sort_items. eapply Forall_impl; [|exact H].
  intros kv Hk. split; [exact Hk|intros; exact I].
Qed.

(* the repaired library, either gateway decoder *)
Lemma roundtrip p base job gk u :
  url_of base job gk = Ok u -> legacy_keys gk ->
  pg_decode_text p base u = Ok ((JOB, job) :: sort_items gk).
Proof.
  intros H Hk. eapply (roundtrip_text p quote_bytes always (quote_ok p)); eauto.
  - intros; exact I.
  - apply okv_always; assumption.
Qed.

Lemma roundtrip_b p base job gk u :
  url_of base job gk = Ok u -> legacy_keys gk ->
  exists jb bl, utf8 job = Ok jb /\ utf8_values (sort_items gk) = Ok bl /\ pg_decode p base u = Ok ((JOB, jb) :: bl).
Proof.
  intros H Hk. eapply (roundtrip_bytes p quote_bytes always (quote_ok p)); eauto.
  - intros; exact I.
  - apply okv_always; assumption.
Qed.

(* the pinned source, form-style decoder *)
Lemma roundtrip_form_orig base job gk u :
  url_of_orig base job gk = Ok u -> legacy_keys gk ->
  pg_decode_form base u = Ok ((JOB, job) :: sort_items gk).
Proof.
  intros H Hk. eapply (roundtrip_text true quote_plus_bytes always quote_plus_form_ok); eauto.
  - intros; exact I.
  - apply okv_always; assumption.
Qed.

(* the pinned source, path-style decoder: only without spaces *)
Lemma roundtrip_path_orig base job gk u :
  url_of_orig base job gk = Ok u -> legacy_keys gk ->
  ~ In SPACE job -> Forall (fun kv => ~ In SPACE (snd kv)) gk ->
  pg_decode_path base u = Ok ((JOB, job) :: sort_items gk).
Proof.
  intros H Hk Hj Hv. eapply (roundtrip_text false quote_plus_bytes nospace quote_plus_path_ok); eauto.
  - intros bs Hbs Hin. apply Hj. eapply utf8_ascii_in; eauto. unfold SPACE. lia.
  - apply Forall_sort_items. unfold legacy_keys in Hk. rewrite Forall_forall in *.
    intros kv Hin. split; [auto|]. intros bs Hbs Hsp. apply (Hv _ Hin). eapply utf8_ascii_in; eauto.
    unfold SPACE. lia.
Qed.

Lemma roundtrip_path_orig_refuted :
  exists base job u, url_of_orig base job [] = Ok u /\ ~ In SPACE u
    /\ pg_decode_path base u = Ok [(JOB, s2l "a+b")] /\ job = s2l "a b"
    /\ pg_decode_path base u <> Ok [(JOB, job)].
Proof.
  exists (s2l "http://h:9091"), (s2l "a b"), (s2l "http://h:9091/metrics/job/a+b").
  split; [vm_compute; reflexivity|]. split; [vm_compute; intuition discriminate|].
  split; [vm_compute; reflexivity|]. split; [reflexivity|]. vm_compute. discriminate.
Qed.

(* injectivity *)
Lemma injective base j1 g1 j2 g2 u :
  url_of base j1 g1 = Ok u -> url_of base j2 g2 = Ok u -> legacy_keys g1 -> legacy_keys g2 ->
  j1 = j2 /\ sort_items g1 = sort_items g2 /\ Permutation g1 g2.
Proof.
  intros H1 H2 K1 K2.
  pose proof (roundtrip false _ _ _ _ H1 K1) as D1. pose proof (roundtrip false _ _ _ _ H2 K2) as D2.
  rewrite D1 in D2. apply Ok_inj in D2. injection D2 as Hj Hg.
  split; [assumption|]. split; [assumption|].
  etransitivity; [apply sort_items_perm|]. rewrite Hg. symmetry. apply sort_items_perm.
Qed.

(* the encoder never fails on Unicode text, and fails only with ValueError otherwise *)
Lemma escape_total q k v : encodable v -> exists kv, escape_gk_with q k v = Ok kv.
Proof.
  intro H. apply utf8_total in H as [bs Hbs]. unfold escape_gk_with.
  destruct (is_nil v); [eauto|]. rewrite Hbs. destruct (mem_char SLASH v); cbn; eauto.
Qed.

Lemma escape_all_total q l : Forall (fun kv => encodable (snd kv)) l -> exists el, escape_all (escape_gk_with q) l = Ok el.
Proof.
  induction 1 as [|[k v] l Hv _ [el IH]]; cbn [escape_all]; [eauto|].
  destruct (escape_total q k v Hv) as [kv Hkv]. rewrite Hkv, IH. cbn. eauto.
Qed.

Lemma url_total q base job gk : encodable job -> Forall (fun kv => encodable (snd kv)) gk ->
  exists u, url_with (escape_gk_with q) base job gk = Ok u.
Proof.
  intros Hj Hg. unfold url_with. destruct (escape_total q JOB job Hj) as [j Hjj]. rewrite Hjj.
  destruct (escape_all_total q (sort_items gk)) as [el Hel]; [apply Forall_sort_items; assumption|].
  rewrite Hel. cbn. eauto.
Qed.

Lemma escape_only_VE q k v : only_VE (escape_gk_with q k v).
Proof.
  unfold escape_gk_with. destruct (is_nil v); [exact I|].
  pose proof (utf8_only_VE v) as H. destruct (mem_char SLASH v); destruct (utf8 v); cbn in *; auto.
Qed.

Lemma url_only_VE q base job gk : only_VE (url_with (escape_gk_with q) base job gk).
Proof.
  unfold url_with. pose proof (escape_only_VE q JOB job) as Hj.
  destruct (escape_gk_with q JOB job); cbn in *; [|assumption].
  assert (only_VE (escape_all (escape_gk_with q) (sort_items gk))) as Ha.
  { induction (sort_items gk) as [|[k v] l IH]; cbn [escape_all]; [exact I|].
    pose proof (escape_only_VE q k v) as Hk. destruct (escape_gk_with q k v); cbn in *; [|assumption].
    destruct (escape_all (escape_gk_with q) l); cbn in *; auto. }
  destruct (escape_all (escape_gk_with q) (sort_items gk)); cbn in *; auto.
Qed.

(* ---------- gateway spellings ---------- *)
Definition HTTPS_PREFIX : str := s2l "https://".

Lemma gateway_spelling g n :
  g <> [] -> rstrip SLASH g = g ->
  gateway_base false (g ++ repeat SLASH n) = HTTP_PREFIX ++ g
  /\ gateway_base true (HTTP_PREFIX ++ g ++ repeat SLASH n) = HTTP_PREFIX ++ g
  /\ gateway_base true (HTTPS_PREFIX ++ g ++ repeat SLASH n) = HTTPS_PREFIX ++ g.
Proof.
  intros Hn Hs. unfold gateway_base. repeat split.
  - rewrite app_assoc, rstrip_app_repeat. apply rstrip_app_fixed; assumption.
  - rewrite app_assoc, rstrip_app_repeat. apply rstrip_app_fixed; assumption.
  - rewrite app_assoc, rstrip_app_repeat. apply rstrip_app_fixed; assumption.
Qed.

Lemma gateway_no_double_slash hs gw p : gateway_base hs gw <> p ++ [SLASH].
Proof. unfold gateway_base. apply rstrip_no_trailing. Qed.

(* ---------- method, body, headers, timeout ---------- *)
Lemma request_shape {T} a hs gw job gk expo (t : T) r :
  request_of a hs gw job gk expo t = Ok r ->
  url_of (gateway_base hs gw) job gk = Ok (rq_url r)
  /\ rq_method r = match a with Push => s2l "PUT" | PushAdd => s2l "POST" | Delete => s2l "DELETE" end
  /\ rq_body r = match a with Delete => [] | _ => expo end
  /\ rq_headers r = [(s2l "Content-Type", s2l "text/plain; version=0.0.4; charset=utf-8")]
  /\ rq_timeout r = t.
Proof.
  unfold request_of, request_with. intro H. apply bind_ok in H as (u & Hu & H). apply Ok_inj in H. subst r.
  cbn [rq_url rq_method rq_body rq_headers rq_timeout]. split; [exact Hu|]. destruct a; repeat split.
Qed.

Lemma request_total {T} a hs gw job gk expo (t : T) :
  encodable job -> Forall (fun kv => encodable (snd kv)) gk -> exists r, request_of a hs gw job gk expo t = Ok r.
Proof.
  intros Hj Hg. unfold request_of, request_with, escape_gk.
  destruct (url_total quote_bytes (gateway_base hs gw) job gk Hj Hg) as [u Hu]. rewrite Hu. cbn. eauto.
Qed.

(* ---------- the handler is given exactly one request, whatever the exposition (the empty one included) ---------- *)
Lemma calls_exactly_one {T} a hs gw job gk expo (t : T) l :
  calls_of a hs gw job gk expo t = Ok l <-> exists r, request_of a hs gw job gk expo t = Ok r /\ l = [r].
Proof.
  unfold calls_of, calls_with, request_of. split.
  - intro H. apply bind_ok in H as (r & Hr & H). apply Ok_inj in H. exists r. split; [exact Hr|symmetry; exact H].
  - intros (r & Hr & ->). rewrite Hr. reflexivity.
Qed.

Lemma calls_total {T} a hs gw job gk expo (t : T) :
  encodable job -> Forall (fun kv => encodable (snd kv)) gk ->
  exists r, calls_of a hs gw job gk expo t = Ok [r]
    /\ url_of (gateway_base hs gw) job gk = Ok (rq_url r)
    /\ rq_method r = match a with Push => s2l "PUT" | PushAdd => s2l "POST" | Delete => s2l "DELETE" end
    /\ rq_body r = match a with Delete => [] | _ => expo end
    /\ rq_headers r = [(s2l "Content-Type", s2l "text/plain; version=0.0.4; charset=utf-8")]
    /\ rq_timeout r = t.
Proof.
  intros Hj Hg. destruct (request_total a hs gw job gk expo t Hj Hg) as [r Hr]. exists r. split.
  - apply calls_exactly_one. exists r. split; [exact Hr|reflexivity].
  - exact (request_shape a hs gw job gk expo t r Hr).
Qed.

(* an empty exposition changes nothing but the body: same URL, method, headers and timeout as for any other one *)
Lemma calls_body_only {T} a hs gw job gk e1 e2 (t : T) r1 :
  calls_of a hs gw job gk e1 t = Ok [r1] ->
  exists r2, calls_of a hs gw job gk e2 t = Ok [r2]
    /\ rq_url r2 = rq_url r1 /\ rq_method r2 = rq_method r1 /\ rq_headers r2 = rq_headers r1
    /\ rq_timeout r2 = rq_timeout r1.
Proof.
  unfold calls_of, calls_with, request_with. intro H. apply bind_ok in H as (r & Hr & H).
  apply bind_ok in Hr as (u & Hu & Hr). apply Ok_inj in Hr. apply Ok_inj in H. injection H as H. subst r1 r.
  rewrite Hu. cbn. eexists. split; [reflexivity|]. cbn. repeat split.
Qed.

(* the calls fail with ValueError only (an un-encodable job or value), and then no request at all is made *)
Lemma calls_only_VE {T} a hs gw job gk expo (t : T) : only_VE (calls_of a hs gw job gk expo t).
Proof.
  unfold calls_of, calls_with, request_with.
  pose proof (url_only_VE quote_bytes (gateway_base hs gw) job gk) as H. fold escape_gk in H.
  destruct (url_with escape_gk (gateway_base hs gw) job gk) as [u|e]; cbn in *; [exact I|exact H].
Qed.

(* ---------- successive calls in one process: every call is the call made alone ---------- *)
Lemma heap_read_alloc h l : heap_read (fst (heap_alloc h l)) (snd (heap_alloc h l)) = l.
Proof.
  unfold heap_alloc, heap_read. cbn [fst snd]. rewrite app_nth2 by apply Nat.le_refl. rewrite Nat.sub_diag. reflexivity.
Qed.

Lemma heap_write_length h : forall a l, length (heap_write h a l) = length h.
Proof. induction h as [|x r IH]; intros [|a] l; cbn; try reflexivity; rewrite IH; reflexivity. Qed.

Lemma heap_write_other h : forall a l b, b <> a -> heap_read (heap_write h a l) b = heap_read h b.
Proof.
  unfold heap_read. induction h as [|x r IH]; intros [|a] l [|b] Hne; cbn; try reflexivity.
  - congruence.
  - apply IH. congruence.
Qed.

Lemma heap_read_app_old (h : heap) l b : (b < length h)%nat -> heap_read (h ++ [l]) b = heap_read h b.
Proof. intro Hb. unfold heap_read. apply app_nth1. exact Hb. Qed.

Section ProcessProofs.
  Variable esc : str -> str -> res (str * str).

  (* what a call shows does not depend on the heap it runs in, i.e. on anything an earlier call or handler did *)
  Lemma call_in_obs {T} (h : heap) (c : call T) : fst (call_in_with esc h c) = call_alone_with esc c.
  Proof.
    unfold call_in_with, call_alone_with, calls_with.
    destruct (request_with esc (c_api c) (c_hs c) (c_gw c) (c_job c) (c_gk c) (c_expo c) (c_timeout c)) as [r|e];
      cbn [fst bind]; [|reflexivity].
    rewrite heap_read_alloc. destruct r; reflexivity.
  Qed.

  Lemma seq_in_obs {T} (cs : list (call T)) : forall h, fst (seq_in_with esc h cs) = map (call_alone_with esc) cs.
  Proof.
    induction cs as [|c r IH]; intro h; cbn [seq_in_with fst map]; [reflexivity|].
    rewrite call_in_obs, IH. reflexivity.
  Qed.

  (* a call only ever grows the heap, and leaves every object that was there before as it was *)
  Lemma call_in_heap {T} (h : heap) (c : call T) :
    (length h <= length (snd (call_in_with esc h c)))%nat
    /\ forall b, (b < length h)%nat -> heap_read (snd (call_in_with esc h c)) b = heap_read h b.
  Proof.
    unfold call_in_with.
    destruct (request_with esc (c_api c) (c_hs c) (c_gw c) (c_job c) (c_gk c) (c_expo c) (c_timeout c)) as [r|e];
      cbn [snd]; [|split; [apply Nat.le_refl|reflexivity]].
    unfold heap_alloc. cbn [fst snd]. split.
    - rewrite heap_write_length, app_length. cbn. lia.
    - intros b Hb. rewrite heap_write_other by lia. apply heap_read_app_old. exact Hb.
  Qed.

  Lemma seq_in_heap {T} (cs : list (call T)) : forall h,
    (length h <= length (snd (seq_in_with esc h cs)))%nat
    /\ forall b, (b < length h)%nat -> heap_read (snd (seq_in_with esc h cs)) b = heap_read h b.
  Proof.
    induction cs as [|c r IH]; intro h; cbn [seq_in_with snd]; [split; [apply Nat.le_refl|reflexivity]|].
    destruct (call_in_heap h c) as [L1 K1]. destruct (IH (snd (call_in_with esc h c))) as [L2 K2]. split.
    - lia.
    - intros b Hb. rewrite K2 by lia. apply K1. exact Hb.
  Qed.
End ProcessProofs.

Lemma seq_independent {T} (h : heap) (cs : list (call T)) : fst (seq_in h cs) = map call_alone cs.
Proof. apply seq_in_obs. Qed.

Lemma seq_fresh {T} (cs : list (call T)) : calls_seq cs = map call_alone cs.
Proof. apply seq_in_obs. Qed.

Lemma seq_nth {T} (h : heap) (pre : list (call T)) c post :
  nth_error (fst (seq_in h (pre ++ c :: post))) (length pre) = Some (call_alone c).
Proof.
  rewrite seq_independent, map_app. cbn [map].
  rewrite nth_error_app2 by (rewrite map_length; apply Nat.le_refl). rewrite map_length, Nat.sub_diag. reflexivity.
Qed.

Lemma seq_nth_request {T} (h : heap) (pre : list (call T)) c post :
  encodable (c_job c) -> Forall (fun kv => encodable (snd kv)) (c_gk c) ->
  exists r, nth_error (fst (seq_in h (pre ++ c :: post))) (length pre) = Some (Ok [r])
    /\ url_of (gateway_base (c_hs c) (c_gw c)) (c_job c) (c_gk c) = Ok (rq_url r)
    /\ rq_method r = match c_api c with Push => s2l "PUT" | PushAdd => s2l "POST" | Delete => s2l "DELETE" end
    /\ rq_body r = match c_api c with Delete => [] | _ => c_expo c end
    /\ rq_headers r = [(s2l "Content-Type", s2l "text/plain; version=0.0.4; charset=utf-8")]
    /\ rq_timeout r = c_timeout c.
Proof.
  intros Hj Hg.
  destruct (calls_total (c_api c) (c_hs c) (c_gw c) (c_job c) (c_gk c) (c_expo c) (c_timeout c) Hj Hg) as (r & Hr & Hs).
  exists r. split; [|exact Hs]. rewrite seq_nth. unfold call_alone, call_alone_with. f_equal. exact Hr.
Qed.

Lemma seq_heap_untouched {T} (h : heap) (cs : list (call T)) b :
  (b < length h)%nat -> heap_read (snd (seq_in h cs)) b = heap_read h b.
Proof. intro Hb. apply (proj2 (seq_in_heap escape_gk cs h)). exact Hb. Qed.

(* the same for the pinned source *)
Lemma seq_independent_orig {T} (h : heap) (cs : list (call T)) : fst (seq_in_orig h cs) = map call_alone_orig cs.
Proof. apply seq_in_obs. Qed.

Lemma sort_items_sorted_lt gk : Sorted (fun a b => str_ltb (fst b) (fst a) = false) (sort_items gk).
Proof.
  pose proof (sort_items_sorted gk) as H. induction H as [|a l _ IH Hd]; constructor; [exact IH|].
  destruct Hd as [|b l Hab]; constructor. unfold key_le_p, key_le in Hab. apply negb_true_iff in Hab. exact Hab.
Qed.

(* ====================================================================================================
   The Go-order decoder (un-escape the whole path, then split)
   ==================================================================================================== *)
Lemma pct_decode_app_len p n : forall a x b, (length a <= n)%nat -> pct_decode p a = Ok x ->
  pct_decode p (a ++ b) = do y <- pct_decode p b; Ok (x ++ y).
Proof.
  induction n as [|n IH]; intros a x b Hlen H.
  - destruct a; [|cbn in Hlen; lia]. apply Ok_inj in H. subst x. cbn [app]. destruct (pct_decode p b); reflexivity.
  - destruct a as [|c r]; [apply Ok_inj in H; subst x; cbn [app]; destruct (pct_decode p b); reflexivity|].
    cbn [length] in Hlen. cbn [app]. cbn [pct_decode] in *.
    destruct (c =? PERCENT).
    + destruct r as [|h [|l r']]; try discriminate. cbn [app].
      destruct (hexval h); [|discriminate]. destruct (hexval l); [|discriminate].
      apply bind_ok in H as (t & Ht & H). apply Ok_inj in H. subst x.
      rewrite (IH r' t b) by (cbn [length] in Hlen; try lia; assumption).
      destruct (pct_decode p b); reflexivity.
    + destruct (p && (c =? PLUS)).
      * apply bind_ok in H as (t & Ht & H). apply Ok_inj in H. subst x.
        rewrite (IH r t b) by (try lia; assumption). destruct (pct_decode p b); reflexivity.
      * apply bind_ok in H as (t & Ht & H). apply Ok_inj in H. subst x.
        rewrite (IH r t b) by (try lia; assumption). destruct (pct_decode p b); reflexivity.
Qed.

Lemma pct_decode_app p a x b : pct_decode p a = Ok x ->
  pct_decode p (a ++ b) = do y <- pct_decode p b; Ok (x ++ y).
Proof. apply (pct_decode_app_len p (length a)). apply Nat.le_refl. Qed.

Lemma pct_decode_id a : ~ In PERCENT a -> pct_decode false a = Ok a.
Proof.
  induction a as [|c a IH]; intro H; [reflexivity|].
  rewrite pct_decode_plain; [|intro; subst; apply H; left; reflexivity|left; reflexivity].
  rewrite IH; [reflexivity|intro; apply H; right; assumption].
Qed.

Lemma name_char_not_pct c : name_char c = true -> c <> PERCENT.
Proof. unfold name_char, name_start, PERCENT. lia. Qed.

Lemma legacy_name_nopct k : legacy_name k = true -> ~ In PERCENT k.
Proof.
  destruct k as [|c r]; [discriminate|]. cbn [legacy_name]. intro H.
  apply andb_true_iff in H as [H1 H2]. intros [E|Hin].
  - subst c. vm_compute in H1. discriminate.
  - rewrite forallb_forall in H2. apply H2 in Hin. apply name_char_not_pct in Hin. auto.
Qed.

Lemma b64suf_nopct k : ~ In PERCENT k -> ~ In PERCENT (k ++ B64SUF).
Proof.
  intros H Hin. apply in_app_or in Hin as [Hin|Hin]; [auto|].
  unfold B64SUF, PERCENT in Hin. cbn [In] in Hin. lia.
Qed.

Lemma b64c_not_pct n : b64c n <> PERCENT.
Proof.
  unfold b64c, PERCENT.
  destruct (n <? 26) eqn:E1; [lia|]. destruct (n <? 52) eqn:E2; [lia|].
  destruct (n <? 62) eqn:E3; [lia|]. destruct (n =? 62); lia.
Qed.

Lemma b64_nopct bs : ~ In PERCENT (b64_encode bs).
Proof.
  induction bs as [| a | a b | a b c r IH] using list_ind3; cbn [b64_encode In]; intro H;
    repeat match goal with
           | H : _ \/ _ |- _ => destruct H as [H|H]
           | H : b64c ?n = PERCENT |- _ => exact (b64c_not_pct n H)
           | H : EQUALS = PERCENT |- _ => discriminate H
           end; auto.
Qed.

Lemma b64_encode_nonempty bs : bs <> [] -> b64_encode bs <> [].
Proof. destruct bs as [|a [|b [|c r]]]; cbn [b64_encode]; intros H; [contradiction| | |]; discriminate. Qed.

Lemma utf8_nonempty v bs : utf8 v = Ok bs -> v <> [] -> bs <> [].
Proof.
  destruct v as [|c v]; [contradiction|]. intros H _. cbn [utf8] in H.
  apply bind_ok in H as (b & Hb & H). apply bind_ok in H as (br & _ & H). apply Ok_inj in H. subst bs.
  revert Hb. unfold utf8_char.
  repeat match goal with |- context [if ?c then _ else _] => destruct c end;
    intro Hb; try discriminate; apply Ok_inj in Hb; subst b; discriminate.
Qed.

Lemma mem_char_false_notin c s : mem_char c s = false -> ~ In c s.
Proof.
  induction s as [|x s IH]; cbn [mem_char]; intros H Hin; [assumption|].
  apply orb_false_iff in H as [H1 H2]. destruct Hin as [<-|Hin]; [rewrite N.eqb_refl in H1; discriminate|].
  exact (IH H2 Hin).
Qed.

(* what one escaped component looks like after the whole-path un-escaping *)
Lemma escape_go k v k' v' :
  escape_gk k v = Ok (k', v') -> legacy_name k = true ->
  exists bs raw, utf8 v = Ok bs /\ pct_decode false k' = Ok k' /\ pct_decode false v' = Ok raw
    /\ decode_pair_go k' raw = Ok (k, bs) /\ ~ In SLASH k' /\ ~ In SLASH raw.
Proof.
  intros H Hk. unfold escape_gk, escape_gk_with in H.
  pose proof (legacy_name_chars _ Hk) as [Hat Hsl]. pose proof (legacy_name_nopct _ Hk) as Hpc.
  destruct (is_nil v) eqn:En.
  { destruct v; [|discriminate]. apply Ok_inj in H. injection H as <- <-.
    exists [], [EQUALS]. split; [reflexivity|].
    split; [apply pct_decode_id, b64suf_nopct; assumption|]. split; [reflexivity|]. split.
    - unfold decode_pair_go. cbn [is_nil]. rewrite strip_b64_suffix, Hk. reflexivity.
    - split; [apply b64suf_noslash; assumption|]. unfold EQUALS, SLASH. cbn [In]. lia. }
  assert (v <> []) as Hvn by (destruct v; [discriminate|discriminate]).
  destruct (mem_char SLASH v) eqn:Em.
  { apply bind_ok in H as (bs & Hbs & H). apply Ok_inj in H. injection H as <- <-.
    exists bs, (b64_encode bs). split; [assumption|].
    split; [apply pct_decode_id, b64suf_nopct; assumption|].
    split; [apply pct_decode_id, b64_nopct|]. split.
    - unfold decode_pair_go.
      pose proof (b64_encode_nonempty bs (utf8_nonempty _ _ Hbs Hvn)) as Hne.
      destruct (b64_encode bs) eqn:Eb; [contradiction|]. cbn [is_nil]. rewrite <- Eb.
      rewrite strip_b64_suffix, Hk. rewrite b64_decode_encode by (eapply utf8_bytes; eauto). reflexivity.
    - split; [apply b64suf_noslash; assumption|apply b64_noslash]. }
  apply bind_ok in H as (bs & Hbs & H). apply Ok_inj in H. injection H as <- <-.
  exists bs, bs. split; [assumption|].
  split; [apply pct_decode_id; assumption|].
  split; [apply pct_decode_quote; eapply utf8_bytes; eauto|].
  assert (~ In SLASH bs) as Hnsl.
  { intro Hin. apply (mem_char_false_notin _ _ Em). eapply utf8_ascii_in; eauto. unfold SLASH. lia. }
  split; [|split; assumption].
  unfold decode_pair_go. pose proof (utf8_nonempty _ _ Hbs Hvn) as Hne.
  destruct bs as [|b0 bs']; [contradiction|]. cbn [is_nil].
  rewrite (strip_b64_none _ Hat), Hk. reflexivity.
Qed.

Lemma escape_all_go l el :
  escape_all escape_gk l = Ok el -> legacy_keys l ->
  exists bl rl, utf8_values l = Ok bl /\ pct_decode false (segments el) = Ok (segments rl)
    /\ decode_pairs_go (comps rl) = Ok bl /\ Forall noslash rl.
Proof.
  revert el. induction l as [|[k v] l IH]; intros el H Hok; cbn [escape_all] in H.
  - apply Ok_inj in H. subst el. exists [], []. repeat split. constructor.
  - apply bind_ok in H as ([k' v'] & Hkv & H). apply bind_ok in H as (rr & Hrr & H).
    apply Ok_inj in H. subst el. inversion Hok as [|? ? Hkok Hlok]; subst. cbn [fst] in Hkok.
    destruct (escape_go _ _ _ _ Hkv Hkok) as (bs & raw & Hbs & Hdk & Hdv & Hd & Hns1 & Hns2).
    destruct (IH _ Hrr Hlok) as (bl & rl & Hbl & Hseg & Hdl & Hnsl).
    exists ((k, bs) :: bl), ((k', raw) :: rl).
    split; [cbn [utf8_values]; rewrite Hbs, Hbl; reflexivity|]. split; [|split].
    + cbn [segments].
      rewrite (pct_decode_plain false SLASH) by (first [discriminate | left; reflexivity]).
      rewrite (pct_decode_app false k' k' _ Hdk).
      rewrite (pct_decode_plain false SLASH) by (first [discriminate | left; reflexivity]).
      rewrite (pct_decode_app false v' raw _ Hdv). rewrite Hseg. reflexivity.
    + cbn [comps flat_map fst snd app]. cbn [decode_pairs_go]. rewrite Hd. fold (comps rl). rewrite Hdl. reflexivity.
    + constructor; [split; assumption|assumption].
Qed.

Lemma metrics_nopct : pct_decode false METRICS = Ok METRICS.
Proof. reflexivity. Qed.

Lemma roundtrip_go base job gk u :
  url_of base job gk = Ok u -> legacy_keys gk ->
  exists jb bl, utf8 job = Ok jb /\ utf8_values (sort_items gk) = Ok bl
                /\ pg_decode_go base u = Ok ((JOB, jb) :: bl).
Proof.
  intros H Hk. unfold url_of, url_with in H.
  apply bind_ok in H as ([jk jv] & Hjob & H). apply bind_ok in H as (el & Hel & H).
  apply Ok_inj in H. subst u. cbn [fst snd].
  destruct (escape_go _ _ _ _ Hjob (legacy_job)) as (jb & jraw & Hjb & Hdk & Hdv & Hdj & Hns1 & Hns2).
  destruct (escape_all_go _ _ Hel (Forall_sort_items _ _ Hk)) as (bl & rl & Hbl & Hseg & Hdl & Hnsl).
  exists jb, bl. split; [assumption|]. split; [assumption|].
  unfold pg_decode_go. rewrite strip_prefix_app.
  rewrite (pct_decode_app false METRICS METRICS _ metrics_nopct).
  rewrite (pct_decode_app false jk jk _ Hdk).
  rewrite (pct_decode_plain false SLASH) by (first [discriminate | left; reflexivity]).
  rewrite (pct_decode_app false jv jraw _ Hdv). rewrite Hseg. cbn [bind].
  rewrite strip_prefix_app. rewrite (split_pairs rl jk jraw Hns1 Hns2 Hnsl).
  cbn [decode_pairs_go]. rewrite Hdj, Hdl. cbn [bind]. rewrite str_eqb_refl. reflexivity.
Qed.
(* ---------- str_ltb is a strict total order; the sorted permutation is unique ---------- *)
Lemma str_ltb_irrefl a : str_ltb a a = false.
Proof. induction a as [|x a IH]; cbn [str_ltb]; [reflexivity|]. rewrite N.ltb_irrefl, N.eqb_refl. exact IH. Qed.

Lemma str_ltb_antisym a : forall b, str_ltb a b = false -> str_ltb b a = false -> a = b.
Proof.
  induction a as [|x a IH]; intros [|y b]; cbn [str_ltb]; try discriminate; try reflexivity.
  destruct (x <? y) eqn:E1; [discriminate|]. destruct (y <? x) eqn:E2; [destruct (x =? y); discriminate|].
  assert (x = y) as -> by lia. rewrite N.eqb_refl. intros H1 H2. f_equal. apply IH; assumption.
Qed.

Lemma str_ltb_trans a : forall b c, str_ltb a b = true -> str_ltb b c = true -> str_ltb a c = true.
Proof.
  induction a as [|x a IH]; intros [|y b] [|z c]; cbn [str_ltb]; try discriminate; try reflexivity.
  destruct (x <? y) eqn:E1.
  - intros _. destruct (y <? z) eqn:E2.
    + intros _. destruct (x <? z) eqn:E3; [reflexivity|lia].
    + destruct (y =? z) eqn:E3; [|discriminate]. intros _. destruct (x <? z) eqn:E4; [reflexivity|lia].
  - destruct (x =? y) eqn:E2; [|discriminate]. assert (x = y) as -> by lia. intro H1.
    destruct (y <? z) eqn:E3; [reflexivity|]. destruct (y =? z) eqn:E4; [|discriminate].
    intro H2. eapply IH; eauto.
Qed.

Definition kle (a b : str * str) : Prop := str_ltb (fst b) (fst a) = false.

Lemma kle_trans a b c : kle a b -> kle b c -> kle a c.
Proof.
  unfold kle. intros H1 H2. destruct (str_ltb (fst c) (fst a)) eqn:E; [|reflexivity].
  (* c < a, not b < a, so c < b or ... : use trichotomy *)
  destruct (str_ltb (fst a) (fst b)) eqn:E2.
  - rewrite (str_ltb_trans _ _ _ E E2) in H2. discriminate.
  - assert (fst a = fst b) as Hab by (apply str_ltb_antisym; assumption). rewrite Hab in E. congruence.
Qed.

Lemma nodup_keys_eq (l : list (str * str)) a b :
  NoDup (map fst l) -> In a l -> In b l -> fst a = fst b -> a = b.
Proof.
  induction l as [|x l IH]; intros Hnd Ha Hb E; [contradiction|].
  cbn [map] in Hnd. inversion Hnd as [|? ? Hnin Hnd']; subst.
  destruct Ha as [<-|Ha], Hb as [<-|Hb]; auto.
  - exfalso. apply Hnin. rewrite E. apply in_map. assumption.
  - exfalso. apply Hnin. rewrite <- E. apply in_map. assumption.
Qed.

Lemma sorted_perm_unique l1 : forall l2,
  NoDup (map fst l1) -> Permutation l1 l2 -> Sorted kle l1 -> Sorted kle l2 -> l1 = l2.
Proof.
  induction l1 as [|a l1 IH]; intros l2 Hnd Hp H1 H2.
  - apply Permutation_nil in Hp. auto.
  - destruct l2 as [|b l2]; [apply Permutation_sym, Permutation_nil in Hp; discriminate|].
    assert (Transitive kle) as Htr by (intros x y z; apply kle_trans).
    apply Sorted_StronglySorted in H1; [|assumption]. apply Sorted_StronglySorted in H2; [|assumption].
    inversion H1 as [|? ? Hs1 Hall1]; subst. inversion H2 as [|? ? Hs2 Hall2]; subst.
    assert (a = b) as ->.
    { assert (In a (b :: l2)) as Ha by (eapply Permutation_in; [exact Hp|left; reflexivity]).
      assert (In b (a :: l1)) as Hb by (eapply Permutation_in; [symmetry; exact Hp|left; reflexivity]).
      destruct Ha as [->|Ha]; [reflexivity|]. destruct Hb as [->|Hb]; [reflexivity|].
      rewrite Forall_forall in Hall1, Hall2. pose proof (Hall1 _ Hb) as L1. pose proof (Hall2 _ Ha) as L2.
      unfold kle in L1, L2.
      apply (nodup_keys_eq (a :: l1)); [assumption|left; reflexivity|right; assumption|].
      apply str_ltb_antisym; assumption. }
    f_equal. apply IH.
    + cbn [map] in Hnd. inversion Hnd; assumption.
    + eapply Permutation_cons_inv; eauto.
    + apply StronglySorted_Sorted; assumption.
    + apply StronglySorted_Sorted; assumption.
Qed.

(* any sorting of a dict's items by key (Python's sorted, whatever its algorithm) equals sort_items *)
Lemma sort_items_unique gk l :
  NoDup (map fst gk) -> Permutation gk l -> Sorted (fun a b => str_ltb (fst b) (fst a) = false) l -> l = sort_items gk.
Proof.
  intros Hnd Hp Hs. symmetry. apply sorted_perm_unique.
  - eapply Permutation_NoDup; [apply Permutation_map; apply sort_items_perm|assumption].
  - etransitivity; [symmetry; apply sort_items_perm|assumption].
  - apply sort_items_sorted_lt.
  - exact Hs.
Qed.

(* ---------- the request path is made of characters that may stand raw in an HTTP request path ---------- *)
Lemma path_ok_app a b : path_ok a -> path_ok b -> path_ok (a ++ b).
Proof. intros; apply Forall_app; split; assumption. Qed.

Lemma hexdig_path n : n < 16 -> path_char (hexdig n) = true.
Proof. intro H. pose proof (hexdig_range n H). unfold path_char, unreserved, SLASH, PERCENT, EQUALS, AT. lia. Qed.

Lemma quote_path bs : bytes bs -> path_ok (quote_bytes bs).
Proof.
  unfold quote_bytes. induction 1 as [|b bs Hb _ IH]; [constructor|]. cbn [flat_map]. apply path_ok_app; [|exact IH].
  unfold quote_byte. unfold byte in Hb. destruct (unreserved b) eqn:E.
  - constructor; [unfold path_char; rewrite E; reflexivity|constructor].
  - repeat (apply Forall_cons; [first [reflexivity | apply hexdig_path; lia]|]). constructor.
Qed.

Lemma b64c_path n : path_char (b64c n) = true.
Proof.
  unfold path_char, unreserved, b64c, SLASH, PERCENT, EQUALS, AT.
  destruct (n <? 26) eqn:E1; [lia|]. destruct (n <? 52) eqn:E2; [lia|].
  destruct (n <? 62) eqn:E3; [lia|]. destruct (n =? 62); lia.
Qed.

Lemma b64_path bs : path_ok (b64_encode bs).
Proof.
  induction bs as [| a | a b | a b c r IH] using list_ind3; cbn [b64_encode];
    repeat (apply Forall_cons; [first [apply b64c_path | reflexivity]|]); first [constructor | exact IH].
Qed.

Lemma legacy_path k : legacy_name k = true -> path_ok k.
Proof.
  destruct k as [|c r]; [discriminate|]. cbn [legacy_name]. intro H. apply andb_true_iff in H as [H1 H2].
  assert (forall x, name_char x = true -> path_char x = true) as Hnc.
  { intro x. unfold name_char, name_start, path_char, unreserved, SLASH, PERCENT, EQUALS, AT. lia. }
  constructor; [apply Hnc; unfold name_char; rewrite H1; reflexivity|].
  apply Forall_forall. intros x Hx. apply Hnc. rewrite forallb_forall in H2. auto.
Qed.

Lemma b64suf_path : path_ok B64SUF.
Proof. repeat (apply Forall_cons; [reflexivity|]). constructor. Qed.

Lemma escape_path k v k' v' : escape_gk k v = Ok (k', v') -> legacy_name k = true -> path_ok k' /\ path_ok v'.
Proof.
  intros H Hk. unfold escape_gk, escape_gk_with in H. pose proof (legacy_path _ Hk) as Hp.
  destruct (is_nil v).
  { apply Ok_inj in H. injection H as <- <-. split; [apply path_ok_app; [assumption|apply b64suf_path]|].
    repeat (apply Forall_cons; [reflexivity|]). constructor. }
  destruct (mem_char SLASH v).
  { apply bind_ok in H as (bs & Hbs & H). apply Ok_inj in H. injection H as <- <-.
    split; [apply path_ok_app; [assumption|apply b64suf_path]|apply b64_path]. }
  apply bind_ok in H as (bs & Hbs & H). apply Ok_inj in H. injection H as <- <-.
  split; [assumption|apply quote_path; eapply utf8_bytes; eauto].
Qed.

Lemma segments_path l el : escape_all escape_gk l = Ok el -> legacy_keys l -> path_ok (segments el).
Proof.
  revert el. induction l as [|[k v] l IH]; intros el H Hk; cbn [escape_all] in H.
  - apply Ok_inj in H. subst el. constructor.
  - apply bind_ok in H as ([k' v'] & Hkv & H). apply bind_ok in H as (rr & Hrr & H). apply Ok_inj in H. subst el.
    inversion Hk as [|? ? Hk1 Hk2]; subst. cbn [fst] in Hk1.
    destruct (escape_path _ _ _ _ Hkv Hk1) as [P1 P2]. cbn [segments].
    apply Forall_cons; [reflexivity|]. apply path_ok_app; [assumption|].
    apply Forall_cons; [reflexivity|]. apply path_ok_app; [assumption|]. eapply IH; eauto.
Qed.

Lemma url_path_chars base job gk u :
  url_of base job gk = Ok u -> legacy_keys gk -> exists path, u = base ++ path /\ path_ok path.
Proof.
  intros H Hk. unfold url_of, url_with in H.
  apply bind_ok in H as ([jk jv] & Hjob & H). apply bind_ok in H as (el & Hel & H). apply Ok_inj in H. subst u.
  cbn [fst snd]. eexists. split; [reflexivity|].
  destruct (escape_path _ _ _ _ Hjob legacy_job) as [P1 P2].
  apply path_ok_app; [repeat (apply Forall_cons; [reflexivity|]); constructor|].
  apply path_ok_app; [assumption|]. apply Forall_cons; [reflexivity|]. apply path_ok_app; [assumption|].
  eapply segments_path; eauto. apply Forall_sort_items. assumption.
Qed.
